(* C01 executable models of Miller's record readers and writers (definitions only).
   Each definition names the Go code it transliterates.  Records are [list (bytes*bytes)]. *)
From Miller Require Import Base.Bytes Base.Record.
From Coq Require Import DecimalString.
Open Scope char_scope.

Definition LF : ascii := ascii_of_N 10.
Definition CR : ascii := ascii_of_N 13.
Definition TAB : ascii := ascii_of_N 9.
Definition BSL : ascii := ascii_of_N 92.
Definition DQ : ascii := ascii_of_N 34.
Definition SP : ascii := ascii_of_N 32.

Definition eqc := Ascii.eqb.
Definition memc (c : ascii) (s : bytes) : bool := existsb (eqc c) s.
(* no byte of [f] occurs in [sep] *)
Definition freeof (sep f : bytes) : bool := forallb (fun c => negb (memc c sep)) f.
Definition nochar (c : ascii) (f : bytes) : bool := forallb (fun x => negb (eqc x c)) f.
Definition is_nil {A} (l : list A) : bool := match l with [] => true | _ => false end.

(* strconv.Itoa for non-negative ints *)
Definition itoa (n : nat) : bytes := list_ascii_of_string (NilEmpty.string_of_uint (Nat.to_uint n)).

(* strings.Join *)
Fixpoint join (sep : bytes) (l : list bytes) : bytes :=
  match l with
  | [] => []
  | x :: t => match t with [] => x | _ => x ++ sep ++ join sep t end
  end.

(* strings.Split for a non-empty separator: leftmost non-overlapping occurrences.
   [skip] counts separator bytes still to be dropped after a match. *)
Fixpoint split_go (sep : bytes) (skip : nat) (s acc : bytes) : list bytes :=
  match s with
  | [] => [rev acc]
  | c :: t =>
    match skip with
    | S k => split_go sep k t acc
    | O => if prefixb sep s then rev acc :: split_go sep (List.length sep - 1) t []
           else split_go sep 0 t (c :: acc)
    end
  end.
Definition split_on (sep s : bytes) : list bytes := split_go sep 0 s [].
(* lib.SplitString: empty input gives no fields *)
Definition split_string (sep s : bytes) : list bytes := match s with [] => [] | _ => split_on sep s end.
(* lib.StripEmpties *)
Definition strip_empties (l : list bytes) : list bytes := filter (fun f => negb (is_nil f)) l.
(* tIFSSplitter.Split *)
Definition field_split (ifs : bytes) (repifs : bool) (s : bytes) : list bytes :=
  let fs := split_string ifs s in if repifs then strip_empties fs else fs.

(* strings.SplitN(s, sep, 2): None = separator absent *)
Fixpoint split2_go (sep s acc : bytes) : option (bytes * bytes) :=
  match s with
  | [] => None
  | c :: t => if prefixb sep s then Some (rev acc, skipn (List.length sep) s) else split2_go sep t (c :: acc)
  end.
Definition split2 (sep s : bytes) : option (bytes * bytes) := split2_go sep s [].

(* pkg/input/line_reader.go DefaultLineReader.Read iterated by channelizedLineReader:
   lines end at LF; one CR before the LF is dropped; a final unterminated non-empty line is a line. *)
Definition chomp_cr_rev (acc : bytes) : bytes :=
  rev (match acc with c :: a => if eqc c CR then a else acc | [] => [] end).
Fixpoint lines_go (s acc : bytes) : list bytes :=
  match s with
  | [] => match acc with [] => [] | _ => [rev acc] end
  | c :: t => if eqc c LF then chomp_cr_rev acc :: lines_go t [] else lines_go t (c :: acc)
  end.
Definition lines_of (s : bytes) : list bytes := lines_go s [].

Definition ors_of (crlf : bool) : bytes := if crlf then [CR; LF] else [LF].
Definition unlines (ors : bytes) (ls : list bytes) : bytes := List.concat (map (fun l => l ++ ors) ls).

(* pkg/mlrval/record_arena.go PutDeferred: new key appends; existing key is overwritten (dedupe off)
   or the value is stored under key_2, key_3, ... (dedupe on) *)
Fixpoint dedupe_key (fuel i : nat) (k : bytes) (r : record) : bytes :=
  let nk := k ++ "_" :: itoa i in
  match fuel with
  | O => nk
  | S f => if has nk r then dedupe_key f (S i) k r else nk
  end.
Definition put_deferred (dedupe : bool) (k v : bytes) (r : record) : record :=
  if has k r then
    if dedupe then r ++ [(dedupe_key (List.length r) 2 k r, v)] else put k v r
  else r ++ [(k, v)].

(* ------------------------------------------------------------------ header + data rows (CSV, TSV readers) *)
(* data fields beyond the header get 1-up positional keys (ragged mode) *)
Fixpoint attach_extra (dedupe : bool) (i : nat) (fs : list bytes) (r : record) : record :=
  match fs with
  | [] => r
  | f :: fs' => attach_extra dedupe (S i) fs' (put_deferred dedupe (itoa (S i)) f r)
  end.
Fixpoint attach_fill (dedupe : bool) (hs : list bytes) (r : record) : record :=
  match hs with
  | [] => r
  | h :: hs' => attach_fill dedupe hs' (put_deferred dedupe h [] r)
  end.
(* [fill]: TSV fills missing trailing values with "" in ragged mode, CSV leaves them out *)
Fixpoint attach (dedupe fill : bool) (i : nat) (hs fs : list bytes) (r : record) : record :=
  match hs with
  | [] => attach_extra dedupe i fs r
  | h :: hs' =>
    match fs with
    | [] => if fill then attach_fill dedupe hs r else r
    | f :: fs' => attach dedupe fill (S i) hs' fs' (put_deferred dedupe h f r)
    end
  end.
Definition positional_keys (n : nat) : list bytes := map itoa (seq 1 n).

Fixpoint map_opt {A B} (f : A -> option B) (l : list A) : option (list B) :=
  match l with
  | [] => Some []
  | x :: t => match f x with None => None | Some y => match map_opt f t with None => None | Some ys => Some (y :: ys) end end
  end.

Definition row_to_record (dedupe ragged fill : bool) (hs fs : list bytes) : option record :=
  if Nat.eqb (List.length hs) (List.length fs) || ragged then Some (attach dedupe fill 0 hs fs []) else None.

(* ------------------------------------------------------------------ header + data rows (CSV, TSV writers) *)
(* record_writer_csv.go / record_writer_tsv.go Write: keys of the first record are the schema;
   a later record whose i-th key differs from the i-th first key (i < NF of first) is a schema-change error;
   shorter records are padded with "" ("unset fill"), longer records are written at their own length *)
Fixpoint check_keys (first : list bytes) (r : record) : bool :=
  match first, r with
  | k :: first', (k', _) :: r' => beqb k k' && check_keys first' r'
  | _, _ => true
  end.
Fixpoint pad_values (first : list bytes) (vals : list bytes) : list bytes :=
  match first with
  | [] => vals
  | _ :: first' => match vals with [] => [] :: pad_values first' [] | v :: vs => v :: pad_values first' vs end
  end.
(* None: schema-change error.  Some (header, rows); no records: Some ([], []) and nothing is written *)
Definition rows_of (recs : list record) : option (list bytes * list (list bytes)) :=
  match recs with
  | [] => Some ([], [])
  | r0 :: _ =>
    let first := keys r0 in
    if forallb (check_keys first) recs then Some (first, map (fun r => pad_values first (values r)) recs) else None
  end.

(* ------------------------------------------------------------------ TSV *)
(* pkg/lib/tsv_codec.go TSVEncodeField: iterates BYTES (since /repo 6c1ca4524; it ranged over runes before and
   turned bytes that are not valid UTF-8 into U+FFFD) *)
Definition tsv_esc (c : ascii) : option bytes :=
  if eqc c BSL then Some [BSL; BSL] else if eqc c LF then Some [BSL; "n"]
  else if eqc c CR then Some [BSL; "r"] else if eqc c TAB then Some [BSL; "t"] else None.
Definition tsv_encode (s : bytes) : bytes :=
  flat_map (fun c => match tsv_esc c with Some e => e | None => [c] end) s.

(* TSVDecodeField: iterates BYTES; a backslash that is last, or followed by anything else, is literal *)
Fixpoint tsv_decode (s : bytes) : bytes :=
  match s with
  | [] => []
  | c :: t =>
    if eqc c BSL then
      match t with
      | [] => [c]
      | d :: t' =>
        if eqc d BSL then BSL :: tsv_decode t'
        else if eqc d "n" then LF :: tsv_decode t'
        else if eqc d "r" then CR :: tsv_decode t'
        else if eqc d "t" then TAB :: tsv_decode t'
        else c :: tsv_decode t
      end
    else c :: tsv_decode t
  end.

(* record_writer_tsv.go: header keys and values are TSV-encoded *)
Definition tsv_line (fs : list bytes) : bytes := join [TAB] (map tsv_encode fs).
Definition write_tsv (headerless crlf : bool) (recs : list record) : option bytes :=
  match rows_of recs with
  | None => None
  | Some (hdr, rows) =>
    let ls := (if headerless || is_nil recs then [] else [tsv_line hdr]) ++ map tsv_line rows in
    Some (unlines (ors_of crlf) ls)
  end.

(* record_reader_tsv.go getRecordBatchExplicitTSVHeader: header fields and data fields are decoded
   (header decoding since /repo d7dac80b0) *)
Definition read_tsv (dedupe ragged : bool) (text : bytes) : option (list record) :=
  match lines_of text with
  | [] => Some []
  | h :: data =>
    let hs := map tsv_decode (split_string [TAB] h) in
    map_opt (fun l => row_to_record dedupe ragged true hs (map tsv_decode (split_string [TAB] l))) data
  end.

(* getRecordBatchImplicitTSVHeader: trailing CR/LF trimmed, blank line resets the schema, keys 1..n *)
Fixpoint trim_right_crlf_rev (r : bytes) : bytes :=
  match r with c :: t => if eqc c CR || eqc c LF then trim_right_crlf_rev t else r | [] => [] end.
Definition trim_right_crlf (s : bytes) : bytes := rev (trim_right_crlf_rev (rev s)).
Fixpoint read_tsv_implicit_go (dedupe ragged : bool) (hdr : option (list bytes)) (ls : list bytes) : option (list record) :=
  match ls with
  | [] => Some []
  | l0 :: t =>
    let l := trim_right_crlf l0 in
    if is_nil l then read_tsv_implicit_go dedupe ragged None t
    else
      let fs := split_string [TAB] l in
      let hs := match hdr with None => positional_keys (List.length fs) | Some h => h end in
      match row_to_record dedupe ragged true hs (map tsv_decode fs) with
      | None => None
      | Some r => match read_tsv_implicit_go dedupe ragged (Some hs) t with None => None | Some rs => Some (r :: rs) end
      end
  end.
Definition read_tsv_implicit (dedupe ragged : bool) (text : bytes) : option (list record) :=
  read_tsv_implicit_go dedupe ragged None (lines_of text).

(* ------------------------------------------------------------------ DKVP *)
(* record_writer_dkvp.go *)
Definition dkvp_line (ofs ops : bytes) (r : record) : bytes := join ofs (map (fun kv => fst kv ++ ops ++ snd kv) r).
Definition write_dkvp (ofs ops : bytes) (crlf : bool) (recs : list record) : bytes :=
  unlines (ors_of crlf) (map (dkvp_line ofs ops) recs).

(* record_reader_dkvp_nidx.go recordFromDKVPLine *)
Fixpoint dkvp_pairs (ips : bytes) (dedupe : bool) (i : nat) (pairs : list bytes) (r : record) : record :=
  match pairs with
  | [] => r
  | p :: t =>
    match split2 ips p with
    | Some (k, v) => dkvp_pairs ips dedupe (S i) t (put_deferred dedupe k v r)
    | None => if is_nil p then dkvp_pairs ips dedupe (S i) t r
              else dkvp_pairs ips dedupe (S i) t (put_deferred dedupe (itoa (S i)) p r)
    end
  end.
Definition read_dkvp (ifs ips : bytes) (repifs dedupe : bool) (text : bytes) : list record :=
  map (fun l => dkvp_pairs ips dedupe 0 (field_split ifs repifs l) []) (lines_of text).

(* ------------------------------------------------------------------ NIDX *)
(* record_writer_nidx.go: values only *)
Definition write_nidx (ofs : bytes) (crlf : bool) (recs : list record) : bytes :=
  unlines (ors_of crlf) (map (fun r => join ofs (values r)) recs).
(* recordFromNIDXLine: keys 1..n, PutDeferred without dedupe *)
Fixpoint nidx_fields (i : nat) (fs : list bytes) (r : record) : record :=
  match fs with
  | [] => r
  | f :: t => nidx_fields (S i) t (put_deferred false (itoa (S i)) f r)
  end.
Definition read_nidx (ifs : bytes) (repifs : bool) (text : bytes) : list record :=
  map (fun l => nidx_fields 0 (field_split ifs repifs l) []) (lines_of text).

(* default NIDX reader (no --ifs given): IFSRegex "([ \t])+" through regexp.Split: maximal runs of space/tab
   separate fields; a leading or trailing run yields an empty first/last field *)
Definition is_ws (c : ascii) : bool := eqc c SP || eqc c TAB.
Fixpoint split_ws_go (s acc : bytes) (inws : bool) : list bytes :=
  match s with
  | [] => [rev acc]
  | c :: t =>
    if is_ws c then (if inws then split_ws_go t acc true else rev acc :: split_ws_go t [] true)
    else split_ws_go t (c :: acc) false
  end.
Definition split_ws (s : bytes) : list bytes := match s with [] => [] | _ => split_ws_go s [] false end.
Definition read_nidx_ws (text : bytes) : list record :=
  map (fun l => nidx_fields 0 (split_ws l) []) (lines_of text).

(* ------------------------------------------------------------------ CSV *)
(* record_writer_csv_colorizer.go fieldNeedsQuotes (comma below 0x80) *)
Definition csv_special (comma c : ascii) : bool := eqc c LF || eqc c CR || eqc c DQ || eqc c comma.
Definition needs_quotes (comma : ascii) (f : bytes) : bool :=
  match f with
  | [] => false
  | _ => beqb f [BSL; "."] || existsb (csv_special comma) f
  end.
(* the quoting loop of WriteCSVRecordMaybeColorized: quote doubled; under UseCRLF a CR is DROPPED and LF becomes CR LF *)
Fixpoint quote_body (crlf : bool) (f : bytes) : bytes :=
  match f with
  | [] => []
  | c :: t =>
    (if eqc c DQ then [DQ; DQ]
     else if eqc c CR then (if crlf then [] else [CR])
     else if eqc c LF then (if crlf then [CR; LF] else [LF])
     else [c]) ++ quote_body crlf t
  end.
Definition csv_cell (crlf quoted : bool) (f : bytes) : bytes :=
  if quoted then DQ :: quote_body crlf f ++ [DQ] else f.
(* a row whose cells carry their own quoting decision: the general RFC-4180 writer.
   [cb]: the Go writer's UseCRLF treatment of quoted bodies; [ce]: CR LF line ends.  Miller uses cb = ce. *)
Definition csv_row_q (cb ce : bool) (comma : ascii) (cells : list (bool * bytes)) : bytes :=
  join [comma] (map (fun qc => csv_cell cb (fst qc) (snd qc)) cells) ++ ors_of ce.
Definition csv_text_q (cb ce : bool) (comma : ascii) (rows : list (list (bool * bytes))) : bytes :=
  List.concat (map (csv_row_q cb ce comma) rows).
(* Miller's decision: --quote-all, or fieldNeedsQuotes *)
Definition miller_q (quote_all : bool) (comma : ascii) (f : bytes) : bool * bytes := (quote_all || needs_quotes comma f, f).
Definition write_csv (headerless quote_all crlf : bool) (comma : ascii) (recs : list record) : option bytes :=
  match rows_of recs with
  | None => None
  | Some (hdr, rows) =>
    let ls := (if headerless || is_nil recs then [] else [hdr]) ++ rows in
    Some (csv_text_q crlf crlf comma (map (map (miller_q quote_all comma)) ls))
  end.

(* pkg/go-csv/csv_reader.go readLine + readRecord as one character-level machine.
   readLine: every CR LF becomes LF; a CR that is the very last byte of an unterminated last line is dropped. *)
Inductive cstate := SOR | SOF | UQ | QT | QQ.
Record pstate := mkP { p_st : cstate; p_acc : bytes; p_fields : list bytes; p_rows : list (list bytes) }.
Definition p_end_field (p : pstate) : pstate := mkP SOF [] (rev (p_acc p) :: p_fields p) (p_rows p).
Definition p_end_row (p : pstate) : pstate := mkP SOR [] [] (rev (rev (p_acc p) :: p_fields p) :: p_rows p).
Definition p_push (c : ascii) (st : cstate) (p : pstate) : pstate := mkP st (c :: p_acc p) (p_fields p) (p_rows p).

Definition csv_step_unquoted (lazy : bool) (comma : ascii) (p : pstate) (c : ascii) : option pstate :=
  if eqc c comma then Some (p_end_field p)
  else if eqc c LF then Some (p_end_row p)
  else if eqc c DQ then (if lazy then Some (p_push c UQ p) else None)   (* ErrBareQuote *)
  else Some (p_push c UQ p).
Definition csv_step (lazy : bool) (comma : ascii) (p : pstate) (c : ascii) : option pstate :=
  match p_st p with
  | SOR | SOF => if eqc c DQ then Some (mkP QT [] (p_fields p) (p_rows p)) else csv_step_unquoted lazy comma p c
  | UQ => csv_step_unquoted lazy comma p c
  | QT => if eqc c DQ then Some (mkP QQ (p_acc p) (p_fields p) (p_rows p)) else Some (p_push c QT p)
  | QQ =>
    if eqc c DQ then Some (p_push DQ QT p)
    else if eqc c comma then Some (p_end_field p)
    else if eqc c LF then Some (p_end_row p)
    else if lazy then Some (p_push c QT (p_push DQ QT p)) else None   (* ErrQuote *)
  end.
Definition csv_finish (lazy : bool) (p : pstate) : option (list (list bytes)) :=
  match p_st p with
  | SOR => Some (rev (p_rows p))
  | SOF | UQ | QQ => Some (rev (p_rows (p_end_row p)))
  | QT => if lazy then Some (rev (p_rows (p_end_row p))) else None
  end.
Fixpoint csv_run (lazy : bool) (comma : ascii) (p : pstate) (s : bytes) : option (list (list bytes)) :=
  match s with
  | [] => csv_finish lazy p
  | c :: t =>
    if eqc c CR then
      match t with
      | [] => csv_finish lazy p
      | d :: t' =>
        if eqc d LF then match csv_step lazy comma p LF with Some p' => csv_run lazy comma p' t' | None => None end
        else match csv_step lazy comma p c with Some p' => csv_run lazy comma p' t | None => None end
      end
    else match csv_step lazy comma p c with Some p' => csv_run lazy comma p' t | None => None end
  end.
Definition csv_rows (lazy : bool) (comma : ascii) (s : bytes) : option (list (list bytes)) :=
  csv_run lazy comma (mkP SOR [] [] []) s.

(* record_reader_csv.go BOMStrippingReader (first read of at least 3 bytes) *)
Definition BOM : bytes := [ascii_of_N 239; ascii_of_N 187; ascii_of_N 191].
Definition strip_bom (s : bytes) : bytes := if prefixb BOM s then skipn 3 s else s.

(* record_reader_csv.go getRecordBatch: explicit or implicit header; ragged; data/header length mismatch error *)
Definition read_csv (implicit lazy dedupe ragged : bool) (comma : ascii) (text : bytes) : option (list record) :=
  match csv_rows lazy comma (strip_bom text) with
  | None => None
  | Some rows =>
    if implicit then
      match rows with
      | [] => Some []
      | r0 :: _ => map_opt (row_to_record dedupe ragged false (positional_keys (List.length r0))) rows
      end
    else
      match rows with
      | [] => Some []
      | hs :: data => map_opt (row_to_record dedupe ragged false hs) data
      end
  end.
