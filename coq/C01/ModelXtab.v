(* C01 XTAB: pkg/output/record_writer_xtab.go and pkg/input/record_reader_xtab.go (OFS/IFS = LF).
   lib.DisplayWidth (uniseg string width) is a PARAMETER [w] of the writer model: the theorems hold for every
   width function, the correspondence check feeds the implementation's own widths. *)
From Miller Require Import Base.Bytes Base.Record C01.Model.
Open Scope char_scope.

Fixpoint repeat_bytes (n : nat) (s : bytes) : bytes := match n with O => [] | S k => s ++ repeat_bytes k s end.
Definition max_key_width (w : bytes -> nat) (r : record) : nat := fold_left (fun m kv => Nat.max m (w (fst kv))) r 1.

(* writeWithLeftAlignedValues / writeWithRightAlignedValues: key, OPS (repeated up to the widest key when OPS is one
   character), [right-aligned: spaces up to the widest value], value, OFS *)
Definition xtab_line (w : bytes -> nat) (ops : bytes) (right : bool) (maxk maxv : nat) (kv : field) : bytes :=
  fst kv ++ ops ++ (if Nat.eqb (List.length ops) 1 then repeat_bytes (maxk - w (fst kv)) ops else [])
  ++ (if right then repeat_bytes (maxv - w (snd kv)) [SP] else []) ++ snd kv.
Definition xtab_rec_lines (w : bytes -> nat) (ops : bytes) (right : bool) (r : record) : list bytes :=
  let maxk := max_key_width w r in
  let maxv := fold_left (fun m kv => Nat.max m (w (snd kv))) r 0 in
  map (xtab_line w ops right maxk maxv) r.
(* records after the first are preceded by one more OFS, i.e. an empty line *)
Definition xtab_all_lines (w : bytes -> nat) (ops : bytes) (right : bool) (recs : list record) : list bytes :=
  match recs with
  | [] => []
  | r :: rest => xtab_rec_lines w ops right r ++ List.concat (map (fun r' => [] :: xtab_rec_lines w ops right r') rest)
  end.
Definition write_xtab (w : bytes -> nat) (ops : bytes) (right : bool) (recs : list record) : bytes :=
  unlines [LF] (xtab_all_lines w ops right recs).

(* tXTABIPSSplitter.Split *)
Fixpoint strip_copies (fuel : nat) (ips s : bytes) : bytes :=
  match fuel with
  | O => s
  | S f => if prefixb ips s then strip_copies f ips (skipn (List.length ips) s) else s
  end.
(* after the first IPS the scan advances ONE byte at a time while the rest still starts with IPS *)
Fixpoint drop_while_ips (ips s : bytes) : bytes :=
  match s with
  | [] => []
  | _ :: t => if prefixb ips s then drop_while_ips ips t else s
  end.
Fixpoint find_ips (ips s acc : bytes) : option (bytes * bytes) :=
  match s with
  | [] => None
  | c :: t => if prefixb ips s then Some (rev acc, s) else find_ips ips t (c :: acc)
  end.
Definition xtab_split (ips s : bytes) : option (bytes * bytes) :=
  match s with
  | [] => None      (* "internal coding error in XTAB reader" *)
  | c0 :: t =>
    if prefixb ips s then Some ([], strip_copies (List.length s) ips s)
    else match find_ips ips t [c0] with
         | None => Some (s, [])
         | Some (k, rest) => Some (k, drop_while_ips ips (skipn (List.length ips) rest))
         end
  end.

(* channelizedStanzaScanner: blank lines separate stanzas *)
Fixpoint xtab_stanzas (ls : list bytes) (cur : list bytes) : list (list bytes) :=
  match ls with
  | [] => match cur with [] => [] | _ => [rev cur] end
  | l :: t => if is_nil l then match cur with [] => xtab_stanzas t [] | _ => rev cur :: xtab_stanzas t [] end
              else xtab_stanzas t (l :: cur)
  end.
Fixpoint xtab_record (ips : bytes) (dedupe : bool) (ls : list bytes) (r : record) : option record :=
  match ls with
  | [] => Some r
  | l :: t => match xtab_split ips l with
              | None => None
              | Some (k, v) => xtab_record ips dedupe t (put_deferred dedupe k v r)
              end
  end.
Definition read_xtab (ips : bytes) (dedupe : bool) (text : bytes) : option (list record) :=
  map_opt (fun st => xtab_record ips dedupe st []) (xtab_stanzas (lines_of text) []).
