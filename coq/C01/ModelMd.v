(* C01 Markdown: pkg/output/record_writer_markdown.go (streaming and --omd-aligned) and
   pkg/input/record_reader_markdown.go (RecordReaderPprintBarredOrMarkdown with the markdown separator matcher).
   Definitions only. *)
From Miller Require Import Base.Bytes Base.Record C01.Model C01.ModelXtab C01.ModelLite C01.ModelPprint.
Open Scope char_scope.

(* strings.ReplaceAll(value, "|", "\\|") *)
Definition md_escape (v : bytes) : bytes := flat_map (fun c => if eqc c BAR then [BSL; BAR] else [c]) v.
Definition md_row (cells : list bytes) : bytes := BAR :: List.concat (map (fun x => SP :: x ++ [SP; BAR]) cells).
Definition DASHES : bytes := B "---".

(* writeStreaming.  State: lastJoinedHeader ("" = a header has to be written).  Keys are NOT escaped. *)
Fixpoint md_lines (last : bytes) (recs : list record) : list bytes :=
  match recs with
  | [] => []
  | r :: t =>
    let cur := join [","] (keys r) in
    let changed := negb (is_nil last) && negb (beqb cur last) in
    let last1 := if changed then [] else last in
    (if changed then [[]] else [])
    ++ (if is_nil last1 then [md_row (keys r); md_row (map (fun _ => DASHES) r)] else [])
    ++ [md_row (map md_escape (values r))]
    ++ md_lines (if is_nil last1 then cur else last1) t
  end.

(* writeAligned / flushBatch: batches of records with the same joined keys (grouping as in PPRINT) *)
Definition md_width (w : bytes -> nat) (batch : list record) (r0 : record) (k : bytes) : nat :=
  fold_left (fun m r => match get k r with Some v => Nat.max m (w (md_escape v)) | None => m end) batch
            (if has k r0 then Nat.max (w k) 3 else 0).
Definition md_row_aligned (w : bytes -> nat) (cells : list (bytes * nat)) : bytes :=
  BAR :: List.concat (map (fun xw => SP :: fst xw ++ spaces (snd xw - w (fst xw)) ++ [SP; BAR]) cells).
Definition md_batch_lines (w : bytes -> nat) (batch : list record) : list bytes :=
  match batch with
  | [] => []
  | r0 :: _ =>
    let wd := md_width w batch r0 in
    [md_row_aligned w (map (fun k => (k, wd k)) (keys r0));
     BAR :: List.concat (map (fun k => SP :: DASHES ++ spaces (wd k - 3) ++ [SP; BAR]) (keys r0))]
    ++ map (fun r => md_row_aligned w (map (fun kv => (md_escape (snd kv), wd (fst kv))) r)) batch
  end.
Fixpoint md_aligned_lines (w : bytes -> nat) (first : bool) (bs : list (list record)) : list bytes :=
  match bs with
  | [] => []
  | b :: t => (if first then [] else [[]]) ++ md_batch_lines w b ++ md_aligned_lines w false t
  end.

Definition write_markdown (w : bytes -> nat) (aligned crlf : bool) (recs : list record) : bytes :=
  unlines (ors_of crlf) (if aligned then md_aligned_lines w true (pp_all_batches recs) else md_lines [] recs).

(* ---------------------------------------------------------------- reader: pkg/input/record_reader_markdown.go *)
(* tMarkdownSplitter.Split (since /repo 80287c7ad): rows are split at bars; a bar whose PREVIOUS INPUT BYTE is a
   backslash is cell content and takes the place of that backslash in the buffer.  [pb]: the previous input byte
   was a backslash; [acc]: the buffer, reversed (non-empty whenever pb holds). *)
Fixpoint md_split_go (s : bytes) (pb : bool) (acc : bytes) : list bytes :=
  match s with
  | [] => [rev acc]
  | c :: t =>
    if eqc c BAR then (if pb then md_split_go t false (BAR :: tl acc) else rev acc :: md_split_go t false [])
    else md_split_go t (eqc c BSL) (c :: acc)
  end.
Definition md_split (s : bytes) : list bytes := match s with [] => [] | _ => md_split_go s false [] end.

(* separatorMatcher `^\|[-:\| ]+\|$` (the colon since /repo 6be21e050) *)
Definition sep_md (s : bytes) : bool :=
  Nat.leb 3 (List.length s) && head_is BAR s && last_is BAR s
  && forallb (fun c => eqc c "-" || eqc c ":" || eqc c BAR || eqc c SP) s.
(* isSeparatorLine with separatorOnlyAfterHeaderLine (since /repo 75f65c604): only the second line of a block *)
Definition md_is_sep (n : nat) (s : bytes) : bool := Nat.eqb n 2 && sep_md s.

(* getRecordBatchExplicitPprintHeader / getRecordBatchImplicitPprintHeader as the markdown reader runs them:
   [n] = numLinesInBlock (non-empty lines since the start of the text or the last empty line; a line without bars
   counts too) *)
Fixpoint md_read_go (implicit dedupe ragged : bool) (hdr : option (list bytes)) (n : nat) (ls : list bytes)
  : option (list record) :=
  match ls with
  | [] => Some []
  | l :: t =>
    if is_nil l then md_read_go implicit dedupe ragged None 0 t
    else
      let n1 := S n in
      if md_is_sep n1 l then md_read_go implicit dedupe ragged hdr n1 t
      else
        let padded := md_split l in
        if Nat.ltb (List.length padded) 2 then md_read_go implicit dedupe ragged hdr n1 t
        else
          let fields := map trim_space (middle padded) in
          match hdr with
          | None =>
            if implicit then
              let hs := positional_keys (List.length fields) in
              match md_read_go implicit dedupe ragged (Some hs) n1 t with
              | None => None
              | Some rs => Some (attach dedupe true 0 hs fields [] :: rs)
              end
            else md_read_go implicit dedupe ragged (Some fields) n1 t
          | Some hs =>
            if Nat.eqb (List.length hs) (List.length fields) || ragged then
              match md_read_go implicit dedupe ragged (Some hs) n1 t with
              | None => None
              | Some rs => Some (attach dedupe true 0 hs fields [] :: rs)
              end
            else None
          end
  end.
Definition read_markdown (implicit dedupe ragged : bool) (text : bytes) : option (list record) :=
  md_read_go implicit dedupe ragged None 0 (lines_of text).
