(* C01 JSON: Miller's string encoder and record writers (pkg/mlrval/mlrval_json.go, mlrmap_json.go,
   pkg/output/record_writer_json_jsonl.go) for string-valued records, and an RFC-8259 reference reader
   (standing in for Go's encoding/json token decoder) for streams of flat objects with string members. *)
From Miller Require Import Base.Bytes Base.Record C01.Model.
Open Scope char_scope.

(* ---------------------------------------------------------------- millerJSONEncodeString (byte-wise) *)
Definition hexdigit (n : N) : ascii := if (n <? 10)%N then ascii_of_N (48 + n) else ascii_of_N (87 + n).
Definition json_esc (c : ascii) : bytes :=
  if eqc c BSL then [BSL; BSL]
  else if eqc c (ascii_of_N 8) then [BSL; "b"]
  else if eqc c (ascii_of_N 12) then [BSL; "f"]
  else if eqc c LF then [BSL; "n"]
  else if eqc c CR then [BSL; "r"]
  else if eqc c TAB then [BSL; "t"]
  else if eqc c DQ then [BSL; DQ]
  else if (code c <? 32)%N then [BSL; "u"; "0"; "0"; hexdigit (code c / 16); hexdigit (code c mod 16)]
  else [c].
Definition json_string (s : bytes) : bytes := DQ :: flat_map json_esc s ++ [DQ].

(* ---------------------------------------------------------------- record writers, string values *)
Definition json_pair (kv : field) : bytes := json_string (fst kv) ++ B ": " ++ json_string (snd kv).
(* marshalJSONAuxSingleLine *)
Definition json_obj_single (r : record) : bytes := "{" :: join (B ", ") (map json_pair r) ++ ["}"].
(* marshalJSONAuxMultiline at elementNestingDepth 1 *)
Fixpoint json_multi_entries (r : record) : bytes :=
  match r with
  | [] => []
  | kv :: t => B "  " ++ json_pair kv ++ (match t with [] => [] | _ => [","] end) ++ [LF] ++ json_multi_entries t
  end.
Definition json_obj_multi (r : record) : bytes :=
  "{" :: (match r with [] => [] | _ => [LF] end) ++ json_multi_entries r ++ ["}"].
Definition json_obj (multiline : bool) (r : record) : bytes := if multiline then json_obj_multi r else json_obj_single r.
(* RecordWriterJSON: writeWithListWrap (context.JSONHadBrackets false: nothing for an empty stream) / writeWithoutListWrap *)
Definition write_json (multiline wrap : bool) (recs : list record) : bytes :=
  if wrap then
    match recs with
    | [] => []
    | _ => B "[" ++ [LF] ++ join ("," :: [LF]) (map (json_obj multiline) recs) ++ [LF] ++ B "]" ++ [LF]
    end
  else List.concat (map (fun r => json_obj multiline r ++ [LF]) recs).

(* ---------------------------------------------------------------- RFC 8259 reference reader *)
Definition json_ws (c : ascii) : bool := eqc c SP || eqc c TAB || eqc c LF || eqc c CR.
Definition hexval_opt (c : ascii) : option N :=
  let n := code c in
  if (48 <=? n)%N && (n <=? 57)%N then Some (n - 48)%N
  else if (97 <=? n)%N && (n <=? 102)%N then Some (n - 87)%N
  else if (65 <=? n)%N && (n <=? 70)%N then Some (n - 55)%N
  else None.
(* UTF-8 of a BMP scalar value; surrogates are not supported by this reference (None) *)
Definition utf8_of_cp (cp : N) : option bytes :=
  if (cp <? 128)%N then Some [ascii_of_N cp]
  else if (cp <? 2048)%N then Some [ascii_of_N (192 + cp / 64); ascii_of_N (128 + cp mod 64)]
  else if (55296 <=? cp)%N && (cp <=? 57343)%N then None
  else Some [ascii_of_N (224 + cp / 4096); ascii_of_N (128 + (cp / 64) mod 64); ascii_of_N (128 + cp mod 64)].

Inductive jmode := JT0 | JA0 | JA1 | JA2 | JO0 | JO1 | JO2 | JC | JV0 | JS | JSE | JSU (n : nat) (v : N).
Record jst := mkJ { j_mode : jmode; j_inarr : bool; j_iskey : bool; j_acc : bytes; j_key : bytes;
                    j_rec : record; j_recs : list record }.
Definition j_set (m : jmode) (s : jst) : jst := mkJ m (j_inarr s) (j_iskey s) (j_acc s) (j_key s) (j_rec s) (j_recs s).
Definition j_push (cs : bytes) (s : jst) : jst :=
  mkJ JS (j_inarr s) (j_iskey s) (rev cs ++ j_acc s) (j_key s) (j_rec s) (j_recs s).
Definition j_open_obj (inarr : bool) (s : jst) : jst := mkJ JO0 inarr false [] [] [] (j_recs s).
Definition j_close_obj (s : jst) : jst :=
  mkJ (if j_inarr s then JA1 else JT0) (j_inarr s) false [] [] [] (j_rec s :: j_recs s).
Definition j_open_str (iskey : bool) (s : jst) : jst := mkJ JS (j_inarr s) iskey [] (j_key s) (j_rec s) (j_recs s).
(* closing quote: a key is remembered; a value is stored with MapPut (existing key: overwritten in place) *)
Definition j_close_str (s : jst) : jst :=
  if j_iskey s then mkJ JC (j_inarr s) false [] (rev (j_acc s)) (j_rec s) (j_recs s)
  else mkJ JO1 (j_inarr s) false [] [] (put (j_key s) (rev (j_acc s)) (j_rec s)) (j_recs s).

Definition jstep (s : jst) (c : ascii) : option jst :=
  match j_mode s with
  | JT0 => if json_ws c then Some s else if eqc c "{" then Some (j_open_obj false s)
           else if eqc c "[" then Some (j_set JA0 s) else None
  | JA0 => if json_ws c then Some s else if eqc c "{" then Some (j_open_obj true s)
           else if eqc c "]" then Some (j_set JT0 s) else None
  | JA1 => if json_ws c then Some s else if eqc c "," then Some (j_set JA2 s)
           else if eqc c "]" then Some (j_set JT0 s) else None
  | JA2 => if json_ws c then Some s else if eqc c "{" then Some (j_open_obj true s) else None
  | JO0 => if json_ws c then Some s else if eqc c DQ then Some (j_open_str true s)
           else if eqc c "}" then Some (j_close_obj s) else None
  | JO2 => if json_ws c then Some s else if eqc c DQ then Some (j_open_str true s) else None
  | JC => if json_ws c then Some s else if eqc c ":" then Some (j_set JV0 s) else None
  | JV0 => if json_ws c then Some s else if eqc c DQ then Some (j_open_str false s) else None  (* other value kinds: not in this reference *)
  | JO1 => if json_ws c then Some s else if eqc c "," then Some (j_set JO2 s)
           else if eqc c "}" then Some (j_close_obj s) else None
  | JS => if eqc c DQ then Some (j_close_str s) else if eqc c BSL then Some (j_set JSE s)
          else if (code c <? 32)%N then None else Some (j_push [c] s)
  | JSE => if eqc c DQ || eqc c BSL || eqc c "/" then Some (j_push [c] s)
           else if eqc c "b" then Some (j_push [ascii_of_N 8] s)
           else if eqc c "f" then Some (j_push [ascii_of_N 12] s)
           else if eqc c "n" then Some (j_push [LF] s)
           else if eqc c "r" then Some (j_push [CR] s)
           else if eqc c "t" then Some (j_push [TAB] s)
           else if eqc c "u" then Some (j_set (JSU 0 0) s) else None
  | JSU n v =>
    match hexval_opt c with
    | None => None
    | Some d =>
      let v' := (v * 16 + d)%N in
      match n with
      | S (S (S _)) => match utf8_of_cp v' with Some bs => Some (j_push bs s) | None => None end
      | _ => Some (j_set (JSU (S n) v') s)
      end
    end
  end.
Fixpoint jrun (s : jst) (t : bytes) : option (list record) :=
  match t with
  | [] => match j_mode s with JT0 => Some (rev (j_recs s)) | _ => None end
  | c :: t' => match jstep s c with Some s' => jrun s' t' | None => None end
  end.
Definition read_json_ref (t : bytes) : option (list record) := jrun (mkJ JT0 false false [] [] [] []) t.
