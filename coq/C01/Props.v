(* C01 property theorems.  Only statements closed by [exact]; each followed by Print Assumptions.
   All are about the definitions of C01/Model.v that C01/Harness.v evaluates against the implementation. *)
From Miller Require Import Base.Bytes Base.Record C01.Model C01.ProofsUtil C01.ProofsTsv C01.ProofsDkvp C01.ProofsCsv C01.ProofsCsv2 C01.ModelJson C01.ProofsJson C01.ModelXtab C01.ProofsXtab C01.ModelLite C01.ProofsLite C01.ModelPprint C01.ProofsPprint C01.ProofsBarred C01.ModelMd C01.ProofsMd C01.ModelDkvpx C01.ProofsDkvpx C01.ModelIrs C01.ProofsIrs.
Open Scope char_scope.

(* ---- TSV ---- *)
(* the field codec is an exact inverse pair on EVERY byte string (any length, any content, valid UTF-8 or not) *)
Theorem C01_tsv_codec_inverse : forall s, tsv_decode (tsv_encode s) = s.
Proof. exact tsv_codec_inverse. Qed.
Print Assumptions C01_tsv_codec_inverse.

(* writer then reader is the identity on every rectangular record stream with unique keys, keys and values of
   ANY bytes (backslash, TAB, CR, LF, invalid UTF-8 included), LF or CRLF line endings, with or without
   --allow-ragged-csv-input / key de-duplication; unbounded in records, fields, cell length.
   The ONE exclusion (wf_tsv.not_single_empty) is the known finding tsv-single-column-empty-cell:
   a single column whose key, or one of whose values, is empty. *)
Theorem C01_tsv_roundtrip :
  forall crlf dedupe ragged recs, wf_tsv recs = true ->
  obind (write_tsv false crlf recs) (read_tsv dedupe ragged) = Some recs.
Proof. exact tsv_roundtrip. Qed.
Print Assumptions C01_tsv_roundtrip.

(* that exclusion is real: the reader rejects the writer's output for one empty cell in one column *)
Theorem C01_tsv_single_empty_cell_refuted :
  exists recs, rect recs = true /\ obind (write_tsv false false recs) (read_tsv true false) <> Some recs.
Proof. exact tsv_single_empty_cell_refuted. Qed.
Print Assumptions C01_tsv_single_empty_cell_refuted.

(* without a header line: --headerless-tsv-output then --implicit-tsv-header, keys 1..n (same exclusion) *)
Theorem C01_tsv_roundtrip_headerless :
  forall crlf dedupe ragged recs, wf_tsv_pos recs = true ->
  obind (write_tsv true crlf recs) (read_tsv_implicit dedupe ragged) = Some recs.
Proof. exact tsv_roundtrip_headerless. Qed.
Print Assumptions C01_tsv_roundtrip_headerless.

(* ---- DKVP ---- *)
(* any non-empty IFS/IPS (multi-byte allowed) free of CR/LF, IPS sharing no byte with IFS; keys free of the
   bytes of IFS and IPS and of LF, values free of the bytes of IFS and of LF, unique keys, last value of a
   record not ending in CR (unless --ors crlf) *)
Theorem C01_dkvp_roundtrip :
  forall ifs ips crlf dedupe recs, wf_dkvp ifs ips crlf recs = true ->
  read_dkvp ifs ips false dedupe (write_dkvp ifs ips crlf recs) = recs.
Proof. exact dkvp_roundtrip. Qed.
Print Assumptions C01_dkvp_roundtrip.

Theorem C01_dkvp_idempotent :
  forall ifs ips crlf dedupe recs, wf_dkvp ifs ips crlf recs = true ->
  write_dkvp ifs ips crlf (read_dkvp ifs ips false dedupe (write_dkvp ifs ips crlf recs)) = write_dkvp ifs ips crlf recs.
Proof. exact (fun ifs ips crlf dedupe recs H => f_equal (write_dkvp ifs ips crlf) (dkvp_roundtrip ifs ips crlf dedupe recs H)). Qed.
Print Assumptions C01_dkvp_idempotent.

(* ---- NIDX ---- *)
(* keys 1..n, non-empty values free of the IFS bytes and LF; reader with --repifs and an explicit IFS *)
Theorem C01_nidx_roundtrip :
  forall ifs crlf recs, wf_nidx ifs crlf recs = true -> read_nidx ifs true (write_nidx ifs crlf recs) = recs.
Proof. exact nidx_roundtrip. Qed.
Print Assumptions C01_nidx_roundtrip.

(* ---- CSV ---- *)
(* the go-csv state machine (readLine + readRecord, strict or --lazy-quotes) recovers the cells of EVERY text the
   RFC-4180 grammar (ProofsCsv.rfc_file: section 2 ABNF with the configured comma, LF or CRLF record ends,
   any per-cell choice between escaped and non-escaped form) derives, provided no cell contains CR LF *)
Theorem C01_csv_reader_accepts_rfc4180_partial :
  forall lazy comma ce t rows, comma_ok comma = true -> rfc_file comma (ors_of ce) t rows ->
  forallb (forallb no_crlf) rows = true -> csv_rows lazy comma t = Some rows.
Proof. exact csv_reader_accepts_rfc4180. Qed.
Print Assumptions C01_csv_reader_accepts_rfc4180_partial.
(* _partial: the excluded cells are exactly the refutation below *)

Theorem C01_csv_reader_crlf_in_cell_refuted :
  exists t rows, rfc_file "," [LF] t rows /\ csv_rows false "," t <> Some rows.
Proof. exact csv_reader_rfc4180_crlf_refuted. Qed.
Print Assumptions C01_csv_reader_crlf_in_cell_refuted.

(* on that domain an RFC-4180 text has exactly one reading (so "the cells an independent reader recovers" is well defined) *)
Theorem C01_rfc4180_unambiguous :
  forall comma ce t rows1 rows2, comma_ok comma = true ->
  rfc_file comma (ors_of ce) t rows1 -> rfc_file comma (ors_of ce) t rows2 ->
  forallb (forallb no_crlf) rows1 = true -> forallb (forallb no_crlf) rows2 = true -> rows1 = rows2.
Proof. exact rfc4180_unambiguous. Qed.
Print Assumptions C01_rfc4180_unambiguous.

(* Miller's writer (fieldNeedsQuotes / --quote-all / quoting loop) speaks RFC 4180: its output is derived by the grammar
   as a rendering of exactly the cells written -- all contents with LF record ends; with --ors crlf only cells
   free of CR and LF (the Go writer then drops CR and turns LF into CR LF inside quoted cells) *)
Theorem C01_csv_writer_rfc4180_partial :
  forall crlf qa comma rows,
  forallb (fun fs => negb (is_nil fs) && forallb (content_ok crlf) fs) rows = true ->
  rfc_file comma (ors_of crlf) (csv_text_q crlf crlf comma (map (map (miller_q qa comma)) rows)) rows.
Proof. exact miller_text_rfc. Qed.
Print Assumptions C01_csv_writer_rfc4180_partial.

(* writer then reader is the identity: rectangular streams with unique keys and at least one field, comma below 0x80
   and not quote/CR/LF, first key not starting with byte 0xEF (BOM), no cell containing CR LF (LF record ends) resp.
   any CR (--ors crlf); any --quote-all / --lazy-quotes / ragged / dedupe setting *)
Theorem C01_csv_roundtrip_partial :
  forall qa crlf comma lazy dedupe ragged recs, wf_csv crlf comma recs = true ->
  obind (write_csv false qa crlf comma recs) (read_csv false lazy dedupe ragged comma) = Some recs.
Proof. exact csv_roundtrip. Qed.
Print Assumptions C01_csv_roundtrip_partial.

(* without a header line: --headerless-csv-output then --implicit-csv-header, keys 1..n *)
Theorem C01_csv_roundtrip_headerless_partial :
  forall qa crlf comma lazy dedupe ragged recs, wf_csv_pos crlf comma recs = true ->
  obind (write_csv true qa crlf comma recs) (read_csv true lazy dedupe ragged comma) = Some recs.
Proof. exact csv_roundtrip_headerless. Qed.
Print Assumptions C01_csv_roundtrip_headerless_partial.

Theorem C01_csv_roundtrip_crlf_in_cell_refuted :
  exists recs, rect recs = true /\
    obind (write_csv false false false "," recs) (read_csv false false true false ",") <> Some recs.
Proof. exact csv_roundtrip_crlf_in_cell_refuted. Qed.
Print Assumptions C01_csv_roundtrip_crlf_in_cell_refuted.

Theorem C01_csv_ors_crlf_drops_cr_refuted :
  exists recs, rect recs = true /\
    obind (write_csv false false true "," recs) (read_csv false false true false ",") <> Some recs.
Proof. exact csv_ors_crlf_drops_cr_refuted. Qed.
Print Assumptions C01_csv_ors_crlf_drops_cr_refuted.

(* non-vacuity of the CSV statements *)
Example C01_nonvacuous_csv :
  wf_csv false "," [[(B "a", B "x,""y"""); (B "b c", bs [10;13;13;34]%N); (B "", B ""); (B "d", B " lead"); (B "e", B "\."); (B "f", B "1");
                     (B "g", B "2"); (B "h", B "3"); (B "i", B "4"); (B "j", B "5"); (B "k", B "6"); (B "l", bs [195;169;255]%N)]] = true
  /\ wf_csv true ";" [[(B "a", bs [10;34;59]%N)]; [(B "a", B "")]] = true
  /\ wf_csv_pos false "," [[(B "1", B "x,y"); (B "2", B "")]; [(B "1", B ""); (B "2", bs [13;34]%N)]] = true
  /\ rfc_file "," [LF] (B """a"",b" ++ [LF]) [[B "a"; B "b"]].
Proof.
  repeat split; try (vm_compute; reflexivity).
  apply (RFile_cons "," [LF] (B """a"",b") [B "a"; B "b"] [] []); [|constructor].
  apply (RR_cons "," (B """a""") (B "a") (B "b") [B "b"]); [apply (RF_escaped "," (B "a"))|].
  constructor. now constructor.
Qed.

(* default NIDX reader (no --ifs: fields separated by runs of spaces/tabs), writer OFS = space *)
Theorem C01_nidx_default_roundtrip :
  forall crlf recs, forallb (wf_nidx_ws_rec crlf) recs = true -> read_nidx_ws (write_nidx [SP] crlf recs) = recs.
Proof. exact nidx_ws_roundtrip. Qed.
Print Assumptions C01_nidx_default_roundtrip.

(* idempotence of `mlr --F cat` on its own output, as corollaries *)
Theorem C01_tsv_idempotent :
  forall crlf dedupe ragged recs, wf_tsv recs = true ->
  obind (obind (write_tsv false crlf recs) (read_tsv dedupe ragged)) (write_tsv false crlf) = write_tsv false crlf recs.
Proof. exact (fun crlf dedupe ragged recs H => f_equal (fun x => obind x (write_tsv false crlf)) (tsv_roundtrip crlf dedupe ragged recs H)). Qed.
Print Assumptions C01_tsv_idempotent.

Theorem C01_csv_idempotent_partial :
  forall qa crlf comma lazy dedupe ragged recs, wf_csv crlf comma recs = true ->
  obind (obind (write_csv false qa crlf comma recs) (read_csv false lazy dedupe ragged comma)) (write_csv false qa crlf comma)
  = write_csv false qa crlf comma recs.
Proof. exact (fun qa crlf comma lazy dedupe ragged recs H => f_equal (fun x => obind x (write_csv false qa crlf comma)) (csv_roundtrip qa crlf comma lazy dedupe ragged recs H)). Qed.
Print Assumptions C01_csv_idempotent_partial.

(* ---- JSON ---- *)
(* millerJSONEncodeString against an RFC-8259 string decoder written in Gallina (ModelJson.jstep: the two-character
   escapes, \/ , \uXXXX with either hex case and UTF-8 re-encoding, unescaped control characters rejected):
   the decoder recovers EVERY byte string from Miller's encoding *)
Theorem C01_json_string_rfc8259 : forall s, ref_decode_string (json_string s) = Some s.
Proof. exact json_string_decodes. Qed.
Print Assumptions C01_json_string_rfc8259.

(* the RFC-8259 reference reader recovers every string-valued record stream (unique member names per record) from the
   JSON writer's output: --ojson multi-line and --no-jvstack, with and without the outer list, and JSON Lines.
   _partial: non-string values (number re-rendering, nested maps) are not modelled, and the reference stands in for
   Go's encoding/json, to which it is tied by the correspondence check on valid-UTF-8 text only *)
Theorem C01_json_roundtrip_strings_partial :
  forall ml wrap recs, forallb (fun r => nodupb (keys r)) recs = true ->
  read_json_ref (write_json ml wrap recs) = Some recs.
Proof. exact json_roundtrip. Qed.
Print Assumptions C01_json_roundtrip_strings_partial.

(* ---- XTAB ---- *)
(* for EVERY display-width function w (lib.DisplayWidth is a parameter of the writer model), one-byte IPS = OPS = c:
   non-empty records with unique keys, keys free of c and LF, values free of LF, not starting with c, not ending in CR *)
Theorem C01_xtab_roundtrip :
  forall w c dedupe recs, wf_xtab c recs = true -> read_xtab [c] dedupe (write_xtab w [c] false recs) = Some recs.
Proof. exact xtab_roundtrip. Qed.
Print Assumptions C01_xtab_roundtrip.

(* --xvright (values right-aligned with spaces) with the default IPS/OPS, the space: the padding is more copies of the IPS *)
Theorem C01_xtab_xvright_roundtrip :
  forall w dedupe recs, wf_xtab SP recs = true -> read_xtab [SP] dedupe (write_xtab w [SP] true recs) = Some recs.
Proof. exact xtab_xvright_roundtrip. Qed.
Print Assumptions C01_xtab_xvright_roundtrip.

(* ---- csvlite ---- *)
(* heterogeneous streams included: a change of keys writes a blank line and a new header, which the reader takes as a
   schema change.  One-byte OFS = IFS = c (not CR, LF, 0xEF); records non-empty with unique keys; cells free of c, CR, LF
   (csvlite has no quoting; CR inside a cell is excluded for simplicity, only a trailing one is not representable);
   keys free of "," ; not a single empty field; first key not starting with byte 0xEF *)
Theorem C01_csvlite_roundtrip :
  forall c crlf dedupe ragged recs, wf_lite c recs = true ->
  read_csvlite [c] dedupe ragged (write_csvlite [c] false crlf recs) = Some recs.
Proof. exact csvlite_roundtrip. Qed.
Print Assumptions C01_csvlite_roundtrip.

(* non-vacuity: concrete non-trivial streams inside each domain *)
Example C01_nonvacuous :
  wf_tsv [[(B "a\b", B "x	y\z"); (bs [98;9;13;10;255]%N, bs [195;169;10;13;255;192]%N); (B "", B "")]; [(B "a\b", B ""); (bs [98;9;13;10;255]%N, B "-"); (B "", B """q"",")]] = true
  /\ wf_tsv_pos [[(B "1", B ""); (B "2", bs [9;255]%N)]; [(B "1", B "\"); (B "2", B "")]] = true
  /\ wf_dkvp (B ";;") (B ":=") false [[(B "k 1", B "v=1,2"); (B "", bs [13;65]%N)]; []; [(B "x", B "")]] = true
  /\ wf_nidx (B " ") false [[(B "1", B "a,b"); (B "2", B "=")]; []] = true
  /\ wf_lite ";" [[(B "a", B "1,2"); (B "b c", B "")]; [(B "a", B ""); (B "b c", B "-")]; [(B "z", B "x"); (B "a", B "y"); (B "", B "")]; [(B "a", B "3"); (B "b c", B "4")]] = true
  /\ wf_xtab " " [[(B "", B "x  y"); (B "long-key", B ""); (B "k", bs [195;169;13;65]%N)]; [(B "z", B "1")]] = true
  /\ forallb (fun r => nodupb (keys r)) [[(B "a""b", bs [1;31;10;92;255]%N); (B "", B "")]; []] = true
  /\ forallb (wf_nidx_ws_rec false) [[(B "1", B "a,b"); (B "2", B "="); (B "3", bs [195;169]%N)]; []] = true
.
Proof. vm_compute. repeat split; reflexivity. Qed.

(* ---- PPRINT ---- *)
(* non-barred output, left-aligned or --right, LF or CRLF, read back with --ipprint (any dedupe / ragged setting), for EVERY
   display-width function w (lib.DisplayWidth is a parameter of the writer model), heterogeneity blocks included
   (records are batched on their ","-joined keys; a new batch is preceded by a blank line, which resets the reader's header).
   Domain (wf_pprint, boolean): records non-empty with unique keys; keys non-empty, free of space, LF and ",";
   values free of space and LF and different from "-" (the EMPTY value is in the domain: it is written "-" and read back
   empty); the last key / last value of a record do not end in CR unless --ors crlf; first key not starting with byte 0xEF *)
Theorem C01_pprint_roundtrip :
  forall w right crlf dedupe ragged recs, wf_pprint crlf recs = true ->
  read_pprint dedupe ragged (write_pprint_g w right false false crlf recs) = Some recs.
Proof. exact pprint_roundtrip. Qed.
Print Assumptions C01_pprint_roundtrip.

(* the two exclusions are real representational limits of the format (documented: "-" stands for an empty value) *)
Theorem C01_pprint_dash_value_refuted :
  exists recs, forallb (fun r => negb (is_nil r) && nodupb (keys r)) recs = true
    /\ read_pprint true false (write_pprint_g (@List.length ascii) false false false false recs) <> Some recs.
Proof. exact pprint_dash_value_refuted. Qed.
Print Assumptions C01_pprint_dash_value_refuted.

Theorem C01_pprint_comma_keys_refuted :
  exists recs, forallb (fun r => negb (is_nil r) && nodupb (keys r)) recs = true
    /\ read_pprint true false (write_pprint_g (@List.length ascii) false false false false recs) <> Some recs.
Proof. exact pprint_comma_keys_refuted. Qed.
Print Assumptions C01_pprint_comma_keys_refuted.

(* --barred output (ASCII bars), left-aligned or --right, read back with --ipprint --barred-input, for EVERY width function.
   Domain (wf_barred): records non-empty with unique keys; cells free of "|" and LF and unchanged by strings.TrimSpace
   (no leading/trailing Unicode white space); keys free of ",".  The empty value, "-", spaces inside a cell, CR and an
   empty key are all representable here *)
Theorem C01_pprint_barred_roundtrip :
  forall w right crlf dedupe ragged recs, wf_barred recs = true ->
  read_pprint_barred false dedupe ragged (write_pprint_g w right true false crlf recs) = Some recs.
Proof. exact pprint_barred_roundtrip. Qed.
Print Assumptions C01_pprint_barred_roundtrip.

(* ---- Markdown ---- *)
(* the streaming writer (--omd) and the --omd-aligned writer (for EVERY display-width function w) read back with --imd, any dedupe / ragged setting, LF or CRLF, heterogeneity included (a change
   of keys writes a blank line and a new header; the reader takes only the second line of a block for the separator line).
   Domain (wf_markdown, boolean): records non-empty with unique keys; cells free of LF and unchanged by strings.TrimSpace;
   keys free of "|" (keys are not escaped) and "," and not the single key "".  VALUES may contain "|" (written "\|" and
   unescaped by the reader), backslashes, rows of dashes or empty cells -- the two former findings are inside the domain *)
Theorem C01_markdown_roundtrip :
  forall w aligned crlf dedupe ragged recs, wf_markdown recs = true ->
  read_markdown false dedupe ragged (write_markdown w aligned crlf recs) = Some recs.
Proof. exact markdown_roundtrip. Qed.
Print Assumptions C01_markdown_roundtrip.

Example C01_nonvacuous_markdown :
  wf_markdown [[(B "a", B "x|y"); (B "b c", B "\|"); (B "", B "")]; [(B "a", B "-"); (B "b c", B ""); (B "", B "---")];
               [(B "z", bs [195;169;13;65;92]%N)]; [(B "a", B "| - |"); (B "b c", B ":--"); (B "", B "x  y")]] = true.
Proof. vm_compute. reflexivity. Qed.

Example C01_nonvacuous_pprint :
  wf_pprint false [[(B "a", B "1,2"); (B "b-c", B ""); (B "k", bs [195;169;13;65]%N)]; [(B "a", B "--"); (B "b-c", B "x"); (B "k", B "-x")];
                   [(B "z", B "y")]; [(B "a", B "3"); (B "b-c", B "4"); (B "k", B "")]] = true
  /\ wf_pprint true [[(B "a", bs [65;13]%N)]] = true
  /\ wf_barred [[(B "", B "x  y"); (B "a b", B ""); (B "k", B "-"); (B "c", bs [195;169;13;65]%N)]; [(B "", B "1"); (B "a b", B "2"); (B "k", B "3"); (B "c", B "")];
                [(B "z", bs [194]%N)]] = true.
Proof. vm_compute. repeat split; reflexivity. Qed.

(* ---- DKVPX ---- (pkg/dkvpx: DKVP with CSV-style quoting) *)
(* writer then reader is the identity for one-byte IFS/IPS below 0x80 (different from each other and from quote, CR, LF), LF or
   CRLF line ends, any dedupe setting: records (EMPTY ones included) with unique non-empty keys, keys and values of ANY bytes --
   separators, quotes, LF, lone CR, empty lines inside a cell, leading/trailing spaces, invalid UTF-8 -- except the sequence
   CR LF inside a cell (refuted below) and a first key starting with byte 0xEF (BOM).  The reader model is the repaired
   reader (/repo 567ffc2e0: a newline inside quotes with nothing before it on its line used to be dropped) *)
Theorem C01_dkvpx_roundtrip :
  forall comma eq crlf dedupe recs, wf_dkvpx comma eq recs = true ->
  read_dkvpx comma eq dedupe (write_dkvpx [comma] [eq] crlf recs) = recs.
Proof. exact dkvpx_roundtrip. Qed.
Print Assumptions C01_dkvpx_roundtrip.

Theorem C01_dkvpx_crlf_in_cell_refuted :
  exists recs, forallb (fun r => nodupb (keys r)) recs = true
    /\ read_dkvpx "," "=" true (write_dkvpx [","] ["="] false recs) <> recs.
Proof. exact dkvpx_crlf_in_cell_refuted. Qed.
Print Assumptions C01_dkvpx_crlf_in_cell_refuted.

Example C01_nonvacuous_dkvpx :
  wf_dkvpx "," "=" [[(B "a,b", B "x=""y"""); (B "k", bs [10;10;13;65;10]%N); (B " c ", B "")]; []; [(B "=", bs [255;44;13]%N)]] = true
  /\ wf_dkvpx ";" ":" [[(B "a", B "1;2:3")]] = true.
Proof. vm_compute. split; reflexivity. Qed.

(* ---- custom record separators (--ors X written, --irs X read; single- and multi-character line readers) ---- *)
(* the line reader inverts "every line followed by the separator": any non-empty separator (the last byte may occur earlier in
   it, as in ";;" -- /repo 3c48708b5), any number of lines, empty lines included; sufficient condition: no byte of the
   separator inside a line *)
Theorem C01_custom_irs_lines :
  forall irs ls, irs <> [] -> forallb (freeof irs) ls = true -> lines_irs irs (unlines irs ls) = ls.
Proof. exact lines_irs_unlines. Qed.
Print Assumptions C01_custom_irs_lines.

(* DKVP and NIDX with a custom record separator: the domains of C01_dkvp_roundtrip / C01_nidx_roundtrip (any IFS/IPS) and
   no byte of the record separator in any written line *)
Theorem C01_dkvp_custom_irs_roundtrip :
  forall irs ifs ips dedupe recs, irs <> [] -> default_irs irs = false -> wf_dkvp ifs ips true recs = true ->
  forallb (freeof irs) (map (dkvp_line ifs ips) recs) = true ->
  read_dkvp_irs irs ifs ips false dedupe (write_dkvp_ors ifs ips irs recs) = recs.
Proof. exact dkvp_irs_roundtrip. Qed.
Print Assumptions C01_dkvp_custom_irs_roundtrip.

Theorem C01_nidx_custom_irs_roundtrip :
  forall irs ifs recs, irs <> [] -> default_irs irs = false -> wf_nidx ifs true recs = true ->
  forallb (freeof irs) (map (fun r => join ifs (values r)) recs) = true ->
  read_nidx_irs irs ifs true (write_nidx_ors ifs irs recs) = recs.
Proof. exact nidx_irs_roundtrip. Qed.
Print Assumptions C01_nidx_custom_irs_roundtrip.

Example C01_nonvacuous_custom_irs :
  default_irs (B ";;") = false /\ wf_dkvp (B ",") (B "=") true [[(B "a", B "x y"); (B "b", B "")]; []; [(B "c", bs [13;65]%N)]] = true
  /\ forallb (freeof (B ";;")) (map (dkvp_line (B ",") (B "=")) [[(B "a", B "x y"); (B "b", B "")]; []; [(B "c", bs [13;65]%N)]]) = true
  /\ wf_nidx (B " ") true [[(B "1", B "p"); (B "2", B "q")]] = true.
Proof. vm_compute. repeat split; reflexivity. Qed.
