(* Lemmas about the shared pieces: split/join, the line reader, PutDeferred / header attachment. *)
From Miller Require Import Base.Bytes Base.Record C01.Model.
Open Scope char_scope.

Lemma eqc_refl c : eqc c c = true.
Proof. apply Ascii.eqb_refl. Qed.

Lemma eqc_eq a b : eqc a b = true <-> a = b.
Proof. apply Ascii.eqb_eq. Qed.

Lemma eqc_neq a b : eqc a b = false <-> a <> b.
Proof. apply Ascii.eqb_neq. Qed.

Lemma prefixb_app p r : prefixb p (p ++ r) = true.
Proof. induction p as [|x p IH]; cbn; [reflexivity|]. now rewrite Ascii.eqb_refl. Qed.

Lemma memc_In c s : memc c s = true <-> In c s.
Proof.
  unfold memc. rewrite existsb_exists. split.
  - intros (x & Hx & He). apply eqc_eq in He. now subst.
  - intros H. exists c. split; [auto|apply eqc_refl].
Qed.

Lemma freeof_cons sep c f : freeof sep (c :: f) = negb (memc c sep) && freeof sep f.
Proof. reflexivity. Qed.

Lemma freeof_app sep a b : freeof sep (a ++ b) = freeof sep a && freeof sep b.
Proof. unfold freeof. apply forallb_app. Qed.

Lemma nochar_app c a b : nochar c (a ++ b) = nochar c a && nochar c b.
Proof. unfold nochar. apply forallb_app. Qed.

Lemma nochar_freeof c f : nochar c f = freeof [c] f.
Proof.
  unfold nochar, freeof. induction f as [|x f IH]; cbn; [reflexivity|]. now rewrite IH, orb_false_r.
Qed.

(* ---------------------------------------------------------------- split / join *)
Lemma prefixb_notin sep c rest : sep <> [] -> negb (memc c sep) = true -> prefixb sep (c :: rest) = false.
Proof.
  intros Hs Hc. destruct sep as [|s0 sep']; [congruence|].
  cbn. apply negb_true_iff in Hc. cbn in Hc. apply orb_false_iff in Hc as [Hc _].
  unfold eqc in Hc. rewrite Ascii.eqb_sym in Hc. now rewrite Hc.
Qed.
Lemma split_go_skip sep p rest acc :
  split_go sep (List.length p) (p ++ rest) acc = split_go sep 0 rest acc.
Proof.
  induction p as [|x p IH]; cbn [List.length app split_go]; [|exact IH].
  destruct rest; reflexivity.
Qed.

Lemma split_go_field sep f rest acc :
  sep <> [] -> freeof sep f = true ->
  split_go sep 0 (f ++ rest) acc = split_go sep 0 rest (rev f ++ acc).
Proof.
  intros Hs. revert acc. induction f as [|c f IH]; intros acc Hf; [reflexivity|].
  rewrite freeof_cons in Hf. apply andb_true_iff in Hf as [Hc Hf].
  cbn [app split_go].
  rewrite (prefixb_notin sep c (f ++ rest) Hs Hc). rewrite IH by assumption. cbn [rev]. now rewrite <- app_assoc.
Qed.

Lemma split_go_sep sep rest acc :
  sep <> [] -> split_go sep 0 (sep ++ rest) acc = rev acc :: split_go sep 0 rest [].
Proof.
  intros Hs. destruct sep as [|s0 sep']; [congruence|].
  change ((s0 :: sep') ++ rest) with (s0 :: (sep' ++ rest)).
  cbn [split_go].
  change (s0 :: sep' ++ rest) with ((s0 :: sep') ++ rest). rewrite prefixb_app.
  cbn [List.length]. rewrite Nat.sub_succ, Nat.sub_0_r. now rewrite split_go_skip.
Qed.

Lemma split_go_end sep acc : split_go sep 0 [] acc = [rev acc].
Proof. reflexivity. Qed.

Lemma join_cons2 sep x y t : join sep (x :: y :: t) = x ++ sep ++ join sep (y :: t).
Proof. reflexivity. Qed.

Lemma split_join sep fs :
  sep <> [] -> forallb (freeof sep) fs = true -> fs <> [] ->
  split_on sep (join sep fs) = fs.
Proof.
  intros Hs Hf Hne. unfold split_on.
  induction fs as [|x fs IH]; [congruence|].
  cbn [forallb] in Hf. apply andb_true_iff in Hf as [Hx Hf].
  destruct fs as [|y fs].
  - cbn [join]. rewrite <- (app_nil_r x) at 1. rewrite split_go_field by assumption.
    cbn. now rewrite app_nil_r, rev_involutive.
  - rewrite join_cons2. rewrite split_go_field by assumption.
    rewrite split_go_sep by assumption. rewrite app_nil_r, rev_involutive.
    f_equal. apply IH; [assumption|congruence].
Qed.

Lemma join_nil_inv sep fs : sep <> [] -> join sep fs = [] -> fs = [] \/ fs = [[]].
Proof.
  intros Hs H. destruct fs as [|x [|y t]]; [now left| right; cbn in H; now subst|].
  rewrite join_cons2 in H. apply app_eq_nil in H as [_ H]. apply app_eq_nil in H as [H _]. congruence.
Qed.

Lemma split_string_join sep fs :
  sep <> [] -> forallb (freeof sep) fs = true -> fs <> [[]] ->
  split_string sep (join sep fs) = fs.
Proof.
  intros Hs Hf Hne. unfold split_string.
  destruct (join sep fs) eqn:E.
  - destruct (join_nil_inv sep fs Hs E); congruence.
  - rewrite <- E. apply split_join; auto. intros ->. discriminate.
Qed.

Lemma strip_empties_id fs : forallb (fun f => negb (is_nil f)) fs = true -> strip_empties fs = fs.
Proof.
  unfold strip_empties. induction fs as [|x fs IH]; cbn; [reflexivity|].
  intros H. apply andb_true_iff in H as [Hx H]. rewrite Hx. now rewrite IH.
Qed.

(* split2 *)
Lemma split2_go_spec sep k v acc :
  sep <> [] -> freeof sep k = true ->
  split2_go sep (k ++ sep ++ v) acc = Some (rev acc ++ k, v).
Proof.
  intros Hs. revert acc. induction k as [|c k IH]; intros acc Hk.
  - cbn [app]. destruct sep as [|s0 sep']; [congruence|].
    change ((s0 :: sep') ++ v) with (s0 :: (sep' ++ v)). cbn [split2_go].
    change (s0 :: sep' ++ v) with ((s0 :: sep') ++ v). rewrite prefixb_app.
    rewrite app_nil_r. f_equal. f_equal.
    clear. generalize (s0 :: sep') as p. intros p. induction p; cbn; auto.
  - rewrite freeof_cons in Hk. apply andb_true_iff in Hk as [Hc Hk].
    change ((c :: k) ++ sep ++ v) with (c :: (k ++ sep ++ v)). cbn [split2_go].
    rewrite (prefixb_notin sep c _ Hs Hc). rewrite IH by assumption. cbn [rev]. now rewrite <- app_assoc.
Qed.

Lemma split2_spec sep k v :
  sep <> [] -> freeof sep k = true -> split2 sep (k ++ sep ++ v) = Some (k, v).
Proof. intros. unfold split2. now rewrite split2_go_spec. Qed.

(* ---------------------------------------------------------------- lines *)
Definition ends_cr (l : bytes) : bool := match rev l with c :: _ => eqc c CR | [] => false end.
Definition line_ok (crlf : bool) (l : bytes) : bool := nochar LF l && (crlf || negb (ends_cr l)).

Lemma lines_go_nolf l rest acc :
  nochar LF l = true -> lines_go (l ++ rest) acc = lines_go rest (rev l ++ acc).
Proof.
  revert acc. induction l as [|c l IH]; intros acc H; [reflexivity|].
  unfold nochar in H. cbn [forallb] in H. apply andb_true_iff in H as [Hc H]. fold (nochar LF l) in H.
  cbn [app lines_go]. apply negb_true_iff in Hc. rewrite Hc.
  rewrite IH by assumption. cbn [rev]. now rewrite <- app_assoc.
Qed.

Lemma lines_of_unlines crlf ls :
  forallb (line_ok crlf) ls = true -> lines_of (unlines (ors_of crlf) ls) = ls.
Proof.
  unfold lines_of, unlines. induction ls as [|l ls IH]; intros H; [reflexivity|].
  cbn [forallb] in H. apply andb_true_iff in H as [Hl H].
  unfold line_ok in Hl. apply andb_true_iff in Hl as [Hlf Hcr].
  cbn [map List.concat]. rewrite <- app_assoc.
  rewrite lines_go_nolf by assumption. rewrite app_nil_r.
  destruct crlf; cbn [ors_of app lines_go].
  - (* CR LF *)
    replace (eqc CR LF) with false by reflexivity. replace (eqc LF LF) with true by reflexivity.
    unfold chomp_cr_rev. replace (eqc CR CR) with true by reflexivity.
    rewrite rev_involutive. f_equal. now apply IH.
  - replace (eqc LF LF) with true by reflexivity.
    f_equal; [|now apply IH].
    unfold chomp_cr_rev. cbn in Hcr. unfold ends_cr in Hcr.
    destruct (rev l) as [|c a] eqn:E.
    + cbn. apply (f_equal (@rev ascii)) in E. rewrite rev_involutive in E. now subst.
    + apply negb_true_iff in Hcr. rewrite Hcr. rewrite <- E. apply rev_involutive.
Qed.

Lemma ends_cr_nochar l : nochar CR l = true -> ends_cr l = false.
Proof.
  unfold ends_cr. intros H. destruct (rev l) as [|c a] eqn:E; [reflexivity|].
  assert (Hin : In c l). { apply in_rev. rewrite E. now left. }
  unfold nochar in H. rewrite forallb_forall in H. specialize (H c Hin). now apply negb_true_iff in H.
Qed.

(* ---------------------------------------------------------------- records *)
Lemma has_app_single k r k' v : has k (r ++ [(k', v)]) = has k r || beqb k k'.
Proof.
  unfold has. induction r as [|[k2 v2] r IH]; cbn.
  - destruct (beqb k k'); reflexivity.
  - destruct (beqb k k2); [reflexivity|exact IH].
Qed.

Lemma has_false_notin k r : has k r = false <-> ~ In k (keys r).
Proof.
  unfold has. induction r as [|[k2 v2] r IH]; cbn; [tauto|].
  destruct (beqb_spec k k2) as [->|Hne]; [split; [discriminate|intros H; exfalso; apply H; now left]|].
  rewrite IH. split; [intros H [E|E]; [congruence|auto]|intros H E; apply H; now right].
Qed.

Lemma put_deferred_new d k v r : has k r = false -> put_deferred d k v r = r ++ [(k, v)].
Proof. intros H. unfold put_deferred. now rewrite H. Qed.

Lemma attach_combine d fill i hs fs r :
  List.length hs = List.length fs -> NoDup (keys r ++ hs) ->
  attach d fill i hs fs r = r ++ combine hs fs.
Proof.
  revert i fs r. induction hs as [|h hs IH]; intros i fs r Hl Hnd.
  - destruct fs; [|discriminate]. cbn. now rewrite app_nil_r.
  - destruct fs as [|f fs]; [discriminate|]. cbn [attach combine].
    assert (Hh : has h r = false).
    { apply has_false_notin. intros Hin. apply NoDup_remove_2 in Hnd. apply Hnd. apply in_or_app. now left. }
    rewrite put_deferred_new by assumption.
    rewrite IH.
    + now rewrite <- app_assoc.
    + now injection Hl.
    + unfold keys in *. rewrite map_app. cbn [map fst]. rewrite <- app_assoc. exact Hnd.
Qed.

Lemma combine_keys_values (r : record) : combine (keys r) (values r) = r.
Proof. induction r as [|[k v] r IH]; cbn; [reflexivity|]. f_equal. exact IH. Qed.

Fixpoint list_beqb (a b : list bytes) : bool :=
  match a, b with
  | [], [] => true
  | x :: a', y :: b' => beqb x y && list_beqb a' b'
  | _, _ => false
  end.
Lemma list_beqb_eq a b : list_beqb a b = true -> a = b.
Proof.
  revert b. induction a as [|x a IH]; intros [|y b] H; cbn in H; try discriminate; [reflexivity|].
  apply andb_true_iff in H as [Hx H]. destruct (beqb_spec x y); [|discriminate]. subst. f_equal. now apply IH.
Qed.
Lemma list_beqb_refl a : list_beqb a a = true.
Proof. induction a as [|x a IH]; cbn; [reflexivity|]. now rewrite beqb_refl. Qed.

Lemma row_to_record_rect d rg fill (r : record) :
  nodupb (keys r) = true ->
  row_to_record d rg fill (keys r) (values r) = Some r.
Proof.
  intros Hnd. unfold row_to_record.
  assert (Hl : List.length (keys r) = List.length (values r)) by (unfold keys, values; now rewrite !map_length).
  rewrite Hl, Nat.eqb_refl. cbn [orb].
  rewrite attach_combine.
  - cbn [app]. now rewrite combine_keys_values.
  - rewrite <- Hl. reflexivity.
  - cbn. now apply nodupb_NoDup.
Qed.

Lemma check_keys_refl (r : record) : check_keys (keys r) r = true.
Proof. induction r as [|[k v] r IH]; cbn; [reflexivity|]. now rewrite beqb_refl. Qed.

Lemma pad_values_same (ks vs : list bytes) : List.length ks = List.length vs -> pad_values ks vs = vs.
Proof.
  revert vs. induction ks as [|k ks IH]; intros vs H; [reflexivity|].
  destruct vs as [|v vs]; [discriminate|]. cbn. f_equal. apply IH. now injection H.
Qed.

(* all records share the key list of the first one *)
Definition rect (recs : list record) : bool :=
  match recs with [] => true | r0 :: _ => forallb (fun r => list_beqb (keys r) (keys r0)) recs end.

Lemma rows_of_rect r0 recs :
  rect (r0 :: recs) = true -> rows_of (r0 :: recs) = Some (keys r0, map values (r0 :: recs)).
Proof.
  unfold rect, rows_of. generalize (r0 :: recs) as l. intros l H.
  assert (H1 : forallb (check_keys (keys r0)) l = true).
  { rewrite forallb_forall in *. intros r Hr. specialize (H r Hr). apply list_beqb_eq in H. rewrite <- H. apply check_keys_refl. }
  rewrite H1. f_equal. f_equal. apply map_ext_in. intros r Hr.
  rewrite forallb_forall in H. specialize (H r Hr). apply list_beqb_eq in H. rewrite <- H.
  apply pad_values_same. unfold keys, values. now rewrite !map_length.
Qed.

Lemma map_opt_all {A B} (f : A -> option B) (g : A -> B) l :
  (forall x, In x l -> f x = Some (g x)) -> map_opt f l = Some (map g l).
Proof.
  induction l as [|x l IH]; intros H; [reflexivity|]. cbn.
  rewrite (H x) by now left. rewrite IH; [reflexivity|]. intros y Hy. apply H. now right.
Qed.

Lemma map_opt_map_id {A B} (f : B -> option A) (h : A -> B) l :
  (forall x, In x l -> f (h x) = Some x) -> map_opt f (map h l) = Some l.
Proof.
  induction l as [|x l IH]; intros H; [reflexivity|]. cbn.
  rewrite (H x) by now left. rewrite IH; [reflexivity|]. intros y Hy. apply H. now right.
Qed.
