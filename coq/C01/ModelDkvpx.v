(* C01 DKVPX: pkg/dkvpx/dkvpx_writer.go + pkg/output/record_writer_dkvpx.go, pkg/dkvpx/dkvpx_reader.go (readLine +
   readRecord as one character-level machine, as for go-csv) + pkg/input/record_reader_dkvpx.go.  Definitions only.
   The pair separator (IFS) and the key-value separator (IPS) are single bytes below 0x80 in the reader model. *)
From Miller Require Import Base.Bytes Base.Record C01.Model.
Open Scope char_scope.

(* ---------------------------------------------------------------- writer *)
(* strings.Contains for a non-empty needle *)
Fixpoint containsb (sub s : bytes) : bool :=
  prefixb sub s || match s with [] => false | _ :: t => containsb sub t end.
(* needsQuoting: LF, CR, quote, or an occurrence of OFS or OPS *)
Definition dx_needs (ofs ops s : bytes) : bool :=
  existsb (fun c => eqc c LF || eqc c CR || eqc c DQ) s || containsb ofs s || containsb ops s.
(* FormatFieldWithSeparators: quotes doubled, everything else as it is (quote_body false) *)
Definition dx_field (ofs ops s : bytes) : bytes := if dx_needs ofs ops s then DQ :: quote_body false s ++ [DQ] else s.
Definition dkvpx_line (ofs ops : bytes) (r : record) : bytes :=
  join ofs (map (fun kv => dx_field ofs ops (fst kv) ++ ops ++ dx_field ofs ops (snd kv)) r).
(* RecordWriterDKVPX.Write: an empty record is an empty line *)
Definition write_dkvpx (ofs ops : bytes) (crlf : bool) (recs : list record) : bytes :=
  unlines (ors_of crlf) (map (dkvpx_line ofs ops) recs).

(* ---------------------------------------------------------------- reader *)
(* state of readRecord: inQuotes, haveKey, keyBuf and valBuf (reversed), pairIndex, the OrderedMap so far, and
   "a line of this record has been read" (readRecord returns io.EOF only when its FIRST readLine does) *)
Record dxs := mkDx { dx_inq : bool; dx_hk : bool; dx_k : bytes; dx_v : bytes; dx_idx : nat; dx_rec : record; dx_started : bool }.
Definition dx_init : dxs := mkDx false false [] [] 0 [] false.

(* finalizePair *)
Definition dx_final (hk : bool) (k v : bytes) (idx : nat) : bytes * bytes :=
  if hk then ((match k with [] => itoa (S idx) | _ => rev k end), rev v) else (itoa (S idx), rev k).
(* result.Put: lib.OrderedMap.Put overwrites the value of an existing key in place *)
Definition dx_put (st : dxs) : record :=
  let kv := dx_final (dx_hk st) (dx_k st) (dx_v st) (dx_idx st) in put (fst kv) (snd kv) (dx_rec st).
(* finishRecord *)
Definition dx_finish (st : dxs) : record :=
  if negb (is_nil (dx_k st)) || negb (is_nil (dx_v st)) || dx_hk st then dx_put st else dx_rec st.
Definition dx_push (c : ascii) (st : dxs) : dxs :=
  if dx_hk st then mkDx (dx_inq st) true (dx_k st) (c :: dx_v st) (dx_idx st) (dx_rec st) true
  else mkDx (dx_inq st) false (c :: dx_k st) (dx_v st) (dx_idx st) (dx_rec st) true.
Definition dx_set_inq (b : bool) (st : dxs) : dxs := mkDx b (dx_hk st) (dx_k st) (dx_v st) (dx_idx st) (dx_rec st) true.
Definition dx_start (st : dxs) : dxs := mkDx (dx_inq st) (dx_hk st) (dx_k st) (dx_v st) (dx_idx st) (dx_rec st) true.

(* one byte of the CR-LF-normalised text, except a quote met inside quotes (which needs the next byte) *)
Definition dx_step (comma eq : ascii) (st : dxs) (c : ascii) : dxs * list record :=
  if dx_inq st then (dx_push c st, [])        (* LF included: since /repo 567ffc2e0 also when nothing precedes it on its line *)
  else if eqc c DQ then (dx_set_inq true st, [])
  else if eqc c LF then (dx_init, [dx_finish st])
  else if eqc c comma then (mkDx false false [] [] (S (dx_idx st)) (dx_put st) true, [])
  else if eqc c eq && negb (dx_hk st) then (mkDx false true (dx_k st) (dx_v st) (dx_idx st) (dx_rec st) true, [])
  else (dx_push c st, []).
Definition dx_eof (st : dxs) : list record := if dx_started st then [dx_finish st] else [].

(* readLine: every CR LF becomes LF; a CR that is the very last byte of an unterminated last line is dropped *)
Fixpoint dx_run (comma eq : ascii) (st : dxs) (s : bytes) : list record :=
  match s with
  | [] => dx_eof st
  | c :: t =>
    if dx_inq st && eqc c DQ then
      match t with
      | d :: t' => if eqc d DQ then dx_run comma eq (dx_push DQ st) t' else dx_run comma eq (dx_set_inq false st) t
      | [] => dx_run comma eq (dx_set_inq false st) t
      end
    else if eqc c CR then
      match t with
      | [] => dx_eof (dx_start st)
      | d :: t' =>
        if eqc d LF then let (st', out) := dx_step comma eq st LF in out ++ dx_run comma eq st' t'
        else let (st', out) := dx_step comma eq st c in out ++ dx_run comma eq st' t
      end
    else let (st', out) := dx_step comma eq st c in out ++ dx_run comma eq st' t
  end.

(* record_reader_dkvpx.go: BOM stripped; each OrderedMap is copied with PutDeferred *)
Definition read_dkvpx (comma eq : ascii) (dedupe : bool) (text : bytes) : list record :=
  map (fun om => fold_left (fun r kv => put_deferred dedupe (fst kv) (snd kv) r) om [])
      (dx_run comma eq dx_init (strip_bom text)).
