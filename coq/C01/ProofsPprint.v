(* PPRINT, non-barred (left- or right-aligned): writer then reader is the identity, for EVERY display-width function,
   heterogeneity blocks included.  The reader is the csvlite one with IFS = space, repeated IFS, "-" = empty. *)
From Miller Require Import Base.Bytes Base.Record C01.Model C01.ModelXtab C01.ModelLite C01.ModelPprint
     C01.ProofsUtil C01.ProofsTsv C01.ProofsDkvp C01.ProofsCsv C01.ProofsLite.
Open Scope char_scope.

(* ---------------------------------------------------------------- tokens of a line under IFS = space, --repifs *)
Definition T (s : bytes) : list bytes := strip_empties (split_go [SP] 0 s []).

Lemma field_split_T s : field_split [SP] true s = T s.
Proof. unfold field_split, split_string, split_on, T. destruct s; reflexivity. Qed.

Lemma spaces_S n : spaces (S n) = SP :: spaces n.
Proof. reflexivity. Qed.
Lemma spaces_snoc n rest : spaces n ++ SP :: rest = SP :: spaces n ++ rest.
Proof. induction n as [|n IH]; [reflexivity|]. rewrite spaces_S. cbn [app]. now rewrite IH. Qed.

Lemma T_sp rest : T (SP :: rest) = T rest.
Proof. unfold T. change (SP :: rest) with ([SP] ++ rest). rewrite split_go_sep by discriminate. reflexivity. Qed.
Lemma T_spaces n rest : T (spaces n ++ rest) = T rest.
Proof. induction n as [|n IH]; [reflexivity|]. rewrite spaces_S. cbn [app]. now rewrite T_sp. Qed.
Lemma T_cell_sp x rest : x <> [] -> nochar SP x = true -> T (x ++ SP :: rest) = x :: T rest.
Proof.
  intros Hx Hs. unfold T. rewrite split_go_field; [|discriminate|now rewrite <- nochar_freeof].
  change (SP :: rest) with ([SP] ++ rest). rewrite split_go_sep by discriminate.
  rewrite app_nil_r, rev_involutive. cbn [strip_empties filter]. destruct x; [congruence|reflexivity].
Qed.
Lemma T_cell_end x : x <> [] -> nochar SP x = true -> T x = [x].
Proof.
  intros Hx Hs. unfold T. rewrite <- (app_nil_r x) at 1. rewrite split_go_field; [|discriminate|now rewrite <- nochar_freeof].
  rewrite app_nil_r. cbn [split_go]. rewrite rev_involutive. cbn. destruct x; [congruence|reflexivity].
Qed.
Lemma T_cell_spaces x n rest : x <> [] -> nochar SP x = true -> T (x ++ spaces n ++ SP :: rest) = x :: T rest.
Proof. intros Hx Hs. rewrite spaces_snoc. rewrite T_cell_sp by assumption. f_equal. apply T_spaces. Qed.

Definition cell_ok (x : bytes) : bool := negb (is_nil x) && nochar SP x.
Lemma cell_ok_inv x : cell_ok x = true -> x <> [] /\ nochar SP x = true.
Proof. unfold cell_ok. intros H. apply andb_true_iff in H as [H1 H2]. split; [destruct x; [discriminate|discriminate]|exact H2]. Qed.

Section Rows.
Variable w : bytes -> nat.

Lemma pp_row_cons2 wd wt x y t :
  pp_row w (wd :: wt) (x :: y :: t) = x ++ spaces (wd - w x) ++ [SP] ++ pp_row w wt (y :: t).
Proof. reflexivity. Qed.
Lemma pp_row_cons2_nil x y t : pp_row w [] (x :: y :: t) = x ++ [SP] ++ pp_row w [] (y :: t).
Proof. reflexivity. Qed.

Lemma T_pp_row cells : forall ws, forallb cell_ok cells = true -> T (pp_row w ws cells) = cells.
Proof.
  induction cells as [|x cells IH]; intros ws H; [destruct ws; reflexivity|].
  cbn [forallb] in H. apply andb_true_iff in H as [Hx H]. apply cell_ok_inv in Hx as [Hne Hsp].
  destruct cells as [|y t].
  - destruct ws; cbn [pp_row]; now apply T_cell_end.
  - destruct ws as [|wd wt].
    + rewrite pp_row_cons2_nil. cbn [app]. rewrite T_cell_sp by assumption. f_equal. now apply IH.
    + rewrite pp_row_cons2. cbn [app]. rewrite T_cell_spaces by assumption. f_equal. now apply IH.
Qed.

Lemma pp_row_right_cons2 ws x y t :
  pp_row_right w ws (x :: y :: t) = spaces (hd 0 ws - w x) ++ x ++ SP :: pp_row_right w (tl ws) (y :: t).
Proof. reflexivity. Qed.
Lemma pp_row_right_one ws x : pp_row_right w ws [x] = spaces (hd 0 ws - w x) ++ x.
Proof. cbn [pp_row_right]. now rewrite app_nil_r. Qed.

Lemma T_pp_row_right cells : forall ws, forallb cell_ok cells = true -> T (pp_row_right w ws cells) = cells.
Proof.
  induction cells as [|x cells IH]; intros ws H; [reflexivity|].
  cbn [forallb] in H. apply andb_true_iff in H as [Hx H]. apply cell_ok_inv in Hx as [Hne Hsp].
  destruct cells as [|y t].
  - rewrite pp_row_right_one, T_spaces. now apply T_cell_end.
  - rewrite pp_row_right_cons2, T_spaces. rewrite T_cell_sp by assumption. f_equal. now apply IH.
Qed.

Lemma T_row right ws cells : forallb cell_ok cells = true -> T (pp_row_g w right ws cells) = cells.
Proof. unfold pp_row_g. destruct right; [apply T_pp_row_right|apply T_pp_row]. Qed.

(* a row is some prefix followed by its last cell *)
Lemma pp_row_last cells : forall ws, cells <> [] -> exists p, pp_row w ws cells = p ++ last cells [].
Proof.
  induction cells as [|x cells IH]; intros ws Hne; [congruence|].
  destruct cells as [|y t].
  - exists []. destruct ws; reflexivity.
  - destruct ws as [|wd wt].
    + destruct (IH [] ltac:(discriminate)) as [p Hp]. exists (x ++ [SP] ++ p). rewrite pp_row_cons2_nil, Hp.
      change (last (x :: y :: t) []) with (last (y :: t) []). now rewrite <- !app_assoc.
    + destruct (IH wt ltac:(discriminate)) as [p Hp]. exists (x ++ spaces (wd - w x) ++ [SP] ++ p). rewrite pp_row_cons2, Hp.
      change (last (x :: y :: t) []) with (last (y :: t) []). now rewrite <- !app_assoc.
Qed.
Lemma pp_row_right_last cells : forall ws, cells <> [] -> exists p, pp_row_right w ws cells = p ++ last cells [].
Proof.
  induction cells as [|x cells IH]; intros ws Hne; [congruence|].
  destruct cells as [|y t].
  - exists (spaces (hd 0 ws - w x)). now rewrite pp_row_right_one.
  - destruct (IH (tl ws) ltac:(discriminate)) as [p Hp]. exists (spaces (hd 0 ws - w x) ++ x ++ SP :: p).
    rewrite pp_row_right_cons2. rewrite Hp. change (last (x :: y :: t) []) with (last (y :: t) []).
    rewrite <- !app_assoc. cbn [app]. reflexivity.
Qed.
Lemma row_last right ws cells : cells <> [] -> exists p, pp_row_g w right ws cells = p ++ last cells [].
Proof. unfold pp_row_g. destruct right; [apply pp_row_right_last|apply pp_row_last]. Qed.

Lemma nochar_spaces c n : eqc SP c = false -> nochar c (spaces n) = true.
Proof. intros H. induction n as [|n IH]; [reflexivity|]. rewrite spaces_S. unfold nochar in *. cbn [forallb]. now rewrite H, IH. Qed.

Lemma nochar_pp_row c cells : eqc SP c = false -> forall ws, forallb (nochar c) cells = true -> nochar c (pp_row w ws cells) = true.
Proof.
  intros Hc. induction cells as [|x cells IH]; intros ws H; [destruct ws; reflexivity|].
  cbn [forallb] in H. apply andb_true_iff in H as [Hx H].
  destruct cells as [|y t]; [destruct ws; exact Hx|].
  destruct ws as [|wd wt].
  - rewrite pp_row_cons2_nil, !nochar_app, Hx, IH by assumption. unfold nochar. cbn [forallb]. now rewrite Hc.
  - rewrite pp_row_cons2, !nochar_app, Hx, IH, nochar_spaces by assumption. unfold nochar. cbn [forallb]. now rewrite Hc.
Qed.
Lemma nochar_pp_row_right c cells : eqc SP c = false -> forall ws, forallb (nochar c) cells = true -> nochar c (pp_row_right w ws cells) = true.
Proof.
  intros Hc. induction cells as [|x cells IH]; intros ws H; [reflexivity|].
  cbn [forallb] in H. apply andb_true_iff in H as [Hx H].
  destruct cells as [|y t].
  - rewrite pp_row_right_one, nochar_app, Hx, nochar_spaces by assumption. reflexivity.
  - rewrite pp_row_right_cons2, !nochar_app, Hx, nochar_spaces by assumption. cbn [andb].
    change (nochar c (SP :: pp_row_right w (tl ws) (y :: t))) with (negb (eqc SP c) && nochar c (pp_row_right w (tl ws) (y :: t))).
    rewrite Hc. cbn [negb andb]. now apply IH.
Qed.
Lemma nochar_row c right ws cells : eqc SP c = false -> forallb (nochar c) cells = true -> nochar c (pp_row_g w right ws cells) = true.
Proof. intros Hc H. unfold pp_row_g. destruct right; [now apply nochar_pp_row_right|now apply nochar_pp_row]. Qed.

(* first byte of a row: a space, or the first byte of the first cell *)
Lemma row_head right ws x cells : x <> [] ->
  match pp_row_g w right ws (x :: cells) with c :: _ => c = SP \/ head_is c x = true | [] => False end.
Proof.
  intros Hx. destruct x as [|a x]; [congruence|]. unfold pp_row_g. destruct right.
  - destruct cells as [|y t]; [rewrite pp_row_right_one|rewrite pp_row_right_cons2];
      (destruct (hd 0 ws - w (a :: x)) as [|n]; [cbn; right; apply eqc_refl|rewrite spaces_S; cbn; now left]).
  - destruct cells as [|y t]; destruct ws; cbn; right; apply eqc_refl.
Qed.
Lemma row_head_ef right ws x cells : x <> [] -> head_is EF x = false ->
  match pp_row_g w right ws (x :: cells) with c :: _ => eqc c EF = false | [] => True end.
Proof.
  intros Hx Hef. pose proof (row_head right ws x cells Hx) as Hh.
  destruct (pp_row_g w right ws (x :: cells)) as [|c l]; [exact I|].
  destruct Hh as [->|Hh]; [reflexivity|]. destruct x as [|a x]; [congruence|].
  cbn [head_is] in Hh, Hef. apply eqc_eq in Hh. subst. exact Hef.
Qed.
End Rows.

(* ---------------------------------------------------------------- the domain *)
Definition pp_key_ok (k : bytes) : bool := negb (is_nil k) && nochar SP k && nochar LF k && nochar COMMA k.
Definition pp_val_ok (v : bytes) : bool := nochar SP v && nochar LF v && negb (beqb v ["-"]).
(* records non-empty with unique keys; keys non-empty, free of space, LF and "," (the writer batches records on their
   ","-joined keys); values free of space and LF and different from "-" (which stands for the empty value: the empty
   value itself is fine); the last key and the last value of a record do not end in CR unless --ors crlf *)
Definition pp_rec_ok (crlf : bool) (r : record) : bool :=
  negb (is_nil r) && nodupb (keys r) && forallb pp_key_ok (keys r) && forallb pp_val_ok (values r)
  && (crlf || (negb (ends_cr (last (keys r) [])) && negb (ends_cr (last (values r) [])))).
Definition wf_pprint (crlf : bool) (recs : list record) : bool :=
  forallb (pp_rec_ok crlf) recs && match recs with r0 :: _ => first_not_ef (keys r0) | [] => true end.

(* ---------------------------------------------------------------- batches *)
Definition jk (r : record) : bytes := join [","] (keys r).
Definition batch_inv (b : list record) : Prop := b <> [] /\ forall r, In r b -> jk r = jk (hd [] b).

Lemma batch_inv_rev cur curj : cur <> [] -> (forall r, In r cur -> jk r = curj) -> batch_inv (rev cur).
Proof.
  intros Hne Hall. split.
  - intros E. apply Hne. apply (f_equal (@rev record)) in E. now rewrite rev_involutive in E.
  - intros r Hr. rewrite <- in_rev in Hr. rewrite (Hall r Hr). symmetry. apply Hall.
    destruct (rev cur) as [|x t] eqn:E.
    + apply (f_equal (@rev record)) in E. rewrite rev_involutive in E. cbn in E. congruence.
    + cbn [hd]. apply in_rev. rewrite E. now left.
Qed.

Lemma pp_batches_spec recs : forall cur curj,
  cur <> [] -> (forall r, In r cur -> jk r = curj) ->
  List.concat (pp_batches cur curj recs) = rev cur ++ recs /\ Forall batch_inv (pp_batches cur curj recs).
Proof.
  induction recs as [|r recs IH]; intros cur curj Hne Hall.
  - cbn [pp_batches List.concat]. rewrite !app_nil_r. split; [reflexivity|]. constructor; [|constructor].
    now apply (batch_inv_rev cur curj).
  - cbn [pp_batches]. fold (jk r). destruct (beqb_spec (jk r) curj) as [E|E].
    + destruct (IH (r :: cur) curj ltac:(discriminate)) as [H1 H2].
      { intros r' [<-|Hr']; [exact E|now apply Hall]. }
      split; [|exact H2]. rewrite H1. cbn [rev]. now rewrite <- app_assoc.
    + destruct (IH [r] (jk r) ltac:(discriminate)) as [H1 H2].
      { intros r' [<-|[]]. reflexivity. }
      split.
      * cbn [List.concat]. rewrite H1. reflexivity.
      * constructor; [|exact H2].
        now apply (batch_inv_rev cur curj).
Qed.

Lemma pp_all_batches_spec recs :
  List.concat (pp_all_batches recs) = recs /\ Forall batch_inv (pp_all_batches recs).
Proof.
  destruct recs as [|r recs]; [split; [reflexivity|constructor]|].
  unfold pp_all_batches. fold (jk r). destruct (pp_batches_spec recs [r] (jk r) ltac:(discriminate)) as [H1 H2].
  { intros r' [<-|[]]. reflexivity. }
  split; [exact H1|exact H2].
Qed.

(* ---------------------------------------------------------------- the reader on one batch *)
Section Read.
Variables (d rg : bool).
Notation R := (lite_read_go [SP] true (Some ["-"]) d rg).

Definition splits (l : bytes) (fs : list bytes) : Prop := is_nil l = false /\ T l = fs.

Lemma void_cells vs : forallb pp_val_ok vs = true -> map (void_map (Some ["-"])) (map pp_cell vs) = vs.
Proof.
  induction vs as [|v vs IH]; intros H; [reflexivity|].
  cbn [forallb] in H. apply andb_true_iff in H as [Hv H]. cbn [map]. rewrite IH by assumption. f_equal.
  unfold pp_val_ok in Hv. apply andb_true_iff in Hv as [_ Hv]. apply negb_true_iff in Hv.
  destruct v as [|c v]; [reflexivity|]. cbn [pp_cell void_map]. now rewrite Hv.
Qed.

Lemma R_header hl ks rest : splits hl ks -> R None (hl :: rest) = R (Some ks) rest.
Proof. intros [Hn Hs]. cbn [lite_read_go]. now rewrite Hn, field_split_T, Hs. Qed.

Lemma R_data l r rest :
  splits l (map pp_cell (values r)) -> NoDup (keys r) -> forallb pp_val_ok (values r) = true ->
  R (Some (keys r)) (l :: rest) = match R (Some (keys r)) rest with None => None | Some rs => Some (r :: rs) end.
Proof.
  intros [Hn Hs] Hnd Hv. cbn [lite_read_go]. rewrite Hn, field_split_T, Hs.
  assert (Hl : List.length (keys r) = List.length (map pp_cell (values r))).
  { unfold keys, values. now rewrite !map_length. }
  rewrite Hl, Nat.eqb_refl. cbn [orb]. rewrite firstn_all, skipn_all, app_nil_r.
  rewrite void_cells by assumption.
  rewrite attach_combine; [cbn [app]; now rewrite combine_keys_values| |exact Hnd].
  unfold keys, values. now rewrite !map_length.
Qed.

Lemma R_blank hdr rest : R hdr ([] :: rest) = R None rest.
Proof. reflexivity. Qed.

Lemma R_batch (dl : record -> bytes) ks batch : forall rest,
  (forall r, In r batch -> keys r = ks /\ splits (dl r) (map pp_cell (values r)) /\ NoDup (keys r) /\ forallb pp_val_ok (values r) = true) ->
  R (Some ks) (map dl batch ++ rest) = match R (Some ks) rest with None => None | Some rs => Some (batch ++ rs) end.
Proof.
  induction batch as [|r batch IH]; intros rest H; [cbn [map app]; now destruct (R (Some ks) rest)|].
  destruct (H r (or_introl eq_refl)) as (Hk & Hs & Hnd & Hv). cbn [map app]. rewrite <- Hk.
  rewrite R_data by assumption. rewrite Hk. rewrite IH by (intros r' Hr'; apply H; now right).
  now destruct (R (Some ks) rest).
Qed.
End Read.

(* ---------------------------------------------------------------- lines of the whole output *)
Fixpoint sep_lines (L : list record -> list bytes) (bs : list (list record)) : list bytes :=
  match bs with
  | [] => []
  | [b] => L b
  | b :: t => L b ++ [[]] ++ sep_lines L t
  end.

Lemma unlines_app ors a b : unlines ors (a ++ b) = unlines ors a ++ unlines ors b.
Proof. unfold unlines. now rewrite map_app, concat_app. Qed.

Lemma pp_texts_lines ors (L : list record -> list bytes) bs :
  Forall (fun b => forallb is_nil b = false) bs ->
  pp_texts (fun b => unlines ors (L b)) ors bs = unlines ors (sep_lines L bs).
Proof.
  induction bs as [|b bs IH]; intros H; [reflexivity|].
  inversion H as [|? ? Hb Hbs]; subst. destruct bs as [|b2 bs]; [reflexivity|].
  change (pp_texts (fun b0 => unlines ors (L b0)) ors (b :: b2 :: bs))
    with (unlines ors (L b) ++ (if forallb is_nil b then [] else ors) ++ pp_texts (fun b0 => unlines ors (L b0)) ors (b2 :: bs)).
  change (sep_lines L (b :: b2 :: bs)) with (L b ++ [[]] ++ sep_lines L (b2 :: bs)).
  rewrite Hb, IH by assumption. rewrite !unlines_app. f_equal. f_equal. unfold unlines. cbn. now rewrite app_nil_r.
Qed.

Section Main.
Variables (w : bytes -> nat) (right crlf d rg : bool).
Notation R := (lite_read_go [SP] true (Some ["-"]) d rg).
Notation L := (pp_batch_lines_g w right false).

Lemma rec_ok_facts r : pp_rec_ok crlf r = true ->
  r <> [] /\ NoDup (keys r) /\ forallb pp_key_ok (keys r) = true /\ forallb pp_val_ok (values r) = true
  /\ (crlf || (negb (ends_cr (last (keys r) [])) && negb (ends_cr (last (values r) [])))) = true.
Proof.
  unfold pp_rec_ok. intros H. repeat (apply andb_true_iff in H as [H ?]).
  repeat split; try assumption; [destruct r; [discriminate|discriminate]|now apply nodupb_NoDup].
Qed.

Lemma keys_cells_ok ks : forallb pp_key_ok ks = true -> forallb cell_ok ks = true.
Proof.
  intros H. rewrite forallb_forall in *. intros k Hk. specialize (H k Hk). unfold pp_key_ok in H. unfold cell_ok.
  repeat (apply andb_true_iff in H as [H ?]). now rewrite H, H2.
Qed.
Lemma vals_cells_ok vs : forallb pp_val_ok vs = true -> forallb cell_ok (map pp_cell vs) = true.
Proof.
  intros H. rewrite forallb_map. rewrite forallb_forall in *. intros v Hv. specialize (H v Hv). unfold pp_val_ok in H.
  repeat (apply andb_true_iff in H as [H ?]). destruct v; [reflexivity|]. unfold cell_ok. cbn [pp_cell is_nil negb andb]. exact H.
Qed.

Lemma keys_of_jk r r' : pp_rec_ok crlf r = true -> pp_rec_ok crlf r' = true -> jk r = jk r' -> keys r = keys r'.
Proof.
  intros H H' E. destruct (rec_ok_facts r H) as (Hne & _ & Hk & _). destruct (rec_ok_facts r' H') as (Hne' & _ & Hk' & _).
  assert (Hf : forall r0, forallb pp_key_ok (keys r0) = true -> forallb (freeof [","]) (keys r0) = true).
  { intros r0 H0. rewrite forallb_forall in *. intros k Hin. specialize (H0 k Hin). unfold pp_key_ok in H0.
    apply andb_true_iff in H0 as [_ H0]. now rewrite <- nochar_freeof. }
  apply (join_inj [","]); try (now apply Hf); try discriminate; try assumption.
  - destruct r; [congruence|discriminate].
  - destruct r'; [congruence|discriminate].
Qed.

(* the lines of one in-domain batch: header, then one line per record *)
Lemma batch_lines b r0 : hd [] b = r0 -> b <> [] -> Forall (fun r => pp_rec_ok crlf r = true) b ->
  L b = pp_row_g w right (map (pp_width w b) (keys r0)) (keys r0)
        :: map (fun r => pp_row_g w right (map (pp_width w b) (keys r)) (map pp_cell (values r))) b.
Proof.
  intros Hh Hne Hall. destruct b as [|r b']; [congruence|]. cbn [hd] in Hh. subst r0.
  unfold pp_batch_lines_g.
  assert (Hr : is_nil r = false).
  { inversion Hall; subst. destruct (rec_ok_facts r) as (H & _); [assumption|]. destruct r; [congruence|reflexivity]. }
  replace (forallb is_nil (r :: b')) with false by (cbn [forallb]; now rewrite Hr).
  rewrite Hr. cbn [orb app]. f_equal.
  generalize (pp_width w (r :: b')). intros wf. clear Hr Hne.
  induction Hall as [|x l Hx Hl IH]; [reflexivity|]. cbn [flat_map map].
  destruct (rec_ok_facts x Hx) as (H & _). destruct x; [congruence|]. cbn [is_nil app]. f_equal. exact IH.
Qed.

Lemma line_facts ws cells :
  cells <> [] -> forallb cell_ok cells = true -> forallb (nochar LF) cells = true ->
  (crlf || negb (ends_cr (last cells []))) = true ->
  splits (pp_row_g w right ws cells) cells /\ line_ok crlf (pp_row_g w right ws cells) = true.
Proof.
  intros Hne Hc Hlf Hcr. pose proof (T_row w right ws cells Hc) as HT. split; [split; [|exact HT]|].
  - destruct (pp_row_g w right ws cells) eqn:E; [|reflexivity]. change (T []) with (@nil bytes) in HT. exfalso. apply Hne. now symmetry.
  - unfold line_ok. rewrite nochar_row by (assumption || reflexivity). cbn [andb].
    destruct crlf; [reflexivity|]. cbn [orb] in *. destruct (row_last w right ws cells Hne) as [p Hp]. rewrite Hp.
    rewrite ends_cr_app_ne; [exact Hcr|].
    assert (Hin : In (last cells []) cells).
    { clear -Hne. induction cells as [|x [|y t] IH]; [congruence|now left|right; apply IH; discriminate]. }
    rewrite forallb_forall in Hc. apply Hc in Hin. apply cell_ok_inv in Hin. tauto.
Qed.

Lemma last_map_cell vs : vs <> [] -> ends_cr (last (map pp_cell vs) []) = ends_cr (last vs []).
Proof.
  induction vs as [|v [|v2 t] IH]; intros H; [congruence| |].
  - cbn. destruct v; reflexivity.
  - change (last (map pp_cell (v :: v2 :: t)) []) with (last (map pp_cell (v2 :: t)) []).
    change (last (v :: v2 :: t) []) with (last (v2 :: t) []). apply IH. discriminate.
Qed.

Lemma key_line_facts ws r : pp_rec_ok crlf r = true ->
  splits (pp_row_g w right ws (keys r)) (keys r) /\ line_ok crlf (pp_row_g w right ws (keys r)) = true.
Proof.
  intros H. destruct (rec_ok_facts r H) as (Hne & _ & Hk & _ & Hcr). apply line_facts.
  - destruct r; [congruence|discriminate].
  - now apply keys_cells_ok.
  - rewrite forallb_forall in *. intros k Hin. specialize (Hk k Hin). unfold pp_key_ok in Hk.
    repeat (apply andb_true_iff in Hk as [Hk ?]). assumption.
  - destruct crlf; [reflexivity|]. cbn [orb] in *. now apply andb_true_iff in Hcr as [? _].
Qed.
Lemma val_line_facts ws r : pp_rec_ok crlf r = true ->
  splits (pp_row_g w right ws (map pp_cell (values r))) (map pp_cell (values r))
  /\ line_ok crlf (pp_row_g w right ws (map pp_cell (values r))) = true.
Proof.
  intros H. destruct (rec_ok_facts r H) as (Hne & _ & _ & Hv & Hcr).
  assert (Hvn : values r <> []) by (destruct r; [congruence|discriminate]). apply line_facts.
  - destruct r; [congruence|discriminate].
  - now apply vals_cells_ok.
  - rewrite forallb_map. rewrite forallb_forall in *. intros v Hin. specialize (Hv v Hin). unfold pp_val_ok in Hv.
    repeat (apply andb_true_iff in Hv as [Hv ?]). destruct v; [reflexivity|]. cbn [pp_cell]. assumption.
  - destruct crlf; [reflexivity|]. cbn [orb] in *. rewrite last_map_cell by assumption. now apply andb_true_iff in Hcr as [_ ?].
Qed.

Lemma batch_ok_keys b : batch_inv b -> Forall (fun r => pp_rec_ok crlf r = true) b ->
  forall r, In r b -> keys r = keys (hd [] b).
Proof.
  intros [Hne Hj] Hall r Hr. rewrite Forall_forall in Hall. apply keys_of_jk; [now apply Hall| |now apply Hj].
  apply Hall. destruct b; [congruence|now left].
Qed.

Lemma read_batches bs :
  Forall batch_inv bs -> Forall (Forall (fun r => pp_rec_ok crlf r = true)) bs ->
  R None (sep_lines L bs) = Some (List.concat bs).
Proof.
  induction bs as [|b bs IH]; intros Hinv Hok; [reflexivity|].
  inversion Hinv as [|? ? Hb Hbs]; subst. inversion Hok as [|? ? Hob Hobs]; subst.
  pose proof (batch_ok_keys b Hb Hob) as Hkeys. destruct Hb as [Hne Hj].
  assert (H0 : pp_rec_ok crlf (hd [] b) = true).
  { rewrite Forall_forall in Hob. apply Hob. destruct b; [congruence|now left]. }
  assert (Hread : forall rest, R None (L b ++ rest)
            = match R (Some (keys (hd [] b))) rest with None => None | Some rs => Some (b ++ rs) end).
  { intros rest. rewrite (batch_lines b (hd [] b) eq_refl Hne Hob). cbn [app].
    rewrite (R_header d rg _ (keys (hd [] b))) by (apply key_line_facts; assumption).
    apply R_batch. intros r Hr. rewrite Forall_forall in Hob. specialize (Hob r Hr).
    destruct (rec_ok_facts r Hob) as (_ & Hnd & _ & Hv & _).
    repeat split; try assumption; [now apply Hkeys| |]; apply val_line_facts; assumption. }
  destruct bs as [|b2 bs].
  - cbn [sep_lines List.concat]. rewrite <- (app_nil_r (L b)). rewrite Hread. cbn [lite_read_go]. reflexivity.
  - change (sep_lines L (b :: b2 :: bs)) with (L b ++ [[]] ++ sep_lines L (b2 :: bs)).
    rewrite Hread. cbn [app]. rewrite R_blank. rewrite IH by assumption. reflexivity.
Qed.

Lemma all_lines_ok bs :
  Forall batch_inv bs -> Forall (Forall (fun r => pp_rec_ok crlf r = true)) bs ->
  forallb (line_ok crlf) (sep_lines L bs) = true.
Proof.
  induction bs as [|b bs IH]; intros Hinv Hok; [reflexivity|].
  inversion Hinv as [|? ? Hb Hbs]; subst. inversion Hok as [|? ? Hob Hobs]; subst. destruct Hb as [Hne Hj].
  assert (HL : forallb (line_ok crlf) (L b) = true).
  { rewrite (batch_lines b (hd [] b) eq_refl Hne Hob). cbn [forallb]. apply andb_true_iff. split.
    - apply key_line_facts. rewrite Forall_forall in Hob. apply Hob. destruct b; [congruence|now left].
    - rewrite forallb_map. rewrite forallb_forall. intros r Hr. rewrite Forall_forall in Hob. apply val_line_facts. now apply Hob. }
  destruct bs as [|b2 bs]; [exact HL|].
  change (sep_lines L (b :: b2 :: bs)) with (L b ++ [[]] ++ sep_lines L (b2 :: bs)).
  rewrite forallb_app, HL. cbn [andb app forallb]. rewrite (IH Hbs Hobs). rewrite andb_true_r. unfold line_ok. cbn. now destruct crlf.
Qed.
End Main.

Lemma pprint_roundtrip w right crlf dedupe ragged recs :
  wf_pprint crlf recs = true ->
  read_pprint dedupe ragged (write_pprint_g w right false false crlf recs) = Some recs.
Proof.
  unfold wf_pprint. intros H. apply andb_true_iff in H as [Hrecs Hbom].
  destruct (pp_all_batches_spec recs) as [Hcat Hinv].
  assert (Hok : Forall (Forall (fun r => pp_rec_ok crlf r = true)) (pp_all_batches recs)).
  { rewrite Forall_forall. intros b Hb. rewrite Forall_forall. intros r Hr. rewrite forallb_forall in Hrecs. apply Hrecs.
    rewrite <- Hcat. apply in_concat. exists b. split; assumption. }
  assert (Hnn : Forall (fun b => forallb is_nil b = false) (pp_all_batches recs)).
  { rewrite Forall_forall in *. intros b Hb. destruct (Hinv b Hb) as [Hne _]. specialize (Hok b Hb).
    destruct b as [|r b]; [exfalso; now apply Hne|]. inversion Hok; subst. cbn [forallb].
    destruct (rec_ok_facts crlf r) as (Hr & _); [assumption|]. destruct r; [congruence|reflexivity]. }
  unfold read_pprint, read_lite, write_pprint_g. cbn [negb].
  rewrite (pp_texts_lines (ors_of crlf) (pp_batch_lines_g w right false) _ Hnn).
  rewrite lines_of_unlines by (now apply all_lines_ok).
  assert (Hb : strip_bom_first (sep_lines (pp_batch_lines_g w right false) (pp_all_batches recs))
               = sep_lines (pp_batch_lines_g w right false) (pp_all_batches recs)).
  { destruct recs as [|r0 rest]; [reflexivity|].
    destruct (pp_all_batches (r0 :: rest)) as [|b bs] eqn:E; [reflexivity|].
    assert (Hhd : hd [] b = r0).
    { assert (Hc : List.concat (b :: bs) = r0 :: rest) by exact Hcat. inversion Hinv as [|? ? [Hne _] _]; subst.
      destruct b as [|x b]; [congruence|]. cbn in Hc. now injection Hc. }
    destruct (Forall_inv Hinv) as [Hne Hj]. pose proof (Forall_inv Hok) as Hob.
    assert (Hs : forall t, strip_bom_first (pp_batch_lines_g w right false b ++ t) = pp_batch_lines_g w right false b ++ t).
    { intros t. rewrite (batch_lines w right crlf b (hd [] b) eq_refl Hne Hob). cbn [app strip_bom_first]. f_equal.
      apply strip_bom_head. rewrite Hhd.
      cbn [forallb] in Hrecs. apply andb_true_iff in Hrecs as [Hr0 _].
      destruct (rec_ok_facts crlf r0 Hr0) as (Hr0ne & _ & Hk & _).
      destruct (keys r0) as [|k ks] eqn:Ek; [destruct r0; [congruence|discriminate]|].
      cbn [forallb] in Hk. apply andb_true_iff in Hk as [Hk _]. unfold pp_key_ok in Hk.
      repeat (apply andb_true_iff in Hk as [Hk ?]). assert (Hkne : k <> []) by (destruct k; [discriminate|discriminate]).
      apply row_head_ef; [exact Hkne|]. destruct k as [|a k]; [congruence|].
      cbn [first_not_ef] in Hbom. cbn [head_is]. now apply negb_true_iff in Hbom. }
    destruct bs as [|b2 bs]; [cbn [sep_lines]; rewrite <- (app_nil_r (pp_batch_lines_g w right false b)); apply Hs|].
    change (sep_lines (pp_batch_lines_g w right false) (b :: b2 :: bs))
      with (pp_batch_lines_g w right false b ++ [[]] ++ sep_lines (pp_batch_lines_g w right false) (b2 :: bs)). apply Hs. }
  rewrite Hb. rewrite (read_batches w right crlf dedupe ragged) by assumption. now rewrite Hcat.
Qed.

(* "-" stands for the empty value: a value "-" comes back empty *)
Lemma pprint_dash_value_refuted :
  exists recs, forallb (fun r => negb (is_nil r) && nodupb (keys r)) recs = true
    /\ read_pprint true false (write_pprint_g (@List.length ascii) false false false false recs) <> Some recs.
Proof. exists [[(B "a", B "-")]]. split; [reflexivity|]. vm_compute. discriminate. Qed.

(* records are batched on their ","-joined keys: different key lists with equal joins share one header *)
Lemma pprint_comma_keys_refuted :
  exists recs, forallb (fun r => negb (is_nil r) && nodupb (keys r)) recs = true
    /\ read_pprint true false (write_pprint_g (@List.length ascii) false false false false recs) <> Some recs.
Proof. exists [[(B "a,b", B "1"); (B "c", B "2")]; [(B "a", B "3"); (B "b,c", B "4")]]. split; [reflexivity|]. vm_compute. discriminate. Qed.
