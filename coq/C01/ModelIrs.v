(* C01 custom record separators: pkg/input/line_reader.go SingleIRSLineReader / MultiIRSLineReader (--irs other than LF and
   CR LF; the multi-character reader as repaired in /repo a96f6ff95 and 3c48708b5) and the writers' ORS.  Definitions only. *)
From Miller Require Import Base.Bytes Base.Record C01.Model.
Open Scope char_scope.

(* lines end at the leftmost non-overlapping occurrences of the IRS; a final unterminated non-empty piece is a line;
   nothing is chomped *)
Definition drop_last_empty (ps : list bytes) : list bytes := match rev ps with [] :: r => rev r | _ => ps end.
Definition lines_irs (irs text : bytes) : list bytes := drop_last_empty (split_on irs text).
(* NewLineReader: LF and CR LF select the DefaultLineReader *)
Definition default_irs (irs : bytes) : bool := beqb irs [LF] || beqb irs [CR; LF].
Definition line_reader (irs text : bytes) : list bytes := if default_irs irs then lines_of text else lines_irs irs text.

Definition write_dkvp_ors (ofs ops ors : bytes) (recs : list record) : bytes := unlines ors (map (dkvp_line ofs ops) recs).
Definition read_dkvp_irs (irs ifs ips : bytes) (repifs dedupe : bool) (text : bytes) : list record :=
  map (fun l => dkvp_pairs ips dedupe 0 (field_split ifs repifs l) []) (line_reader irs text).
Definition write_nidx_ors (ofs ors : bytes) (recs : list record) : bytes := unlines ors (map (fun r => join ofs (values r)) recs).
Definition read_nidx_irs (irs ifs : bytes) (repifs : bool) (text : bytes) : list record :=
  map (fun l => nidx_fields 0 (field_split ifs repifs l) []) (line_reader irs text).
