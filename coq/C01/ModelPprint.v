(* C01 PPRINT in full (pkg/output/record_writer_pprint.go: left/right aligned, barred or not) and the readers
   that go with it: RecordReaderPprintBarredOrMarkdown (pkg/input/record_reader_pprint.go; shared by
   --barred-input and markdown input; the markdown instance -- own splitter, separator line only right after the
   header line -- is in ModelMd.v) and the
   implicit-header getter of the csvlite/PPRINT reader (getRecordBatchImplicitCSVHeader).
   Definitions only.  lib.DisplayWidth is the argument [w]; OFS is the space. *)
From Miller Require Import Base.Bytes Base.Record C01.Model C01.ModelXtab C01.ModelLite.
Open Scope char_scope.

Definition BAR : ascii := "|".
Definition spaces (n : nat) : bytes := repeat_bytes n [SP].
Definition head_is (c : ascii) (s : bytes) : bool := match s with x :: _ => eqc x c | [] => false end.
Definition last_is (c : ascii) (s : bytes) : bool := head_is c (rev s).

(* ---------------------------------------------------------------- writer, non-barred *)
(* writePadding before (right-aligned) or after (left-aligned) the text *)
Definition pp_pad (w : bytes -> nat) (right : bool) (wd : nat) (x : bytes) : bytes :=
  if right then spaces (wd - w x) ++ x else x ++ spaces (wd - w x).

(* --right: every cell, the last one too, is preceded by its padding; OFS between cells *)
Fixpoint pp_row_right (w : bytes -> nat) (widths : list nat) (cells : list bytes) : bytes :=
  match cells with
  | [] => []
  | x :: t => spaces (hd 0 widths - w x) ++ x ++ match t with [] => [] | _ => SP :: pp_row_right w (tl widths) t end
  end.
Definition pp_row_g (w : bytes -> nat) (right : bool) (widths : list nat) (cells : list bytes) : bytes :=
  if right then pp_row_right w widths cells else pp_row w widths cells.

(* writeHeterogenousListNonBarred: the ORS of a line is written with its last cell, so a record without
   fields (possible in a batch whose other records have the single key "") contributes nothing *)
Definition pp_batch_lines_g (w : bytes -> nat) (right headerless : bool) (batch : list record) : list bytes :=
  match batch with
  | [] => []
  | r0 :: _ =>
    if forallb is_nil batch then []
    else
      (if headerless || is_nil r0 then [] else [pp_row_g w right (map (pp_width w batch) (keys r0)) (keys r0)])
      ++ flat_map (fun r => if is_nil r then [] else [pp_row_g w right (map (pp_width w batch) (keys r)) (map pp_cell (values r))]) batch
  end.

(* ---------------------------------------------------------------- writer, barred (ASCII bars) *)
Definition with_ors {A} (ors : bytes) (cells : list A) (body : bytes) : bytes :=
  match cells with [] => [] | _ => body ++ ors end.
Definition bar_line (widths : list nat) : bytes :=
  B "+-" ++ join (B "-+-") (map (fun wd => repeat_bytes wd ["-"]) widths) ++ B "-+".
Definition barred_row (w : bytes -> nat) (right : bool) (widths : list nat) (cells : list bytes) : bytes :=
  B "| " ++ join (B " | ") (map (fun wx => pp_pad w right (fst wx) (snd wx)) (combine widths cells)) ++ B " |".
(* the opening "+-" / "| " is written before the loop over the fields, the rest and the ORS inside it *)
Definition bar_text (ors : bytes) (widths : list nat) : bytes :=
  match widths with [] => B "+-" | _ => bar_line widths ++ ors end.
Definition barred_row_text (w : bytes -> nat) (right : bool) (ors : bytes) (widths : list nat) (cells : list bytes) : bytes :=
  match cells with [] => B "| " | _ => barred_row w right widths cells ++ ors end.
(* writeHeterogenousListBarred: "" is NOT rewritten to "-" here *)
Definition barred_batch_text (w : bytes -> nat) (right headerless : bool) (ors : bytes) (batch : list record) : bytes :=
  match batch with
  | [] => []
  | r0 :: _ =>
    if forallb is_nil batch then []
    else
      let wds := fun r : record => map (pp_width w batch) (keys r) in
      (if headerless then []
       else bar_text ors (wds r0) ++ barred_row_text w right ors (wds r0) (keys r0) ++ bar_text ors (wds r0))
      ++ List.concat (map (fun r => barred_row_text w right ors (wds r) (values r)) batch)
      ++ bar_text ors (wds (last batch r0))
  end.

(* RecordWriterPPRINT.Write: a batch that wrote something and is followed by another one is followed by an ORS *)
Fixpoint pp_texts (f : list record -> bytes) (ors : bytes) (bs : list (list record)) : bytes :=
  match bs with
  | [] => []
  | [b] => f b
  | b :: t => f b ++ (if forallb is_nil b then [] else ors) ++ pp_texts f ors t
  end.
Definition write_pprint_g (w : bytes -> nat) (right barred headerless crlf : bool) (recs : list record) : bytes :=
  let ors := ors_of crlf in
  pp_texts (fun b => if barred then barred_batch_text w right headerless ors b
                     else unlines ors (pp_batch_lines_g w right headerless b)) ors (pp_all_batches recs).

(* ---------------------------------------------------------------- strings.TrimSpace
   leading and trailing Unicode White_Space runes: the six ASCII ones, U+0085, U+00A0, U+1680, U+2000..U+200A,
   U+2028, U+2029, U+202F, U+205F, U+3000 (a rune counts only when it is a complete, valid UTF-8 encoding) *)
Definition ascii_space (c : ascii) : bool := let n := code c in ((9 <=? n) && (n <=? 13) || (n =? 32))%N.
Definition uws2 (a b : N) : bool := ((a =? 194) && ((b =? 133) || (b =? 160)))%N.
Definition uws3 (a b c : N) : bool :=
  (((a =? 225) && (b =? 154) && (c =? 128))
   || ((a =? 226) && (b =? 128) && (((128 <=? c) && (c <=? 138)) || (c =? 168) || (c =? 169) || (c =? 175)))
   || ((a =? 226) && (b =? 129) && (c =? 159))
   || ((a =? 227) && (b =? 128) && (c =? 128)))%N.
(* number of bytes of a white-space rune at the head of s; 0: none *)
Definition ws_head (s : bytes) : nat :=
  match s with
  | [] => 0
  | a :: t =>
    if ascii_space a then 1
    else match t with
         | [] => 0
         | b :: t' => if uws2 (code a) (code b) then 2
                      else match t' with c :: _ => if uws3 (code a) (code b) (code c) then 3 else 0 | [] => 0 end
         end
  end.
(* the same for the END of the string, given reversed (utf8.DecodeLastRuneInString) *)
Definition ws_head_rev (s : bytes) : nat :=
  match s with
  | [] => 0
  | a :: t =>
    if ascii_space a then 1
    else match t with
         | [] => 0
         | b :: t' => if uws2 (code b) (code a) then 2
                      else match t' with c :: _ => if uws3 (code c) (code b) (code a) then 3 else 0 | [] => 0 end
         end
  end.
Fixpoint trim_go (head : bytes -> nat) (skip : nat) (s : bytes) : bytes :=
  match s with
  | [] => []
  | _ :: t => match skip with
              | S k => trim_go head k t
              | O => match head s with O => s | S k => trim_go head k t end
              end
  end.
Definition trim_space (s : bytes) : bytes := rev (trim_go ws_head_rev 0 (rev (trim_go ws_head 0 s))).

(* ---------------------------------------------------------------- RecordReaderPprintBarredOrMarkdown *)
(* separatorMatcher: `^\+[-+]*\+$` (barred PPRINT; the markdown one is in ModelMd.v) *)
Definition sep_barred (s : bytes) : bool :=
  Nat.leb 2 (List.length s) && head_is "+" s && last_is "+" s && forallb (fun c => eqc c "+" || eqc c "-") s.
Definition middle {A} (l : list A) : list A := removelast (tl l).

(* getRecordBatchExplicitPprintHeader / getRecordBatchImplicitPprintHeader (IFS "|", no repeats; fields trimmed;
   no BOM stripping; a line with fewer than two pieces is skipped -- in the implicit-header getter since the
   repair "fix: --barred-input/--imd with --implicit-pprint-header skip a line without bars instead of panicking") *)
Fixpoint barred_read_go (is_sep : bytes -> bool) (implicit dedupe ragged : bool)
         (hdr : option (list bytes)) (ls : list bytes) : option (list record) :=
  match ls with
  | [] => Some []
  | l :: t =>
    if is_nil l then barred_read_go is_sep implicit dedupe ragged None t
    else if is_sep l then barred_read_go is_sep implicit dedupe ragged hdr t
    else
      let padded := field_split [BAR] false l in
      if Nat.ltb (List.length padded) 2 then barred_read_go is_sep implicit dedupe ragged hdr t
      else
        let fields := map trim_space (middle padded) in
        match hdr with
        | None =>
          if implicit then
            let hs := positional_keys (List.length fields) in
            match barred_read_go is_sep implicit dedupe ragged (Some hs) t with
            | None => None
            | Some rs => Some (attach dedupe true 0 hs fields [] :: rs)
            end
          else barred_read_go is_sep implicit dedupe ragged (Some fields) t
        | Some hs =>
          if Nat.eqb (List.length hs) (List.length fields) || ragged then
            match barred_read_go is_sep implicit dedupe ragged (Some hs) t with
            | None => None
            | Some rs => Some (attach dedupe true 0 hs fields [] :: rs)
            end
          else None
        end
  end.
Definition read_barred (is_sep : bytes -> bool) (implicit dedupe ragged : bool) (text : bytes) : option (list record) :=
  barred_read_go is_sep implicit dedupe ragged None (lines_of text).
Definition read_pprint_barred := read_barred sep_barred.

(* ---------------------------------------------------------------- getRecordBatchImplicitCSVHeader (csvlite, PPRINT)
   no BOM stripping; the line is right-trimmed of the IRS bytes and of CR; every non-blank line is a record; the
   void representation is mapped on ragged extras too *)
Fixpoint trim_right_set_rev (set : bytes) (r : bytes) : bytes :=
  match r with c :: t => if memc c set then trim_right_set_rev set t else r | [] => [] end.
Definition trim_right_set (set s : bytes) : bytes := rev (trim_right_set_rev set (rev s)).
Fixpoint lite_read_implicit_go (ifs : bytes) (repifs : bool) (void : option bytes) (dedupe ragged : bool) (irs : bytes)
         (hdr : option (list bytes)) (ls : list bytes) : option (list record) :=
  match ls with
  | [] => Some []
  | l0 :: t =>
    let l := trim_right_set [CR] (trim_right_set irs l0) in
    if is_nil l then lite_read_implicit_go ifs repifs void dedupe ragged irs None t
    else
      let fs := field_split ifs repifs l in
      let hs := match hdr with None => positional_keys (List.length fs) | Some h => h end in
      if Nat.eqb (List.length hs) (List.length fs) || ragged then
        match lite_read_implicit_go ifs repifs void dedupe ragged irs (Some hs) t with
        | None => None
        | Some rs => Some (attach dedupe true 0 hs (map (void_map void) fs) [] :: rs)
        end
      else None
  end.
Definition read_lite_implicit (ifs : bytes) (repifs : bool) (void : option bytes) (dedupe ragged : bool) (text : bytes) : option (list record) :=
  lite_read_implicit_go ifs repifs void dedupe ragged [LF] None (lines_of text).
Definition read_csvlite_implicit (ifs : bytes) (dedupe ragged : bool) (text : bytes) := read_lite_implicit ifs false None dedupe ragged text.
Definition read_pprint_implicit (dedupe ragged : bool) (text : bytes) := read_lite_implicit [SP] true (Some ["-"]) dedupe ragged text.
