(* C01 csvlite and PPRINT: pkg/output/record_writer_csvlite.go, record_writer_pprint.go (non-barred, left-aligned),
   and pkg/input/record_reader_csvlite.go getRecordBatchExplicitCSVHeader, which reads both formats
   (PPRINT: repeated IFS allowed, "-" stands for the empty value). *)
From Miller Require Import Base.Bytes Base.Record C01.Model C01.ModelXtab.
Open Scope char_scope.

(* ---------------------------------------------------------------- csvlite writer: lines, each followed by ORS.
   State: the joined keys ("," as glue) of the previous record, and "just wrote an empty line". *)
Fixpoint csvlite_lines (ofs : bytes) (headerless : bool) (last : option bytes) (jwel : bool) (recs : list record) : list bytes :=
  match recs with
  | [] => []
  | r :: t =>
    if is_nil r then (if jwel then [] else [[]]) ++ csvlite_lines ofs headerless (Some []) true t
    else
      let j := join [","] (keys r) in
      let changed := match last with None => true | Some l => negb (beqb l j) end in
      let sep := match last with Some _ => if changed && negb jwel then [[]] else [] | None => [] end in
      let hdr := if changed && negb headerless then [join ofs (keys r)] else [] in
      sep ++ hdr ++ [join ofs (values r)] ++ csvlite_lines ofs headerless (Some j) false t
  end.
Definition write_csvlite (ofs : bytes) (headerless crlf : bool) (recs : list record) : bytes :=
  unlines (ors_of crlf) (csvlite_lines ofs headerless None false recs).

(* ---------------------------------------------------------------- the shared reader *)
Definition void_map (void : option bytes) (f : bytes) : bytes :=
  match void with Some v => if beqb f v then [] else f | None => f end.
Fixpoint lite_read_go (ifs : bytes) (repifs : bool) (void : option bytes) (dedupe ragged : bool)
         (hdr : option (list bytes)) (ls : list bytes) : option (list record) :=
  match ls with
  | [] => Some []
  | l :: t =>
    if is_nil l then lite_read_go ifs repifs void dedupe ragged None t      (* blank line: schema change *)
    else
      let fs := field_split ifs repifs l in
      match hdr with
      | None => lite_read_go ifs repifs void dedupe ragged (Some fs) t
      | Some hs =>
        if Nat.eqb (List.length hs) (List.length fs) || ragged then
          (* "-" -> "" only for the fields under the header; ragged extras are taken as they are *)
          let fs' := map (void_map void) (firstn (List.length hs) fs) ++ skipn (List.length hs) fs in
          match lite_read_go ifs repifs void dedupe ragged (Some hs) t with
          | None => None
          | Some rs => Some (attach dedupe true 0 hs fs' [] :: rs)
          end
        else None
      end
  end.
Definition strip_bom_first (ls : list bytes) : list bytes := match ls with l :: t => strip_bom l :: t | [] => [] end.
Definition read_lite (ifs : bytes) (repifs : bool) (void : option bytes) (dedupe ragged : bool) (text : bytes) : option (list record) :=
  lite_read_go ifs repifs void dedupe ragged None (strip_bom_first (lines_of text)).
Definition read_csvlite (ifs : bytes) (dedupe ragged : bool) (text : bytes) := read_lite ifs false None dedupe ragged text.
Definition read_pprint (dedupe ragged : bool) (text : bytes) := read_lite [SP] true (Some ["-"]) dedupe ragged text.

(* ---------------------------------------------------------------- PPRINT writer (non-barred, left-aligned, OFS = space).
   Write batches consecutive records with the same joined keys; writeHeterogenousList computes the column widths
   (lib.DisplayWidth is the parameter w), prints the header once, pads every cell but the last, "" becomes "-". *)
Definition pp_cell (s : bytes) : bytes := match s with [] => ["-"] | _ => s end.
Definition pp_width (w : bytes -> nat) (batch : list record) (k : bytes) : nat :=
  let vw := fold_left (fun m r => match get k r with Some v => Nat.max m (Nat.max 1 (w v)) | None => m end) batch 0 in
  Nat.max vw (w k).
Fixpoint pp_row (w : bytes -> nat) (widths : list nat) (cells : list bytes) : bytes :=
  match cells, widths with
  | [], _ => []
  | [x], _ => x
  | x :: t, wd :: wt => x ++ repeat_bytes (wd - w x) [SP] ++ [SP] ++ pp_row w wt t
  | x :: t, [] => x ++ [SP] ++ pp_row w [] t
  end.
Definition pp_batch_lines (w : bytes -> nat) (headerless : bool) (batch : list record) : list bytes :=
  match batch with
  | [] => []
  | r0 :: _ =>
    if forallb is_nil batch then []       (* maxNR = 0: nothing is written *)
    else
      (if headerless then [] else [pp_row w (map (pp_width w batch) (keys r0)) (keys r0)])
      ++ map (fun r => pp_row w (map (pp_width w batch) (keys r)) (map pp_cell (values r))) batch
  end.
(* group consecutive records by joined keys *)
Fixpoint pp_batches (cur : list record) (curj : bytes) (recs : list record) : list (list record) :=
  match recs with
  | [] => [rev cur]
  | r :: t => let j := join [","] (keys r) in
              if beqb j curj then pp_batches (r :: cur) curj t else rev cur :: pp_batches [r] j t
  end.
Definition pp_all_batches (recs : list record) : list (list record) :=
  match recs with [] => [] | r :: t => pp_batches [r] (join [","] (keys r)) t end.
(* a non-empty batch that is followed by another one is followed by an ORS (blank line) *)
Fixpoint pp_lines (w : bytes -> nat) (headerless : bool) (bs : list (list record)) : list bytes :=
  match bs with
  | [] => []
  | [b] => pp_batch_lines w headerless b
  | b :: t => let ls := pp_batch_lines w headerless b in
              ls ++ (match ls with [] => [] | _ => [[]] end) ++ pp_lines w headerless t
  end.
Definition write_pprint (w : bytes -> nat) (headerless crlf : bool) (recs : list record) : bytes :=
  unlines (ors_of crlf) (pp_lines w headerless (pp_all_batches recs)).
