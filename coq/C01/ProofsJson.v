(* JSON: the RFC-8259 reference reader recovers every string-valued record stream from Miller's JSON / JSON Lines
   output (single-line and multi-line layout, with and without the outer list). *)
From Miller Require Import Base.Bytes Base.Record C01.Model C01.ModelJson C01.ProofsUtil C01.ProofsTsv.
Open Scope char_scope.

Lemma jrun_cons s c t : jrun s (c :: t) = match jstep s c with Some s' => jrun s' t | None => None end.
Proof. reflexivity. Qed.

(* one escaped character is read back as that character: all 256 bytes *)
Lemma esc_char c ia ik acc key rec recs rest :
  jrun (mkJ JS ia ik acc key rec recs) (json_esc c ++ rest) = jrun (mkJ JS ia ik (c :: acc) key rec recs) rest.
Proof. destruct c as [[] [] [] [] [] [] [] []]; reflexivity. Qed.

Lemma str_body s : forall ia ik acc key rec recs rest,
  jrun (mkJ JS ia ik acc key rec recs) (flat_map json_esc s ++ rest) = jrun (mkJ JS ia ik (rev s ++ acc) key rec recs) rest.
Proof.
  induction s as [|c s IH]; intros; [reflexivity|].
  cbn [flat_map rev]. rewrite <- !app_assoc. rewrite esc_char, IH. reflexivity.
Qed.

Definition memb_start (m : jmode) : Prop := m = JO0 \/ m = JO2.

Lemma mid_run ia acc rec recs t :
  jrun (mkJ JS ia true acc [] rec recs) (DQ :: ":" :: " " :: DQ :: t) = jrun (mkJ JS ia false [] (rev acc) rec recs) t.
Proof. reflexivity. Qed.

Lemma end_run ia acc k rec recs t :
  jrun (mkJ JS ia false acc k rec recs) (DQ :: t) = jrun (mkJ JO1 ia false [] [] (put k (rev acc) rec) recs) t.
Proof. reflexivity. Qed.

Lemma pair_run m ia rec recs kv rest :
  memb_start m ->
  jrun (mkJ m ia false [] [] rec recs) (json_pair kv ++ rest)
  = jrun (mkJ JO1 ia false [] [] (put (fst kv) (snd kv) rec) recs) rest.
Proof.
  destruct kv as [k v]. intros Hm. unfold json_pair, json_string. cbn [fst snd].
  assert (H1 : forall t, jrun (mkJ m ia false [] [] rec recs) (DQ :: t) = jrun (mkJ JS ia true [] [] rec recs) t).
  { intros t. destruct Hm as [-> | ->]; reflexivity. }
  cbn [app]. rewrite H1. rewrite <- !app_assoc. rewrite str_body. rewrite app_nil_r.
  change (B ": ") with [":"; " "]. cbn [app]. rewrite mid_run, rev_involutive.
  rewrite <- ?app_assoc. rewrite str_body, app_nil_r. cbn [app]. rewrite end_run. now rewrite rev_involutive.
Qed.

(* whitespace is skipped in every structural state *)
Definition ws_mode (m : jmode) : bool :=
  match m with JT0 | JA0 | JA1 | JA2 | JO0 | JO1 | JO2 | JC | JV0 => true | _ => false end.
Lemma ws_skip w : forall s rest, ws_mode (j_mode s) = true -> forallb json_ws w = true -> jrun s (w ++ rest) = jrun s rest.
Proof.
  induction w as [|c w IH]; intros s rest Hm Hw; [reflexivity|].
  cbn [forallb] in Hw. apply andb_true_iff in Hw as [Hc Hw]. cbn [app]. rewrite jrun_cons.
  assert (Hs : jstep s c = Some s). { unfold jstep. destruct (j_mode s); try discriminate; now rewrite Hc. }
  rewrite Hs. now apply IH.
Qed.

Definition puts (r : record) (acc : record) : record := fold_left (fun a kv => put (fst kv) (snd kv) a) r acc.

Lemma put_new k v r : has k r = false -> put k v r = r ++ [(k, v)].
Proof.
  unfold has. induction r as [|[k2 v2] r IH]; cbn; [reflexivity|].
  destruct (beqb k k2); [discriminate|]. intros H. now rewrite IH.
Qed.

Lemma puts_nodup r : forall acc, NoDup (keys acc ++ keys r) -> puts r acc = acc ++ r.
Proof.
  induction r as [|[k v] r IH]; intros acc H; [cbn; now rewrite app_nil_r|].
  cbn [puts fold_left fst snd]. fold (puts r (put k v acc)).
  assert (Hh : has k acc = false).
  { apply has_false_notin. intros Hin. cbn [keys map fst] in H. apply NoDup_remove_2 in H. apply H. apply in_or_app. now left. }
  rewrite put_new by assumption. rewrite IH; [now rewrite <- app_assoc|].
  unfold keys in *. rewrite map_app. cbn [map fst] in *. now rewrite <- app_assoc.
Qed.

(* the members of an object, separated by a comma and any whitespace *)
Lemma entries_run sep r : forall m ia rec recs rest,
  r <> [] -> memb_start m -> forallb json_ws sep = true ->
  jrun (mkJ m ia false [] [] rec recs) (join ("," :: sep) (map json_pair r) ++ rest)
  = jrun (mkJ JO1 ia false [] [] (puts r rec) recs) rest.
Proof.
  induction r as [|kv r IH]; intros m ia rec recs rest Hne Hm Hsep; [congruence|].
  destruct r as [|kv2 r].
  - cbn [map join]. now rewrite pair_run.
  - cbn [map]. rewrite join_cons2. rewrite <- !app_assoc. rewrite pair_run by assumption.
    cbn [app]. rewrite jrun_cons. cbn [jstep j_mode]. replace (json_ws ",") with false by reflexivity.
    replace (eqc "," ",") with true by reflexivity. unfold j_set. cbn [j_inarr j_iskey j_acc j_key j_rec j_recs].
    rewrite ws_skip by (auto; reflexivity).
    change (json_pair kv2 :: map json_pair r) with (map json_pair (kv2 :: r)).
    rewrite IH; [reflexivity|discriminate|now right|assumption].
Qed.

(* an object with arbitrary whitespace after "{", after each ",", and before "}" *)
Definition gen_obj (pre sep post : bytes) (r : record) : bytes :=
  "{" :: (match r with [] => [] | _ => pre ++ join ("," :: sep) (map json_pair r) ++ post end) ++ ["}"].

Definition obj_start (m : jmode) (ia : bool) : Prop := (m = JT0 /\ ia = false) \/ ((m = JA0 \/ m = JA2) /\ ia = true).

Lemma obj_run pre sep post r s ia rest :
  obj_start (j_mode s) ia ->
  forallb json_ws pre = true -> forallb json_ws sep = true -> forallb json_ws post = true ->
  jrun s (gen_obj pre sep post r ++ rest)
  = jrun (mkJ (if ia then JA1 else JT0) ia false [] [] [] (puts r [] :: j_recs s)) rest.
Proof.
  intros Hs Hpre Hsep Hpost. unfold gen_obj. cbn [app]. rewrite jrun_cons.
  assert (Hopen : jstep s "{" = Some (mkJ JO0 ia false [] [] [] (j_recs s))).
  { unfold jstep. destruct Hs as [[-> ->]|[[-> | ->] ->]]; reflexivity. }
  rewrite Hopen. destruct r as [|kv r].
  - cbn [app]. rewrite jrun_cons. reflexivity.
  - rewrite <- !app_assoc. rewrite ws_skip by (auto; reflexivity).
    rewrite entries_run; [|discriminate|now left|assumption].
    rewrite ws_skip by (auto; reflexivity). cbn [app]. rewrite jrun_cons. reflexivity.
Qed.

Lemma single_is_gen r : json_obj_single r = gen_obj [] [SP] [] r.
Proof. unfold json_obj_single, gen_obj. destruct r; [reflexivity|]. now rewrite app_nil_r. Qed.

Lemma multi_entries_join r : r <> [] ->
  json_multi_entries r = [SP; SP] ++ join ("," :: [LF; SP; SP]) (map json_pair r) ++ [LF].
Proof.
  induction r as [|kv r IH]; intros Hne; [congruence|]. destruct r as [|kv2 r].
  - cbn [json_multi_entries map join]. rewrite !app_nil_r. reflexivity.
  - cbn [map]. rewrite join_cons2. change (json_multi_entries (kv :: kv2 :: r))
      with (B "  " ++ json_pair kv ++ [","] ++ [LF] ++ json_multi_entries (kv2 :: r)).
    rewrite IH by discriminate. change (B "  ") with [SP; SP].
    change (json_pair kv2 :: map json_pair r) with (map json_pair (kv2 :: r)).
    rewrite <- !app_assoc. reflexivity.
Qed.

Lemma multi_is_gen r : json_obj_multi r = gen_obj [LF; SP; SP] [LF; SP; SP] [LF] r.
Proof.
  unfold json_obj_multi, gen_obj. destruct r as [|kv r]; [reflexivity|].
  rewrite multi_entries_join by discriminate. rewrite <- !app_assoc. reflexivity.
Qed.

Lemma json_obj_run ml r s ia rest :
  obj_start (j_mode s) ia ->
  jrun s (json_obj ml r ++ rest) = jrun (mkJ (if ia then JA1 else JT0) ia false [] [] [] (puts r [] :: j_recs s)) rest.
Proof.
  intros Hs. unfold json_obj. destruct ml; [rewrite multi_is_gen|rewrite single_is_gen]; now apply obj_run.
Qed.

Definition T0 (recs : list record) : jst := mkJ JT0 false false [] [] [] recs.

Lemma run_lines ml rs : forall recs,
  jrun (T0 recs) (List.concat (map (fun r => json_obj ml r ++ [LF]) rs)) = Some (rev recs ++ map (fun r => puts r []) rs).
Proof.
  induction rs as [|r rs IH]; intros recs; [cbn; now rewrite app_nil_r|].
  cbn [map List.concat]. rewrite <- app_assoc. rewrite (json_obj_run ml r (T0 recs) false) by (left; split; reflexivity).
  cbn [app]. rewrite jrun_cons. cbn [jstep j_mode j_recs T0]. replace (json_ws LF) with true by reflexivity.
  fold (T0 (puts r [] :: recs)). rewrite IH. cbn [rev]. now rewrite <- app_assoc.
Qed.

Lemma sep_run recs t :
  jrun (mkJ JA1 true false [] [] [] recs) ("," :: LF :: t) = jrun (mkJ JA2 true false [] [] [] recs) t.
Proof. reflexivity. Qed.
Lemma open_run recs t : jrun (T0 recs) ("[" :: LF :: t) = jrun (mkJ JA0 false false [] [] [] recs) t.
Proof. reflexivity. Qed.
Lemma close_run recs : jrun (mkJ JA1 true false [] [] [] recs) (LF :: "]" :: LF :: []) = Some (rev recs).
Proof. reflexivity. Qed.

(* inside the outer list: objects separated by ",\n" *)
Lemma run_list_items ml rs : forall s recs rest,
  rs <> [] -> (j_mode s = JA0 \/ j_mode s = JA2) -> j_recs s = recs ->
  jrun s (join ("," :: [LF]) (map (json_obj ml) rs) ++ rest)
  = jrun (mkJ JA1 true false [] [] [] (rev (map (fun r => puts r []) rs) ++ recs)) rest.
Proof.
  induction rs as [|r rs IH]; intros s recs rest Hne Hm Hr; [congruence|].
  destruct rs as [|r2 rs].
  - cbn [map join]. rewrite (json_obj_run ml r _ true) by (right; split; [exact Hm|reflexivity]). now rewrite Hr.
  - cbn [map]. rewrite join_cons2. rewrite <- !app_assoc.
    rewrite (json_obj_run ml r _ true) by (right; split; [exact Hm|reflexivity]).
    cbn [app]. rewrite sep_run.
    change (json_obj ml r2 :: map (json_obj ml) rs) with (map (json_obj ml) (r2 :: rs)).
    rewrite (IH _ (puts r [] :: j_recs s)); [|discriminate|now right|reflexivity].
    rewrite Hr. cbn [map rev]. now rewrite <- !app_assoc.
Qed.

Lemma json_reads_puts ml wrap recs :
  read_json_ref (write_json ml wrap recs) = Some (map (fun r => puts r []) recs).
Proof.
  unfold read_json_ref, write_json. destruct wrap.
  - destruct recs as [|r0 rest]; [reflexivity|].
    change (B "[" ++ [LF] ++ join ("," :: [LF]) (map (json_obj ml) (r0 :: rest)) ++ [LF] ++ B "]" ++ [LF])
      with ("[" :: LF :: (join ("," :: [LF]) (map (json_obj ml) (r0 :: rest)) ++ (LF :: "]" :: LF :: []))).
    fold (T0 []). rewrite open_run.
    rewrite (run_list_items ml (r0 :: rest) _ []); [|discriminate|now left|reflexivity].
    rewrite close_run. now rewrite app_nil_r, rev_involutive.
  - fold (T0 []). now rewrite run_lines.
Qed.

Lemma json_roundtrip ml wrap recs :
  forallb (fun r => nodupb (keys r)) recs = true ->
  read_json_ref (write_json ml wrap recs) = Some recs.
Proof.
  intros H. rewrite json_reads_puts. f_equal. rewrite <- (map_id recs) at 2. apply map_ext_in.
  intros r Hr. rewrite forallb_forall in H. specialize (H r Hr).
  rewrite puts_nodup; [reflexivity|]. cbn. now apply nodupb_NoDup.
Qed.

(* the string clause on its own: the reference decoder reads millerJSONEncodeString's output back, for ALL bytes *)
Definition ref_decode_string (t : bytes) : option bytes :=
  match read_json_ref ("{" :: json_string [] ++ B ": " ++ t ++ ["}"; LF]) with
  | Some [[(_, v)]] => Some v
  | _ => None
  end.

Lemma json_string_decodes s : ref_decode_string (json_string s) = Some s.
Proof.
  unfold ref_decode_string.
  assert (E : "{" :: json_string [] ++ B ": " ++ json_string s ++ ["}"; LF] = write_json false false [[([], s)]]).
  { unfold write_json, json_obj, json_obj_single, json_pair. cbn [map List.concat join fst snd].
    rewrite app_nil_r. cbn [app]. f_equal. rewrite <- !app_assoc. reflexivity. }
  rewrite E. now rewrite (json_roundtrip false false [[([], s)]] eq_refl).
Qed.
