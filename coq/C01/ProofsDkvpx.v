(* DKVPX: writer then reader is the identity.  The reader is the character-level machine of ModelDkvpx
   (pkg/dkvpx/dkvpx_reader.go readLine + readRecord, repaired in /repo 567ffc2e0). *)
From Miller Require Import Base.Bytes Base.Record C01.Model C01.ModelDkvpx C01.ProofsUtil C01.ProofsTsv C01.ProofsDkvp C01.ProofsCsv.
Open Scope char_scope.

Lemma containsb_single c s : containsb [c] s = memc c s.
Proof.
  induction s as [|x s IH]; [reflexivity|]. cbn [containsb prefixb memc existsb]. rewrite IH.
  rewrite andb_true_r. unfold memc, eqc. reflexivity.
Qed.

Lemma put_absent k v r : has k r = false -> put k v r = r ++ [(k, v)].
Proof.
  unfold has. induction r as [|[k' v'] r IH]; intros H; [reflexivity|]. cbn [put get] in *.
  destruct (beqb k k') eqn:E.
  - discriminate.
  - cbn [app]. f_equal. apply IH. exact H.
Qed.

Section Dx.
Variables (comma eq : ascii).
Hypothesis Hcomma : comma_ok comma = true.
Hypothesis Heq : comma_ok eq = true.
Hypothesis Hne : eqc comma eq = false.

Notation run := (dx_run comma eq).
Notation step := (dx_step comma eq).

Lemma sep_facts k : comma_ok k = true -> eqc k DQ = false /\ eqc k CR = false /\ eqc k LF = false.
Proof. unfold comma_ok. intros H. repeat (apply andb_true_iff in H as [H ?]). repeat split; now apply negb_true_iff. Qed.

(* pushing a whole cell *)
Definition pushall (f : bytes) (st : dxs) : dxs := fold_left (fun s c => dx_push c s) f st.

Lemma run_inq_dqdq st t : dx_inq st = true -> run st (DQ :: DQ :: t) = run (dx_push DQ st) t.
Proof. intros H. cbn [dx_run]. rewrite H. reflexivity. Qed.
Lemma run_inq_close st d t : dx_inq st = true -> eqc d DQ = false -> run st (DQ :: d :: t) = run (dx_set_inq false st) (d :: t).
Proof. intros H Hd. cbn [dx_run]. rewrite H. change (eqc DQ DQ) with true. cbn [andb]. now rewrite Hd. Qed.
Lemma run_inq_char st c t : dx_inq st = true -> eqc c DQ = false -> eqc c CR = false -> run st (c :: t) = run (dx_push c st) t.
Proof. intros H H1 H2. cbn [dx_run]. rewrite H, H1, H2. cbn [andb]. unfold dx_step. now rewrite H. Qed.
Lemma run_inq_cr st d t : dx_inq st = true -> eqc d LF = false -> run st (CR :: d :: t) = run (dx_push CR st) (d :: t).
Proof. intros H Hd. cbn [dx_run]. rewrite H. change (eqc CR DQ) with false. change (eqc CR CR) with true. cbn [andb]. rewrite Hd.
  unfold dx_step. now rewrite H. Qed.
Lemma run_out_char st c t : dx_inq st = false -> eqc c CR = false ->
  run st (c :: t) = snd (step st c) ++ run (fst (step st c)) t.
Proof. intros H Hc. cbn [dx_run]. rewrite H, Hc. cbn [andb]. now destruct (step st c). Qed.
Lemma run_out_crlf st t : dx_inq st = false -> run st (CR :: LF :: t) = snd (step st LF) ++ run (fst (step st LF)) t.
Proof. intros H. cbn [dx_run]. rewrite H. change (eqc CR CR) with true. change (eqc LF LF) with true. cbn [andb]. now destruct (step st LF). Qed.
Lemma step_lf st : dx_inq st = false -> step st LF = (dx_init, [dx_finish st]).
Proof. intros H. unfold dx_step. now rewrite H. Qed.

(* ---- inside quotes *)
Lemma run_body f : forall st rest, dx_inq st = true -> no_crlf f = true ->
  run st (quote_body false f ++ DQ :: rest) = run (pushall f st) (DQ :: rest) /\ dx_inq (pushall f st) = true.
Proof.
  induction f as [|c f IH]; intros st rest Hq Hn; [split; [reflexivity|exact Hq]|].
  cbn [no_crlf] in Hn. apply andb_true_iff in Hn as [Hc Hn]. apply negb_true_iff in Hc.
  assert (Hpq : forall x, dx_inq (dx_push x st) = true) by (intros x; unfold dx_push; destruct (dx_hk st); exact Hq).
  cbn [pushall fold_left]. fold (pushall f (dx_push c st)).
  destruct (eqc c DQ) eqn:Ed.
  - apply eqc_eq in Ed. subst c. change (quote_body false (DQ :: f)) with (DQ :: DQ :: quote_body false f).
    cbn [app]. rewrite run_inq_dqdq by exact Hq. now apply IH.
  - destruct (eqc c CR) eqn:Er.
    + apply eqc_eq in Er. subst c. change (quote_body false (CR :: f)) with (CR :: quote_body false f). cbn [app].
      assert (Hnext : exists d t, quote_body false f ++ DQ :: rest = d :: t /\ eqc d LF = false).
      { destruct f as [|d f].
        - exists DQ, rest. split; reflexivity.
        - cbn [andb] in Hc. destruct (eqc d DQ) eqn:E1.
          + apply eqc_eq in E1. subst d. exists DQ. eexists. split; [reflexivity|reflexivity].
          + destruct (eqc d CR) eqn:E2.
            * apply eqc_eq in E2. subst d. eexists CR, _. split; [reflexivity|reflexivity].
            * destruct (eqc d LF) eqn:E3; [discriminate|]. eexists d, _. split; [|exact E3].
              cbn [quote_body]. rewrite E1, E2, E3. reflexivity. }
      destruct Hnext as (d & t & Ht & Hd). rewrite Ht. rewrite run_inq_cr by assumption. rewrite <- Ht.
      now apply IH.
    + assert (Hb : quote_body false (c :: f) = c :: quote_body false f).
      { cbn [quote_body]. rewrite Ed, Er. destruct (eqc c LF) eqn:El; [apply eqc_eq in El; subst c; reflexivity|reflexivity]. }
      rewrite Hb. cbn [app]. rewrite run_inq_char by assumption. now apply IH.
Qed.

(* ---- outside quotes *)
Definition dplain (f : bytes) : bool :=
  forallb (fun c => negb (eqc c LF || eqc c CR || eqc c DQ) && negb (eqc c comma) && negb (eqc c eq)) f.

Lemma needs_false_plain f : dx_needs [comma] [eq] f = false -> dplain f = true.
Proof.
  unfold dx_needs. rewrite !containsb_single. intros H. apply orb_false_iff in H as [H He]. apply orb_false_iff in H as [H Hc].
  unfold dplain. rewrite forallb_forall. intros c Hin.
  assert (H1 : (eqc c LF || eqc c CR || eqc c DQ) = false).
  { destruct (eqc c LF || eqc c CR || eqc c DQ) eqn:E; [|reflexivity]. 
    assert (existsb (fun c => eqc c LF || eqc c CR || eqc c DQ) f = true) by (apply existsb_exists; eauto). congruence. }
  assert (H2 : eqc c comma = false).
  { destruct (eqc c comma) eqn:E; [|reflexivity]. apply eqc_eq in E. subst c.
    assert (memc comma f = true) by (now apply memc_In). congruence. }
  assert (H3 : eqc c eq = false).
  { destruct (eqc c eq) eqn:E; [|reflexivity]. apply eqc_eq in E. subst c.
    assert (memc eq f = true) by (now apply memc_In). congruence. }
  now rewrite H1, H2, H3.
Qed.

Lemma run_plain f : forall st rest, dx_inq st = false -> dplain f = true ->
  run st (f ++ rest) = run (pushall f st) rest /\ dx_inq (pushall f st) = false.
Proof.
  induction f as [|c f IH]; intros st rest Hq Hp; [split; [reflexivity|exact Hq]|].
  cbn [dplain forallb] in Hp. apply andb_true_iff in Hp as [Hc Hp]. apply andb_true_iff in Hc as [Hc He].
  apply andb_true_iff in Hc as [Hc Hk]. apply negb_true_iff in Hc, Hk, He.
  apply orb_false_iff in Hc as [Hc Hd]. apply orb_false_iff in Hc as [Hl Hr].
  assert (Hpq : dx_inq (dx_push c st) = false) by (unfold dx_push; destruct (dx_hk st); exact Hq).
  cbn [app pushall fold_left]. fold (pushall f (dx_push c st)).
  rewrite run_out_char by assumption.
  assert (Hs : step st c = (dx_push c st, [])) by (unfold dx_step; now rewrite Hq, Hd, Hl, Hk, He).
  rewrite Hs. cbn [fst snd app]. now apply IH.
Qed.

(* ---- one cell as the writer formats it, followed by a byte that is not a quote *)
Lemma run_field f st d rest : dx_inq st = false -> no_crlf f = true -> eqc d DQ = false ->
  exists s', run st (dx_field [comma] [eq] f ++ d :: rest)
             = run (mkDx false (dx_hk (pushall f st)) (dx_k (pushall f st)) (dx_v (pushall f st)) (dx_idx (pushall f st)) (dx_rec (pushall f st)) s') (d :: rest).
Proof.
  intros Hq Hn Hd. unfold dx_field. destruct (dx_needs [comma] [eq] f) eqn:E.
  - cbn [app]. rewrite run_out_char by (exact Hq || reflexivity).
    assert (Hs : step st DQ = (dx_set_inq true st, [])) by (unfold dx_step; now rewrite Hq).
    rewrite Hs. cbn [fst snd app]. rewrite <- app_assoc. cbn [app].
    destruct (run_body f (dx_set_inq true st) (d :: rest) eq_refl Hn) as [Hr Hi]. rewrite Hr.
    rewrite run_inq_close by assumption.
    exists true.
    assert (Hsame : forall f s1 s2, dx_hk s1 = dx_hk s2 -> dx_k s1 = dx_k s2 -> dx_v s1 = dx_v s2 -> dx_idx s1 = dx_idx s2 -> dx_rec s1 = dx_rec s2 ->
              dx_hk (pushall f s1) = dx_hk (pushall f s2) /\ dx_k (pushall f s1) = dx_k (pushall f s2) /\ dx_v (pushall f s1) = dx_v (pushall f s2)
              /\ dx_idx (pushall f s1) = dx_idx (pushall f s2) /\ dx_rec (pushall f s1) = dx_rec (pushall f s2)).
    { clear. induction f as [|c f IH]; intros s1 s2 H1 H2 H3 H4 H5; [auto|]. cbn [pushall fold_left]. apply IH; unfold dx_push; rewrite H1;
        destruct (dx_hk s2); cbn; congruence. }
    destruct (Hsame f (dx_set_inq true st) st eq_refl eq_refl eq_refl eq_refl eq_refl) as (H1 & H2 & H3 & H4 & H5).
    unfold dx_set_inq at 1. rewrite H1, H2, H3, H4, H5. reflexivity.
  - apply needs_false_plain in E. destruct (run_plain f st (d :: rest) Hq E) as [Hr Hi]. rewrite Hr.
    exists (dx_started (pushall f st)). destruct (pushall f st) as [q h k v i r s]. cbn in Hi. subst q. reflexivity.
Qed.

(* what pushing does to the buffers *)
Lemma pushall_key f : forall k v idx r s, exists s',
  pushall f (mkDx false false k v idx r s) = mkDx false false (rev f ++ k) v idx r s'.
Proof.
  induction f as [|c f IH]; intros k v idx r s; [now exists s|]. cbn [pushall fold_left]. unfold dx_push at 2. cbn.
  destruct (IH (c :: k) v idx r true) as [s' Hs]. exists s'. unfold pushall in Hs. rewrite Hs. cbn [rev]. now rewrite <- app_assoc.
Qed.
Lemma pushall_val f : forall k v idx r s, exists s',
  pushall f (mkDx false true k v idx r s) = mkDx false true k (rev f ++ v) idx r s'.
Proof.
  induction f as [|c f IH]; intros k v idx r s; [now exists s|]. cbn [pushall fold_left]. unfold dx_push at 2. cbn.
  destruct (IH k (c :: v) idx r true) as [s' Hs]. exists s'. unfold pushall in Hs. rewrite Hs. cbn [rev]. now rewrite <- app_assoc.
Qed.

(* ---- one pair "key IPS value", followed by a byte that is not a quote *)
Lemma run_pair k v idx r s d rest : no_crlf k = true -> no_crlf v = true -> eqc d DQ = false ->
  exists s', run (mkDx false false [] [] idx r s) (dx_field [comma] [eq] k ++ [eq] ++ dx_field [comma] [eq] v ++ d :: rest)
             = run (mkDx false true (rev k) (rev v) idx r s') (d :: rest).
Proof.
  intros Hk Hv Hd. destruct (sep_facts eq Heq) as (E1 & E2 & E3).
  cbn [app]. destruct (run_field k (mkDx false false [] [] idx r s) eq (dx_field [comma] [eq] v ++ d :: rest) eq_refl Hk E1) as [s1 H1].
  rewrite H1. destruct (pushall_key k [] [] idx r s) as [s2 H2]. rewrite H2. cbn [dx_hk dx_k dx_v dx_idx dx_rec]. rewrite app_nil_r.
  rewrite run_out_char by (reflexivity || exact E2).
  assert (Hs : forall s0, step (mkDx false false (rev k) [] idx r s0) eq = (mkDx false true (rev k) [] idx r true, [])).
  { intros s0. unfold dx_step. cbn [dx_inq dx_hk dx_k dx_v dx_idx dx_rec]. rewrite E1, E3.
    replace (eqc eq comma) with false by (symmetry; apply eqc_neq; intros X; subst; rewrite eqc_refl in Hne; discriminate).
    now rewrite eqc_refl. }
  rewrite Hs. cbn [fst snd app].
  destruct (run_field v (mkDx false true (rev k) [] idx r true) d rest eq_refl Hv Hd) as [s3 H3]. rewrite H3.
  destruct (pushall_val v (rev k) [] idx r true) as [s4 H4]. rewrite H4. cbn [dx_hk dx_k dx_v dx_idx dx_rec]. rewrite app_nil_r.
  now exists s3.
Qed.

Definition dx_pair (kv : bytes * bytes) : bytes := dx_field [comma] [eq] (fst kv) ++ [eq] ++ dx_field [comma] [eq] (snd kv).
Definition dx_cell_ok (x : bytes) : bool := no_crlf x.
Definition dx_rec_ok (r : record) : bool :=
  nodupb (keys r) && forallb (fun k => negb (is_nil k) && no_crlf k) (keys r) && forallb no_crlf (values r).

Lemma final_pair k v idx : k <> [] -> dx_final true (rev k) (rev v) idx = (k, v).
Proof. intros H. unfold dx_final. rewrite !rev_involutive. destruct (rev k) eqn:E; [|reflexivity].
  apply (f_equal (@rev ascii)) in E. rewrite rev_involutive in E. now subst. Qed.

(* ---- the pairs of one record, then the line end *)
Lemma run_pairs crlf : forall (r acc : record) idx s rest, r <> [] ->
  NoDup (keys (acc ++ r)) -> forallb (fun k => negb (is_nil k) && no_crlf k) (keys r) = true -> forallb no_crlf (values r) = true ->
  run (mkDx false false [] [] idx acc s) (join [comma] (map dx_pair r) ++ ors_of crlf ++ rest)
  = (acc ++ r) :: run dx_init rest.
Proof.
  destruct (sep_facts comma Hcomma) as (C1 & C2 & C3).
  induction r as [|[k v] r IH]; intros acc idx s rest Hr Hnd Hk Hv; [congruence|].
  cbn [keys values map forallb fst snd] in Hk, Hv. apply andb_true_iff in Hk as [Hk0 Hk]. apply andb_true_iff in Hv as [Hv0 Hv].
  apply andb_true_iff in Hk0 as [Hkne Hk0]. assert (Hkn : k <> []) by (destruct k; [discriminate|discriminate]).
  assert (Hhas : has k acc = false).
  { apply has_false_notin. intros Hin. unfold keys in Hnd. rewrite map_app in Hnd. cbn [map fst] in Hnd.
    apply NoDup_remove_2 in Hnd. apply Hnd. apply in_or_app. now left. }
  assert (Hput : dx_put (mkDx false true (rev k) (rev v) idx acc true) = acc ++ [(k, v)] /\ forall s', dx_put (mkDx false true (rev k) (rev v) idx acc s') = acc ++ [(k, v)]).
  { unfold dx_put. cbn [dx_hk dx_k dx_v dx_idx dx_rec]. rewrite final_pair by assumption. cbn [fst snd]. split; [|intros _]; now apply put_absent. }
  destruct Hput as [_ Hput].
  destruct r as [|kv2 r].
  - (* last pair: the line end follows *)
    cbn [map join]. unfold dx_pair at 1. cbn [fst snd].
    destruct crlf; cbn [ors_of app].
    + rewrite <- !app_assoc. cbn [app].
      destruct (run_pair k v idx acc s CR (LF :: rest) Hk0 Hv0 eq_refl) as [s' Hs]. cbn [app] in Hs. rewrite Hs.
      rewrite run_out_crlf, step_lf by reflexivity. cbn [fst snd app]. f_equal.
      unfold dx_finish. cbn [dx_hk]. rewrite orb_true_r. now rewrite Hput.
    + rewrite <- !app_assoc. cbn [app].
      destruct (run_pair k v idx acc s LF rest Hk0 Hv0 eq_refl) as [s' Hs]. cbn [app] in Hs. rewrite Hs.
      rewrite run_out_char, step_lf by reflexivity. cbn [fst snd app]. f_equal.
      unfold dx_finish. cbn [dx_hk]. rewrite orb_true_r. now rewrite Hput.
  - (* a comma follows *)
    change (map dx_pair ((k, v) :: kv2 :: r)) with (dx_pair (k, v) :: map dx_pair (kv2 :: r)).
    change (map dx_pair (kv2 :: r)) with (dx_pair kv2 :: map dx_pair r). rewrite join_cons2.
    change (dx_pair kv2 :: map dx_pair r) with (map dx_pair (kv2 :: r)).
    unfold dx_pair at 1. cbn [fst snd]. rewrite <- !app_assoc. cbn [app].
    destruct (run_pair k v idx acc s comma (join [comma] (map dx_pair (kv2 :: r)) ++ ors_of crlf ++ rest) Hk0 Hv0 C1) as [s' Hs].
    cbn [app] in Hs. rewrite Hs.
    rewrite run_out_char by (reflexivity || exact C2).
    assert (Hst : step (mkDx false true (rev k) (rev v) idx acc s') comma = (mkDx false false [] [] (S idx) (acc ++ [(k, v)]) true, [])).
    { unfold dx_step. cbn [dx_inq dx_idx]. rewrite C1, C3, eqc_refl. now rewrite Hput. }
    rewrite Hst. cbn [fst snd app].
    rewrite IH; [now rewrite <- app_assoc|discriminate|now rewrite <- app_assoc|exact Hk|exact Hv].
Qed.

Lemma run_lines crlf recs : forallb dx_rec_ok recs = true ->
  run dx_init (write_dkvpx [comma] [eq] crlf recs) = recs.
Proof.
  unfold write_dkvpx, unlines. induction recs as [|r recs IH]; intros H; [reflexivity|].
  cbn [forallb] in H. apply andb_true_iff in H as [Hr H]. cbn [map List.concat]. rewrite <- app_assoc.
  destruct r as [|kv r].
  - cbn [dkvpx_line map join app]. destruct crlf; cbn [ors_of app].
    + rewrite run_out_crlf, step_lf by reflexivity. cbn [fst snd app]. f_equal. now apply IH.
    + rewrite run_out_char, step_lf by reflexivity. cbn [fst snd app]. f_equal. now apply IH.
  - unfold dx_rec_ok in Hr. apply andb_true_iff in Hr as [Hr Hv]. apply andb_true_iff in Hr as [Hnd Hk].
    unfold dkvpx_line. fold dx_pair. change (fun kv0 : bytes * bytes => dx_field [comma] [eq] (fst kv0) ++ [eq] ++ dx_field [comma] [eq] (snd kv0)) with dx_pair.
    unfold dx_init at 1. rewrite (run_pairs crlf (kv :: r) [] 0 false); [cbn [app]; f_equal; now apply IH|discriminate| |exact Hk|exact Hv].
    cbn [app]. now apply nodupb_NoDup.
Qed.
End Dx.

Lemma fold_put_deferred_id d (r : record) : forall acc, NoDup (keys (acc ++ r)) ->
  fold_left (fun a kv => put_deferred d (fst kv) (snd kv) a) r acc = acc ++ r.
Proof.
  induction r as [|[k v] r IH]; intros acc H; [now rewrite app_nil_r|]. cbn [fold_left fst snd].
  assert (Hhas : has k acc = false).
  { apply has_false_notin. intros Hin. unfold keys in H. rewrite map_app in H. cbn [map fst] in H.
    apply NoDup_remove_2 in H. apply H. apply in_or_app. now left. }
  rewrite put_deferred_new by assumption. rewrite IH; [now rewrite <- app_assoc|now rewrite <- app_assoc].
Qed.

Definition head_not_ef (a : bytes) : Prop := match a with c :: _ => eqc c EF = false | [] => False end.
Lemma head_ef_app a b : head_not_ef a -> head_not_ef (a ++ b).
Proof. destruct a; [intros []|intros H; exact H]. Qed.
Lemma head_ef_app_T a b : head_not_ef a -> match a ++ b with c :: _ => eqc c EF = false | [] => True end.
Proof. destruct a; [intros []|intros H; exact H]. Qed.

(* one-byte IFS and IPS below 0x80, different from each other, from the quote, CR and LF; records (possibly empty) with unique,
   non-empty keys; no cell containing CR LF (known finding dkvpx-reader-crlf-in-quoted-field-to-lf); the text does not start
   with byte 0xEF (BOM).  Everything else -- separators, quotes, LF, lone CR, empty lines inside a cell, leading and trailing
   spaces, any bytes -- is representable. *)
Definition wf_dkvpx (comma eq : ascii) (recs : list record) : bool :=
  comma_ok comma && comma_ok eq && negb (eqc comma eq) && forallb dx_rec_ok recs
  && match recs with ((k, _) :: _) :: _ => first_not_ef [k] | _ => true end.

Lemma dkvpx_roundtrip comma eq crlf dedupe recs :
  wf_dkvpx comma eq recs = true ->
  read_dkvpx comma eq dedupe (write_dkvpx [comma] [eq] crlf recs) = recs.
Proof.
  unfold wf_dkvpx. intros H. apply andb_true_iff in H as [H Hbom]. apply andb_true_iff in H as [H Hrecs].
  apply andb_true_iff in H as [H Hne]. apply andb_true_iff in H as [Hc He]. apply negb_true_iff in Hne.
  unfold read_dkvpx.
  assert (Hb : strip_bom (write_dkvpx [comma] [eq] crlf recs) = write_dkvpx [comma] [eq] crlf recs).
  { apply strip_bom_head. unfold write_dkvpx, unlines. destruct recs as [|r recs]; [exact I|]. cbn [map List.concat].
    destruct r as [|[k v] r].
    - cbn [dkvpx_line map join app]. destruct crlf; reflexivity.
    - cbn [forallb] in Hrecs. apply andb_true_iff in Hrecs as [Hr0 _]. unfold dx_rec_ok in Hr0.
      apply andb_true_iff in Hr0 as [Hr0 _]. apply andb_true_iff in Hr0 as [_ Hk0]. cbn [keys map fst forallb] in Hk0.
      apply andb_true_iff in Hk0 as [Hk0 _]. apply andb_true_iff in Hk0 as [Hk0 _].
      destruct k as [|c0 k]; [discriminate|]. cbn [first_not_ef] in Hbom. apply negb_true_iff in Hbom.
      unfold dkvpx_line. cbn [map fst snd].
      apply head_ef_app_T. apply head_ef_app.
      assert (Hf : head_not_ef (dx_field [comma] [eq] (c0 :: k)))
        by (unfold dx_field; destruct (dx_needs [comma] [eq] (c0 :: k)); [reflexivity|exact Hbom]).
      destruct r as [|kv2 r]; cbn [map join]; repeat apply head_ef_app; exact Hf. }
  rewrite Hb, (run_lines comma eq Hc He Hne) by assumption.
  rewrite <- (map_id recs) at 2. apply map_ext_in. intros r Hr. rewrite forallb_forall in Hrecs. specialize (Hrecs r Hr).
  unfold dx_rec_ok in Hrecs. apply andb_true_iff in Hrecs as [Hrecs _]. apply andb_true_iff in Hrecs as [Hnd _].
  apply (fold_put_deferred_id dedupe r []). now apply nodupb_NoDup.
Qed.

(* the exclusion is real: CR LF inside a quoted cell comes back as LF (readLine normalises it, as go-csv does) *)
Lemma dkvpx_crlf_in_cell_refuted :
  exists recs, forallb (fun r => nodupb (keys r)) recs = true
    /\ read_dkvpx "," "=" true (write_dkvpx [","] ["="] false recs) <> recs.
Proof. exists [[(B "a", bs [120;13;10;121]%N)]]. split; [reflexivity|]. vm_compute. discriminate. Qed.

(* regression example for /repo 567ffc2e0 over the model: empty lines and leading newlines inside quotes *)
Example dkvpx_newline_regression :
  read_dkvpx "," "=" true (write_dkvpx [","] ["="] false [[(B "a", bs [120;10;10;121]%N); (B "b", bs [10;122]%N); (bs [99;34;10]%N, bs [34;10;10]%N)]])
  = [[(B "a", bs [120;10;10;121]%N); (B "b", bs [10;122]%N); (bs [99;34;10]%N, bs [34;10;10]%N)]].
Proof. vm_compute. reflexivity. Qed.
