(* C01 correspondence harness: the Python driver writes observed implementation behaviour as [case] terms,
   [chk] evaluates the SAME model definitions the theorems are about (vm_compute). *)
From Miller Require Import Base.Bytes Base.Record C01.Model C01.ModelJson C01.ModelXtab C01.ModelLite C01.ModelPprint C01.ModelMd C01.ModelDkvpx C01.ModelIrs.
Open Scope char_scope.

(* compact literals for the generated case files: bytes as a hex string (parses much faster than a list of numbers) *)
Definition hexval (c : ascii) : N :=
  let n := code c in
  if (48 <=? n)%N && (n <=? 57)%N then (n - 48)%N else if (97 <=? n)%N && (n <=? 102)%N then (n - 87)%N else 0%N.
Fixpoint unhex (s : bytes) : bytes :=
  match s with
  | a :: b :: t => ascii_of_N (16 * hexval a + hexval b) :: unhex t
  | _ => []
  end.
Definition H (s : string) : bytes := unhex (list_ascii_of_string s).

Inductive case :=
  (* format, boolean flags, separators, records, observed bytes (None = mlr/writer reported an error) *)
| CWrite (fmt : N) (flags : list bool) (seps : list bytes) (recs : list record) (obs : option bytes)
  (* format, flags, separators, input text, observed records (None = mlr exited non-zero) *)
| CRead (fmt : N) (flags : list bool) (seps : list bytes) (text : bytes) (obs : option (list record))
| CTsvCodec (s enc dec : bytes)
  (* writers that align on lib.DisplayWidth: the implementation's widths of the strings involved are part of the case *)
| CWriteW (fmt : N) (flags : list bool) (seps : list bytes) (widths : list (bytes * N)) (recs : list record) (obs : option bytes).

Definition fl (l : list bool) (i : nat) : bool := nth i l false.
Definition sp (l : list bytes) (i : nat) : bytes := nth i l [].
Definition comma_of (l : list bytes) : ascii := match sp l 0 with c :: _ => c | [] => "," end.

Definition obytes_eqb (a b : option bytes) : bool :=
  match a, b with Some x, Some y => beqb x y | None, None => true | _, _ => false end.
Definition orecs_eqb (a b : option (list record)) : bool :=
  match a, b with Some x, Some y => records_eqb x y | None, None => true | _, _ => false end.

(* formats: 0 tsv, 1 dkvp, 2 nidx, 3 csv, 4 json, 5 xtab, 6 csvlite, 7 pprint, 8 markdown, 9 dkvpx *)
Definition sep1 (l : list bytes) (i : nat) (d : ascii) : ascii := match sp l i with c :: _ => c | [] => d end.
Definition model_write (fmt : N) (f : list bool) (s : list bytes) (recs : list record) : option bytes :=
  match fmt with
  | 0%N => write_tsv (fl f 0) (fl f 1) recs
  (* DKVP / NIDX: a third / second separator, when given, is a custom ORS *)
  | 1%N => Some (match sp s 2 with [] => write_dkvp (sp s 0) (sp s 1) (fl f 0) recs | ors => write_dkvp_ors (sp s 0) (sp s 1) ors recs end)
  | 2%N => Some (match sp s 1 with [] => write_nidx (sp s 0) (fl f 0) recs | ors => write_nidx_ors (sp s 0) ors recs end)
  | 3%N => write_csv (fl f 0) (fl f 1) (fl f 2) (comma_of s) recs
  | 4%N => Some (write_json (fl f 0) (fl f 1) recs)
  | 6%N => Some (write_csvlite (sp s 0) (fl f 0) (fl f 1) recs)
  | 9%N => Some (write_dkvpx (sp s 0) (sp s 1) (fl f 0) recs)
  | _ => None
  end.

(* the CSV reader's behaviour after a quoting error inside a record is not modelled (go-csv returns a partial
   record together with the error and Miller keeps the partial record): such cases are skipped, and counted *)
Definition model_read (fmt : N) (f : list bool) (s : list bytes) (text : bytes) : option (option (list record)) :=
  match fmt with
  | 0%N => Some (if fl f 0 then read_tsv_implicit (fl f 1) (fl f 2) text else read_tsv (fl f 1) (fl f 2) text)
  (* DKVP / NIDX: a third / second separator, when given, is a custom IRS *)
  | 1%N => Some (Some (match sp s 2 with [] => read_dkvp (sp s 0) (sp s 1) (fl f 0) (fl f 1) text
                                   | irs => read_dkvp_irs irs (sp s 0) (sp s 1) (fl f 0) (fl f 1) text end))
  | 2%N => Some (Some (if fl f 1 then read_nidx_ws text
                       else match sp s 1 with [] => read_nidx (sp s 0) (fl f 0) text | irs => read_nidx_irs irs (sp s 0) (fl f 0) text end))
  | 3%N => match csv_rows (fl f 1) (comma_of s) (strip_bom text) with
           | None => None
           | Some _ => Some (read_csv (fl f 0) (fl f 1) (fl f 2) (fl f 3) (comma_of s) text)
           end
  (* JSON: the RFC-8259 reference covers flat objects with string members; anything else is not compared *)
  | 4%N => match read_json_ref text with None => None | Some r => Some (Some r) end
  | 5%N => Some (read_xtab (sp s 0) (fl f 0) text)
  (* csvlite: dedupe, ragged, implicit header *)
  | 6%N => Some (if fl f 2 then read_csvlite_implicit (sp s 0) (fl f 0) (fl f 1) text else read_csvlite (sp s 0) (fl f 0) (fl f 1) text)
  (* PPRINT: dedupe, ragged, barred input, implicit header *)
  | 7%N => Some (if fl f 2 then read_pprint_barred (fl f 3) (fl f 0) (fl f 1) text
                 else if fl f 3 then read_pprint_implicit (fl f 0) (fl f 1) text else read_pprint (fl f 0) (fl f 1) text)
  (* markdown: dedupe, ragged, (unused), implicit header *)
  | 8%N => Some (read_markdown (fl f 3) (fl f 0) (fl f 1) text)
  (* DKVPX: dedupe; IFS, IPS (one byte each) *)
  | 9%N => Some (Some (read_dkvpx (sep1 s 0 ",") (sep1 s 1 "=") (fl f 0) text))
  | _ => Some None
  end.

Fixpoint width_of (t : list (bytes * N)) (s : bytes) : nat :=
  match t with
  | [] => List.length s
  | (k, n) :: t' => if beqb k s then N.to_nat n else width_of t' s
  end.
Definition model_write_w (fmt : N) (f : list bool) (s : list bytes) (t : list (bytes * N)) (recs : list record) : option bytes :=
  match fmt with
  | 5%N => Some (write_xtab (width_of t) (sp s 0) (fl f 0) recs)
  (* PPRINT: headerless, crlf, --right, --barred *)
  | 7%N => Some (write_pprint_g (width_of t) (fl f 2) (fl f 3) (fl f 0) (fl f 1) recs)
  (* markdown: aligned, crlf *)
  | 8%N => Some (write_markdown (width_of t) (fl f 0) (fl f 1) recs)
  | _ => None
  end.

Definition chk (c : case) : bool :=
  match c with
  | CWriteW fmt f s t recs obs => obytes_eqb (model_write_w fmt f s t recs) obs
  | CWrite fmt f s recs obs => obytes_eqb (model_write fmt f s recs) obs
  | CRead fmt f s text obs => match model_read fmt f s text with None => true | Some m => orecs_eqb m obs end
  | CTsvCodec s e d => beqb (tsv_encode s) e && beqb (tsv_decode s) d
  end.

(* cases on which [chk] makes no comparison *)
Definition compared (c : case) : bool :=
  match c with
  | CRead fmt f s text _ => match model_read fmt f s text with None => false | Some _ => true end
  | _ => true
  end.
