(* CSV: the go-csv field state machine reads back every legal RFC-4180 rendering (any per-cell quoting choice,
   LF or CRLF line ends), hence Miller's own output; grammar-style RFC-4180 specification of the writer. *)
From Miller Require Import Base.Bytes Base.Record C01.Model C01.ProofsUtil C01.ProofsTsv.
Open Scope char_scope.

Definition comma_ok (k : ascii) : bool :=
  negb (eqc k DQ) && negb (eqc k CR) && negb (eqc k LF) && (code k <? 128)%N.
(* TEXTDATA of RFC 4180 (for the configured comma) *)
Definition plain (comma : ascii) (f : bytes) : bool := negb (existsb (csv_special comma) f).
(* no CR immediately followed by LF *)
Fixpoint no_crlf (f : bytes) : bool :=
  match f with
  | [] => true
  | c :: t => negb (eqc c CR && match t with d :: _ => eqc d LF | [] => false end) && no_crlf t
  end.
Definition body_ok (cb : bool) (f : bytes) : bool := if cb then nochar CR f else no_crlf f.
Definition cell_ok (cb : bool) (comma : ascii) (qc : bool * bytes) : bool :=
  if fst qc then body_ok cb (snd qc) else plain comma (snd qc).

Section Run.
Variables (lazy : bool) (comma : ascii).
Hypothesis Hcomma : comma_ok comma = true.

Let run := csv_run lazy comma.
Let step := csv_step lazy comma.

Lemma comma_facts : eqc comma DQ = false /\ eqc comma CR = false /\ eqc comma LF = false.
Proof.
  unfold comma_ok in Hcomma. repeat (apply andb_true_iff in Hcomma as [Hcomma ?]).
  repeat split; now apply negb_true_iff.
Qed.

Lemma run_plain p c t : eqc c CR = false ->
  run p (c :: t) = match step p c with Some p' => run p' t | None => None end.
Proof. intros H. unfold run, step. cbn [csv_run]. now rewrite H. Qed.

Lemma run_cr_other p d t : eqc d LF = false ->
  run p (CR :: d :: t) = match step p CR with Some p' => run p' (d :: t) | None => None end.
Proof. intros H. unfold run, step. cbn [csv_run]. replace (eqc CR CR) with true by reflexivity. now rewrite H. Qed.

Lemma run_crlf p t :
  run p (CR :: LF :: t) = match step p LF with Some p' => run p' t | None => None end.
Proof. reflexivity. Qed.

(* states in which the current field is (so far) unquoted *)
Definition unqish (p : pstate) : bool :=
  match p_st p with UQ => true | SOF | SOR => is_nil (p_acc p) | _ => false end.
Definition start (p : pstate) : bool :=
  match p_st p with SOF | SOR => is_nil (p_acc p) | _ => false end.

Lemma start_unqish p : start p = true -> unqish p = true.
Proof. unfold start, unqish. destruct (p_st p); auto. Qed.

Lemma step_unq_char p c :
  unqish p = true -> csv_special comma c = false ->
  step p c = Some (mkP UQ (c :: p_acc p) (p_fields p) (p_rows p)).
Proof.
  intros Hp Hc. unfold csv_special in Hc.
  apply orb_false_iff in Hc as [Hc Hk]. apply orb_false_iff in Hc as [Hc Hq]. apply orb_false_iff in Hc as [Hlf Hcr].
  unfold step, csv_step, unqish in *. destruct (p_st p); try discriminate;
    unfold csv_step_unquoted; rewrite ?Hq, Hk, Hlf; reflexivity.
Qed.

Lemma run_unq_chars f : forall p rest,
  unqish p = true -> plain comma f = true ->
  run p (f ++ rest) = run (if is_nil f then p else mkP UQ (rev f ++ p_acc p) (p_fields p) (p_rows p)) rest.
Proof.
  induction f as [|c f IH]; intros p rest Hp Hf; [reflexivity|].
  unfold plain in Hf. cbn [existsb] in Hf. apply negb_true_iff in Hf. apply orb_false_iff in Hf as [Hc Hf].
  assert (Hcr : eqc c CR = false).
  { unfold csv_special in Hc. apply orb_false_iff in Hc as [Hc _]. apply orb_false_iff in Hc as [Hc _]. now apply orb_false_iff in Hc as [_ ?]. }
  cbn [app]. rewrite run_plain by assumption. rewrite step_unq_char by assumption.
  rewrite IH; [|reflexivity|unfold plain; now rewrite Hf].
  cbn [is_nil p_acc p_fields p_rows]. destruct f as [|d f]; cbn [is_nil]; [reflexivity|].
  cbn [rev]. now rewrite <- !app_assoc.
Qed.

(* a finished cell: value f accumulated, waiting for a delimiter *)
Definition cell_done (p : pstate) (f : bytes) (fs : list bytes) (rows : list (list bytes)) : Prop :=
  p_acc p = rev f /\ p_fields p = fs /\ p_rows p = rows /\ (unqish p = true \/ p_st p = QQ).

Lemma unq_comma p : csv_step_unquoted lazy comma p comma = Some (p_end_field p).
Proof. unfold csv_step_unquoted. now rewrite eqc_refl. Qed.

Lemma unq_lf p : csv_step_unquoted lazy comma p LF = Some (p_end_row p).
Proof.
  destruct comma_facts as (Hq & Hcr & Hlf).
  assert (Hlk : eqc LF comma = false) by (unfold eqc in *; now rewrite Ascii.eqb_sym).
  unfold csv_step_unquoted. rewrite Hlk. reflexivity.
Qed.

Lemma step_done_comma p f fs rows :
  cell_done p f fs rows -> step p comma = Some (mkP SOF [] (f :: fs) rows).
Proof.
  destruct comma_facts as (Hq & Hcr & Hlf).
  intros (Ha & Hf & Hr & Hs).
  assert (He : p_end_field p = mkP SOF [] (f :: fs) rows).
  { unfold p_end_field. now rewrite Ha, Hf, Hr, rev_involutive. }
  unfold step, csv_step. destruct Hs as [Hs|Hs].
  - unfold unqish in Hs. destruct (p_st p); try discriminate; rewrite ?Hq, unq_comma, He; reflexivity.
  - rewrite Hs, Hq, eqc_refl, He. reflexivity.
Qed.

Lemma step_done_lf p f fs rows :
  cell_done p f fs rows -> step p LF = Some (mkP SOR [] [] (rev (f :: fs) :: rows)).
Proof.
  destruct comma_facts as (Hq & Hcr & Hlf).
  assert (Hlk : eqc LF comma = false) by (unfold eqc in *; now rewrite Ascii.eqb_sym).
  intros (Ha & Hf & Hr & Hs).
  assert (He : p_end_row p = mkP SOR [] [] (rev (f :: fs) :: rows)).
  { unfold p_end_row. now rewrite Ha, Hf, Hr, rev_involutive. }
  unfold step, csv_step. destruct Hs as [Hs|Hs].
  - unfold unqish in Hs. destruct (p_st p); try discriminate;
      try (replace (eqc LF DQ) with false by reflexivity); rewrite unq_lf, He; reflexivity.
  - rewrite Hs. replace (eqc LF DQ) with false by reflexivity. rewrite Hlk.
    replace (eqc LF LF) with true by reflexivity. now rewrite He.
Qed.

(* the quoted body *)
Lemma head_not_lf f rest :
  match f with d :: _ => eqc d LF = false | [] => True end ->
  exists d t, quote_body false f ++ DQ :: rest = d :: t /\ eqc d LF = false.
Proof.
  destruct f as [|d f]; intros H; [exists DQ, rest; split; reflexivity|].
  cbn [quote_body].
  destruct (eqc d DQ) eqn:E1; [eexists _, _; split; reflexivity|].
  destruct (eqc d CR) eqn:E2; [eexists _, _; split; reflexivity|].
  rewrite H. eexists _, _. split; [reflexivity|exact H].
Qed.

Lemma run_body_lf f : forall acc fs rows rest,
  no_crlf f = true ->
  run (mkP QT acc fs rows) (quote_body false f ++ DQ :: rest) = run (mkP QQ (rev f ++ acc) fs rows) rest.
Proof.
  induction f as [|c f IH]; intros acc fs rows rest H.
  - cbn [quote_body app rev]. rewrite run_plain by reflexivity. reflexivity.
  - cbn [no_crlf] in H. apply andb_true_iff in H as [Hc H]. cbn [quote_body rev]. rewrite <- (app_assoc _ (quote_body false f)). rewrite <- (app_assoc (rev f)).
    destruct (eqc c DQ) eqn:E1.
    { apply eqc_eq in E1. subst c. cbn [app]. rewrite run_plain by reflexivity.
      unfold step at 1. cbn [csv_step p_st p_acc p_fields p_rows]. replace (eqc DQ DQ) with true by reflexivity.
      rewrite run_plain by reflexivity. unfold step at 1. cbn [csv_step p_st]. replace (eqc DQ DQ) with true by reflexivity.
      unfold p_push. cbn [p_acc p_fields p_rows]. rewrite IH by assumption. reflexivity. }
    destruct (eqc c CR) eqn:E2.
    { apply eqc_eq in E2. subst c. cbn [app].
      destruct (head_not_lf f rest) as (d & t & Ht & Hd).
      { destruct f as [|d f]; [exact I|]. cbn in Hc. apply negb_true_iff in Hc. exact Hc. }
      pose proof (IH (CR :: acc) fs rows rest H) as IH'. rewrite Ht in IH' |- *.
      rewrite run_cr_other by assumption. unfold step at 1. cbn [csv_step p_st]. replace (eqc CR DQ) with false by reflexivity.
      unfold p_push. cbn [p_acc p_fields p_rows]. rewrite IH'. reflexivity. }
    destruct (eqc c LF) eqn:E3.
    { apply eqc_eq in E3. subst c. cbn [app]. rewrite run_plain by reflexivity.
      unfold step at 1. cbn [csv_step p_st]. replace (eqc LF DQ) with false by reflexivity.
      unfold p_push. cbn [p_acc p_fields p_rows]. rewrite IH by assumption. reflexivity. }
    cbn [app]. rewrite run_plain by assumption. unfold step at 1. cbn [csv_step p_st]. rewrite E1.
    unfold p_push. cbn [p_acc p_fields p_rows]. rewrite IH by assumption. reflexivity.
Qed.

Lemma run_body_crlf f : forall acc fs rows rest,
  nochar CR f = true ->
  run (mkP QT acc fs rows) (quote_body true f ++ DQ :: rest) = run (mkP QQ (rev f ++ acc) fs rows) rest.
Proof.
  induction f as [|c f IH]; intros acc fs rows rest H.
  - cbn [quote_body app rev]. rewrite run_plain by reflexivity. reflexivity.
  - unfold nochar in H. cbn [forallb] in H. apply andb_true_iff in H as [Hc H]. fold (nochar CR f) in H.
    apply negb_true_iff in Hc. cbn [quote_body rev]. rewrite <- (app_assoc _ (quote_body true f)). rewrite <- (app_assoc (rev f)). rewrite Hc.
    destruct (eqc c DQ) eqn:E1.
    { apply eqc_eq in E1. subst c. cbn [app]. rewrite run_plain by reflexivity.
      unfold step at 1. cbn [csv_step p_st p_acc p_fields p_rows]. replace (eqc DQ DQ) with true by reflexivity.
      rewrite run_plain by reflexivity. unfold step at 1. cbn [csv_step p_st]. replace (eqc DQ DQ) with true by reflexivity.
      unfold p_push. cbn [p_acc p_fields p_rows]. rewrite IH by assumption. reflexivity. }
    destruct (eqc c LF) eqn:E3.
    { apply eqc_eq in E3. subst c. cbn [app]. rewrite run_crlf.
      unfold step at 1. cbn [csv_step p_st]. replace (eqc LF DQ) with false by reflexivity.
      unfold p_push. cbn [p_acc p_fields p_rows]. rewrite IH by assumption. reflexivity. }
    cbn [app]. rewrite run_plain by assumption. unfold step at 1. cbn [csv_step p_st]. rewrite E1.
    unfold p_push. cbn [p_acc p_fields p_rows]. rewrite IH by assumption. reflexivity.
Qed.

(* one cell, from the start of a field to just before its delimiter *)
Lemma run_cell cb qc p :
  start p = true -> cell_ok cb comma qc = true ->
  exists p', cell_done p' (snd qc) (p_fields p) (p_rows p) /\
             forall rest, run p (csv_cell cb (fst qc) (snd qc) ++ rest) = run p' rest.
Proof.
  destruct qc as [q f]. cbn [fst snd]. intros Hp Hc. unfold cell_ok in Hc. cbn [fst snd] in Hc.
  destruct q; cbn [csv_cell].
  - exists (mkP QQ (rev f) (p_fields p) (p_rows p)). split.
    + repeat split. now right.
    + intros rest. cbn [app]. rewrite run_plain by reflexivity.
      assert (Hs : step p DQ = Some (mkP QT [] (p_fields p) (p_rows p))).
      { unfold step, csv_step. unfold start in Hp. destruct (p_st p); try discriminate; reflexivity. }
      rewrite Hs. rewrite <- app_assoc. cbn [app]. unfold body_ok in Hc.
      destruct cb; [rewrite run_body_crlf|rewrite run_body_lf]; try assumption; now rewrite app_nil_r.
  - exists (if is_nil f then p else mkP UQ (rev f ++ p_acc p) (p_fields p) (p_rows p)). split.
    + assert (Ha : p_acc p = []). { unfold start in Hp. destruct (p_st p); try discriminate; destruct (p_acc p); [reflexivity|discriminate| reflexivity | discriminate]. }
      destruct f as [|c f]; cbn [is_nil].
      * repeat split; [exact Ha|]. left. now apply start_unqish.
      * cbn [p_acc p_fields p_rows]. rewrite Ha, app_nil_r. repeat split. now left.
    + intros rest. apply run_unq_chars; [now apply start_unqish|assumption].
Qed.

(* one row *)
Lemma run_row cb ce cells : forall p rest,
  cells <> [] -> start p = true -> forallb (cell_ok cb comma) cells = true ->
  run p (csv_row_q cb ce comma cells ++ rest)
  = run (mkP SOR [] [] (rev (rev (map snd cells) ++ p_fields p) :: p_rows p)) rest.
Proof.
  unfold csv_row_q.
  induction cells as [|x cells IH]; intros p rest Hne Hp Hok; [congruence|].
  cbn [forallb] in Hok. apply andb_true_iff in Hok as [Hx Hok].
  destruct (run_cell cb x p Hp Hx) as (p' & Hdone & Hrun).
  destruct cells as [|y cells].
  - cbn [map join]. rewrite <- app_assoc. rewrite Hrun.
    assert (Hend : run p' (ors_of ce ++ rest) = run (mkP SOR [] [] (rev (snd x :: p_fields p) :: p_rows p)) rest).
    { destruct ce; cbn [ors_of app].
      - rewrite run_crlf. now rewrite (step_done_lf _ _ _ _ Hdone).
      - rewrite run_plain by reflexivity. now rewrite (step_done_lf _ _ _ _ Hdone). }
    rewrite Hend. cbn [rev app]. reflexivity.
  - cbn [map]. rewrite join_cons2.
    change (csv_cell cb (fst y) (snd y) :: map (fun qc => csv_cell cb (fst qc) (snd qc)) cells)
      with (map (fun qc => csv_cell cb (fst qc) (snd qc)) (y :: cells)). rewrite <- !app_assoc. rewrite Hrun. cbn [app].
    destruct comma_facts as (Hq & Hcr & Hlf).
    rewrite run_plain by assumption. rewrite (step_done_comma _ _ _ _ Hdone).
    rewrite app_assoc. rewrite IH; [|discriminate|reflexivity|assumption].
    cbn [p_fields p_rows]. f_equal. f_equal. f_equal.
    cbn [map rev]. rewrite <- !app_assoc. reflexivity.
Qed.

Lemma run_text cb ce rows : forall R,
  forallb (fun cells => negb (is_nil cells) && forallb (cell_ok cb comma) cells) rows = true ->
  run (mkP SOR [] [] R) (csv_text_q cb ce comma rows) = Some (rev R ++ map (map snd) rows).
Proof.
  unfold csv_text_q. induction rows as [|r rows IH]; intros R H.
  - cbn. now rewrite app_nil_r.
  - cbn [forallb] in H. apply andb_true_iff in H as [Hr H]. apply andb_true_iff in Hr as [Hne Hr].
    cbn [map List.concat]. rewrite run_row; [|destruct r; [discriminate|discriminate]|reflexivity|assumption].
    cbn [p_fields p_rows]. rewrite app_nil_r, rev_involutive. rewrite IH by assumption.
    cbn [rev map]. now rewrite <- app_assoc.
Qed.
End Run.

Definition rows_ok (cb : bool) (comma : ascii) (rows : list (list (bool * bytes))) : bool :=
  forallb (fun cells => negb (is_nil cells) && forallb (cell_ok cb comma) cells) rows.

(* the reader recovers the cells of every legal rendering: any quoting choice per cell, LF or CRLF line ends *)
Lemma csv_rows_text lazy cb ce comma rows :
  comma_ok comma = true -> rows_ok cb comma rows = true ->
  csv_rows lazy comma (csv_text_q cb ce comma rows) = Some (map (map snd) rows).
Proof. intros Hk H. unfold csv_rows. now rewrite (run_text lazy comma Hk cb ce rows []). Qed.

(* ---------------------------------------------------------------- RFC 4180 as a grammar (section 2 ABNF) *)
Fixpoint dbl (f : bytes) : bytes :=
  match f with [] => [] | c :: t => (if eqc c DQ then [DQ; DQ] else [c]) ++ dbl t end.
(* field = escaped / non-escaped *)
Inductive rfc_field (comma : ascii) : bytes -> bytes -> Prop :=
| RF_plain f : plain comma f = true -> rfc_field comma f f
| RF_escaped f : rfc_field comma (DQ :: dbl f ++ [DQ]) f.
(* record = field *(COMMA field) *)
Inductive rfc_record (comma : ascii) : bytes -> list bytes -> Prop :=
| RR_one t f : rfc_field comma t f -> rfc_record comma t [f]
| RR_cons t f ts fs : rfc_field comma t f -> rfc_record comma ts fs -> rfc_record comma (t ++ comma :: ts) (f :: fs).
(* file = *(record EOL) *)
Inductive rfc_file (comma : ascii) (eol : bytes) : bytes -> list (list bytes) -> Prop :=
| RFile_nil : rfc_file comma eol [] []
| RFile_cons t r ts rs : rfc_record comma t r -> rfc_file comma eol ts rs -> rfc_file comma eol (t ++ eol ++ ts) (r :: rs).

Lemma quote_body_false_dbl f : quote_body false f = dbl f.
Proof.
  induction f as [|c f IH]; [reflexivity|]. cbn [quote_body dbl]. rewrite IH.
  destruct (eqc c DQ); [reflexivity|]. destruct (eqc c CR) eqn:E; [apply eqc_eq in E; now subst|].
  destruct (eqc c LF) eqn:E2; [apply eqc_eq in E2; now subst|reflexivity].
Qed.

Lemma quote_body_true_dbl f : nochar CR f = true -> nochar LF f = true -> quote_body true f = dbl f.
Proof.
  induction f as [|c f IH]; [reflexivity|]. unfold nochar. cbn [forallb]. intros H1 H2.
  apply andb_true_iff in H1 as [Hc1 H1]. apply andb_true_iff in H2 as [Hc2 H2].
  apply negb_true_iff in Hc1. apply negb_true_iff in Hc2.
  cbn [quote_body dbl]. rewrite Hc1, Hc2. now rewrite IH.
Qed.

(* derivation -> quoting choice *)
Lemma rfc_field_cell comma t f :
  rfc_field comma t f -> exists q, t = csv_cell false q f /\ (q = false -> plain comma f = true).
Proof.
  intros [f' Hp|f'].
  - exists false. split; [reflexivity|auto].
  - exists true. split; [|discriminate]. cbn [csv_cell]. now rewrite quote_body_false_dbl.
Qed.

Lemma rfc_record_cells comma t r :
  rfc_record comma t r ->
  exists cells, cells <> [] /\ map snd cells = r /\ t = join [comma] (map (fun qc => csv_cell false (fst qc) (snd qc)) cells)
                /\ (forall qc, In qc cells -> fst qc = false -> plain comma (snd qc) = true).
Proof.
  induction 1 as [t f Hf|t f ts fs Hf Hr IH].
  - destruct (rfc_field_cell _ _ _ Hf) as (q & -> & Hq). exists [(q, f)]. repeat split; [discriminate|].
    intros qc [<-|[]]. exact Hq.
  - destruct (rfc_field_cell _ _ _ Hf) as (q & -> & Hq). destruct IH as (cells & Hne & Hm & -> & Hall).
    exists ((q, f) :: cells). repeat split; [discriminate|cbn; now rewrite Hm| |].
    + destruct cells as [|y cells]; [congruence|]. cbn [map]. rewrite join_cons2. reflexivity.
    + intros qc [<-|Hin]; [exact Hq|now apply Hall].
Qed.

Lemma rfc_file_text comma ce t rows :
  rfc_file comma (ors_of ce) t rows ->
  exists qrows, map (map snd) qrows = rows /\ t = csv_text_q false ce comma qrows
                /\ forallb (fun cells => negb (is_nil cells)) qrows = true
                /\ (forall cells qc, In cells qrows -> In qc cells -> fst qc = false -> plain comma (snd qc) = true).
Proof.
  induction 1 as [|t r ts rs Hr Hf IH].
  - exists []. repeat split. intros ? ? [].
  - destruct (rfc_record_cells _ _ _ Hr) as (cells & Hne & Hm & -> & Hall).
    destruct IH as (qrows & Hm2 & -> & Hne2 & Hall2).
    exists (cells :: qrows). repeat split.
    + cbn. now rewrite Hm, Hm2.
    + unfold csv_text_q. cbn [map List.concat]. unfold csv_row_q. now rewrite <- app_assoc.
    + cbn [forallb]. rewrite Hne2. destruct cells; [congruence|reflexivity].
    + intros c qc [<-|Hin] Hq; [now apply Hall|now apply (Hall2 c)].
Qed.

Lemma plain_no_crlf comma f : plain comma f = true -> no_crlf f = true.
Proof.
  unfold plain. induction f as [|c f IH]; [reflexivity|]. cbn [existsb no_crlf]. intros H.
  apply negb_true_iff in H. apply orb_false_iff in H as [Hc H].
  unfold csv_special in Hc. apply orb_false_iff in Hc as [Hc _]. apply orb_false_iff in Hc as [Hc _]. apply orb_false_iff in Hc as [_ Hc].
  rewrite Hc. cbn [andb negb]. apply IH. now rewrite H.
Qed.

(* Miller's reader recovers the cells of EVERY text the RFC-4180 grammar derives (no CR LF inside a cell) *)
Lemma csv_reader_accepts_rfc4180 lazy comma ce t rows :
  comma_ok comma = true -> rfc_file comma (ors_of ce) t rows ->
  forallb (forallb no_crlf) rows = true ->
  csv_rows lazy comma t = Some rows.
Proof.
  intros Hk Hf Hrows. destruct (rfc_file_text _ _ _ _ Hf) as (qrows & <- & -> & Hne & Hall).
  apply csv_rows_text; [assumption|].
  unfold rows_ok. rewrite forallb_forall in *. intros cells Hin. rewrite (Hne cells Hin). cbn [andb].
  rewrite forallb_forall. intros qc Hqc. unfold cell_ok. destruct (fst qc) eqn:Eq.
  - cbn [body_ok]. specialize (Hrows (map snd cells) (in_map _ _ _ Hin)).
    rewrite forallb_forall in Hrows. apply Hrows. now apply in_map.
  - now apply (Hall cells).
Qed.

(* hence the grammar is unambiguous on that domain: a text has at most one reading *)
Lemma rfc4180_unambiguous comma ce t rows1 rows2 :
  comma_ok comma = true -> rfc_file comma (ors_of ce) t rows1 -> rfc_file comma (ors_of ce) t rows2 ->
  forallb (forallb no_crlf) rows1 = true -> forallb (forallb no_crlf) rows2 = true -> rows1 = rows2.
Proof.
  intros Hk H1 H2 Hr1 Hr2.
  pose proof (csv_reader_accepts_rfc4180 false comma ce t rows1 Hk H1 Hr1) as E1.
  pose proof (csv_reader_accepts_rfc4180 false comma ce t rows2 Hk H2 Hr2) as E2. congruence.
Qed.

(* today's reader turns CR LF inside a quoted cell into LF *)
Lemma csv_reader_rfc4180_crlf_refuted :
  exists t rows, rfc_file "," [LF] t rows /\ csv_rows false "," t <> Some rows.
Proof.
  exists (DQ :: dbl [CR; LF] ++ [DQ] ++ [LF] ++ []), [[[CR; LF]]]. split.
  - apply (RFile_cons "," [LF] (DQ :: dbl [CR; LF] ++ [DQ]) [[CR; LF]] [] []); [|constructor].
    constructor. constructor 2.
  - vm_compute. discriminate.
Qed.

(* ---------------------------------------------------------------- Miller's writer *)
Lemma miller_cell_ok cb qa comma f : body_ok cb f = true -> cell_ok cb comma (miller_q qa comma f) = true.
Proof.
  intros H. unfold cell_ok, miller_q. cbn [fst snd].
  destruct (qa || needs_quotes comma f) eqn:E; [exact H|].
  apply orb_false_iff in E as [_ E]. unfold needs_quotes in E. unfold plain.
  destruct f as [|c f]; [reflexivity|]. apply orb_false_iff in E as [_ E]. now rewrite E.
Qed.

(* the writer's output is a rendering of exactly its cells under the RFC-4180 grammar:
   LF line ends: every content; CRLF line ends (--ors crlf): cells without CR and LF *)
Definition content_ok (crlf : bool) (f : bytes) : bool := negb crlf || (nochar CR f && nochar LF f).

Lemma miller_field_rfc crlf qa comma f :
  content_ok crlf f = true -> rfc_field comma (csv_cell crlf (fst (miller_q qa comma f)) f) f.
Proof.
  intros H. unfold miller_q. cbn [fst].
  destruct (qa || needs_quotes comma f) eqn:E; cbn [csv_cell].
  - replace (quote_body crlf f) with (dbl f); [constructor 2|].
    destruct crlf; [|now rewrite quote_body_false_dbl].
    cbn [content_ok negb orb] in H. apply andb_true_iff in H as [H1 H2]. now rewrite quote_body_true_dbl.
  - constructor. apply orb_false_iff in E as [_ E]. unfold needs_quotes in E. unfold plain.
    destruct f as [|c f]; [reflexivity|]. apply orb_false_iff in E as [_ E]. now rewrite E.
Qed.

Lemma miller_row_rfc crlf qa comma fs :
  fs <> [] -> forallb (content_ok crlf) fs = true ->
  rfc_record comma (join [comma] (map (fun qc => csv_cell crlf (fst qc) (snd qc)) (map (miller_q qa comma) fs))) fs.
Proof.
  induction fs as [|f fs IH]; intros Hne H; [congruence|].
  cbn [forallb] in H. apply andb_true_iff in H as [Hf H].
  destruct fs as [|g fs].
  - cbn [map join]. constructor. cbn [snd]. now apply miller_field_rfc.
  - cbn [map]. rewrite join_cons2. cbn [app snd].
    apply RR_cons; [now apply miller_field_rfc|]. apply IH; [discriminate|assumption].
Qed.

Lemma miller_text_rfc crlf qa comma rows :
  forallb (fun fs => negb (is_nil fs) && forallb (content_ok crlf) fs) rows = true ->
  rfc_file comma (ors_of crlf) (csv_text_q crlf crlf comma (map (map (miller_q qa comma)) rows)) rows.
Proof.
  induction rows as [|fs rows IH]; intros H; [constructor|].
  cbn [forallb] in H. apply andb_true_iff in H as [Hfs H]. apply andb_true_iff in Hfs as [Hne Hfs].
  unfold csv_text_q. cbn [map List.concat]. unfold csv_row_q at 1. rewrite <- app_assoc.
  constructor; [|now apply IH]. apply miller_row_rfc; [destruct fs; [discriminate|discriminate]|assumption].
Qed.

(* ---------------------------------------------------------------- round trip through read_csv *)
Definition EF : ascii := ascii_of_N 239.
Definition first_not_ef (ks : list bytes) : bool :=
  match ks with (c :: _) :: _ => negb (eqc c EF) | _ => true end.

Definition wf_csv (crlf : bool) (comma : ascii) (recs : list record) : bool :=
  comma_ok comma && rect recs
  && match recs with
     | [] => true
     | r0 :: _ => nodupb (keys r0) && negb (is_nil r0) && forallb (body_ok crlf) (keys r0) && first_not_ef (keys r0)
     end
  && forallb (fun r => forallb (body_ok crlf) (values r)) recs.

Lemma strip_bom_head s : match s with c :: _ => eqc c EF = false | [] => True end -> strip_bom s = s.
Proof.
  destruct s as [|c s]; intros H; [reflexivity|]. unfold strip_bom, BOM. cbn [prefixb].
  change (ascii_of_N 239) with EF. unfold eqc in H. rewrite Ascii.eqb_sym in H. now rewrite H.
Qed.

Lemma comma_not_ef comma : comma_ok comma = true -> eqc comma EF = false.
Proof.
  unfold comma_ok. intros H. apply andb_true_iff in H as [_ H].
  destruct (eqc comma EF) eqn:E; [|reflexivity]. apply eqc_eq in E. subst. discriminate.
Qed.

Lemma text_head_ok crlf qa comma ks rows :
  comma_ok comma = true -> ks <> [] -> first_not_ef ks = true ->
  match csv_text_q crlf crlf comma (map (map (miller_q qa comma)) (ks :: rows)) with c :: _ => eqc c EF = false | [] => True end.
Proof.
  intros Hk Hne Hf. pose proof (comma_not_ef comma Hk) as Hce.
  unfold csv_text_q. cbn [map List.concat]. unfold csv_row_q at 1.
  destruct ks as [|k ks]; [congruence|]. cbn [map]. unfold miller_q at 1. cbn [fst snd].
  destruct (qa || needs_quotes comma k); cbn [csv_cell].
  - destruct ks; cbn [map join app]; reflexivity.
  - destruct k as [|c k].
    + destruct ks as [|k2 ks]; cbn [map join app].
      * destruct crlf; reflexivity.
      * exact Hce.
    + cbn [first_not_ef] in Hf. apply negb_true_iff in Hf.
      destruct ks as [|k2 ks]; cbn [map join app]; exact Hf.
Qed.

Lemma csv_roundtrip qa crlf comma lazy dedupe ragged recs :
  wf_csv crlf comma recs = true ->
  obind (write_csv false qa crlf comma recs) (read_csv false lazy dedupe ragged comma) = Some recs.
Proof.
  unfold wf_csv. intros H. apply andb_true_iff in H as [H Hvals]. apply andb_true_iff in H as [H Hk0].
  apply andb_true_iff in H as [Hcomma Hrect].
  destruct recs as [|r0 rest]; [reflexivity|].
  apply andb_true_iff in Hk0 as [Hk0 Hef]. apply andb_true_iff in Hk0 as [Hk0 Hkb]. apply andb_true_iff in Hk0 as [Hnd Hne].
  unfold write_csv. rewrite (rows_of_rect r0 rest Hrect). cbn [orb is_nil obind app].
  unfold read_csv.
  assert (Hkne : keys r0 <> []). { destruct r0; [discriminate|discriminate]. }
  rewrite strip_bom_head by (apply text_head_ok; assumption).
  rewrite csv_rows_text; [|assumption|].
  2:{ unfold rows_ok. rewrite forallb_forall. intros cells Hin.
      apply in_map_iff in Hin as (fs & <- & Hin).
      assert (Hfs : fs <> [] /\ forallb (body_ok crlf) fs = true).
      { destruct Hin as [<-|Hin]; [split; assumption|].
        apply in_map_iff in Hin as (r & <- & Hr). split.
        - unfold rect in Hrect. rewrite forallb_forall in Hrect. specialize (Hrect r Hr). apply list_beqb_eq in Hrect.
          destruct r; [destruct r0; [discriminate|discriminate]|discriminate].
        - rewrite forallb_forall in Hvals. now apply Hvals. }
      destruct Hfs as [Hfne Hfok]. apply andb_true_iff. split; [destruct fs; [congruence|reflexivity]|].
      rewrite forallb_map. rewrite forallb_forall in *. intros v Hv. apply miller_cell_ok. now apply Hfok. }
  assert (Hms : forall L : list (list bytes), map (map snd) (map (map (miller_q qa comma)) L) = L).
  { intros L. rewrite map_map. rewrite <- (map_id L) at 2. apply map_ext. intros l.
    rewrite map_map. cbn [miller_q snd]. apply map_id. }
  rewrite Hms. cbv iota.
  apply map_opt_map_id. intros r Hr.
  unfold rect in Hrect. rewrite forallb_forall in Hrect. specialize (Hrect r Hr). apply list_beqb_eq in Hrect.
  rewrite <- Hrect. rewrite <- Hrect in Hnd. now apply row_to_record_rect.
Qed.

(* the two defects of today's code, on the faithful model *)
Lemma csv_roundtrip_crlf_in_cell_refuted :
  exists recs, rect recs = true /\
    obind (write_csv false false false "," recs) (read_csv false false true false ",") <> Some recs.
Proof. exists [[(B "a", [CR; LF])]]. split; [reflexivity|]. vm_compute. discriminate. Qed.

Lemma csv_ors_crlf_drops_cr_refuted :
  exists recs, rect recs = true /\
    obind (write_csv false false true "," recs) (read_csv false false true false ",") <> Some recs.
Proof. exists [[(B "a", [CR; "x"])]]. split; [reflexivity|]. vm_compute. discriminate. Qed.
