(* DKVP and NIDX: writer/reader round trips. *)
From Miller Require Import Base.Bytes Base.Record C01.Model C01.ProofsUtil C01.ProofsTsv.
From Coq Require Import DecimalString DecimalNat.
Open Scope char_scope.

Lemma ends_cr_app_ne a b : b <> [] -> ends_cr (a ++ b) = ends_cr b.
Proof.
  intros Hb. unfold ends_cr. rewrite rev_app_distr.
  destruct (rev b) as [|c r] eqn:E; [|reflexivity].
  apply (f_equal (@rev ascii)) in E. rewrite rev_involutive in E. now subst.
Qed.

Lemma join_ne sep x t : x <> [] -> join sep (x :: t) <> [].
Proof.
  intros Hx. destruct t as [|y t]; [exact Hx|]. rewrite join_cons2. intros E. apply app_eq_nil in E as [E _]. auto.
Qed.

Definition sep_ok (s : bytes) : bool := negb (is_nil s) && nochar LF s && nochar CR s.
Definition pair_of (ops : bytes) (kv : field) : bytes := fst kv ++ ops ++ snd kv.

Fixpoint last_value_ok (r : record) : bool :=
  match r with
  | [] => true
  | kv :: t => match t with [] => negb (ends_cr (snd kv)) | _ => last_value_ok t end
  end.

Definition dkvp_field_ok (ifs ips : bytes) (kv : field) : bool :=
  freeof ifs (fst kv) && freeof ips (fst kv) && nochar LF (fst kv) && freeof ifs (snd kv) && nochar LF (snd kv).

Definition wf_dkvp (ifs ips : bytes) (crlf : bool) (recs : list record) : bool :=
  sep_ok ifs && sep_ok ips && freeof ifs ips
  && forallb (fun r => nodupb (keys r) && forallb (dkvp_field_ok ifs ips) r && (crlf || last_value_ok r)) recs.

Lemma sep_ok_ne s : sep_ok s = true -> s <> [].
Proof. unfold sep_ok. destruct s; [discriminate|discriminate]. Qed.

Lemma dkvp_line_ends ifs ips r :
  sep_ok ips = true -> last_value_ok r = true -> ends_cr (dkvp_line ifs ips r) = false.
Proof.
  intros Hips. pose proof (sep_ok_ne _ Hips) as Hne.
  unfold dkvp_line. induction r as [|[k v] r IH]; intros H; [reflexivity|].
  destruct r as [|kv2 r].
  - cbn [map join fst snd]. cbn [last_value_ok snd] in H. apply negb_true_iff in H.
    rewrite ends_cr_app_ne.
    + destruct v as [|c v]; [|rewrite ends_cr_app_ne; [exact H|discriminate]].
      rewrite app_nil_r. apply ends_cr_nochar. unfold sep_ok in Hips. now apply andb_true_iff in Hips as [_ ?].
    + intros E. apply app_eq_nil in E as [E _]. auto.
  - cbn [map]. rewrite join_cons2. rewrite app_assoc. rewrite ends_cr_app_ne.
    + apply IH. exact H.
    + apply join_ne. destruct kv2 as [k2 v2]. cbn [fst snd]. intros E. apply app_eq_nil in E as [_ E]. apply app_eq_nil in E as [E _]. auto.
Qed.

Lemma dkvp_line_nolf ifs ips r :
  sep_ok ifs = true -> sep_ok ips = true -> forallb (dkvp_field_ok ifs ips) r = true ->
  nochar LF (dkvp_line ifs ips r) = true.
Proof.
  intros Hifs Hips H. unfold dkvp_line. apply nochar_join.
  - unfold sep_ok in Hifs. apply andb_true_iff in Hifs as [Hifs _]. now apply andb_true_iff in Hifs as [_ ?].
  - rewrite forallb_map. rewrite forallb_forall in *. intros [k v] Hkv. specialize (H _ Hkv).
    unfold dkvp_field_ok in H. cbn [fst snd] in *.
    repeat (apply andb_true_iff in H as [H ?]). rewrite !nochar_app.
    unfold sep_ok in Hips. apply andb_true_iff in Hips as [Hips _]. apply andb_true_iff in Hips as [_ Hips].
    now rewrite H2, Hips, H0.
Qed.

Lemma dkvp_pairs_spec ips d r : forall i acc,
  ips <> [] -> forallb (fun kv => freeof ips (fst kv)) r = true -> NoDup (keys acc ++ keys r) ->
  dkvp_pairs ips d i (map (fun kv => fst kv ++ ips ++ snd kv) r) acc = acc ++ r.
Proof.
  induction r as [|[k v] r IH]; intros i acc Hne Hf Hnd; [cbn; now rewrite app_nil_r|].
  cbn [forallb fst snd] in Hf. apply andb_true_iff in Hf as [Hk Hf].
  cbn [map dkvp_pairs fst snd]. rewrite split2_spec by assumption.
  assert (Hh : has k acc = false).
  { apply has_false_notin. intros Hin. cbn [keys map fst] in Hnd. apply NoDup_remove_2 in Hnd. apply Hnd. apply in_or_app. now left. }
  rewrite put_deferred_new by assumption. rewrite IH; try assumption.
  - now rewrite <- app_assoc.
  - unfold keys in *. rewrite map_app. cbn [map fst] in *. now rewrite <- app_assoc.
Qed.

Lemma dkvp_roundtrip ifs ips crlf dedupe recs :
  wf_dkvp ifs ips crlf recs = true ->
  read_dkvp ifs ips false dedupe (write_dkvp ifs ips crlf recs) = recs.
Proof.
  unfold wf_dkvp. intros H. apply andb_true_iff in H as [H Hrecs]. apply andb_true_iff in H as [H Hii].
  apply andb_true_iff in H as [Hifs Hips].
  unfold read_dkvp, write_dkvp. rewrite lines_of_unlines.
  2:{ rewrite forallb_map. rewrite forallb_forall in *. intros r Hr. specialize (Hrecs r Hr).
      apply andb_true_iff in Hrecs as [Hr1 Hlast]. apply andb_true_iff in Hr1 as [_ Hf].
      unfold line_ok. rewrite dkvp_line_nolf by assumption. cbn [andb].
      destruct crlf; [reflexivity|]. cbn [orb] in *. now rewrite dkvp_line_ends. }
  rewrite map_map. rewrite <- (map_id recs) at 2. apply map_ext_in. intros r Hr.
  rewrite forallb_forall in Hrecs. specialize (Hrecs r Hr).
  apply andb_true_iff in Hrecs as [Hr1 _]. apply andb_true_iff in Hr1 as [Hnd Hf].
  unfold field_split, dkvp_line.
  pose proof (sep_ok_ne _ Hifs) as Hifs_ne. pose proof (sep_ok_ne _ Hips) as Hips_ne.
  rewrite split_string_join; try assumption.
  - rewrite (dkvp_pairs_spec ips dedupe r 0 []); try assumption; [reflexivity| |cbn; now apply nodupb_NoDup].
    rewrite forallb_forall in *. intros kv Hkv. specialize (Hf kv Hkv). unfold dkvp_field_ok in Hf.
    repeat (apply andb_true_iff in Hf as [Hf ?]). assumption.
  - rewrite forallb_map. rewrite forallb_forall in *. intros [k v] Hkv. specialize (Hf _ Hkv). unfold dkvp_field_ok in Hf.
    cbn [fst snd] in *. repeat (apply andb_true_iff in Hf as [Hf ?]). rewrite !freeof_app. now rewrite Hf, Hii, H0.
  - destruct r as [|[k v] [|kv2 r]]; try discriminate. cbn [map fst snd]. intros E. injection E as E.
    apply app_eq_nil in E as [_ E]. apply app_eq_nil in E as [E _]. auto.
Qed.

(* ---------------------------------------------------------------- NIDX *)
Lemma itoa_inj a b : itoa a = itoa b -> a = b.
Proof.
  unfold itoa. intros H.
  apply (f_equal string_of_list_ascii) in H. rewrite !string_of_list_ascii_of_string in H.
  apply (f_equal NilEmpty.uint_of_string) in H. rewrite !NilEmpty.usu in H. injection H as H.
  now apply Unsigned.to_uint_inj.
Qed.

Definition wf_nidx_rec (ifs : bytes) (crlf : bool) (r : record) : bool :=
  list_beqb (keys r) (positional_keys (List.length r))
  && forallb (fun v => negb (is_nil v) && freeof ifs v && nochar LF v) (values r)
  && (crlf || last_value_ok r).
Definition wf_nidx (ifs : bytes) (crlf : bool) (recs : list record) : bool :=
  sep_ok ifs && forallb (wf_nidx_rec ifs crlf) recs.

Lemma nidx_fields_spec fs : forall i acc,
  (forall k, In k (keys acc) -> exists j, j <= i /\ k = itoa j) ->
  nidx_fields i fs acc = acc ++ combine (map itoa (seq (S i) (List.length fs))) fs.
Proof.
  induction fs as [|f fs IH]; intros i acc Hacc; [cbn; now rewrite app_nil_r|].
  cbn [nidx_fields List.length seq map combine].
  assert (Hh : has (itoa (S i)) acc = false).
  { apply has_false_notin. intros Hin. destruct (Hacc _ Hin) as (j & Hj & E). apply itoa_inj in E. lia. }
  rewrite put_deferred_new by assumption. rewrite IH.
  - now rewrite <- app_assoc.
  - intros k Hk. unfold keys in Hk. rewrite map_app in Hk. apply in_app_or in Hk as [Hk|Hk].
    + destruct (Hacc _ Hk) as (j & Hj & E). exists j. split; [lia|assumption].
    + cbn in Hk. destruct Hk as [<-|[]]. exists (S i). split; [lia|reflexivity].
Qed.

Lemma values_line_ends ifs r :
  forallb (fun v => negb (is_nil v)) (values r) = true -> last_value_ok r = true ->
  ends_cr (join ifs (values r)) = false.
Proof.
  induction r as [|[k v] r IH]; intros Hne H; [reflexivity|].
  destruct r as [|kv2 r].
  - cbn [values map join snd]. cbn [last_value_ok snd] in H. now apply negb_true_iff in H.
  - cbn [values map]. fold (values (kv2 :: r)). change (map snd (kv2 :: r)) with (values (kv2 :: r)).
    cbn [values map] in Hne. cbn [forallb] in Hne. apply andb_true_iff in Hne as [_ Hne].
    change (snd (k, v) :: snd kv2 :: map snd r) with (v :: values (kv2 :: r)).
    cbn [values map]. rewrite join_cons2. rewrite app_assoc. rewrite ends_cr_app_ne.
    + apply IH; assumption.
    + apply join_ne. cbn [forallb] in Hne. apply andb_true_iff in Hne as [Hne _]. destruct (snd kv2); [discriminate|discriminate].
Qed.

Lemma nidx_roundtrip ifs crlf recs :
  wf_nidx ifs crlf recs = true ->
  read_nidx ifs true (write_nidx ifs crlf recs) = recs.
Proof.
  unfold wf_nidx. intros H. apply andb_true_iff in H as [Hifs Hrecs].
  pose proof (sep_ok_ne _ Hifs) as Hifs_ne.
  unfold read_nidx, write_nidx. rewrite lines_of_unlines.
  2:{ rewrite forallb_map. rewrite forallb_forall in *. intros r Hr. specialize (Hrecs r Hr).
      unfold wf_nidx_rec in Hrecs. apply andb_true_iff in Hrecs as [Hr1 Hlast]. apply andb_true_iff in Hr1 as [_ Hv].
      unfold line_ok. rewrite nochar_join.
      - cbn [andb]. destruct crlf; [reflexivity|]. cbn [orb] in *. rewrite values_line_ends; [reflexivity| |assumption].
        rewrite forallb_forall in *. intros v Hin. specialize (Hv v Hin). apply andb_true_iff in Hv as [Hv _]. now apply andb_true_iff in Hv as [? _].
      - unfold sep_ok in Hifs. apply andb_true_iff in Hifs as [Hifs _]. now apply andb_true_iff in Hifs as [_ ?].
      - rewrite forallb_forall in *. intros v Hin. specialize (Hv v Hin). now apply andb_true_iff in Hv as [_ ?]. }
  rewrite map_map. rewrite <- (map_id recs) at 2. apply map_ext_in. intros r Hr.
  rewrite forallb_forall in Hrecs. specialize (Hrecs r Hr).
  unfold wf_nidx_rec in Hrecs. apply andb_true_iff in Hrecs as [Hr1 _]. apply andb_true_iff in Hr1 as [Hk Hv].
  apply list_beqb_eq in Hk.
  assert (Hne : forallb (fun f => negb (is_nil f)) (values r) = true).
  { rewrite forallb_forall in *. intros v Hin. specialize (Hv v Hin). apply andb_true_iff in Hv as [Hv _]. now apply andb_true_iff in Hv as [? _]. }
  unfold field_split. rewrite split_string_join; try assumption.
  - rewrite strip_empties_id by assumption.
    rewrite nidx_fields_spec; [|intros k []].
    cbn [app]. replace (List.length (values r)) with (List.length r) by (unfold values; now rewrite map_length).
    unfold positional_keys in Hk. rewrite <- Hk.
    apply combine_keys_values.
  - rewrite forallb_forall in *. intros v Hin. specialize (Hv v Hin). apply andb_true_iff in Hv as [Hv _]. now apply andb_true_iff in Hv as [_ ?].
  - intros E. rewrite E in Hne. discriminate.
Qed.

(* ---------------------------------------------------------------- NIDX with the default whitespace regex *)
Definition ws_free (v : bytes) : bool := forallb (fun c => negb (is_ws c)) v.

Lemma split_ws_field f : forall rest acc b,
  f <> [] -> ws_free f = true ->
  split_ws_go (f ++ rest) acc b = split_ws_go rest (rev f ++ acc) false.
Proof.
  induction f as [|c f IH]; intros rest acc b Hne H; [congruence|].
  unfold ws_free in H. cbn [forallb] in H. apply andb_true_iff in H as [Hc H]. apply negb_true_iff in Hc.
  cbn [app split_ws_go]. rewrite Hc.
  destruct f as [|d f].
  - reflexivity.
  - rewrite IH; [|discriminate|exact H]. cbn [rev]. now rewrite <- !app_assoc.
Qed.

Lemma split_ws_join vs : forall b,
  vs <> [] -> forallb (fun v => negb (is_nil v) && ws_free v) vs = true ->
  split_ws_go (join [SP] vs) [] b = vs.
Proof.
  induction vs as [|x vs IH]; intros b Hne H; [congruence|].
  cbn [forallb] in H. apply andb_true_iff in H as [Hx H]. apply andb_true_iff in Hx as [Hxne Hx].
  assert (Hx' : x <> []) by (destruct x; [discriminate|discriminate]).
  destruct vs as [|y vs].
  - cbn [join]. rewrite <- (app_nil_r x) at 1. rewrite split_ws_field by assumption.
    cbn [split_ws_go]. now rewrite app_nil_r, rev_involutive.
  - rewrite join_cons2. rewrite split_ws_field by assumption. cbn [app split_ws_go].
    replace (is_ws SP) with true by reflexivity. rewrite app_nil_r, rev_involutive. f_equal.
    apply IH; [discriminate|assumption].
Qed.

Definition wf_nidx_ws_rec (crlf : bool) (r : record) : bool :=
  list_beqb (keys r) (positional_keys (List.length r))
  && forallb (fun v => negb (is_nil v) && ws_free v && nochar LF v) (values r)
  && (crlf || last_value_ok r).

Lemma nidx_ws_roundtrip crlf recs :
  forallb (wf_nidx_ws_rec crlf) recs = true ->
  read_nidx_ws (write_nidx [SP] crlf recs) = recs.
Proof.
  intros Hrecs. unfold read_nidx_ws, write_nidx. rewrite lines_of_unlines.
  2:{ rewrite forallb_map. rewrite forallb_forall in *. intros r Hr. specialize (Hrecs r Hr).
      unfold wf_nidx_ws_rec in Hrecs. apply andb_true_iff in Hrecs as [Hr1 Hlast]. apply andb_true_iff in Hr1 as [_ Hv].
      unfold line_ok. rewrite nochar_join.
      - cbn [andb]. destruct crlf; [reflexivity|]. cbn [orb] in *. rewrite values_line_ends; [reflexivity| |assumption].
        rewrite forallb_forall in *. intros v Hin. specialize (Hv v Hin). apply andb_true_iff in Hv as [Hv _]. now apply andb_true_iff in Hv as [? _].
      - reflexivity.
      - rewrite forallb_forall in *. intros v Hin. specialize (Hv v Hin). now apply andb_true_iff in Hv as [_ ?]. }
  rewrite map_map. rewrite <- (map_id recs) at 2. apply map_ext_in. intros r Hr.
  rewrite forallb_forall in Hrecs. specialize (Hrecs r Hr).
  unfold wf_nidx_ws_rec in Hrecs. apply andb_true_iff in Hrecs as [Hr1 _]. apply andb_true_iff in Hr1 as [Hk Hv].
  apply list_beqb_eq in Hk.
  assert (Hsplit : split_ws (join [SP] (values r)) = values r).
  { unfold split_ws. destruct (values r) as [|v vs] eqn:E; [reflexivity|].
    assert (Hne : join [SP] (v :: vs) <> []).
    { apply join_ne. cbn [forallb] in Hv. apply andb_true_iff in Hv as [Hv _]. apply andb_true_iff in Hv as [Hv _].
      apply andb_true_iff in Hv as [Hv _]. destruct v; [discriminate|discriminate]. }
    destruct (join [SP] (v :: vs)) eqn:E2; [congruence|]. rewrite <- E2.
    apply split_ws_join; [discriminate|]. rewrite forallb_forall in *. intros w Hw. specialize (Hv w Hw).
    apply andb_true_iff in Hv as [Hv _]. exact Hv. }
  rewrite Hsplit. rewrite nidx_fields_spec; [|intros k []].
  cbn [app]. replace (List.length (values r)) with (List.length r) by (unfold values; now rewrite map_length).
  unfold positional_keys in Hk. rewrite <- Hk. apply combine_keys_values.
Qed.
