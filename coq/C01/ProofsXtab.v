(* XTAB: writer then reader is the identity, for EVERY display-width function. *)
From Miller Require Import Base.Bytes Base.Record C01.Model C01.ModelXtab C01.ProofsUtil C01.ProofsTsv C01.ProofsDkvp.
Open Scope char_scope.

Definition starts_with (c : ascii) (v : bytes) : bool := match v with x :: _ => eqc x c | [] => false end.

Definition xtab_field_ok (c : ascii) (kv : field) : bool :=
  nochar c (fst kv) && nochar LF (fst kv) && nochar LF (snd kv) && negb (starts_with c (snd kv)) && negb (ends_cr (snd kv)).
(* IPS = OPS = one byte c, not CR/LF; records non-empty with unique keys; keys free of c and LF (the empty key is fine);
   values free of LF, not starting with c (the reader skips repeated IPS), not ending in CR (line reader) *)
Definition wf_xtab (c : ascii) (recs : list record) : bool :=
  negb (eqc c LF) && negb (eqc c CR)
  && forallb (fun r => negb (is_nil r) && nodupb (keys r) && forallb (xtab_field_ok c) r) recs.

Lemma prefixb_single c s : prefixb [c] s = starts_with c s.
Proof. destruct s as [|x s]; [reflexivity|]. cbn. unfold eqc. rewrite andb_true_r. apply Ascii.eqb_sym. Qed.

Lemma strip_copies_rep c n v : forall fuel,
  n <= fuel -> starts_with c v = false -> strip_copies fuel [c] (repeat_bytes n [c] ++ v) = v.
Proof.
  induction n as [|n IH]; intros fuel Hf Hv.
  - cbn [repeat_bytes app]. destruct fuel; [reflexivity|]. cbn [strip_copies]. now rewrite prefixb_single, Hv.
  - destruct fuel as [|fuel]; [lia|]. cbn [repeat_bytes app strip_copies].
    rewrite prefixb_single. cbn [starts_with]. rewrite eqc_refl. cbn [List.length skipn]. apply IH; [lia|assumption].
Qed.

Lemma drop_while_rep c n v : starts_with c v = false -> drop_while_ips [c] (repeat_bytes n [c] ++ v) = v.
Proof.
  intros Hv. induction n as [|n IH].
  - cbn [repeat_bytes app]. destruct v as [|x t]; [reflexivity|]. cbn [drop_while_ips]. now rewrite prefixb_single, Hv.
  - cbn [repeat_bytes app drop_while_ips]. rewrite prefixb_single. cbn [starts_with]. now rewrite eqc_refl.
Qed.

Lemma find_ips_key c k : forall rest acc,
  nochar c k = true -> find_ips [c] (k ++ c :: rest) acc = Some (rev acc ++ k, c :: rest).
Proof.
  induction k as [|x k IH]; intros rest acc H.
  - cbn [app find_ips]. rewrite prefixb_single. cbn [starts_with]. now rewrite eqc_refl, app_nil_r.
  - unfold nochar in H. cbn [forallb] in H. apply andb_true_iff in H as [Hx H]. apply negb_true_iff in Hx.
    cbn [app find_ips]. rewrite prefixb_single. cbn [starts_with]. rewrite Hx.
    rewrite IH by exact H. cbn [rev]. now rewrite <- app_assoc.
Qed.

Lemma xtab_split_line c k p v :
  nochar c k = true -> starts_with c v = false ->
  xtab_split [c] (k ++ [c] ++ repeat_bytes p [c] ++ v) = Some (k, v).
Proof.
  intros Hk Hv. destruct k as [|x k].
  - cbn [app]. unfold xtab_split. rewrite prefixb_single. cbn [starts_with]. rewrite eqc_refl.
    change (c :: repeat_bytes p [c] ++ v) with (repeat_bytes (S p) [c] ++ v).
    rewrite strip_copies_rep; [reflexivity| |assumption].
    rewrite app_length. clear. induction p; cbn in *; lia.
  - unfold nochar in Hk. cbn [forallb] in Hk. apply andb_true_iff in Hk as [Hx Hk]. apply negb_true_iff in Hx.
    cbn [app]. unfold xtab_split. rewrite prefixb_single. cbn [starts_with]. rewrite Hx.
    rewrite find_ips_key by exact Hk. cbn [rev app List.length skipn]. now rewrite drop_while_rep.
Qed.

Lemma repeat_bytes_add a b (s : bytes) : repeat_bytes (a + b) s = repeat_bytes a s ++ repeat_bytes b s.
Proof. induction a as [|a IH]; [reflexivity|]. cbn [Nat.add repeat_bytes]. now rewrite IH, app_assoc. Qed.

Section W.
Variable w : bytes -> nat.
Variable c : ascii.
(* --xvright pads the VALUES with spaces: that is more copies of the IPS exactly when the IPS is the space *)
Variable right : bool.
Hypothesis Hright : right = false \/ c = SP.

Definition xpad (maxk maxv : nat) (kv : field) : nat := (maxk - w (fst kv)) + (if right then maxv - w (snd kv) else 0).

Lemma xtab_line_shape maxk maxv kv :
  xtab_line w [c] right maxk maxv kv = fst kv ++ [c] ++ repeat_bytes (xpad maxk maxv kv) [c] ++ snd kv.
Proof.
  unfold xtab_line, xpad. cbn [List.length Nat.eqb]. rewrite repeat_bytes_add.
  destruct Hright as [-> | ->]; [cbn [repeat_bytes app]; rewrite ?app_nil_r; now rewrite <- ?app_assoc|].
  destruct right; [|cbn [repeat_bytes app]; rewrite ?app_nil_r]; now rewrite <- ?app_assoc.
Qed.

Lemma xtab_record_spec d maxk maxv r : forall acc,
  forallb (xtab_field_ok c) r = true -> NoDup (keys acc ++ keys r) ->
  xtab_record [c] d (map (xtab_line w [c] right maxk maxv) r) acc = Some (acc ++ r).
Proof.
  induction r as [|[k v] r IH]; intros acc Hok Hnd; [cbn; now rewrite app_nil_r|].
  cbn [forallb] in Hok. apply andb_true_iff in Hok as [Hkv Hok].
  unfold xtab_field_ok in Hkv. cbn [fst snd] in Hkv. repeat (apply andb_true_iff in Hkv as [Hkv ?]).
  cbn [map xtab_record]. rewrite xtab_line_shape. cbn [fst snd].
  rewrite xtab_split_line; [|assumption|now apply negb_true_iff].
  assert (Hh : has k acc = false).
  { apply has_false_notin. intros Hin. cbn [keys map fst] in Hnd. apply NoDup_remove_2 in Hnd. apply Hnd. apply in_or_app. now left. }
  rewrite put_deferred_new by assumption. rewrite IH; [now rewrite <- app_assoc|assumption|].
  unfold keys in *. rewrite map_app. cbn [map fst] in *. now rewrite <- app_assoc.
Qed.

Lemma xtab_line_nonempty maxk maxv kv : is_nil (xtab_line w [c] right maxk maxv kv) = false.
Proof. rewrite xtab_line_shape. destruct (fst kv); reflexivity. Qed.

Lemma repeat_last_cr n : eqc c CR = false -> ends_cr (repeat_bytes (S n) [c]) = false.
Proof.
  intros Hc. induction n as [|n IH]; [cbn; unfold ends_cr; cbn; exact Hc|].
  change (repeat_bytes (S (S n)) [c]) with ([c] ++ repeat_bytes (S n) [c]). rewrite ends_cr_app_ne; [exact IH|discriminate].
Qed.

Lemma nochar_repeat x n : eqc c x = false -> nochar x (repeat_bytes n [c]) = true.
Proof. intros H. induction n as [|n IH]; [reflexivity|]. cbn [repeat_bytes app]. unfold nochar in *. cbn [forallb]. now rewrite H, IH. Qed.

Lemma xtab_line_ok maxk maxv kv :
  eqc c LF = false -> eqc c CR = false -> xtab_field_ok c kv = true ->
  line_ok false (xtab_line w [c] right maxk maxv kv) = true.
Proof.
  intros Hlf Hcr Hok. destruct kv as [k v]. unfold xtab_field_ok in Hok. cbn [fst snd] in Hok.
  repeat (apply andb_true_iff in Hok as [Hok ?]).
  rewrite xtab_line_shape. cbn [fst snd]. unfold line_ok. rewrite !nochar_app.
  rewrite H2, H1, (nochar_repeat LF _ Hlf). unfold nochar at 1. cbn [forallb]. rewrite Hlf. cbn [negb andb orb].
  apply negb_true_iff. destruct v as [|x v].
  - rewrite app_nil_r. rewrite ends_cr_app_ne by discriminate.
    change ([c] ++ repeat_bytes (xpad maxk maxv (k, [])) [c]) with (repeat_bytes (S (xpad maxk maxv (k, []))) [c]). now apply repeat_last_cr.
  - rewrite !app_assoc. rewrite ends_cr_app_ne by discriminate. now apply negb_true_iff.
Qed.

Lemma stanza_lines L : forall rest cur,
  forallb (fun l => negb (is_nil l)) L = true ->
  xtab_stanzas (L ++ rest) cur = xtab_stanzas rest (rev L ++ cur).
Proof.
  induction L as [|l L IH]; intros rest cur H; [reflexivity|].
  cbn [forallb] in H. apply andb_true_iff in H as [Hl H]. apply negb_true_iff in Hl.
  cbn [app xtab_stanzas]. rewrite Hl. rewrite IH by assumption. cbn [rev]. now rewrite <- app_assoc.
Qed.

Lemma stanzas_rest (lines : record -> list bytes) rest : forall cur,
  cur <> [] ->
  (forall r, In r rest -> lines r <> [] /\ forallb (fun l => negb (is_nil l)) (lines r) = true) ->
  xtab_stanzas (List.concat (map (fun r' => [] :: lines r') rest)) cur = rev cur :: map lines rest.
Proof.
  induction rest as [|r rest IH]; intros cur Hcur H.
  - cbn. destruct cur; [congruence|reflexivity].
  - cbn [map List.concat]. cbn [app xtab_stanzas is_nil]. destruct cur as [|x cur']; [congruence|].
    destruct (H r (or_introl eq_refl)) as [Hne Hnn].
    rewrite stanza_lines by assumption. rewrite app_nil_r.
    rewrite IH; [now rewrite rev_involutive| |intros r' Hr'; apply H; now right].
    intros E. apply Hne. apply (f_equal (@rev bytes)) in E. now rewrite rev_involutive in E.
Qed.

Lemma xtab_roundtrip_g dedupe recs :
  wf_xtab c recs = true -> read_xtab [c] dedupe (write_xtab w [c] right recs) = Some recs.
Proof.
  unfold wf_xtab. intros H. apply andb_true_iff in H as [Hc Hrecs]. apply andb_true_iff in Hc as [Hlf Hcr].
  apply negb_true_iff in Hlf, Hcr.
  assert (Hr : forall r, In r recs -> r <> [] /\ NoDup (keys r) /\ forallb (xtab_field_ok c) r = true).
  { intros r Hin. rewrite forallb_forall in Hrecs. specialize (Hrecs r Hin).
    apply andb_true_iff in Hrecs as [Hrecs H3]. apply andb_true_iff in Hrecs as [H1 H2].
    repeat split; [destruct r; [discriminate|discriminate]|now apply nodupb_NoDup|assumption]. }
  assert (Hlines : forall r, In r recs ->
            xtab_rec_lines w [c] right r <> [] /\ forallb (fun l => negb (is_nil l)) (xtab_rec_lines w [c] right r) = true).
  { intros r Hin. destruct (Hr r Hin) as (Hne & _ & _). unfold xtab_rec_lines. split.
    - destruct r; [congruence|discriminate].
    - rewrite forallb_map. apply forallb_true. intros kv. now rewrite xtab_line_nonempty. }
  unfold read_xtab, write_xtab. change [LF] with (ors_of false). rewrite lines_of_unlines.
  2:{ destruct recs as [|r0 rest]; [reflexivity|]. cbn [xtab_all_lines]. rewrite forallb_app. apply andb_true_iff. split.
      - unfold xtab_rec_lines. rewrite forallb_map. rewrite forallb_forall. intros kv Hkv. apply xtab_line_ok; try assumption.
        destruct (Hr r0 (or_introl eq_refl)) as (_ & _ & Hok). rewrite forallb_forall in Hok. now apply Hok.
      - rewrite forallb_forall. intros l Hl. apply in_concat in Hl as (ls & Hls & Hl). apply in_map_iff in Hls as (r & <- & Hin).
        destruct Hl as [<-|Hl]; [reflexivity|]. unfold xtab_rec_lines in Hl. apply in_map_iff in Hl as (kv & <- & Hkv).
        apply xtab_line_ok; try assumption.
        destruct (Hr r (or_intror Hin)) as (_ & _ & Hok). rewrite forallb_forall in Hok. now apply Hok. }
  assert (Hst : xtab_stanzas (xtab_all_lines w [c] right recs) [] = map (xtab_rec_lines w [c] right) recs).
  { destruct recs as [|r0 rest]; [reflexivity|]. cbn [xtab_all_lines map].
    destruct (Hlines r0 (or_introl eq_refl)) as [Hne Hnn].
    rewrite stanza_lines by assumption. rewrite app_nil_r.
    rewrite stanzas_rest; [now rewrite rev_involutive| |intros r Hin; apply Hlines; now right].
    intros E. apply Hne. apply (f_equal (@rev bytes)) in E. now rewrite rev_involutive in E. }
  rewrite Hst. apply map_opt_map_id. intros r Hin. destruct (Hr r Hin) as (_ & Hnd & Hok).
  unfold xtab_rec_lines. now rewrite xtab_record_spec.
Qed.
End W.

Lemma xtab_roundtrip w c dedupe recs :
  wf_xtab c recs = true -> read_xtab [c] dedupe (write_xtab w [c] false recs) = Some recs.
Proof. exact (xtab_roundtrip_g w c false (or_introl eq_refl) dedupe recs). Qed.

(* --xvright with the default IPS/OPS (the space) *)
Lemma xtab_xvright_roundtrip w dedupe recs :
  wf_xtab SP recs = true -> read_xtab [SP] dedupe (write_xtab w [SP] true recs) = Some recs.
Proof. exact (xtab_roundtrip_g w SP true (or_intror eq_refl) dedupe recs). Qed.
