(* csvlite: writer then reader is the identity, including schema changes (heterogeneity blocks). *)
From Miller Require Import Base.Bytes Base.Record C01.Model C01.ModelXtab C01.ModelLite
     C01.ProofsUtil C01.ProofsTsv C01.ProofsDkvp C01.ProofsCsv.
Open Scope char_scope.

Definition COMMA : ascii := ",".
Definition lite_val_ok (c : ascii) (x : bytes) : bool := nochar c x && nochar LF x && nochar CR x.
Definition lite_key_ok (c : ascii) (x : bytes) : bool := lite_val_ok c x && nochar COMMA x.
Definition lite_rec_ok (c : ascii) (r : record) : bool :=
  negb (is_nil r) && nodupb (keys r) && forallb (lite_key_ok c) (keys r) && forallb (lite_val_ok c) (values r)
  && not_single_empty (keys r) && not_single_empty (values r).
(* one-byte OFS = IFS = c (not CR, LF, 0xEF); records non-empty with unique keys; cells free of c, CR, LF; keys also
   free of "," (the writer detects schema change on the ","-joined keys); a single empty field would be an empty
   line (= schema change); first key not starting with byte 0xEF (BOM) *)
Definition wf_lite (c : ascii) (recs : list record) : bool :=
  negb (eqc c LF) && negb (eqc c CR) && negb (eqc c EF)
  && forallb (lite_rec_ok c) recs
  && match recs with r0 :: _ => first_not_ef (keys r0) | [] => true end.

Lemma join_not_nil sep fs : sep <> [] -> fs <> [] -> not_single_empty fs = true -> is_nil (join sep fs) = false.
Proof.
  intros Hs Hne Hn. destruct (join sep fs) eqn:E; [|reflexivity].
  apply join_nil_inv in E as [E|E]; [congruence|subst; discriminate|assumption].
Qed.

Lemma join_inj sep a b :
  sep <> [] -> a <> [] -> b <> [] -> forallb (freeof sep) a = true -> forallb (freeof sep) b = true ->
  join sep a = join sep b -> a = b.
Proof.
  intros Hs Ha Hb Hfa Hfb E.
  rewrite <- (split_join sep a) by assumption. rewrite <- (split_join sep b) by assumption. now rewrite E.
Qed.

Section Lite.
Variables (c : ascii) (d rg : bool).
Hypothesis Hlf : eqc c LF = false.
Hypothesis Hcr : eqc c CR = false.

Lemma rec_facts r : lite_rec_ok c r = true ->
  r <> [] /\ NoDup (keys r) /\ keys r <> [] /\ values r <> []
  /\ forallb (freeof [c]) (keys r) = true /\ forallb (freeof [c]) (values r) = true
  /\ forallb (freeof [COMMA]) (keys r) = true
  /\ not_single_empty (keys r) = true /\ not_single_empty (values r) = true.
Proof.
  unfold lite_rec_ok. intros H. repeat (apply andb_true_iff in H as [H ?]).
  assert (Hr : r <> []) by (destruct r; [discriminate|discriminate]).
  repeat split; try assumption.
  - now apply nodupb_NoDup.
  - destruct r; [congruence|discriminate].
  - destruct r; [congruence|discriminate].
  - rewrite forallb_forall in *. intros x Hx. specialize (H3 x Hx). unfold lite_key_ok, lite_val_ok in H3.
    repeat (apply andb_true_iff in H3 as [H3 ?]). now rewrite <- nochar_freeof.
  - rewrite forallb_forall in *. intros x Hx. specialize (H2 x Hx). unfold lite_val_ok in H2.
    repeat (apply andb_true_iff in H2 as [H2 ?]). now rewrite <- nochar_freeof.
  - rewrite forallb_forall in *. intros x Hx. specialize (H3 x Hx). unfold lite_key_ok in H3.
    apply andb_true_iff in H3 as [_ H3]. now rewrite <- nochar_freeof.
Qed.

Lemma header_line r : lite_rec_ok c r = true ->
  is_nil (join [c] (keys r)) = false /\ field_split [c] false (join [c] (keys r)) = keys r.
Proof.
  intros H. destruct (rec_facts r H) as (_ & _ & Hk & _ & Hfk & _ & _ & Hnk & _). split.
  - apply join_not_nil; [discriminate|assumption|assumption].
  - unfold field_split. apply split_string_join; [discriminate|assumption|]. intros E. rewrite E in Hnk. discriminate.
Qed.

Lemma data_line r : lite_rec_ok c r = true ->
  is_nil (join [c] (values r)) = false /\ field_split [c] false (join [c] (values r)) = values r.
Proof.
  intros H. destruct (rec_facts r H) as (_ & _ & _ & Hv & _ & Hfv & _ & _ & Hnv). split.
  - apply join_not_nil; [discriminate|assumption|assumption].
  - unfold field_split. apply split_string_join; [discriminate|assumption|]. intros E. rewrite E in Hnv. discriminate.
Qed.

Lemma data_row r : lite_rec_ok c r = true ->
  attach d true 0 (keys r)
    (map (void_map None) (firstn (List.length (keys r)) (values r)) ++ skipn (List.length (keys r)) (values r)) [] = r.
Proof.
  intros H. destruct (rec_facts r H) as (_ & Hnd & _).
  assert (Hl : List.length (keys r) = List.length (values r)) by (unfold keys, values; now rewrite !map_length).
  rewrite Hl, firstn_all, skipn_all, app_nil_r. unfold void_map. rewrite map_id.
  rewrite attach_combine; [cbn [app]; apply combine_keys_values|exact Hl|exact Hnd].
Qed.

Inductive sync : option bytes -> option (list bytes) -> Prop :=
| sync_none : sync None None
| sync_some ks : ks <> [] -> forallb (freeof [COMMA]) ks = true -> sync (Some (join [COMMA] ks)) (Some ks).

Lemma lite_go recs : forall last hdr,
  sync last hdr -> forallb (lite_rec_ok c) recs = true ->
  lite_read_go [c] false None d rg hdr (csvlite_lines [c] false last false recs) = Some recs.
Proof.
  induction recs as [|r recs IH]; intros last hdr Hs H; [reflexivity|].
  cbn [forallb] in H. apply andb_true_iff in H as [Hr H].
  destruct (rec_facts r Hr) as (Hne & Hnd & Hk & Hv & Hfk & Hfv & Hck & Hnk & Hnv).
  destruct (header_line r Hr) as [Hh1 Hh2]. destruct (data_line r Hr) as [Hd1 Hd2].
  assert (Hlen : Nat.eqb (List.length (keys r)) (List.length (values r)) = true).
  { apply Nat.eqb_eq. unfold keys, values. now rewrite !map_length. }
  (* what reading "header line, data line, rest" gives from a reset reader *)
  assert (Hfresh : forall rest, lite_read_go [c] false None d rg None
              (join [c] (keys r) :: join [c] (values r) :: rest)
            = match lite_read_go [c] false None d rg (Some (keys r)) rest with None => None | Some rs => Some (r :: rs) end).
  { intros rest. cbn [lite_read_go]. rewrite Hh1, Hh2. cbn [lite_read_go]. rewrite Hd1, Hd2, Hlen. cbn [orb].
    now rewrite data_row. }
  assert (Hnext : sync (Some (join [COMMA] (keys r))) (Some (keys r))) by (now constructor).
  unfold COMMA in *.
  cbn [csvlite_lines]. replace (is_nil r) with false by (destruct r; [congruence|reflexivity]).
  cbn [negb andb].
  inversion Hs as [|ks Hks Hcks]; subst.
  - (* first record *)
    cbn [negb andb app]. rewrite Hfresh. now rewrite (IH _ _ Hnext H).
  - destruct (beqb_spec (join [COMMA] ks) (join [","] (keys r))) as [E|E].
    + (* same schema: data line only *)
      apply join_inj in E; [|discriminate|assumption|assumption|assumption|assumption]. subst ks.
      cbn [negb andb app]. cbn [lite_read_go]. rewrite Hd1, Hd2, Hlen. cbn [orb]. rewrite data_row by assumption.
      now rewrite (IH _ _ Hnext H).
    + (* schema change: blank line, header, data *)
      cbn [negb andb app].
      match goal with |- lite_read_go _ _ _ _ _ _ ([] :: ?t) = _ => change (lite_read_go [c] false None d rg None t = Some (r :: recs)) end.
      rewrite Hfresh. now rewrite (IH _ _ Hnext H).
Qed.

Lemma cells_line_ok crlf fs : forallb (lite_val_ok c) fs = true -> line_ok crlf (join [c] fs) = true.
Proof.
  intros H. unfold line_ok.
  assert (H1 : nochar LF (join [c] fs) = true).
  { apply nochar_join; [unfold nochar; cbn [forallb]; now rewrite Hlf|].
    rewrite forallb_forall in *. intros x Hx. specialize (H x Hx). unfold lite_val_ok in H.
    apply andb_true_iff in H as [H _]. now apply andb_true_iff in H as [_ ?]. }
  rewrite H1. rewrite ends_cr_nochar; [now rewrite orb_true_r|].
  apply nochar_join; [unfold nochar; cbn [forallb]; now rewrite Hcr|].
  rewrite forallb_forall in *. intros x Hx. specialize (H x Hx). unfold lite_val_ok in H. now apply andb_true_iff in H as [_ ?].
Qed.

Lemma lite_lines_ok crlf recs : forall last,
  forallb (lite_rec_ok c) recs = true -> forallb (line_ok crlf) (csvlite_lines [c] false last false recs) = true.
Proof.
  induction recs as [|r recs IH]; intros last H; [reflexivity|].
  cbn [forallb] in H. apply andb_true_iff in H as [Hr H].
  pose proof Hr as Hr'. unfold lite_rec_ok in Hr'. repeat (apply andb_true_iff in Hr' as [Hr' ?]).
  assert (Hkeys : forallb (lite_val_ok c) (keys r) = true).
  { rewrite forallb_forall in *. intros x Hx. specialize (H3 x Hx). unfold lite_key_ok in H3. now apply andb_true_iff in H3 as [? _]. }
  cbn [csvlite_lines]. replace (is_nil r) with false by (destruct r; [discriminate|reflexivity]).
  rewrite !forallb_app. rewrite (IH _ H). cbn [forallb]. rewrite (cells_line_ok crlf _ H2).
  assert (Hblank : line_ok crlf [] = true) by (unfold line_ok; cbn; destruct crlf; reflexivity).
  destruct last as [l|]; cbn [negb andb].
  - destruct (negb (beqb l (join [","] (keys r)))); cbn [andb forallb]; rewrite ?Hblank, ?(cells_line_ok crlf _ Hkeys); reflexivity.
  - cbn [forallb]. now rewrite (cells_line_ok crlf _ Hkeys).
Qed.
End Lite.

Lemma csvlite_roundtrip c crlf dedupe ragged recs :
  wf_lite c recs = true ->
  read_csvlite [c] dedupe ragged (write_csvlite [c] false crlf recs) = Some recs.
Proof.
  unfold wf_lite. intros H. apply andb_true_iff in H as [H Hbom]. apply andb_true_iff in H as [H Hrecs].
  apply andb_true_iff in H as [H Hef]. apply andb_true_iff in H as [Hlf Hcr].
  apply negb_true_iff in Hlf, Hcr, Hef.
  unfold read_csvlite, read_lite, write_csvlite.
  rewrite lines_of_unlines by (now apply lite_lines_ok).
  assert (Hb : strip_bom_first (csvlite_lines [c] false None false recs) = csvlite_lines [c] false None false recs).
  { destruct recs as [|r0 rest]; [reflexivity|].
    cbn [forallb] in Hrecs. apply andb_true_iff in Hrecs as [Hr0 _].
    cbn [csvlite_lines]. replace (is_nil r0) with false by (destruct r0; [discriminate|reflexivity]).
    cbn [negb andb app strip_bom_first]. f_equal. apply strip_bom_head.
    destruct (rec_facts c r0 Hr0) as (_ & _ & Hk & _ & _ & _ & _ & Hnk & _).
    destruct (keys r0) as [|k ks] eqn:E; [congruence|].
    destruct k as [|x k].
    - destruct ks as [|k2 ks]; [discriminate|]. rewrite join_cons2. cbn [app]. exact Hef.
    - cbn [first_not_ef] in Hbom. apply negb_true_iff in Hbom. destruct ks as [|k2 ks]; [cbn [join]; exact Hbom|].
      rewrite join_cons2. cbn [app]. exact Hbom. }
  rewrite Hb. apply lite_go; try assumption. constructor.
Qed.
