(* Markdown: writer then reader is the identity (streaming writer and --omd-aligned writer), for EVERY display-width
   function.  The reader (pkg/input/record_reader_markdown.go since /repo 80287c7ad, 75f65c604, 6be21e050) splits a row
   at bars not preceded by a backslash, turns "\|" into "|", trims every cell with strings.TrimSpace and takes only the
   second line of a block for the header-separator line. *)
From Miller Require Import Base.Bytes Base.Record C01.Model C01.ModelXtab C01.ModelLite C01.ModelPprint C01.ModelMd
     C01.ProofsUtil C01.ProofsTsv C01.ProofsDkvp C01.ProofsCsv C01.ProofsLite C01.ProofsPprint C01.ProofsBarred.
Open Scope char_scope.

(* ---------------------------------------------------------------- the splitter undoes the writer's escaping *)
Lemma md_escape_cons c x : md_escape (c :: x) = (if eqc c BAR then [BSL; BAR] else [c]) ++ md_escape x.
Proof. reflexivity. Qed.

Lemma md_escape_nobar x : nochar BAR x = true -> md_escape x = x.
Proof.
  induction x as [|c x IH]; intros H; [reflexivity|]. cbn [nochar forallb] in H. apply andb_true_iff in H as [Hc H].
  rewrite md_escape_cons. apply negb_true_iff in Hc. rewrite Hc. cbn [app]. f_equal. now apply IH.
Qed.

Lemma md_go_esc x : forall pb acc rest,
  md_split_go (md_escape x ++ SP :: rest) pb acc = md_split_go rest false (SP :: rev x ++ acc).
Proof.
  induction x as [|c x IH]; intros pb acc rest; [reflexivity|].
  rewrite md_escape_cons. destruct (eqc c BAR) eqn:E.
  - apply eqc_eq in E. subst c. cbn [app].
    change (md_split_go (BSL :: BAR :: md_escape x ++ SP :: rest) pb acc)
      with (md_split_go (md_escape x ++ SP :: rest) false (BAR :: acc)).
    rewrite IH. cbn [rev]. now rewrite <- app_assoc.
  - cbn [app md_split_go]. rewrite E. rewrite IH. cbn [rev]. now rewrite <- app_assoc.
Qed.

Lemma md_go_spaces n : forall rest acc, md_split_go (spaces n ++ rest) false acc = md_split_go rest false (spaces n ++ acc).
Proof.
  induction n as [|n IH]; intros rest acc; [reflexivity|]. rewrite spaces_S. cbn [app].
  change (md_split_go (SP :: spaces n ++ rest) false acc) with (md_split_go (spaces n ++ rest) false (SP :: acc)).
  rewrite IH. now rewrite spaces_snoc.
Qed.

(* a cell as both writers write it: a space, the escaped text, padding + one space, a bar *)
Definition gcell (xp : bytes * nat) : bytes := SP :: md_escape (fst xp) ++ spaces (S (snd xp)) ++ [BAR].
Definition grow (cells : list (bytes * nat)) : bytes := BAR :: List.concat (map gcell cells).
Definition gfield (xp : bytes * nat) : bytes := SP :: fst xp ++ spaces (S (snd xp)).

Lemma md_go_cells cells : md_split_go (List.concat (map gcell cells)) false [] = map gfield cells ++ [[]].
Proof.
  induction cells as [|[x p] cells IH]; [reflexivity|]. cbn [map List.concat]. unfold gcell at 1. cbn [fst snd].
  rewrite spaces_S. cbn [app]. rewrite <- !app_assoc. cbn [app]. rewrite <- ?app_assoc. cbn [app].
  change (md_split_go (SP :: ?t) false []) with (md_split_go t false [SP]).
  rewrite md_go_esc, md_go_spaces. cbn [md_split_go]. change (eqc BAR BAR) with true. cbn iota.
  rewrite IH. cbn [app map]. f_equal. unfold gfield. cbn [fst snd].
  rewrite rev_app_distr, rev_spaces. cbn [rev]. rewrite rev_app_distr, rev_involutive. cbn [rev app].
  rewrite <- !app_assoc. cbn [app]. now rewrite spaces_S.
Qed.

Lemma md_split_grow cells : md_split (grow cells) = [] :: map gfield cells ++ [[]].
Proof.
  unfold grow, md_split. cbn [md_split_go]. change (eqc BAR BAR) with true. cbn iota. cbn [rev]. now rewrite md_go_cells.
Qed.

Lemma trim_gfield x p : trim_ok x = true -> trim_space (gfield (x, p)) = x.
Proof. intros H. unfold gfield. cbn [fst snd]. change (SP :: x ++ spaces (S p)) with (spaces 1 ++ x ++ spaces (S p)). now apply trim_padded. Qed.

Definition row_ok (l : bytes) (fs : list bytes) : Prop :=
  is_nil l = false /\ Nat.ltb (List.length (md_split l)) 2 = false /\ map trim_space (middle (md_split l)) = fs.

Lemma grow_ok cells : forallb trim_ok (map fst cells) = true -> row_ok (grow cells) (map fst cells).
Proof.
  intros H. split; [reflexivity|]. rewrite md_split_grow. split.
  - cbn [List.length]. rewrite app_length. cbn [List.length]. apply Nat.ltb_ge. lia.
  - rewrite middle_row. induction cells as [|[x p] cells IH]; [reflexivity|]. cbn [map fst forallb] in *.
    apply andb_true_iff in H as [Hx H]. rewrite trim_gfield by assumption. f_equal. now apply IH.
Qed.

Lemma concat_gcell_last cells : cells <> [] -> exists q, List.concat (map gcell cells) = q ++ [BAR].
Proof.
  induction cells as [|xp cells IH]; [congruence|]. intros _. destruct cells as [|y cells].
  - exists (SP :: md_escape (fst xp) ++ spaces (S (snd xp))). cbn [map List.concat]. rewrite app_nil_r. unfold gcell.
    cbn [app]. now rewrite <- app_assoc.
  - destruct IH as [q Hq]; [discriminate|]. exists (gcell xp ++ q).
    change (List.concat (map gcell (xp :: y :: cells))) with (gcell xp ++ List.concat (map gcell (y :: cells))).
    rewrite Hq. now rewrite app_assoc.
Qed.

Lemma grow_line_ok crlf cells : forallb (nochar LF) (map fst cells) = true -> line_ok crlf (grow cells) = true.
Proof.
  intros H. unfold line_ok.
  assert (Hc : forall cells, forallb (nochar LF) (map fst cells) = true -> nochar LF (List.concat (map gcell cells)) = true).
  { clear. induction cells as [|[x p] cells IH]; intros H; [reflexivity|]. cbn [map fst forallb] in H.
    apply andb_true_iff in H as [Hx H]. cbn [map List.concat]. rewrite nochar_app, (IH H), andb_true_r.
    unfold gcell. cbn [fst snd]. change (SP :: ?a) with ([SP] ++ a). rewrite !nochar_app, nochar_spaces by reflexivity.
    assert (He : nochar LF (md_escape x) = true).
    { clear -Hx. induction x as [|c x IH]; [reflexivity|]. cbn [nochar forallb] in Hx. apply andb_true_iff in Hx as [Hc Hx].
      rewrite md_escape_cons, nochar_app, (IH Hx), andb_true_r. destruct (eqc c BAR); [reflexivity|].
      cbn [nochar forallb]. now rewrite Hc. }
    now rewrite He. }
  unfold grow. change (BAR :: ?a) with ([BAR] ++ a). rewrite nochar_app, (Hc _ H). cbn [nochar forallb negb andb].
  replace (ends_cr ([BAR] ++ List.concat (map gcell cells))) with false; [now rewrite orb_true_r|].
  symmetry. destruct cells as [|xp cells]; [reflexivity|].
  destruct (concat_gcell_last (xp :: cells)) as [q Hq]; [discriminate|].
  rewrite Hq, app_assoc. now rewrite ends_cr_app_ne by discriminate.
Qed.

Lemma map_fst_pair {A B} (f : A -> B) (g : A -> nat) l : map fst (map (fun x => (f x, g x)) l) = map f l.
Proof. rewrite map_map. reflexivity. Qed.

Lemma grow_pair_ok {A} (f : A -> bytes) (g : A -> nat) l :
  forallb trim_ok (map f l) = true -> row_ok (grow (map (fun x => (f x, g x)) l)) (map f l).
Proof. intros H. pose proof (grow_ok (map (fun x => (f x, g x)) l)) as G. rewrite map_fst_pair in G. now apply G. Qed.
Lemma grow_pair_line_ok {A} crlf (f : A -> bytes) (g : A -> nat) l :
  forallb (nochar LF) (map f l) = true -> line_ok crlf (grow (map (fun x => (f x, g x)) l)) = true.
Proof. intros H. apply grow_line_ok. now rewrite map_fst_pair. Qed.

(* ---------------------------------------------------------------- the reader *)
Section Read.
Variables (d rg : bool).
Notation R := (md_read_go false d rg).

Lemma M_blank hdr n rest : R hdr n ([] :: rest) = R None 0 rest.
Proof. reflexivity. Qed.
Lemma M_header hl ks rest : row_ok hl ks -> R None 0 (hl :: rest) = R (Some ks) 1 rest.
Proof. intros (H1 & H2 & H3). cbn [md_read_go]. rewrite H1. unfold md_is_sep. cbn [Nat.eqb andb]. now rewrite H2, H3. Qed.
Lemma M_sep l hdr rest : is_nil l = false -> sep_md l = true -> R hdr 1 (l :: rest) = R hdr 2 rest.
Proof. intros H1 H2. cbn [md_read_go]. rewrite H1. unfold md_is_sep. cbn [Nat.eqb andb]. now rewrite H2. Qed.
Lemma M_data n l r rest : 2 <= n -> row_ok l (values r) -> NoDup (keys r) ->
  R (Some (keys r)) n (l :: rest) = match R (Some (keys r)) (S n) rest with None => None | Some rs => Some (r :: rs) end.
Proof.
  intros Hn (H1 & H2 & H3) Hnd. cbn [md_read_go]. rewrite H1. unfold md_is_sep.
  replace (Nat.eqb (S n) 2) with false by (symmetry; apply Nat.eqb_neq; lia). cbn [andb]. rewrite H2, H3.
  assert (Hl : List.length (keys r) = List.length (values r)) by (unfold keys, values; now rewrite !map_length).
  rewrite Hl, Nat.eqb_refl. cbn [orb].
  rewrite attach_combine; [cbn [app]; now rewrite combine_keys_values|exact Hl|exact Hnd].
Qed.
Lemma M_batch (dl : record -> bytes) ks batch : forall n rest, 2 <= n ->
  (forall r, In r batch -> keys r = ks /\ row_ok (dl r) (values r) /\ NoDup (keys r)) ->
  R (Some ks) n (map dl batch ++ rest)
  = match R (Some ks) (n + List.length batch) rest with None => None | Some rs => Some (batch ++ rs) end.
Proof.
  induction batch as [|r batch IH]; intros n rest Hn H.
  - cbn [map app List.length]. rewrite Nat.add_0_r. now destruct (R (Some ks) n rest).
  - destruct (H r (or_introl eq_refl)) as (Hk & Hs & Hnd). cbn [map app]. rewrite <- Hk.
    rewrite M_data by assumption. rewrite Hk. rewrite IH by (try lia; intros r' Hr'; apply H; now right).
    cbn [List.length]. rewrite Nat.add_succ_r. cbn [Nat.add]. now destruct (R (Some ks) (S (n + List.length batch)) rest).
Qed.
End Read.

(* ---------------------------------------------------------------- the domain *)
Definition md_key_ok (k : bytes) : bool := nochar BAR k && nochar LF k && nochar COMMA k && trim_ok k.
Definition md_val_ok (v : bytes) : bool := nochar LF v && trim_ok v.
(* records non-empty with unique keys; cells free of LF and unchanged by strings.TrimSpace (no leading or trailing
   Unicode white space; empty is fine); keys free of "|" (keys are not escaped) and of "," (schema changes are
   detected on the ","-joined keys); not the single key "" (the joined keys "" mean "no header written yet").
   VALUES may contain "|" (written "\|"), backslashes, dashes, colons, anything else. *)
Definition md_rec_ok (r : record) : bool :=
  negb (is_nil r) && nodupb (keys r) && forallb md_key_ok (keys r) && forallb md_val_ok (values r)
  && not_single_empty (keys r).
Definition wf_markdown (recs : list record) : bool := forallb md_rec_ok recs.

Lemma md_facts r : md_rec_ok r = true ->
  r <> [] /\ NoDup (keys r) /\ keys r <> [] /\ not_single_empty (keys r) = true
  /\ forallb (freeof [COMMA]) (keys r) = true
  /\ forallb (nochar BAR) (keys r) = true /\ forallb (nochar LF) (keys r) = true /\ forallb trim_ok (keys r) = true
  /\ forallb (nochar LF) (values r) = true /\ forallb trim_ok (values r) = true.
Proof.
  unfold md_rec_ok. intros H. repeat (apply andb_true_iff in H as [H ?]).
  assert (Hr : r <> []) by (destruct r; discriminate).
  assert (Hk : forall P : bytes -> bool, (forall k, md_key_ok k = true -> P k = true) -> forallb P (keys r) = true).
  { intros P HP. rewrite forallb_forall in *. intros k Hin. apply HP. now apply H2. }
  assert (Hv : forall P : bytes -> bool, (forall k, md_val_ok k = true -> P k = true) -> forallb P (values r) = true).
  { intros P HP. rewrite forallb_forall in *. intros k Hin. apply HP. now apply H1. }
  repeat split; try assumption.
  - now apply nodupb_NoDup.
  - destruct r; [congruence|discriminate].
  - apply Hk. intros k Hk0. unfold md_key_ok in Hk0. repeat (apply andb_true_iff in Hk0 as [Hk0 ?]). now rewrite <- nochar_freeof.
  - apply Hk. intros k Hk0. unfold md_key_ok in Hk0. now repeat (apply andb_true_iff in Hk0 as [Hk0 ?]).
  - apply Hk. intros k Hk0. unfold md_key_ok in Hk0. now repeat (apply andb_true_iff in Hk0 as [Hk0 ?]).
  - apply Hk. intros k Hk0. unfold md_key_ok in Hk0. now repeat (apply andb_true_iff in Hk0 as [Hk0 ?]).
  - apply Hv. intros k Hk0. unfold md_val_ok in Hk0. now repeat (apply andb_true_iff in Hk0 as [Hk0 ?]).
  - apply Hv. intros k Hk0. unfold md_val_ok in Hk0. now repeat (apply andb_true_iff in Hk0 as [Hk0 ?]).
Qed.

(* ---------------------------------------------------------------- rows of the streaming writer *)
Lemma md_row_grow cells : md_row (map md_escape cells) = grow (map (fun x => (x, 0)) cells).
Proof.
  unfold md_row, grow. f_equal. f_equal. rewrite !map_map. apply map_ext. intros x. unfold gcell. cbn [fst snd]. reflexivity.
Qed.
Lemma md_row_keys ks : forallb (nochar BAR) ks = true -> md_row ks = grow (map (fun x => (x, 0)) ks).
Proof.
  intros H. rewrite <- md_row_grow. f_equal. induction ks as [|k ks IH]; [reflexivity|]. cbn [forallb] in H.
  apply andb_true_iff in H as [Hk H]. cbn [map]. rewrite md_escape_nobar by assumption. f_equal. now apply IH.
Qed.

Lemma sep_md_dashes (r : record) : r <> [] ->
  is_nil (md_row (map (fun _ => DASHES) r)) = false /\ sep_md (md_row (map (fun _ => DASHES) r)) = true
  /\ forall crlf, line_ok crlf (md_row (map (fun _ => DASHES) r)) = true.
Proof.
  intros Hne. split; [reflexivity|].
  assert (Hg : md_row (map (fun _ => DASHES) r) = grow (map (fun _ => (DASHES, 0)) r)).
  { rewrite md_row_keys; [now rewrite map_map|]. rewrite forallb_map. now apply forallb_true. }
  split.
  - unfold sep_md, md_row.
    set (P := fun c => eqc c "-" || eqc c ":" || eqc c BAR || eqc c SP).
    assert (Hall : forall l : record, forallb P (List.concat (map (fun x => SP :: x ++ [SP; BAR]) (map (fun _ => DASHES) l))) = true).
    { induction l as [|x l IH]; [reflexivity|]. cbn [map List.concat]. rewrite forallb_app, IH. reflexivity. }
    assert (Hlast : forall l : record, l <> [] ->
              exists q, List.concat (map (fun x => SP :: x ++ [SP; BAR]) (map (fun _ => DASHES) l)) = q ++ [BAR] /\ 1 <= List.length q).
    { induction l as [|x l IH]; intros Hl; [congruence|]. cbn [map List.concat]. destruct l as [|y l].
      - exists (SP :: DASHES ++ [SP]). split; [reflexivity|cbn; lia].
      - destruct IH as (q & Hq & Hlen); [discriminate|]. rewrite Hq. exists ((SP :: DASHES ++ [SP; BAR]) ++ q).
        split; [now rewrite <- app_assoc|rewrite app_length; lia]. }
    destruct (Hlast r Hne) as (q & Hq & Hlen). rewrite Hq.
    assert (H3 : Nat.leb 3 (List.length (BAR :: q ++ [BAR])) = true).
    { apply Nat.leb_le. cbn [List.length]. rewrite app_length. cbn [List.length]. lia. }
    rewrite H3. cbn [head_is]. change (eqc BAR BAR) with true. unfold last_is.
    change (BAR :: q ++ [BAR]) with ((BAR :: q) ++ [BAR]). rewrite rev_app_distr. cbn [rev app head_is].
    change (eqc BAR BAR) with true. cbn [andb]. change ((BAR :: q) ++ [BAR]) with (BAR :: q ++ [BAR]). rewrite <- Hq.
    cbn [forallb]. now rewrite Hall.
  - intros crlf. rewrite Hg. apply grow_line_ok. rewrite map_map. cbn [fst]. rewrite forallb_map. now apply forallb_true.
Qed.

(* ---------------------------------------------------------------- the streaming writer *)
Inductive msync : bytes -> option (list bytes) -> nat -> Prop :=
| ms_none : msync [] None 0
| ms_some ks n : ks <> [] -> forallb (freeof [COMMA]) ks = true -> not_single_empty ks = true -> 2 <= n ->
                 msync (join [COMMA] ks) (Some ks) n.

Section Streaming.
Variables (d rg : bool).
Notation R := (md_read_go false d rg).

Lemma key_row_ok r : md_rec_ok r = true -> row_ok (md_row (keys r)) (keys r) /\ forall crlf, line_ok crlf (md_row (keys r)) = true.
Proof.
  intros H. destruct (md_facts r H) as (_ & _ & _ & _ & _ & Hb & Hlf & Ht & _).
  rewrite md_row_keys by assumption. split.
  - rewrite <- (map_id (keys r)) at 2. apply grow_pair_ok. now rewrite map_id.
  - intros crlf. apply grow_pair_line_ok. now rewrite map_id.
Qed.
Lemma val_row_ok r : md_rec_ok r = true ->
  row_ok (md_row (map md_escape (values r))) (values r) /\ forall crlf, line_ok crlf (md_row (map md_escape (values r))) = true.
Proof.
  intros H. destruct (md_facts r H) as (_ & _ & _ & _ & _ & _ & _ & _ & Hlf & Ht).
  rewrite md_row_grow. split.
  - rewrite <- (map_id (values r)) at 2. apply grow_pair_ok. now rewrite map_id.
  - intros crlf. apply grow_pair_line_ok. now rewrite map_id.
Qed.

Lemma md_fresh r rest : md_rec_ok r = true ->
  R None 0 (md_row (keys r) :: md_row (map (fun _ => DASHES) r) :: md_row (map md_escape (values r)) :: rest)
  = match R (Some (keys r)) 3 rest with None => None | Some rs => Some (r :: rs) end.
Proof.
  intros H. destruct (md_facts r H) as (Hne & Hnd & _).
  rewrite (M_header d rg _ (keys r)) by (now apply key_row_ok).
  destruct (sep_md_dashes r Hne) as (Hs1 & Hs2 & _). rewrite M_sep by assumption.
  rewrite M_data; [reflexivity|lia|now apply val_row_ok|exact Hnd].
Qed.

Lemma md_stream recs : forall last hdr n,
  msync last hdr n -> forallb md_rec_ok recs = true -> R hdr n (md_lines last recs) = Some recs.
Proof.
  induction recs as [|r recs IH]; intros last hdr n Hs H; [reflexivity|].
  cbn [forallb] in H. apply andb_true_iff in H as [Hr H].
  destruct (md_facts r Hr) as (Hne & Hnd & Hk & Hnk & Hck & _).
  assert (Hnext : forall m, 2 <= m -> msync (join [COMMA] (keys r)) (Some (keys r)) m) by (intros m Hm; now constructor).
  inversion Hs as [|ks n0 Hks Hcks Hnks Hn0]; subst; unfold COMMA in *; cbn [md_lines].
  - cbn [is_nil negb andb app]. rewrite md_fresh by assumption. now rewrite (IH _ _ _ (Hnext 3 ltac:(lia)) H).
  - rewrite (join_not_nil [","] ks) by (assumption || discriminate). cbn [negb andb].
    destruct (beqb_spec (join [","] (keys r)) (join [","] ks)) as [E|E].
    + apply join_inj in E; [|discriminate|assumption|assumption|assumption|assumption]. subst ks.
      cbn [negb]. rewrite (join_not_nil [","] (keys r)) by (assumption || discriminate). cbn [app].
      rewrite M_data; [|lia|now apply val_row_ok|exact Hnd].
      now rewrite (IH _ _ _ (Hnext (S n) ltac:(lia)) H).
    + cbn [negb is_nil app]. rewrite M_blank. rewrite md_fresh by assumption.
      now rewrite (IH _ _ _ (Hnext 3 ltac:(lia)) H).
Qed.

Lemma md_stream_lines_ok crlf recs : forall last,
  forallb md_rec_ok recs = true -> forallb (line_ok crlf) (md_lines last recs) = true.
Proof.
  induction recs as [|r recs IH]; intros last H; [reflexivity|].
  cbn [forallb] in H. apply andb_true_iff in H as [Hr H]. destruct (md_facts r Hr) as (Hne & _).
  cbn [md_lines]. rewrite !forallb_app, (IH _ H). cbn [forallb].
  destruct (key_row_ok r Hr) as [_ Hkl]. destruct (val_row_ok r Hr) as [_ Hvl]. destruct (sep_md_dashes r Hne) as (_ & _ & Hsl).
  rewrite Hvl. cbn [andb].
  assert (Hblank : line_ok crlf [] = true) by (unfold line_ok; cbn; destruct crlf; reflexivity).
  destruct (negb (is_nil last) && negb (beqb (join [","] (keys r)) last)); cbn [forallb andb is_nil]; rewrite ?Hblank, ?Hkl, ?Hsl; cbn [andb];
    try reflexivity.
  destruct (is_nil last); cbn [forallb]; rewrite ?Hkl, ?Hsl; reflexivity.
Qed.
End Streaming.

Lemma markdown_roundtrip_streaming w crlf dedupe ragged recs :
  wf_markdown recs = true ->
  read_markdown false dedupe ragged (write_markdown w false crlf recs) = Some recs.
Proof.
  unfold wf_markdown, read_markdown, write_markdown. intros H.
  rewrite lines_of_unlines by (now apply md_stream_lines_ok).
  apply md_stream; [constructor|exact H].
Qed.

(* ================================================================ the --omd-aligned writer *)
Lemma md_row_aligned_grow {A} w (f : A -> bytes) (g : A -> nat) l :
  md_row_aligned w (map (fun a => (md_escape (f a), g a)) l) = grow (map (fun a => (f a, g a - w (md_escape (f a)))) l).
Proof.
  unfold md_row_aligned, grow. f_equal. f_equal. rewrite !map_map. apply map_ext. intros a. unfold gcell. cbn [fst snd].
  f_equal. f_equal. rewrite <- spaces_end, <- app_assoc. reflexivity.
Qed.

Lemma md_row_aligned_keys w (g : bytes -> nat) ks : forallb (nochar BAR) ks = true ->
  md_row_aligned w (map (fun k => (k, g k)) ks) = grow (map (fun k => (k, g k - w (md_escape k))) ks).
Proof.
  intros H. rewrite <- (md_row_aligned_grow w (fun k => k) g). f_equal. apply map_ext_in. intros k Hk.
  rewrite forallb_forall in H. now rewrite md_escape_nobar by (now apply H).
Qed.

(* the header-separator line of either writer *)
Definition dash_line {A} (g : A -> nat) (l : list A) : bytes :=
  BAR :: List.concat (map (fun a => SP :: DASHES ++ spaces (g a) ++ [SP; BAR]) l).

Lemma dash_line_facts {A} (g : A -> nat) (l : list A) : l <> [] ->
  is_nil (dash_line g l) = false /\ sep_md (dash_line g l) = true /\ forall crlf, line_ok crlf (dash_line g l) = true.
Proof.
  intros Hne. split; [reflexivity|].
  set (P := fun c => eqc c "-" || eqc c ":" || eqc c BAR || eqc c SP).
  set (cell := fun a : A => SP :: DASHES ++ spaces (g a) ++ [SP; BAR]).
  assert (Hall : forall l : list A, forallb P (List.concat (map cell l)) = true).
  { clear. induction l as [|x l IH]; [reflexivity|]. cbn [map List.concat]. rewrite forallb_app, IH, andb_true_r.
    unfold cell. cbn [forallb DASHES B list_ascii_of_string app]. rewrite forallb_app.
    replace (forallb P (spaces (g x))) with true; [reflexivity|]. symmetry. unfold spaces. now apply forallb_repeat. }
  assert (Hnolf : forall l : list A, nochar LF (List.concat (map cell l)) = true).
  { clear. induction l as [|x l IH]; [reflexivity|]. cbn [map List.concat]. rewrite nochar_app, IH, andb_true_r.
    unfold cell. change (SP :: ?a) with ([SP] ++ a). rewrite !nochar_app, nochar_spaces by reflexivity. reflexivity. }
  assert (Hlast : forall l : list A, l <> [] -> exists q, List.concat (map cell l) = q ++ [BAR] /\ 1 <= List.length q).
  { clear. induction l as [|x l IH]; intros Hl; [congruence|]. cbn [map List.concat]. destruct l as [|y l].
    - exists (SP :: DASHES ++ spaces (g x) ++ [SP]). split; [|cbn; lia].
      cbn [map List.concat]. rewrite app_nil_r. unfold cell. cbn [app]. rewrite <- !app_assoc. reflexivity.
    - destruct IH as (q & Hq & Hlen); [discriminate|]. rewrite Hq. exists (cell x ++ q).
      split; [now rewrite <- app_assoc|rewrite app_length; lia]. }
  destruct (Hlast l Hne) as (q & Hq & Hlen). unfold dash_line. fold cell.
  split.
  - unfold sep_md. rewrite Hq.
    assert (H3 : Nat.leb 3 (List.length (BAR :: q ++ [BAR])) = true).
    { apply Nat.leb_le. cbn [List.length]. rewrite app_length. cbn [List.length]. lia. }
    rewrite H3. cbn [head_is]. change (eqc BAR BAR) with true. unfold last_is.
    change (BAR :: q ++ [BAR]) with ((BAR :: q) ++ [BAR]). rewrite rev_app_distr. cbn [rev app head_is].
    change (eqc BAR BAR) with true. cbn [andb]. change ((BAR :: q) ++ [BAR]) with (BAR :: q ++ [BAR]). rewrite <- Hq.
    cbn [forallb]. fold P. now rewrite Hall.
  - intros crlf. unfold line_ok. change (BAR :: ?a) with ([BAR] ++ a). rewrite nochar_app, Hnolf. cbn [nochar forallb negb andb].
    rewrite Hq, app_assoc. rewrite ends_cr_app_ne by discriminate. cbn. now rewrite orb_true_r.
Qed.

Section Aligned.
Variables (w : bytes -> nat) (crlf d rg : bool).
Notation R := (md_read_go false d rg).
Notation L := (md_batch_lines w).

Lemma md_keys_of_jk r r' : md_rec_ok r = true -> md_rec_ok r' = true -> jk r = jk r' -> keys r = keys r'.
Proof.
  intros H H' E. destruct (md_facts r H) as (_ & _ & Hk & _ & Hc & _). destruct (md_facts r' H') as (_ & _ & Hk' & _ & Hc' & _).
  unfold COMMA in *. apply (join_inj [","]); try assumption; discriminate.
Qed.

Lemma md_batch_read b rest : batch_inv b -> Forall (fun r => md_rec_ok r = true) b ->
  R None 0 (L b ++ rest)
  = match R (Some (keys (hd [] b))) (2 + List.length b) rest with None => None | Some rs => Some (b ++ rs) end.
Proof.
  intros [Hne Hj] Hok. destruct b as [|r0 b'] eqn:Eb; [congruence|]. rewrite <- Eb in *.
  assert (H0 : md_rec_ok r0 = true) by (rewrite Forall_forall in Hok; apply Hok; rewrite Eb; now left).
  destruct (md_facts r0 H0) as (Hr0 & _ & Hk0 & _ & _ & Hb0 & Hlf0 & Ht0 & _).
  replace (hd [] b) with r0 by (now rewrite Eb).
  assert (HL : L b = [md_row_aligned w (map (fun k => (k, md_width w b r0 k)) (keys r0)); dash_line (fun k => md_width w b r0 k - 3) (keys r0)]
                     ++ map (fun r => md_row_aligned w (map (fun kv => (md_escape (snd kv), md_width w b r0 (fst kv))) r)) b).
  { rewrite Eb. reflexivity. }
  rewrite HL. cbn [app]. rewrite md_row_aligned_keys by assumption.
  rewrite (M_header d rg _ (keys r0)).
  2:{ rewrite <- (map_id (keys r0)) at 2. apply grow_pair_ok. now rewrite map_id. }
  destruct (dash_line_facts (fun k => md_width w b r0 k - 3) (keys r0) Hk0) as (Hs1 & Hs2 & _).
  rewrite M_sep by assumption.
  rewrite M_batch; [reflexivity|lia|].
  intros r Hr. rewrite Forall_forall in Hok. pose proof (Hok r Hr) as Hrk.
  destruct (md_facts r Hrk) as (_ & Hnd & _ & _ & _ & _ & _ & _ & _ & Htv).
  split; [|split; [|exact Hnd]].
  - apply md_keys_of_jk; [assumption|assumption|]. rewrite (Hj r Hr). now rewrite Eb.
  - rewrite (md_row_aligned_grow w (fun kv : bytes * bytes => snd kv) (fun kv => md_width w b r0 (fst kv))).
    change (values r) with (map snd r). apply grow_pair_ok. exact Htv.
Qed.

Lemma md_read_batches bs :
  Forall batch_inv bs -> Forall (Forall (fun r => md_rec_ok r = true)) bs ->
  R None 0 (sep_lines L bs) = Some (List.concat bs).
Proof.
  induction bs as [|b bs IH]; intros Hinv Hok; [reflexivity|].
  inversion Hinv as [|? ? Hb Hbs]; subst. inversion Hok as [|? ? Hob Hobs]; subst.
  destruct bs as [|b2 bs].
  - cbn [sep_lines List.concat]. rewrite <- (app_nil_r (L b)). rewrite md_batch_read by assumption. cbn [md_read_go]. reflexivity.
  - change (sep_lines L (b :: b2 :: bs)) with (L b ++ [[]] ++ sep_lines L (b2 :: bs)).
    rewrite md_batch_read by assumption. cbn [app]. rewrite M_blank. rewrite IH by assumption. reflexivity.
Qed.

Lemma md_batch_lines_ok b : batch_inv b -> Forall (fun r => md_rec_ok r = true) b -> forallb (line_ok crlf) (L b) = true.
Proof.
  intros [Hne Hj] Hok. destruct b as [|r0 b'] eqn:Eb; [congruence|]. rewrite <- Eb in *.
  assert (H0 : md_rec_ok r0 = true) by (rewrite Forall_forall in Hok; apply Hok; rewrite Eb; now left).
  destruct (md_facts r0 H0) as (Hr0 & _ & Hk0 & _ & _ & Hb0 & Hlf0 & Ht0 & _).
  assert (HL : L b = [md_row_aligned w (map (fun k => (k, md_width w b r0 k)) (keys r0)); dash_line (fun k => md_width w b r0 k - 3) (keys r0)]
                     ++ map (fun r => md_row_aligned w (map (fun kv => (md_escape (snd kv), md_width w b r0 (fst kv))) r)) b).
  { rewrite Eb. reflexivity. }
  rewrite HL. cbn [app forallb]. rewrite md_row_aligned_keys by assumption.
  rewrite grow_pair_line_ok by (now rewrite map_id).
  destruct (dash_line_facts (fun k => md_width w b r0 k - 3) (keys r0) Hk0) as (_ & _ & Hs3). rewrite Hs3. cbn [andb].
  rewrite forallb_map. rewrite forallb_forall. intros r Hr. rewrite Forall_forall in Hok. pose proof (Hok r Hr) as Hrk.
  destruct (md_facts r Hrk) as (_ & _ & _ & _ & _ & _ & _ & _ & Hlfv & _).
  rewrite (md_row_aligned_grow w (fun kv : bytes * bytes => snd kv) (fun kv => md_width w b r0 (fst kv))).
  apply grow_pair_line_ok. exact Hlfv.
Qed.

Lemma md_all_lines_ok bs :
  Forall batch_inv bs -> Forall (Forall (fun r => md_rec_ok r = true)) bs -> forallb (line_ok crlf) (sep_lines L bs) = true.
Proof.
  induction bs as [|b bs IH]; intros Hinv Hok; [reflexivity|].
  inversion Hinv as [|? ? Hb Hbs]; subst. inversion Hok as [|? ? Hob Hobs]; subst.
  destruct bs as [|b2 bs]; [now apply md_batch_lines_ok|].
  change (sep_lines L (b :: b2 :: bs)) with (L b ++ [[]] ++ sep_lines L (b2 :: bs)).
  rewrite forallb_app, md_batch_lines_ok by assumption. cbn [andb app forallb]. rewrite (IH Hbs Hobs), andb_true_r.
  unfold line_ok. cbn. now destruct crlf.
Qed.
End Aligned.

Lemma md_aligned_sep w bs : md_aligned_lines w true bs = sep_lines (md_batch_lines w) bs.
Proof.
  destruct bs as [|b t]; [reflexivity|]. cbn [md_aligned_lines app]. revert b. induction t as [|b2 t IH]; intros b.
  - cbn [md_aligned_lines sep_lines]. now rewrite app_nil_r.
  - change (sep_lines (md_batch_lines w) (b :: b2 :: t)) with (md_batch_lines w b ++ [[]] ++ sep_lines (md_batch_lines w) (b2 :: t)).
    cbn [md_aligned_lines]. f_equal. cbn [app]. f_equal. apply IH.
Qed.

Lemma markdown_roundtrip_aligned w crlf dedupe ragged recs :
  wf_markdown recs = true ->
  read_markdown false dedupe ragged (write_markdown w true crlf recs) = Some recs.
Proof.
  unfold wf_markdown. intros Hrecs.
  destruct (pp_all_batches_spec recs) as [Hcat Hinv].
  assert (Hok : Forall (Forall (fun r => md_rec_ok r = true)) (pp_all_batches recs)).
  { rewrite Forall_forall. intros b Hb. rewrite Forall_forall. intros r Hr. rewrite forallb_forall in Hrecs. apply Hrecs.
    rewrite <- Hcat. apply in_concat. exists b. split; assumption. }
  unfold read_markdown, write_markdown. rewrite md_aligned_sep.
  rewrite lines_of_unlines by (now apply md_all_lines_ok).
  rewrite md_read_batches by assumption. now rewrite Hcat.
Qed.

Lemma markdown_roundtrip w aligned crlf dedupe ragged recs :
  wf_markdown recs = true ->
  read_markdown false dedupe ragged (write_markdown w aligned crlf recs) = Some recs.
Proof. destruct aligned; [apply markdown_roundtrip_aligned|apply markdown_roundtrip_streaming]. Qed.

(* the two former defects (repaired in /repo 80287c7ad, 75f65c604), as regression examples over the models *)
Example markdown_escaped_bar_regression :
  read_markdown false true false (write_markdown (@List.length ascii) false false [[(B "a", B "x|y"); (B "b", B "2")]])
  = Some [[(B "a", B "x|y"); (B "b", B "2")]].
Proof. vm_compute. reflexivity. Qed.
Example markdown_dash_row_regression :
  read_markdown false true false (write_markdown (@List.length ascii) false false [[(B "a", B "-"); (B "b", B "")]; [(B "a", B "---"); (B "b", B "-")]])
  = Some [[(B "a", B "-"); (B "b", B "")]; [(B "a", B "---"); (B "b", B "-")]].
Proof. vm_compute. reflexivity. Qed.

(* what does hold on samples (a test, not a theorem: the general markdown round trip is not proved yet) *)
Example markdown_roundtrip_sample :
  read_markdown false true false (write_markdown (@List.length ascii) false false
     [[(B "a", B "x y"); (B "", B "")]; [(B "a", B "-"); (B "", B "z")]; [(B "k", B "1")]])
  = Some [[(B "a", B "x y"); (B "", B "")]; [(B "a", B "-"); (B "", B "z")]; [(B "k", B "1")]]
  /\ read_markdown false true false (write_markdown (@List.length ascii) true true
     [[(B "a", B "x y"); (B "bb", B "")]; [(B "a", B "long value"); (B "bb", B "z")]; [(B "k", B "1")]])
  = Some [[(B "a", B "x y"); (B "bb", B "")]; [(B "a", B "long value"); (B "bb", B "z")]; [(B "k", B "1")]].
Proof. split; vm_compute; reflexivity. Qed.
