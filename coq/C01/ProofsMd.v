(* Markdown: the two places where today's writer and reader are not inverse, as vm_compute witnesses over the models
   (both replayed on the real binary: findings markdown-escaped-bar-not-unescaped, markdown-dash-only-row-dropped). *)
From Miller Require Import Base.Bytes Base.Record C01.Model C01.ModelXtab C01.ModelLite C01.ModelPprint C01.ModelMd.
Open Scope char_scope.

(* the writer escapes "|" as "\|", the reader splits on every "|": header/data length mismatch *)
Lemma markdown_escaped_bar_refuted :
  exists recs, forallb (fun r => negb (is_nil r) && nodupb (keys r)) recs = true
    /\ read_markdown false true false (write_markdown (@List.length ascii) false false recs) <> Some recs.
Proof. exists [[(B "a", B "x|y"); (B "b", B "2")]]. split; [reflexivity|]. vm_compute. discriminate. Qed.

(* a data row whose cells consist of "-" and spaces only matches the header-separator pattern and is skipped *)
Lemma markdown_dash_row_refuted :
  exists recs, forallb (fun r => negb (is_nil r) && nodupb (keys r)) recs = true
    /\ read_markdown false true false (write_markdown (@List.length ascii) false false recs) <> Some recs.
Proof. exists [[(B "a", B "-"); (B "b", B "")]]. split; [reflexivity|]. vm_compute. discriminate. Qed.

(* what does hold on samples (a test, not a theorem: the general markdown round trip is not proved yet) *)
Example markdown_roundtrip_sample :
  read_markdown false true false (write_markdown (@List.length ascii) false false
     [[(B "a", B "x y"); (B "", B "")]; [(B "a", B "-"); (B "", B "z")]; [(B "k", B "1")]])
  = Some [[(B "a", B "x y"); (B "", B "")]; [(B "a", B "-"); (B "", B "z")]; [(B "k", B "1")]]
  /\ read_markdown false true false (write_markdown (@List.length ascii) true true
     [[(B "a", B "x y"); (B "bb", B "")]; [(B "a", B "long value"); (B "bb", B "z")]; [(B "k", B "1")]])
  = Some [[(B "a", B "x y"); (B "bb", B "")]; [(B "a", B "long value"); (B "bb", B "z")]; [(B "k", B "1")]].
Proof. split; vm_compute; reflexivity. Qed.
