(* Markdown: writer then reader is the identity. *)
From Miller Require Import Base.Bytes Base.Record C01.Model C01.ModelXtab C01.ModelLite C01.ModelPprint C01.ModelMd.
Open Scope char_scope.

(* the two former defects (repaired in /repo 80287c7ad, 75f65c604), as regression examples over the models *)
Example markdown_escaped_bar_regression :
  read_markdown false true false (write_markdown (@List.length ascii) false false [[(B "a", B "x|y"); (B "b", B "2")]])
  = Some [[(B "a", B "x|y"); (B "b", B "2")]].
Proof. vm_compute. reflexivity. Qed.
Example markdown_dash_row_regression :
  read_markdown false true false (write_markdown (@List.length ascii) false false [[(B "a", B "-"); (B "b", B "")]; [(B "a", B "---"); (B "b", B "-")]])
  = Some [[(B "a", B "-"); (B "b", B "")]; [(B "a", B "---"); (B "b", B "-")]].
Proof. vm_compute. reflexivity. Qed.

(* what does hold on samples (a test, not a theorem: the general markdown round trip is not proved yet) *)
Example markdown_roundtrip_sample :
  read_markdown false true false (write_markdown (@List.length ascii) false false
     [[(B "a", B "x y"); (B "", B "")]; [(B "a", B "-"); (B "", B "z")]; [(B "k", B "1")]])
  = Some [[(B "a", B "x y"); (B "", B "")]; [(B "a", B "-"); (B "", B "z")]; [(B "k", B "1")]]
  /\ read_markdown false true false (write_markdown (@List.length ascii) true true
     [[(B "a", B "x y"); (B "bb", B "")]; [(B "a", B "long value"); (B "bb", B "z")]; [(B "k", B "1")]])
  = Some [[(B "a", B "x y"); (B "bb", B "")]; [(B "a", B "long value"); (B "bb", B "z")]; [(B "k", B "1")]].
Proof. split; vm_compute; reflexivity. Qed.
