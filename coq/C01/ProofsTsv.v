(* TSV: codec inverse on ALL byte strings, writer/reader round trip (explicit and implicit header). *)
From Miller Require Import Base.Bytes Base.Record C01.Model C01.ProofsUtil.
Open Scope char_scope.

(* [enc_simple] is the encoder itself since /repo 6c1ca4524 (kept as a name used by the lemmas below) *)
Definition enc_simple (s : bytes) : bytes := tsv_encode s.

Lemma decode_bb r : tsv_decode (BSL :: BSL :: r) = BSL :: tsv_decode r. Proof. reflexivity. Qed.
Lemma decode_bn r : tsv_decode (BSL :: "n" :: r) = LF :: tsv_decode r. Proof. reflexivity. Qed.
Lemma decode_br r : tsv_decode (BSL :: "r" :: r) = CR :: tsv_decode r. Proof. reflexivity. Qed.
Lemma decode_bt r : tsv_decode (BSL :: "t" :: r) = TAB :: tsv_decode r. Proof. reflexivity. Qed.
Lemma decode_plain c r : eqc c BSL = false -> tsv_decode (c :: r) = c :: tsv_decode r.
Proof. intros H. cbn [tsv_decode]. now rewrite H. Qed.

Lemma decode_enc_simple s : tsv_decode (enc_simple s) = s.
Proof.
  induction s as [|c t IH]; [reflexivity|].
  unfold enc_simple, tsv_encode. cbn [flat_map]. fold (tsv_encode t). fold (enc_simple t). unfold tsv_esc.
  destruct (eqc c BSL) eqn:E1. { apply eqc_eq in E1. subst. cbn [app]. now rewrite decode_bb, IH. }
  destruct (eqc c LF) eqn:E2. { apply eqc_eq in E2. subst. cbn [app]. now rewrite decode_bn, IH. }
  destruct (eqc c CR) eqn:E3. { apply eqc_eq in E3. subst. cbn [app]. now rewrite decode_br, IH. }
  destruct (eqc c TAB) eqn:E4. { apply eqc_eq in E4. subst. cbn [app]. now rewrite decode_bt, IH. }
  cbn [app]. now rewrite decode_plain, IH.
Qed.

Lemma tsv_codec_inverse s : tsv_decode (tsv_encode s) = s.
Proof. apply decode_enc_simple. Qed.

(* the encoder output never contains TAB, LF or CR *)
Lemma enc_simple_clean x s :
  (x = TAB \/ x = LF \/ x = CR) -> nochar x (enc_simple s) = true.
Proof.
  intros Hx. induction s as [|c t IH]; [reflexivity|].
  unfold enc_simple, tsv_encode. cbn [flat_map]. fold (tsv_encode t). fold (enc_simple t). rewrite nochar_app, IH, andb_true_r.
  unfold tsv_esc.
  destruct (eqc c BSL) eqn:E1. { destruct Hx as [->|[->| ->]]; reflexivity. }
  destruct (eqc c LF) eqn:E2. { destruct Hx as [->|[->| ->]]; reflexivity. }
  destruct (eqc c CR) eqn:E3. { destruct Hx as [->|[->| ->]]; reflexivity. }
  destruct (eqc c TAB) eqn:E4. { destruct Hx as [->|[->| ->]]; reflexivity. }
  unfold nochar. cbn [forallb]. rewrite andb_true_r.
  destruct Hx as [->|[->| ->]]; [now rewrite E4|now rewrite E2|now rewrite E3].
Qed.

Lemma enc_simple_nil_inv s : enc_simple s = [] -> s = [].
Proof.
  destruct s as [|c t]; [reflexivity|]. unfold enc_simple, tsv_encode. cbn [flat_map]. unfold tsv_esc.
  destruct (eqc c BSL); [discriminate|]. destruct (eqc c LF); [discriminate|].
  destruct (eqc c CR); [discriminate|]. destruct (eqc c TAB); discriminate.
Qed.

(* ---------------------------------------------------------------- representable domain and round trip *)
(* The domain: rectangular streams with unique keys (what a header-plus-rows format can represent), of ANY bytes,
   except -- known finding tsv-single-column-empty-cell -- a single column whose key or some value is empty
   (the line is then empty and lib.SplitString yields zero fields instead of one empty field). *)
Definition not_single_empty (fs : list bytes) : bool := match fs with [[]] => false | _ => true end.
Definition wf_tsv (recs : list record) : bool :=
  rect recs
  && match recs with
     | [] => true
     | r0 :: _ => nodupb (keys r0) && not_single_empty (keys r0)
     end
  && forallb (fun r => not_single_empty (values r)) recs.

Lemma nochar_join c sep fs :
  nochar c sep = true -> forallb (nochar c) fs = true -> nochar c (join sep fs) = true.
Proof.
  intros Hs. induction fs as [|x fs IH]; intros H; [reflexivity|].
  cbn [forallb] in H. apply andb_true_iff in H as [Hx H].
  destruct fs as [|y fs]; [exact Hx|].
  rewrite join_cons2, !nochar_app, Hx, Hs. cbn [andb]. now apply IH.
Qed.

Lemma forallb_map {A B} (f : B -> bool) (g : A -> B) l : forallb f (map g l) = forallb (fun x => f (g x)) l.
Proof. induction l as [|x l IH]; cbn; [reflexivity|]. now rewrite IH. Qed.

Lemma forallb_true {A} (f : A -> bool) l : (forall x, f x = true) -> forallb f l = true.
Proof. intros H. induction l; cbn; [reflexivity|]. now rewrite H. Qed.

Lemma tsv_line_clean x fs : (x = TAB \/ x = LF \/ x = CR) -> x <> TAB -> nochar x (tsv_line fs) = true.
Proof.
  intros Hx Hnt. unfold tsv_line. apply nochar_join.
  - unfold nochar. cbn [forallb]. rewrite andb_true_r. apply negb_true_iff. apply eqc_neq. congruence.
  - rewrite forallb_map. apply forallb_true. intros f. now apply enc_simple_clean.
Qed.

Lemma tsv_line_ok crlf fs : line_ok crlf (tsv_line fs) = true.
Proof.
  unfold line_ok. rewrite tsv_line_clean; [|auto|discriminate].
  rewrite ends_cr_nochar; [now rewrite orb_true_r|]. apply tsv_line_clean; [auto|discriminate].
Qed.

Lemma tsv_line_split fs :
  not_single_empty fs = true -> map tsv_decode (split_string [TAB] (tsv_line fs)) = fs.
Proof.
  intros Hn. unfold tsv_line. rewrite split_string_join.
  - rewrite map_map. rewrite <- (map_id fs) at 2. apply map_ext. intros. apply tsv_codec_inverse.
  - discriminate.
  - rewrite forallb_map. apply forallb_true. intros x. rewrite <- nochar_freeof. apply enc_simple_clean. auto.
  - intros E. destruct fs as [|x [|y t]]; try discriminate. cbn in E. injection E as E.
    apply enc_simple_nil_inv in E. subst. discriminate.
Qed.

Definition obind {A B} (x : option A) (f : A -> option B) : option B := match x with Some a => f a | None => None end.

Lemma tsv_roundtrip crlf dedupe ragged recs :
  wf_tsv recs = true ->
  obind (write_tsv false crlf recs) (read_tsv dedupe ragged) = Some recs.
Proof.
  unfold wf_tsv. intros H. apply andb_true_iff in H as [H Hvals]. apply andb_true_iff in H as [Hrect Hk].
  destruct recs as [|r0 rest]; [reflexivity|].
  apply andb_true_iff in Hk as [Hnd Hnse].
  unfold write_tsv. rewrite (rows_of_rect r0 rest Hrect). cbn [orb is_nil obind app].
  unfold read_tsv.
  change ([tsv_line (keys r0)] ++ map tsv_line (map values (r0 :: rest)))
    with (tsv_line (keys r0) :: map tsv_line (map values (r0 :: rest))).
  rewrite lines_of_unlines.
  2:{ cbn [forallb]. rewrite tsv_line_ok. cbn [andb]. rewrite map_map, forallb_map. apply forallb_true. intros r. apply tsv_line_ok. }
  cbv iota. rewrite tsv_line_split by assumption.
  rewrite map_map.
  apply map_opt_map_id.
  intros r Hr.
  rewrite forallb_forall in Hvals. specialize (Hvals r Hr).
  rewrite tsv_line_split by assumption.
  unfold rect in Hrect. rewrite forallb_forall in Hrect. specialize (Hrect r Hr). apply list_beqb_eq in Hrect.
  rewrite <- Hrect. rewrite <- Hrect in Hnd. now apply row_to_record_rect.
Qed.

(* the remaining exclusion is genuine: today's reader rejects the writer's output for a single empty cell *)
Lemma tsv_single_empty_cell_refuted :
  exists recs, rect recs = true /\ obind (write_tsv false false recs) (read_tsv true false) <> Some recs.
Proof. exists [[(B "a", [])]]. split; [reflexivity|]. vm_compute. discriminate. Qed.
