(* TSV: codec inverse on valid UTF-8, writer/reader round trip, and the two refutations of today's code. *)
From Miller Require Import Base.Bytes Base.Record C01.Model C01.ProofsUtil.
Open Scope char_scope.

(* the byte-wise encoder the IANA text describes; the Go code equals it exactly on valid UTF-8 *)
Definition enc_simple (s : bytes) : bytes :=
  flat_map (fun c => match tsv_esc c with Some e => e | None => [c] end) s.

Lemma is_cont_noesc c : is_cont c = true -> tsv_esc c = None.
Proof. destruct c as [[] [] [] [] [] [] [] []]; vm_compute; intros H; try reflexivity; discriminate H. Qed.

Lemma esc_ascii c e t : tsv_esc c = Some e -> utf8_len_at (c :: t) = 1.
Proof. intros H. destruct c as [[] [] [] [] [] [] [] []]; vm_compute in H; try discriminate H; reflexivity. Qed.

Lemma encode_valid s : forall k, utf8_valid_go k s = true -> tsv_encode_go k s = enc_simple s.
Proof.
  induction s as [|c t IH]; intros k H; [reflexivity|].
  destruct k as [|k'].
  - cbn [tsv_encode_go utf8_valid_go] in *. cbn [enc_simple flat_map]. fold (enc_simple t).
    destruct (tsv_esc c) as [e|] eqn:E.
    + rewrite (esc_ascii c e t E) in H. now rewrite IH.
    + destruct (utf8_len_at (c :: t)) as [|n] eqn:L; [discriminate|]. now rewrite IH.
  - cbn [tsv_encode_go utf8_valid_go] in *. apply andb_true_iff in H as [Hc H].
    cbn [enc_simple flat_map]. fold (enc_simple t). rewrite (is_cont_noesc c Hc). now rewrite IH.
Qed.

Lemma tsv_encode_valid s : utf8_valid s = true -> tsv_encode s = enc_simple s.
Proof. apply encode_valid. Qed.

Lemma decode_bb r : tsv_decode (BSL :: BSL :: r) = BSL :: tsv_decode r. Proof. reflexivity. Qed.
Lemma decode_bn r : tsv_decode (BSL :: "n" :: r) = LF :: tsv_decode r. Proof. reflexivity. Qed.
Lemma decode_br r : tsv_decode (BSL :: "r" :: r) = CR :: tsv_decode r. Proof. reflexivity. Qed.
Lemma decode_bt r : tsv_decode (BSL :: "t" :: r) = TAB :: tsv_decode r. Proof. reflexivity. Qed.
Lemma decode_plain c r : eqc c BSL = false -> tsv_decode (c :: r) = c :: tsv_decode r.
Proof. intros H. cbn [tsv_decode]. now rewrite H. Qed.

Lemma decode_enc_simple s : tsv_decode (enc_simple s) = s.
Proof.
  induction s as [|c t IH]; [reflexivity|].
  cbn [enc_simple flat_map]. fold (enc_simple t). unfold tsv_esc.
  destruct (eqc c BSL) eqn:E1. { apply eqc_eq in E1. subst. cbn [app]. now rewrite decode_bb, IH. }
  destruct (eqc c LF) eqn:E2. { apply eqc_eq in E2. subst. cbn [app]. now rewrite decode_bn, IH. }
  destruct (eqc c CR) eqn:E3. { apply eqc_eq in E3. subst. cbn [app]. now rewrite decode_br, IH. }
  destruct (eqc c TAB) eqn:E4. { apply eqc_eq in E4. subst. cbn [app]. now rewrite decode_bt, IH. }
  cbn [app]. now rewrite decode_plain, IH.
Qed.

Lemma tsv_codec_inverse s : utf8_valid s = true -> tsv_decode (tsv_encode s) = s.
Proof. intros H. rewrite tsv_encode_valid by assumption. apply decode_enc_simple. Qed.

Lemma tsv_codec_not_inverse : exists s, tsv_decode (tsv_encode s) <> s.
Proof. exists [ascii_of_N 255]. vm_compute. discriminate. Qed.

(* the encoder output never contains TAB, LF or CR *)
Lemma enc_simple_clean x s :
  (x = TAB \/ x = LF \/ x = CR) -> nochar x (enc_simple s) = true.
Proof.
  intros Hx. induction s as [|c t IH]; [reflexivity|].
  cbn [enc_simple flat_map]. fold (enc_simple t). rewrite nochar_app, IH, andb_true_r.
  unfold tsv_esc.
  destruct (eqc c BSL) eqn:E1. { destruct Hx as [->|[->| ->]]; reflexivity. }
  destruct (eqc c LF) eqn:E2. { destruct Hx as [->|[->| ->]]; reflexivity. }
  destruct (eqc c CR) eqn:E3. { destruct Hx as [->|[->| ->]]; reflexivity. }
  destruct (eqc c TAB) eqn:E4. { destruct Hx as [->|[->| ->]]; reflexivity. }
  unfold nochar. cbn [forallb]. rewrite andb_true_r.
  destruct Hx as [->|[->| ->]]; [now rewrite E4|now rewrite E2|now rewrite E3].
Qed.

Lemma enc_simple_nil_inv s : enc_simple s = [] -> s = [].
Proof.
  destruct s as [|c t]; [reflexivity|]. cbn [enc_simple flat_map]. unfold tsv_esc.
  destruct (eqc c BSL); [discriminate|]. destruct (eqc c LF); [discriminate|].
  destruct (eqc c CR); [discriminate|]. destruct (eqc c TAB); discriminate.
Qed.

Definition tsv_plain (k : bytes) : bool :=
  forallb (fun c => match tsv_esc c with None => true | Some _ => false end) k.

Lemma enc_simple_plain k : tsv_plain k = true -> enc_simple k = k.
Proof.
  induction k as [|c t IH]; [reflexivity|]. unfold tsv_plain. cbn [forallb]. intros H.
  apply andb_true_iff in H as [Hc H]. cbn [enc_simple flat_map]. fold (enc_simple t).
  destruct (tsv_esc c); [discriminate|]. cbn. f_equal. now apply IH.
Qed.

(* ---------------------------------------------------------------- representable domain and round trip *)
Definition not_single_empty (fs : list bytes) : bool := match fs with [[]] => false | _ => true end.
Definition tsv_key_ok (k : bytes) : bool := tsv_plain k && utf8_valid k.
Definition wf_tsv (recs : list record) : bool :=
  rect recs
  && match recs with
     | [] => true
     | r0 :: _ => nodupb (keys r0) && forallb tsv_key_ok (keys r0) && not_single_empty (keys r0)
     end
  && forallb (fun r => forallb utf8_valid (values r) && not_single_empty (values r)) recs.

Lemma nochar_join c sep fs :
  nochar c sep = true -> forallb (nochar c) fs = true -> nochar c (join sep fs) = true.
Proof.
  intros Hs. induction fs as [|x fs IH]; intros H; [reflexivity|].
  cbn [forallb] in H. apply andb_true_iff in H as [Hx H].
  destruct fs as [|y fs]; [exact Hx|].
  rewrite join_cons2, !nochar_app, Hx, Hs. cbn [andb]. now apply IH.
Qed.

Lemma map_encode_valid fs : forallb utf8_valid fs = true -> map tsv_encode fs = map enc_simple fs.
Proof.
  induction fs as [|x fs IH]; intros H; [reflexivity|]. cbn [forallb] in H.
  apply andb_true_iff in H as [Hx H]. cbn [map]. now rewrite tsv_encode_valid, IH.
Qed.

Lemma forallb_map {A B} (f : B -> bool) (g : A -> B) l : forallb f (map g l) = forallb (fun x => f (g x)) l.
Proof. induction l as [|x l IH]; cbn; [reflexivity|]. now rewrite IH. Qed.

Lemma forallb_true {A} (f : A -> bool) l : (forall x, f x = true) -> forallb f l = true.
Proof. intros H. induction l; cbn; [reflexivity|]. now rewrite H. Qed.

Lemma tsv_line_ok crlf fs : forallb utf8_valid fs = true -> line_ok crlf (tsv_line fs) = true.
Proof.
  intros H. unfold tsv_line, line_ok. rewrite map_encode_valid by assumption.
  rewrite nochar_join; [|reflexivity|].
  2:{ rewrite forallb_map. apply forallb_true. intros x. apply enc_simple_clean. auto. }
  rewrite ends_cr_nochar; [now rewrite orb_true_r|].
  apply nochar_join; [reflexivity|]. rewrite forallb_map. apply forallb_true. intros x. apply enc_simple_clean. auto.
Qed.

Lemma tsv_line_split fs :
  forallb utf8_valid fs = true -> not_single_empty fs = true ->
  map tsv_decode (split_string [TAB] (tsv_line fs)) = fs.
Proof.
  intros Hv Hn. unfold tsv_line. rewrite map_encode_valid by assumption.
  rewrite split_string_join.
  - rewrite map_map. rewrite <- (map_id fs) at 2. apply map_ext. intros. apply decode_enc_simple.
  - discriminate.
  - rewrite forallb_map. apply forallb_true. intros x. rewrite <- nochar_freeof. apply enc_simple_clean. auto.
  - intros E. destruct fs as [|x [|y t]]; try discriminate. cbn in E. injection E as E.
    apply enc_simple_nil_inv in E. subst. discriminate.
Qed.

Lemma tsv_header_split ks :
  forallb tsv_key_ok ks = true -> not_single_empty ks = true ->
  split_string [TAB] (tsv_line ks) = ks.
Proof.
  intros Hk Hn.
  assert (Hv : forallb utf8_valid ks = true).
  { rewrite forallb_forall in *. intros x Hx. specialize (Hk x Hx). unfold tsv_key_ok in Hk. now apply andb_true_iff in Hk as [_ ?]. }
  assert (Hp : map enc_simple ks = ks).
  { rewrite <- (map_id ks) at 2. apply map_ext_in. intros x Hx. rewrite forallb_forall in Hk. specialize (Hk x Hx).
    unfold tsv_key_ok in Hk. apply andb_true_iff in Hk as [Hk _]. now apply enc_simple_plain. }
  unfold tsv_line. rewrite map_encode_valid by assumption. rewrite Hp.
  apply split_string_join; [discriminate| |intros ->; discriminate].
  rewrite <- Hp. rewrite forallb_map. apply forallb_true. intros x. rewrite <- nochar_freeof. apply enc_simple_clean. auto.
Qed.

Definition obind {A B} (x : option A) (f : A -> option B) : option B := match x with Some a => f a | None => None end.

Lemma tsv_roundtrip crlf dedupe ragged recs :
  wf_tsv recs = true ->
  obind (write_tsv false crlf recs) (read_tsv dedupe ragged) = Some recs.
Proof.
  unfold wf_tsv. intros H. apply andb_true_iff in H as [H Hvals]. apply andb_true_iff in H as [Hrect Hk].
  destruct recs as [|r0 rest]; [reflexivity|].
  apply andb_true_iff in Hk as [Hk Hnse]. apply andb_true_iff in Hk as [Hnd Hkok].
  unfold write_tsv. rewrite (rows_of_rect r0 rest Hrect). cbn [orb is_nil obind app].
  unfold read_tsv.
  change ([tsv_line (keys r0)] ++ map tsv_line (map values (r0 :: rest)))
    with (tsv_line (keys r0) :: map tsv_line (map values (r0 :: rest))).
  rewrite lines_of_unlines.
  2:{ cbn [forallb]. apply andb_true_iff. split.
      - apply tsv_line_ok. rewrite forallb_forall in *. intros x Hx. specialize (Hkok x Hx).
        unfold tsv_key_ok in Hkok. now apply andb_true_iff in Hkok as [_ ?].
      - rewrite map_map, forallb_map. rewrite forallb_forall in *. intros r Hr. apply tsv_line_ok.
        specialize (Hvals r Hr). now apply andb_true_iff in Hvals as [? _]. }
  cbv iota. rewrite tsv_header_split by assumption.
  rewrite map_map.
  apply map_opt_map_id.
  intros r Hr.
    pose proof Hvals as Hv. rewrite forallb_forall in Hv. specialize (Hv r Hr). apply andb_true_iff in Hv as [Hv1 Hv2].
    rewrite tsv_line_split by assumption.
    unfold rect in Hrect. rewrite forallb_forall in Hrect. specialize (Hrect r Hr). apply list_beqb_eq in Hrect.
    rewrite <- Hrect. rewrite <- Hrect in Hnd. now apply row_to_record_rect.
Qed.

(* today's reader does not decode header fields: a key with a backslash does not come back *)
Lemma tsv_roundtrip_key_backslash_refuted :
  exists recs, rect recs = true /\ obind (write_tsv false false recs) (read_tsv true false) <> Some recs.
Proof. exists [[(B "a\b", B "1")]]. split; [reflexivity|]. vm_compute. discriminate. Qed.

Lemma tsv_value_bytes_refuted :
  exists recs, rect recs = true /\ obind (write_tsv false false recs) (read_tsv true false) <> Some recs.
Proof. exists [[(B "a", [ascii_of_N 255])]]. split; [reflexivity|]. vm_compute. discriminate. Qed.
