(* custom IRS/ORS: the line reader inverts "every line followed by the ORS"; DKVP and NIDX round trips with it. *)
From Miller Require Import Base.Bytes Base.Record C01.Model C01.ModelIrs C01.ProofsUtil C01.ProofsTsv C01.ProofsDkvp.
Open Scope char_scope.

Lemma unlines_join sep (ls : list bytes) : unlines sep ls = join sep (ls ++ [[]]).
Proof.
  unfold unlines. induction ls as [|l ls IH]; [reflexivity|]. cbn [map List.concat app].
  destruct ls as [|m ls]; [cbn [map List.concat app join]; now rewrite !app_nil_r|].
  change ((m :: ls) ++ [[]]) with (m :: ls ++ [[]]) in *. rewrite join_cons2, <- IH. now rewrite <- app_assoc.
Qed.

Lemma lines_irs_unlines irs ls : irs <> [] -> forallb (freeof irs) ls = true -> lines_irs irs (unlines irs ls) = ls.
Proof.
  intros Hs Hf. unfold lines_irs. rewrite unlines_join. rewrite split_join.
  - unfold drop_last_empty. rewrite rev_app_distr. cbn [rev app]. apply rev_involutive.
  - exact Hs.
  - rewrite forallb_app, Hf. reflexivity.
  - destruct ls; discriminate.
Qed.

(* what the DKVP / NIDX round trips say about single lines *)
Lemma dkvp_lines_inverse ifs ips dedupe recs : wf_dkvp ifs ips true recs = true ->
  map (fun l => dkvp_pairs ips dedupe 0 (field_split ifs false l) []) (map (dkvp_line ifs ips) recs) = recs.
Proof.
  intros H. pose proof (dkvp_roundtrip ifs ips true dedupe recs H) as R. unfold read_dkvp, write_dkvp in R.
  rewrite lines_of_unlines in R; [exact R|].
  unfold wf_dkvp in H. apply andb_true_iff in H as [H Hrecs]. apply andb_true_iff in H as [H _]. apply andb_true_iff in H as [Hifs Hips].
  rewrite forallb_map. rewrite forallb_forall in *. intros r Hr. unfold line_ok. rewrite orb_true_l, andb_true_r.
  specialize (Hrecs r Hr). apply andb_true_iff in Hrecs as [Hrecs _]. apply andb_true_iff in Hrecs as [_ Hf].
  apply dkvp_line_nolf; assumption.
Qed.

(* domain: that of the DKVP round trip (any IFS/IPS, see C01_dkvp_roundtrip) and no byte of the IRS in any written line *)
Lemma dkvp_irs_roundtrip irs ifs ips dedupe recs :
  irs <> [] -> default_irs irs = false -> wf_dkvp ifs ips true recs = true ->
  forallb (freeof irs) (map (dkvp_line ifs ips) recs) = true ->
  read_dkvp_irs irs ifs ips false dedupe (write_dkvp_ors ifs ips irs recs) = recs.
Proof.
  intros Hs Hd Hw Hf. unfold read_dkvp_irs, write_dkvp_ors, line_reader. rewrite Hd.
  rewrite lines_irs_unlines by assumption. now apply dkvp_lines_inverse.
Qed.

Lemma nidx_lines_inverse ifs recs : wf_nidx ifs true recs = true ->
  map (fun l => nidx_fields 0 (field_split ifs true l) []) (map (fun r => join ifs (values r)) recs) = recs.
Proof.
  intros H. pose proof (nidx_roundtrip ifs true recs H) as R. unfold read_nidx, write_nidx in R.
  rewrite lines_of_unlines in R; [exact R|].
  unfold wf_nidx in H. apply andb_true_iff in H as [Hifs Hrecs].
  rewrite forallb_map. rewrite forallb_forall in *. intros r Hr. specialize (Hrecs r Hr).
  unfold wf_nidx_rec in Hrecs. apply andb_true_iff in Hrecs as [Hr1 _]. apply andb_true_iff in Hr1 as [_ Hv].
  unfold line_ok. rewrite orb_true_l, andb_true_r. apply nochar_join.
  - unfold sep_ok in Hifs. apply andb_true_iff in Hifs as [Hifs _]. now apply andb_true_iff in Hifs as [_ ?].
  - rewrite forallb_forall in *. intros v Hin. specialize (Hv v Hin). now apply andb_true_iff in Hv as [_ ?].
Qed.

Lemma nidx_irs_roundtrip irs ifs recs :
  irs <> [] -> default_irs irs = false -> wf_nidx ifs true recs = true ->
  forallb (freeof irs) (map (fun r => join ifs (values r)) recs) = true ->
  read_nidx_irs irs ifs true (write_nidx_ors ifs irs recs) = recs.
Proof.
  intros Hs Hd Hw Hf. unfold read_nidx_irs, write_nidx_ors, line_reader. rewrite Hd.
  rewrite lines_irs_unlines by assumption. now apply nidx_lines_inverse.
Qed.

(* regression examples over the model for /repo a96f6ff95 and 3c48708b5 *)
Example irs_regressions :
  lines_irs (B ";;") (B "a=1;;b=2;;") = [B "a=1"; B "b=2"]
  /\ lines_irs (B ";;") (B "a;b;;;c;") = [B "a;b"; B ";c;"]
  /\ lines_irs (B "ab") (B "xbabyb") = [B "xb"; B "yb"]
  /\ lines_irs (B ";") (B ";x") = [[]; B "x"] /\ lines_irs (B ";") [] = [].
Proof. vm_compute. repeat split; reflexivity. Qed.
