(* CSV without header line: --headerless-csv-output then --implicit-csv-header, positional keys 1..n *)
From Miller Require Import Base.Bytes Base.Record C01.Model C01.ProofsUtil C01.ProofsTsv C01.ProofsDkvp C01.ProofsCsv.
From Coq Require Import FinFun.
Open Scope char_scope.

Lemma positional_keys_nodup n : nodupb (positional_keys n) = true.
Proof.
  apply nodupb_NoDup. unfold positional_keys. apply Injective_map_NoDup; [|apply seq_NoDup].
  intros a b. apply itoa_inj.
Qed.

Definition wf_csv_pos (crlf : bool) (comma : ascii) (recs : list record) : bool :=
  comma_ok comma
  && match recs with
     | [] => true
     | r0 :: _ =>
       negb (is_nil r0) && first_not_ef (values r0)
       && forallb (fun r => list_beqb (keys r) (positional_keys (List.length r0)) && forallb (body_ok crlf) (values r)) recs
     end.

Lemma csv_roundtrip_headerless qa crlf comma lazy dedupe ragged recs :
  wf_csv_pos crlf comma recs = true ->
  obind (write_csv true qa crlf comma recs) (read_csv true lazy dedupe ragged comma) = Some recs.
Proof.
  unfold wf_csv_pos. intros H. apply andb_true_iff in H as [Hcomma H].
  destruct recs as [|r0 rest]; [reflexivity|].
  apply andb_true_iff in H as [H Hall]. apply andb_true_iff in H as [Hne Hef].
  assert (Hkeys : forall r, In r (r0 :: rest) -> keys r = positional_keys (List.length r0)).
  { intros r Hr. rewrite forallb_forall in Hall. specialize (Hall r Hr). apply andb_true_iff in Hall as [Hk _]. now apply list_beqb_eq. }
  assert (Hrect : rect (r0 :: rest) = true).
  { unfold rect. rewrite forallb_forall. intros r Hr. rewrite (Hkeys r Hr), (Hkeys r0) by now left. apply list_beqb_refl. }
  unfold write_csv. rewrite (rows_of_rect r0 rest Hrect). cbn [orb is_nil obind app].
  unfold read_csv.
  assert (Hvne : values r0 <> []). { destruct r0; [discriminate|discriminate]. }
  change (map values (r0 :: rest)) with (values r0 :: map values rest).
  rewrite strip_bom_head by (apply text_head_ok; assumption).
  change (values r0 :: map values rest) with (map values (r0 :: rest)).
  rewrite csv_rows_text; [|assumption|].
  2:{ unfold rows_ok. rewrite forallb_forall. intros cells Hin.
      apply in_map_iff in Hin as (fs & <- & Hin). apply in_map_iff in Hin as (r & <- & Hr).
      rewrite forallb_forall in Hall. specialize (Hall r Hr). apply andb_true_iff in Hall as [Hk Hv].
      apply list_beqb_eq in Hk.
      assert (Hrne : values r <> []).
      { destruct r; [|discriminate]. cbn in Hk. destruct r0; [discriminate|discriminate]. }
      apply andb_true_iff. split; [destruct (values r); [congruence|reflexivity]|].
      rewrite forallb_map. rewrite forallb_forall in *. intros v Hin. apply miller_cell_ok. now apply Hv. }
  assert (Hms : forall L : list (list bytes), map (map snd) (map (map (miller_q qa comma)) L) = L).
  { intros L. rewrite map_map. rewrite <- (map_id L) at 2. apply map_ext. intros l.
    rewrite map_map. cbn [miller_q snd]. apply map_id. }
  rewrite Hms. cbn [map]. cbv iota.
  change (values r0 :: map values rest) with (map values (r0 :: rest)).
  apply map_opt_map_id. intros r Hr.
  replace (List.length (values r0)) with (List.length r0) by (unfold values; now rewrite map_length).
  rewrite <- (Hkeys r Hr). apply row_to_record_rect. rewrite (Hkeys r Hr). apply positional_keys_nodup.
Qed.
