(* CSV without header line: --headerless-csv-output then --implicit-csv-header, positional keys 1..n *)
From Miller Require Import Base.Bytes Base.Record C01.Model C01.ProofsUtil C01.ProofsTsv C01.ProofsDkvp C01.ProofsCsv.
From Coq Require Import FinFun.
Open Scope char_scope.

Lemma positional_keys_nodup n : nodupb (positional_keys n) = true.
Proof.
  apply nodupb_NoDup. unfold positional_keys. apply Injective_map_NoDup; [|apply seq_NoDup].
  intros a b. apply itoa_inj.
Qed.

Definition wf_csv_pos (crlf : bool) (comma : ascii) (recs : list record) : bool :=
  comma_ok comma
  && match recs with
     | [] => true
     | r0 :: _ =>
       negb (is_nil r0) && first_not_ef (values r0)
       && forallb (fun r => list_beqb (keys r) (positional_keys (List.length r0)) && forallb (body_ok crlf) (values r)) recs
     end.

Lemma csv_roundtrip_headerless qa crlf comma lazy dedupe ragged recs :
  wf_csv_pos crlf comma recs = true ->
  obind (write_csv true qa crlf comma recs) (read_csv true lazy dedupe ragged comma) = Some recs.
Proof.
  unfold wf_csv_pos. intros H. apply andb_true_iff in H as [Hcomma H].
  destruct recs as [|r0 rest]; [reflexivity|].
  apply andb_true_iff in H as [H Hall]. apply andb_true_iff in H as [Hne Hef].
  assert (Hkeys : forall r, In r (r0 :: rest) -> keys r = positional_keys (List.length r0)).
  { intros r Hr. rewrite forallb_forall in Hall. specialize (Hall r Hr). apply andb_true_iff in Hall as [Hk _]. now apply list_beqb_eq. }
  assert (Hrect : rect (r0 :: rest) = true).
  { unfold rect. rewrite forallb_forall. intros r Hr. rewrite (Hkeys r Hr), (Hkeys r0) by now left. apply list_beqb_refl. }
  unfold write_csv. rewrite (rows_of_rect r0 rest Hrect). cbn [orb is_nil obind app].
  unfold read_csv.
  assert (Hvne : values r0 <> []). { destruct r0; [discriminate|discriminate]. }
  change (map values (r0 :: rest)) with (values r0 :: map values rest).
  rewrite strip_bom_head by (apply text_head_ok; assumption).
  change (values r0 :: map values rest) with (map values (r0 :: rest)).
  rewrite csv_rows_text; [|assumption|].
  2:{ unfold rows_ok. rewrite forallb_forall. intros cells Hin.
      apply in_map_iff in Hin as (fs & <- & Hin). apply in_map_iff in Hin as (r & <- & Hr).
      rewrite forallb_forall in Hall. specialize (Hall r Hr). apply andb_true_iff in Hall as [Hk Hv].
      apply list_beqb_eq in Hk.
      assert (Hrne : values r <> []).
      { destruct r; [|discriminate]. cbn in Hk. destruct r0; [discriminate|discriminate]. }
      apply andb_true_iff. split; [destruct (values r); [congruence|reflexivity]|].
      rewrite forallb_map. rewrite forallb_forall in *. intros v Hin. apply miller_cell_ok. now apply Hv. }
  assert (Hms : forall L : list (list bytes), map (map snd) (map (map (miller_q qa comma)) L) = L).
  { intros L. rewrite map_map. rewrite <- (map_id L) at 2. apply map_ext. intros l.
    rewrite map_map. cbn [miller_q snd]. apply map_id. }
  rewrite Hms. cbn [map]. cbv iota.
  change (values r0 :: map values rest) with (map values (r0 :: rest)).
  apply map_opt_map_id. intros r Hr.
  replace (List.length (values r0)) with (List.length r0) by (unfold values; now rewrite map_length).
  rewrite <- (Hkeys r Hr). apply row_to_record_rect. rewrite (Hkeys r Hr). apply positional_keys_nodup.
Qed.

(* ---------------------------------------------------------------- TSV without header line:
   --headerless-tsv-output then --implicit-tsv-header (getRecordBatchImplicitTSVHeader), keys 1..n *)
Definition wf_tsv_pos (recs : list record) : bool :=
  match recs with
  | [] => true
  | r0 :: _ =>
    negb (is_nil r0)
    && forallb (fun r => list_beqb (keys r) (positional_keys (List.length r0)) && not_single_empty (values r)) recs
  end.

Lemma trim_right_crlf_clean s : nochar CR s = true -> nochar LF s = true -> trim_right_crlf s = s.
Proof.
  intros H1 H2. unfold trim_right_crlf. destruct (rev s) as [|c t] eqn:E.
  - cbn. apply (f_equal (@rev ascii)) in E. rewrite rev_involutive in E. now subst.
  - assert (Hin : In c s) by (apply in_rev; rewrite E; now left).
    unfold nochar in *. rewrite forallb_forall in H1, H2.
    specialize (H1 c Hin). specialize (H2 c Hin). apply negb_true_iff in H1, H2.
    cbn [trim_right_crlf_rev]. rewrite H1, H2. cbn [orb]. rewrite <- E. apply rev_involutive.
Qed.

Lemma tsv_line_nil_inv vs : tsv_line vs = [] -> vs = [] \/ vs = [[]].
Proof.
  unfold tsv_line. intros E. apply join_nil_inv in E; [|discriminate].
  destruct E as [E|E].
  - left. destruct vs; [reflexivity|discriminate].
  - right. destruct vs as [|x [|y t]]; try discriminate. cbn in E. injection E as E.
    apply enc_simple_nil_inv in E. now subst.
Qed.

Lemma tsv_implicit_lines d rg n rs : forall hdr,
  n <> 0 -> (hdr = None \/ hdr = Some (positional_keys n)) ->
  forallb (fun r => list_beqb (keys r) (positional_keys n) && not_single_empty (values r)) rs = true ->
  read_tsv_implicit_go d rg hdr (map (fun r => tsv_line (values r)) rs) = Some rs.
Proof.
  induction rs as [|r rs IH]; intros hdr Hn Hh H; [reflexivity|].
  cbn [forallb] in H. apply andb_true_iff in H as [Hr H]. apply andb_true_iff in Hr as [Hk Hv].
  apply list_beqb_eq in Hk.
  assert (Hlen : List.length (values r) = n).
  { unfold values. rewrite map_length. rewrite <- (map_length fst). fold (keys r). rewrite Hk.
    unfold positional_keys. now rewrite map_length, seq_length. }
  cbn [map read_tsv_implicit_go].
  rewrite trim_right_crlf_clean by (apply tsv_line_clean; [auto|discriminate]).
  assert (Hnn : is_nil (tsv_line (values r)) = false).
  { destruct (tsv_line (values r)) eqn:El; [|reflexivity].
    apply tsv_line_nil_inv in El as [El|El]; [rewrite El in Hlen; cbn in Hlen; congruence|rewrite El in Hv; discriminate]. }
  rewrite Hnn.
  assert (Hfs : List.length (split_string [TAB] (tsv_line (values r))) = n).
  { rewrite <- (map_length tsv_decode). now rewrite tsv_line_split. }
  assert (Hhs : match hdr with None => positional_keys (List.length (split_string [TAB] (tsv_line (values r)))) | Some h => h end = positional_keys n).
  { destruct Hh as [-> | ->]; [now rewrite Hfs|reflexivity]. }
  rewrite Hhs. rewrite tsv_line_split by assumption.
  rewrite <- Hk. rewrite row_to_record_rect by (rewrite Hk; apply positional_keys_nodup).
  rewrite Hk. rewrite IH; [reflexivity|assumption|now right|assumption].
Qed.

Lemma tsv_roundtrip_headerless crlf dedupe ragged recs :
  wf_tsv_pos recs = true ->
  obind (write_tsv true crlf recs) (read_tsv_implicit dedupe ragged) = Some recs.
Proof.
  unfold wf_tsv_pos. destruct recs as [|r0 rest]; [reflexivity|]. intros H.
  apply andb_true_iff in H as [Hne Hall].
  assert (Hrect : rect (r0 :: rest) = true).
  { unfold rect. rewrite forallb_forall in *. intros r Hr.
    pose proof (Hall r Hr) as H1. pose proof (Hall r0 (or_introl eq_refl)) as H0.
    apply andb_true_iff in H1 as [H1 _]. apply andb_true_iff in H0 as [H0 _].
    apply list_beqb_eq in H1, H0. rewrite H1, H0. apply list_beqb_refl. }
  unfold write_tsv. rewrite (rows_of_rect r0 rest Hrect). cbn [orb is_nil obind app].
  unfold read_tsv_implicit. rewrite lines_of_unlines.
  2:{ rewrite map_map, forallb_map. apply forallb_true. intros r. apply tsv_line_ok. }
  rewrite map_map. apply tsv_implicit_lines with (n := List.length r0); [destruct r0; [discriminate|discriminate]|now left|assumption].
Qed.
