(* C15 model, digests: MD5 (RFC 1321), SHA-1, SHA-256, SHA-512 (FIPS 180-4) written from the standards over N with
   the word arithmetic mod 2^32 / 2^64 explicit.  These functions are the INDEPENDENT REFERENCE of the property for
   md5()/sha1()/sha256()/sha512() (pkg/bifs/hashing.go: fmt.Sprintf("%x", md5.Sum(payload)) etc. on the value's bytes);
   they are tied to mlr by the correspondence.  The round constants were produced once from their definitions
   (floor(2^32 |sin(i+1)|); fractional parts of the square/cube roots of the first primes) and are pinned by the
   RFC / FIPS test vectors in ProofsHash.v.  Definitions only.  No cryptographic claim is made anywhere. *)
From Miller Require Import Base.Bytes C15.Model.
Open Scope N_scope.

Definition M32 : N := 4294967296.
Definition M64 : N := 18446744073709551616.

(* ------------------------------------------------------------------ padding (shared shape)
   message ++ 0x80 ++ k zero bytes ++ length field, k minimal so that the total is a multiple of blk *)
Definition pad_zeros (blk lf len : N) : N := (blk - (len + 1 + lf) mod blk) mod blk.
Definition pad_with (blk : N) (lenfield : list N) (m : list N) : list N :=
  m ++ 128 :: repeat 0 (N.to_nat (pad_zeros blk (N.of_nat (List.length lenfield)) (N.of_nat (List.length m)))) ++ lenfield.

(* n-byte big-endian / little-endian representation of v mod 256^n *)
Fixpoint le_bytes (n : nat) (v : N) : list N :=
  match n with O => [] | S k => v mod 256 :: le_bytes k (v / 256) end.
Definition be_bytes (n : nat) (v : N) : list N := rev (le_bytes n v).

Definition bitlen (m : list N) : N := 8 * N.of_nat (List.length m).
Definition pad_md5 (m : list N) : list N := pad_with 64 (le_bytes 8 (bitlen m)) m.
Definition pad_sha (m : list N) : list N := pad_with 64 (be_bytes 8 (bitlen m)) m.
Definition pad_sha512 (m : list N) : list N := pad_with 128 (be_bytes 16 (bitlen m)) m.

(* the message back from its padded form (drop the length field, the zero bytes, the 0x80 marker) *)
Fixpoint drop_zeros (l : list N) : list N := match l with 0 :: t => drop_zeros t | _ => l end.
Definition unpad (lf : nat) (p : list N) : list N := rev (tl (drop_zeros (skipn lf (rev p)))).

(* ------------------------------------------------------------------ words and blocks *)
Fixpoint words32_le (l : list N) : list N :=
  match l with a :: b :: c :: d :: t => (((d * 256 + c) * 256 + b) * 256 + a) :: words32_le t | _ => [] end.
Fixpoint words32_be (l : list N) : list N :=
  match l with a :: b :: c :: d :: t => (((a * 256 + b) * 256 + c) * 256 + d) :: words32_be t | _ => [] end.
Fixpoint words64_be (l : list N) : list N :=
  match l with
  | a :: b :: c :: d :: e :: f :: g :: h :: t =>
      (((((((a * 256 + b) * 256 + c) * 256 + d) * 256 + e) * 256 + f) * 256 + g) * 256 + h) :: words64_be t
  | _ => []
  end.
Fixpoint blocks16 (fuel : nat) (ws : list N) : list (list N) :=
  match fuel with
  | O => []
  | S f => match ws with [] => [] | _ => firstn 16 ws :: blocks16 f (skipn 16 ws) end
  end.
Definition blocks (ws : list N) : list (list N) := blocks16 (List.length ws) ws.

(* ------------------------------------------------------------------ word operations on w bits *)
Definition rotl (w n x : N) : N := N.lor (N.shiftl x n mod 2 ^ w) (N.shiftr x (w - n)).
Definition rotr (w n x : N) : N := rotl w (w - n) x.
Definition notw (w x : N) : N := N.lxor x (2 ^ w - 1).
Definition w_at (ws : list N) (i : N) : N := nth (N.to_nat i) ws 0.

(* ------------------------------------------------------------------ MD5, RFC 1321 section 3.4 *)
(* (i, T[i+1], s) *)
Definition md5_table : list (N * N * N) :=
  [(0, 3614090360, 7); (1, 3905402710, 12); (2, 606105819, 17); (3, 3250441966, 22);
   (4, 4118548399, 7); (5, 1200080426, 12); (6, 2821735955, 17); (7, 4249261313, 22);
   (8, 1770035416, 7); (9, 2336552879, 12); (10, 4294925233, 17); (11, 2304563134, 22);
   (12, 1804603682, 7); (13, 4254626195, 12); (14, 2792965006, 17); (15, 1236535329, 22);
   (16, 4129170786, 5); (17, 3225465664, 9); (18, 643717713, 14); (19, 3921069994, 20);
   (20, 3593408605, 5); (21, 38016083, 9); (22, 3634488961, 14); (23, 3889429448, 20);
   (24, 568446438, 5); (25, 3275163606, 9); (26, 4107603335, 14); (27, 1163531501, 20);
   (28, 2850285829, 5); (29, 4243563512, 9); (30, 1735328473, 14); (31, 2368359562, 20);
   (32, 4294588738, 4); (33, 2272392833, 11); (34, 1839030562, 16); (35, 4259657740, 23);
   (36, 2763975236, 4); (37, 1272893353, 11); (38, 4139469664, 16); (39, 3200236656, 23);
   (40, 681279174, 4); (41, 3936430074, 11); (42, 3572445317, 16); (43, 76029189, 23);
   (44, 3654602809, 4); (45, 3873151461, 11); (46, 530742520, 16); (47, 3299628645, 23);
   (48, 4096336452, 6); (49, 1126891415, 10); (50, 2878612391, 15); (51, 4237533241, 21);
   (52, 1700485571, 6); (53, 2399980690, 10); (54, 4293915773, 15); (55, 2240044497, 21);
   (56, 1873313359, 6); (57, 4264355552, 10); (58, 2734768916, 15); (59, 1309151649, 21);
   (60, 4149444226, 6); (61, 3174756917, 10); (62, 718787259, 15); (63, 3951481745, 21)].

Definition md5_step (X : list N) (st : N * N * N * N) (e : N * N * N) : N * N * N * N :=
  let '(a, b, c, d) := st in
  let '(i, t, s) := e in
  let '(f, g) :=
    if i <? 16 then (N.lor (N.land b c) (N.land (notw 32 b) d), i)                 (* F(X,Y,Z) = XY v not(X) Z *)
    else if i <? 32 then (N.lor (N.land b d) (N.land c (notw 32 d)), (5 * i + 1) mod 16)   (* G = XZ v Y not(Z) *)
    else if i <? 48 then (N.lxor b (N.lxor c d), (3 * i + 5) mod 16)                (* H = X xor Y xor Z *)
    else (N.lxor c (N.lor b (notw 32 d)), (7 * i) mod 16) in                         (* I = Y xor (X v not(Z)) *)
  (d, (b + rotl 32 s ((a + f + w_at X g + t) mod M32)) mod M32, b, c).

Definition md5_block (st : N * N * N * N) (X : list N) : N * N * N * N :=
  let '(a, b, c, d) := st in
  let '(a', b', c', d') := fold_left (md5_step X) md5_table st in
  ((a + a') mod M32, (b + b') mod M32, (c + c') mod M32, (d + d') mod M32).

Definition md5_iv : N * N * N * N := (1732584193, 4023233417, 2562383102, 271733878).
Definition md5_digest (m : list N) : list N :=
  let '(a, b, c, d) := fold_left md5_block (blocks (words32_le (pad_md5 m))) md5_iv in
  le_bytes 4 a ++ le_bytes 4 b ++ le_bytes 4 c ++ le_bytes 4 d.

(* ------------------------------------------------------------------ SHA-1, FIPS 180-4 section 6.1 *)
(* message schedule kept newest-first: W_t = ROTL1(W_{t-3} xor W_{t-8} xor W_{t-14} xor W_{t-16}) *)
Fixpoint sha1_extend (n : nat) (rw : list N) : list N :=
  match n with
  | O => rw
  | S k => sha1_extend k (rotl 32 1 (N.lxor (N.lxor (w_at rw 2) (w_at rw 7)) (N.lxor (w_at rw 13) (w_at rw 15))) :: rw)
  end.
Definition sha1_schedule (X : list N) : list N := rev (sha1_extend 64 (rev X)).

Definition sha1_round (st : N * N * N * N * N * N) (w : N) : N * N * N * N * N * N :=
  let '(t, a, b, c, d, e) := st in
  let '(f, k) :=
    if t <? 20 then (N.lxor (N.land b c) (N.land (notw 32 b) d), 1518500249)        (* Ch, 5a827999 *)
    else if t <? 40 then (N.lxor b (N.lxor c d), 1859775393)                        (* Parity, 6ed9eba1 *)
    else if t <? 60 then (N.lxor (N.land b c) (N.lxor (N.land b d) (N.land c d)), 2400959708)  (* Maj, 8f1bbcdc *)
    else (N.lxor b (N.lxor c d), 3395469782) in                                     (* Parity, ca62c1d6 *)
  (t + 1, (rotl 32 5 a + f + e + k + w) mod M32, a, rotl 32 30 b, c, d).

Definition sha1_block (h : N * N * N * N * N) (X : list N) : N * N * N * N * N :=
  let '(h0, h1, h2, h3, h4) := h in
  let '(_, a, b, c, d, e) := fold_left sha1_round (sha1_schedule X) (0, h0, h1, h2, h3, h4) in
  ((h0 + a) mod M32, (h1 + b) mod M32, (h2 + c) mod M32, (h3 + d) mod M32, (h4 + e) mod M32).

Definition sha1_iv : N * N * N * N * N := (1732584193, 4023233417, 2562383102, 271733878, 3285377520).
Definition sha1_digest (m : list N) : list N :=
  let '(a, b, c, d, e) := fold_left sha1_block (blocks (words32_be (pad_sha m))) sha1_iv in
  be_bytes 4 a ++ be_bytes 4 b ++ be_bytes 4 c ++ be_bytes 4 d ++ be_bytes 4 e.

(* ------------------------------------------------------------------ SHA-2 family, FIPS 180-4 sections 6.2 / 6.4
   parameters: word size w, rotation amounts of sigma0/sigma1 (schedule) and Sigma0/Sigma1 (rounds) *)
Record sha2p := { sw : N; s0a : N; s0b : N; s0c : N; s1a : N; s1b : N; s1c : N;
                  S0a : N; S0b : N; S0c : N; S1a : N; S1b : N; S1c : N; rounds : nat }.
Definition p256 : sha2p := {| sw := 32; s0a := 7; s0b := 18; s0c := 3; s1a := 17; s1b := 19; s1c := 10;
                              S0a := 2; S0b := 13; S0c := 22; S1a := 6; S1b := 11; S1c := 25; rounds := 64 |}.
Definition p512 : sha2p := {| sw := 64; s0a := 1; s0b := 8; s0c := 7; s1a := 19; s1b := 61; s1c := 6;
                              S0a := 28; S0b := 34; S0c := 39; S1a := 14; S1b := 18; S1c := 41; rounds := 80 |}.

Definition wmod (p : sha2p) (x : N) : N := x mod 2 ^ sw p.
Definition ssig0 p x := N.lxor (rotr (sw p) (s0a p) x) (N.lxor (rotr (sw p) (s0b p) x) (N.shiftr x (s0c p))).
Definition ssig1 p x := N.lxor (rotr (sw p) (s1a p) x) (N.lxor (rotr (sw p) (s1b p) x) (N.shiftr x (s1c p))).
Definition bsig0 p x := N.lxor (rotr (sw p) (S0a p) x) (N.lxor (rotr (sw p) (S0b p) x) (rotr (sw p) (S0c p) x)).
Definition bsig1 p x := N.lxor (rotr (sw p) (S1a p) x) (N.lxor (rotr (sw p) (S1b p) x) (rotr (sw p) (S1c p) x)).

(* newest-first: W_t = ssig1(W_{t-2}) + W_{t-7} + ssig0(W_{t-15}) + W_{t-16} *)
Fixpoint sha2_extend (p : sha2p) (n : nat) (rw : list N) : list N :=
  match n with
  | O => rw
  | S k => sha2_extend p k (wmod p (ssig1 p (w_at rw 1) + w_at rw 6 + ssig0 p (w_at rw 14) + w_at rw 15) :: rw)
  end.
Definition sha2_schedule p (X : list N) : list N := rev (sha2_extend p (rounds p - 16) (rev X)).

Definition st8 : Type := N * N * N * N * N * N * N * N.
Definition sha2_round (p : sha2p) (st : st8) (kw : N * N) : st8 :=
  let '(a, b, c, d, e, f, g, h) := st in
  let '(k, w) := kw in
  let ch := N.lxor (N.land e f) (N.land (notw (sw p) e) g) in
  let maj := N.lxor (N.land a b) (N.lxor (N.land a c) (N.land b c)) in
  let t1 := h + bsig1 p e + ch + k + w in
  let t2 := bsig0 p a + maj in
  (wmod p (t1 + t2), a, b, c, wmod p (d + t1), e, f, g).

Definition sha2_block (p : sha2p) (K : list N) (hs : st8) (X : list N) : st8 :=
  let '(h0, h1, h2, h3, h4, h5, h6, h7) := hs in
  let '(a, b, c, d, e, f, g, h) := fold_left (sha2_round p) (combine K (sha2_schedule p X)) hs in
  (wmod p (h0 + a), wmod p (h1 + b), wmod p (h2 + c), wmod p (h3 + d),
   wmod p (h4 + e), wmod p (h5 + f), wmod p (h6 + g), wmod p (h7 + h)).

Definition K256 : list N :=
  [1116352408; 1899447441; 3049323471; 3921009573; 961987163; 1508970993;
   2453635748; 2870763221; 3624381080; 310598401; 607225278; 1426881987;
   1925078388; 2162078206; 2614888103; 3248222580; 3835390401; 4022224774;
   264347078; 604807628; 770255983; 1249150122; 1555081692; 1996064986;
   2554220882; 2821834349; 2952996808; 3210313671; 3336571891; 3584528711;
   113926993; 338241895; 666307205; 773529912; 1294757372; 1396182291;
   1695183700; 1986661051; 2177026350; 2456956037; 2730485921; 2820302411;
   3259730800; 3345764771; 3516065817; 3600352804; 4094571909; 275423344;
   430227734; 506948616; 659060556; 883997877; 958139571; 1322822218;
   1537002063; 1747873779; 1955562222; 2024104815; 2227730452; 2361852424;
   2428436474; 2756734187; 3204031479; 3329325298].
Definition sha256_iv : st8 :=
  (1779033703, 3144134277, 1013904242, 2773480762, 1359893119, 2600822924, 528734635, 1541459225).

Definition K512 : list N :=
  [4794697086780616226; 8158064640168781261; 13096744586834688815;
   16840607885511220156; 4131703408338449720; 6480981068601479193;
   10538285296894168987; 12329834152419229976; 15566598209576043074;
   1334009975649890238; 2608012711638119052; 6128411473006802146;
   8268148722764581231; 9286055187155687089; 11230858885718282805;
   13951009754708518548; 16472876342353939154; 17275323862435702243;
   1135362057144423861; 2597628984639134821; 3308224258029322869;
   5365058923640841347; 6679025012923562964; 8573033837759648693;
   10970295158949994411; 12119686244451234320; 12683024718118986047;
   13788192230050041572; 14330467153632333762; 15395433587784984357;
   489312712824947311; 1452737877330783856; 2861767655752347644;
   3322285676063803686; 5560940570517711597; 5996557281743188959;
   7280758554555802590; 8532644243296465576; 9350256976987008742;
   10552545826968843579; 11727347734174303076; 12113106623233404929;
   14000437183269869457; 14369950271660146224; 15101387698204529176;
   15463397548674623760; 17586052441742319658; 1182934255886127544;
   1847814050463011016; 2177327727835720531; 2830643537854262169;
   3796741975233480872; 4115178125766777443; 5681478168544905931;
   6601373596472566643; 7507060721942968483; 8399075790359081724;
   8693463985226723168; 9568029438360202098; 10144078919501101548;
   10430055236837252648; 11840083180663258601; 13761210420658862357;
   14299343276471374635; 14566680578165727644; 15097957966210449927;
   16922976911328602910; 17689382322260857208; 500013540394364858;
   748580250866718886; 1242879168328830382; 1977374033974150939;
   2944078676154940804; 3659926193048069267; 4368137639120453308;
   4836135668995329356; 5532061633213252278; 6448918945643986474;
   6902733635092675308; 7801388544844847127].
Definition sha512_iv : st8 :=
  (7640891576956012808, 13503953896175478587, 4354685564936845355, 11912009170470909681,
   5840696475078001361, 11170449401992604703, 2270897969802886507, 6620516959819538809).

Definition sha256_digest (m : list N) : list N :=
  let '(a, b, c, d, e, f, g, h) := fold_left (sha2_block p256 K256) (blocks (words32_be (pad_sha m))) sha256_iv in
  be_bytes 4 a ++ be_bytes 4 b ++ be_bytes 4 c ++ be_bytes 4 d ++ be_bytes 4 e ++ be_bytes 4 f ++ be_bytes 4 g ++ be_bytes 4 h.
Definition sha512_digest (m : list N) : list N :=
  let '(a, b, c, d, e, f, g, h) := fold_left (sha2_block p512 K512) (blocks (words64_be (pad_sha512 m))) sha512_iv in
  be_bytes 8 a ++ be_bytes 8 b ++ be_bytes 8 c ++ be_bytes 8 d ++ be_bytes 8 e ++ be_bytes 8 f ++ be_bytes 8 g ++ be_bytes 8 h.

(* ------------------------------------------------------------------ the DSL functions: lower-case hex of the digest of the value's bytes *)
Definition codes (s : bytes) : list N := map code s.
Definition hexstr (d : list N) : bytes := hex_encode (map ascii_of_N d).
Definition md5 (s : bytes) : bytes := hexstr (md5_digest (codes s)).
Definition sha1 (s : bytes) : bytes := hexstr (sha1_digest (codes s)).
Definition sha256 (s : bytes) : bytes := hexstr (sha256_digest (codes s)).
Definition sha512 (s : bytes) : bytes := hexstr (sha512_digest (codes s)).
