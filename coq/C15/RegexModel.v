(* C15 regex model.
   (1) a backtracking matcher (continuation passing, leftmost-first = Perl / Go regexp non-POSIX mode) for the shared
       subset: literals, '.', classes, escapes \d \w \s and escaped punctuation, ? * +, alternation, capturing and
       non-capturing groups, ^ and $ (no multi-line flag), the (?i) flag; characters are runes as Go decodes UTF-8
       (an invalid byte is one character U+FFFD of width 1), the text a rune carries its own source bytes so that
       everything copied from the input is copied byte-exact;
   (2) Go's FindAllStringSubmatchIndex loop (empty matches, no empty match right after a match);
   (3) Miller's layer, pkg/lib/regex.go: CompileMillerRegex ("..." / "..."i / /.../ /.../i stripping),
       regexCompiledSubOrGsub, InterpolateCaptures (\0..\9), RegexCompiledMatchWithCaptures (=~),
       RegexCompiledMatchWithMapResults (strmatchx), regextract / regextract_or_else, pkg/bifs/regex.go;
   (4) pkg/lib/unbackslash.go UnbackslashStringLiteral (without \u / \U) and the DSL's capture registers
       (pkg/runtime/state.go regexCapturesByFrame, cst/leaves.go RegexCaptureReplacementNode): a small statement
       language whose runs are compared with one mlr process.
   Definitions only. *)
From Miller Require Import Base.Bytes C15.Model.
Open Scope N_scope.

(* ------------------------------------------------------------------ text = list of (rune, source bytes) *)
Definition ch := (N * bytes)%type.

(* utf8.DecodeRuneInString: rune and width of the first character *)
Definition step (s : bytes) : option (N * nat) :=
  match s with
  | [] => None
  | b0 :: t =>
      let x := bn b0 in
      if x <? 128 then Some (x, 1%nat)
      else if inr 194 223 b0 then
        match t with
        | b1 :: _ => if cont b1 then Some ((x - 192) * 64 + (bn b1 - 128), 2%nat) else Some (RUNE_ERROR, 1%nat)
        | [] => Some (RUNE_ERROR, 1%nat)
        end
      else if inr 224 239 b0 then
        match t with
        | b1 :: b2 :: _ =>
            let ok1 := if x =? 224 then inr 160 191 b1 else if x =? 237 then inr 128 159 b1 else cont b1 in
            if ok1 && cont b2 then Some ((x - 224) * 4096 + (bn b1 - 128) * 64 + (bn b2 - 128), 3%nat)
            else Some (RUNE_ERROR, 1%nat)
        | _ => Some (RUNE_ERROR, 1%nat)
        end
      else if inr 240 244 b0 then
        match t with
        | b1 :: b2 :: b3 :: _ =>
            let ok1 := if x =? 240 then inr 144 191 b1 else if x =? 244 then inr 128 143 b1 else cont b1 in
            if ok1 && cont b2 && cont b3
            then Some ((x - 240) * 262144 + (bn b1 - 128) * 4096 + (bn b2 - 128) * 64 + (bn b3 - 128), 4%nat)
            else Some (RUNE_ERROR, 1%nat)
        | _ => Some (RUNE_ERROR, 1%nat)
        end
      else Some (RUNE_ERROR, 1%nat)
  end.

Fixpoint chunks_fuel (n : nat) (s : bytes) : list ch :=
  match n with
  | O => []
  | S n' =>
      match step s with
      | None => []
      | Some (r, w) => (r, firstn w s) :: chunks_fuel n' (skipn w s)
      end
  end.
Definition chunks (s : bytes) : list ch := chunks_fuel (List.length s) s.
Definition flat (t : list ch) : bytes := List.concat (map snd t).

(* ------------------------------------------------------------------ regex syntax *)
Inductive atom :=
| AChr (r : N)                                 (* a literal character *)
| AAny                                         (* .  : any character but \n *)
| ACls (neg : bool) (rs : list (N * N)).       (* [...] / [^...] / \d \w \s as ranges *)

Inductive re :=
| Eps
| At (a : atom)
| Cat (r1 r2 : re)
| Alt (r1 r2 : re)
| Star (r : re)
| Plus (r : re)
| Opt (r : re)
| Grp (n : N) (r : re)        (* capturing group number n *)
| Bol                         (* ^ *)
| Eol.                        (* $ *)

(* simple case folding on the orbits that contain an ASCII letter: k K U+212A, s S U+017F *)
Definition orbit (r : N) : list N :=
  if (65 <=? r) && (r <=? 90) then
    r :: (r + 32) :: (if r =? 75 then [8490] else if r =? 83 then [383] else [])
  else if (97 <=? r) && (r <=? 122) then
    r :: (r - 32) :: (if r =? 107 then [8490] else if r =? 115 then [383] else [])
  else if r =? 8490 then [r; 75; 107]
  else if r =? 383 then [r; 83; 115]
  else [r].

Definition in_ranges (rs : list (N * N)) (r : N) : bool :=
  existsb (fun p => (fst p <=? r) && (r <=? snd p)) rs.

Definition test (ci : bool) (a : atom) (r : N) : bool :=
  match a with
  | AChr c => if ci then existsb (N.eqb c) (orbit r) else c =? r
  | AAny => negb (r =? 10)
  | ACls neg rs => xorb neg (if ci then existsb (in_ranges rs) (orbit r) else in_ranges rs r)
  end.

(* ------------------------------------------------------------------ the matcher *)
Definition caps := list (N * (nat * nat)).       (* most recent binding first *)
Definition R := (nat * caps)%type.               (* end position, captures *)
Definition K := nat -> list ch -> caps -> option R.

(* greedy iteration.  An iteration that consumed nothing ends the loop (Go/RE2: the loop head is not re-entered at the
   same position), so at most (length s) iterations consume and n = length s is never exhausted. *)
Fixpoint loop (mb : nat -> list ch -> caps -> K -> option R) (n : nat) (i : nat) (s : list ch) (c : caps) (k : K) : option R :=
  match n with
  | O => k i s c
  | S n' =>
      match mb i s c (fun i' s' c' => if (List.length s' <? List.length s)%nat then loop mb n' i' s' c' k else k i' s' c') with
      | Some x => Some x
      | None => k i s c
      end
  end.

Fixpoint m (ci : bool) (r : re) (i : nat) (s : list ch) (c : caps) (k : K) {struct r} : option R :=
  match r with
  | Eps => k i s c
  | At a => match s with
            | x :: s' => if test ci a (fst x) then k (S i) s' c else None
            | [] => None
            end
  | Cat r1 r2 => m ci r1 i s c (fun i' s' c' => m ci r2 i' s' c' k)
  | Alt r1 r2 => match m ci r1 i s c k with Some x => Some x | None => m ci r2 i s c k end
  | Star r1 => loop (m ci r1) (List.length s) i s c k
  | Plus r1 => m ci r1 i s c (fun i' s' c' => loop (m ci r1) (List.length s') i' s' c' k)
  | Opt r1 => match m ci r1 i s c k with Some x => Some x | None => k i s c end
  | Grp n r1 => m ci r1 i s c (fun i' s' c' => k i' s' ((n, (i, i')) :: c'))
  | Bol => match i with O => k i s c | _ => None end
  | Eol => match s with [] => k i s c | _ => None end
  end.

Definition kend : K := fun j _ c => Some (j, c).

(* unanchored search from position i (s = the text from i on): leftmost start, then first in backtracking order *)
Fixpoint search (ci : bool) (r : re) (i : nat) (s : list ch) : option (nat * nat * caps) :=
  match m ci r i s [] kend with
  | Some (j, c) => Some (i, j, c)
  | None => match s with
            | [] => None
            | _ :: s' => search ci r (S i) s'
            end
  end.

(* regexp.FindAllStringSubmatchIndex(input, -1): pos advances past each match; an empty match is skipped when it
   sits right after the previous match; after an empty match pos advances by one character *)
Fixpoint findall (n : nat) (ci : bool) (r : re) (pos : nat) (s : list ch) (prev : option nat) : list (nat * nat * caps) :=
  match n with
  | O => []
  | S n' =>
      match search ci r pos s with
      | None => []
      | Some (a, b, c) =>
          if (b =? pos)%nat then
            let acc := match prev with Some p => if (a =? p)%nat then [] else [(a, b, c)] | None => [(a, b, c)] end in
            match s with
            | [] => acc
            | _ :: s' => acc ++ findall n' ci r (S pos) s' (Some b)
            end
          else (a, b, c) :: findall n' ci r b (skipn (b - pos) s) (Some b)
      end
  end.
Definition find_all (ci : bool) (r : re) (t : list ch) : list (nat * nat * caps) :=
  findall (S (List.length t)) ci r 0 t None.

(* ------------------------------------------------------------------ Miller's layer *)
Fixpoint lookup (n : N) (c : caps) : option (nat * nat) :=
  match c with
  | [] => None
  | (k, v) :: c' => if k =? n then Some v else lookup n c'
  end.
Definition piece (t : list ch) (a b : nat) : bytes := flat (firstn (b - a) (skipn a t)).
Definition cap_text (t : list ch) (c : caps) (n : N) : bytes :=
  match lookup n c with Some (a, b) => piece t a b | None => [] end.
(* "\0" .. "\9" *)
Definition captures10 (t : list ch) (a b : nat) (c : caps) : list bytes :=
  piece t a b :: map (cap_text t c) [1; 2; 3; 4; 5; 6; 7; 8; 9].

Definition digit_of (x : ascii) : option nat :=
  let v := bn x in if (48 <=? v) && (v <=? 57) then Some (N.to_nat (v - 48)) else None.
Definition BSL : ascii := "\"%char.

(* InterpolateCaptures with the matrix of captureSplitter (\\[0-9], leftmost non-overlapping) *)
Fixpoint interp (rep : bytes) (cs : list bytes) : bytes :=
  match rep with
  | [] => []
  | x :: t =>
      match t with
      | d :: t' =>
          if Ascii.eqb x BSL then
            match digit_of d with
            | Some k => nth k cs [] ++ interp t' cs
            | None => x :: interp t cs
            end
          else x :: interp t cs
      | [] => [x]
      end
  end.

Fixpoint has_capture_ref (rep : bytes) : bool :=
  match rep with
  | x :: ((d :: _) as t) => (Ascii.eqb x BSL && match digit_of d with Some _ => true | None => false end) || has_capture_ref t
  | _ => false
  end.

(* regexCompiledSubOrGsub *)
Fixpoint splice (t : list ch) (rep : bytes) (from : nat) (ms : list (nat * nat * caps)) : bytes :=
  match ms with
  | [] => flat (skipn from t)
  | (a, b, c) :: ms' => piece t from a ++ interp rep (captures10 t a b c) ++ splice t rep b ms'
  end.
Definition sub_t (ci : bool) (r : re) (t : list ch) (rep : bytes) : bytes :=
  match find_all ci r t with
  | [] => flat t
  | x :: _ => splice t rep 0 [x]
  end.
Definition gsub_t (ci : bool) (r : re) (t : list ch) (rep : bytes) : bytes :=
  match find_all ci r t with
  | [] => flat t
  | ms => splice t rep 0 ms
  end.
Definition sub (ci : bool) (r : re) (s rep : bytes) : bytes := sub_t ci r (chunks s) rep.
Definition gsub (ci : bool) (r : re) (s rep : bytes) : bytes := gsub_t ci r (chunks s) rep.

(* regextract: None = absent; regextract_or_else *)
Definition regextract (ci : bool) (r : re) (s : bytes) : option bytes :=
  let t := chunks s in
  match search ci r 0 t with Some (a, b, _) => Some (piece t a b) | None => None end.
Definition regextract_or_else (ci : bool) (r : re) (s d : bytes) : bytes :=
  match regextract ci r s with Some x => x | None => d end.

(* =~ : result and the ten registers (all empty when there is no match) *)
Definition match_captures (ci : bool) (r : re) (s : bytes) : bool * list bytes :=
  let t := chunks s in
  match search ci r 0 t with
  | Some (a, b, c) => (true, captures10 t a b c)
  | None => (false, repeat [] 10)
  end.

(* strmatchx: matched, and per group 0..ngroups (text, 1-up byte start, byte end) or ("", -1, -1) when unset *)
Definition byte_off (t : list ch) (a : nat) : Z := Z.of_nat (List.length (flat (firstn a t))).
Definition mx_entry (t : list ch) (o : option (nat * nat)) : bytes * Z * Z :=
  match o with
  | Some (a, b) => (piece t a b, (byte_off t a + 1)%Z, byte_off t b)
  | None => ([], (-1)%Z, (-1)%Z)
  end.
Definition strmatchx (ci : bool) (r : re) (ngroups : nat) (s : bytes) : option (list (bytes * Z * Z)) :=
  let t := chunks s in
  match search ci r 0 t with
  | Some (a, b, c) => Some (mx_entry t (Some (a, b)) :: map (fun n => mx_entry t (lookup (N.of_nat n) c)) (seq 1 ngroups))
  | None => None
  end.

(* ------------------------------------------------------------------ CompileMillerRegex: (case-insensitive?, pattern text) *)
Definition DQ : ascii := """"%char.
Definition SL : ascii := "/"%char.
Definition last_is (x : ascii) (s : bytes) : bool := match rev s with y :: _ => Ascii.eqb x y | [] => false end.
Definition first_is (x : ascii) (s : bytes) : bool := match s with y :: _ => Ascii.eqb x y | [] => false end.
Definition ends_with2 (x y : ascii) (s : bytes) : bool :=
  match rev s with b :: a :: _ => Ascii.eqb x a && Ascii.eqb y b | _ => false end.
Definition mid (s : bytes) (cut : nat) : bytes := firstn (List.length s - 1 - cut) (skipn 1 s).
Definition compile_miller (s : bytes) : bool * bytes :=
  if (List.length s <? 2)%nat then (false, s)
  else if first_is DQ s && last_is DQ s then (false, mid s 1)
  else if first_is SL s && last_is SL s then (false, mid s 1)
  else if first_is DQ s && ends_with2 DQ "i" s then (true, mid s 2)
  else if first_is SL s && ends_with2 SL "i" s then (true, mid s 2)
  else (false, s).

(* ------------------------------------------------------------------ printing a regex of the subset as pattern text *)
Definition is_meta (r : N) : bool := existsb (N.eqb r) [92; 46; 43; 42; 63; 40; 41; 124; 91; 93; 123; 125; 94; 36].
Definition show_rune (r : N) : bytes := if is_meta r then BSL :: encode_rune r else encode_rune r.
Definition show_in_class (r : N) : bytes :=
  if existsb (N.eqb r) [92; 93; 94; 45; 91] then BSL :: encode_rune r else encode_rune r.
Definition show_range (p : N * N) : bytes :=
  if fst p =? snd p then show_in_class (fst p) else show_in_class (fst p) ++ B "-" ++ show_in_class (snd p).
Definition show_atom (a : atom) : bytes :=
  match a with
  | AChr r => show_rune r
  | AAny => B "."
  | ACls neg rs => B "[" ++ (if neg then B "^" else []) ++ List.concat (map show_range rs) ++ B "]"
  end.
(* every compound operand is wrapped in a non-capturing group, so the printed text parses back to this tree *)
Definition nc (x : bytes) : bytes := B "(?:" ++ x ++ B ")".
Fixpoint show (r : re) : bytes :=
  match r with
  | Eps => B "(?:)"
  | At a => show_atom a
  | Cat r1 r2 => nc (show r1) ++ nc (show r2)
  | Alt r1 r2 => nc (show r1) ++ B "|" ++ nc (show r2)
  | Star r1 => nc (show r1) ++ B "*"
  | Plus r1 => nc (show r1) ++ B "+"
  | Opt r1 => nc (show r1) ++ B "?"
  | Grp _ r1 => B "(" ++ show r1 ++ B ")"
  | Bol => B "^"
  | Eol => B "$"
  end.

(* ------------------------------------------------------------------ UnbackslashStringLiteral (no \u, \U) *)
Definition unb_simple (x : ascii) : option ascii :=
  let v := bn x in
  if v =? 97 then Some (ascii_of_N 7) else if v =? 98 then Some (ascii_of_N 8) else if v =? 102 then Some (ascii_of_N 12)
  else if v =? 110 then Some (ascii_of_N 10) else if v =? 114 then Some (ascii_of_N 13) else if v =? 116 then Some (ascii_of_N 9)
  else if v =? 118 then Some (ascii_of_N 11) else if v =? 92 then Some x else if v =? 39 then Some x
  else if v =? 34 then Some x else if v =? 63 then Some x else None.
Definition oct_of (x : ascii) : option N := let v := bn x in if (48 <=? v) && (v <=? 55) then Some (v - 48) else None.
Definition hex_of (x : ascii) : option N :=
  let v := bn x in
  if (48 <=? v) && (v <=? 57) then Some (v - 48)
  else if (97 <=? v) && (v <=? 102) then Some (v - 87)
  else if (65 <=? v) && (v <=? 70) then Some (v - 55) else None.

Fixpoint unbackslash_fuel (n : nat) (s : bytes) : bytes :=
  match n with
  | O => []
  | S n' =>
      match s with
      | [] => []
      | x :: t =>
          if negb (Ascii.eqb x BSL) then x :: unbackslash_fuel n' t
          else match t with
               | [] => [x]
               | y :: t1 =>
                   match unb_simple y with
                   | Some z => z :: unbackslash_fuel n' t1
                   | None =>
                       match t1 with
                       | y2 :: y3 :: t3 =>
                           match oct_of y, oct_of y2, oct_of y3 with
                           | Some a, Some b, Some c => ascii_of_N ((64 * a + 8 * b + c) mod 256) :: unbackslash_fuel n' t3
                           | _, _, _ =>
                               if (bn y =? 120) || (bn y =? 88) then
                                 match hex_of y2, hex_of y3 with
                                 | Some a, Some b => ascii_of_N (16 * a + b) :: unbackslash_fuel n' t3
                                 | _, _ => x :: y :: unbackslash_fuel n' t1
                                 end
                               else x :: y :: unbackslash_fuel n' t1
                           end
                       | _ => x :: y :: unbackslash_fuel n' t1
                       end
                   end
               end
      end
  end.
Definition unbackslash (s : bytes) : bytes := unbackslash_fuel (S (List.length s)) s.

(* ------------------------------------------------------------------ the DSL's capture registers
   state: None = never set in this frame (string literals are left alone); Some regs = the ten registers *)
Definition regs := option (list bytes).

(* a string literal with the body text lit (between the quotes) evaluates to: *)
Definition eval_lit (lit : bytes) (st : regs) : bytes :=
  let u := unbackslash lit in
  match st with
  | Some cs => if has_capture_ref u then interp u cs else u
  | None => u
  end.

Inductive stmt :=
| SPrint (lit : bytes)                                            (* print "lit" *)
| SMatch (neg : bool) (subj : bytes) (ci : bool) (r : re)           (* print "subj" =~ "r"  /  !=~ *)
| SSub (glob : bool) (subj : bytes) (ci : bool) (r : re) (rep : bytes)   (* print sub("subj", "r", "rep") / gsub *)
| SReset                                                          (* "x" =~ @absent : no output *)
| SFrame (body : list stmt).                                      (* call of a user-defined function/subroutine *)

Definition TRUE_ : bytes := B "true".
Definition FALSE_ : bytes := B "false".

Fixpoint run_stmt (n : nat) (x : stmt) (st : regs) : list bytes * regs :=
  match x with
  | SPrint lit => ([eval_lit lit st], st)
  | SMatch neg subj ci r =>
      let '(ok, cs) := match_captures ci r (eval_lit subj st) in
      ([if xorb neg ok then TRUE_ else FALSE_], Some cs)
  | SSub glob subj ci r rep =>
      (* the replacement literal is NOT interpolated from the registers (repaired: before the fix an earlier =~
         filled its \1..\9 before sub saw them); its \digits belong to this call *)
      let rp := unbackslash rep in
      ([(if glob then gsub else sub) ci r (eval_lit subj st) rp], st)
  | SReset => ([], None)
  | SFrame body =>
      match n with
      | O => ([], st)
      | S n' =>
          (fst (fold_left (fun acc y => let '(out, s1) := run_stmt n' y (snd acc) in (fst acc ++ out, s1)) body ([], None)), st)
      end
  end.
Definition run_block (n : nat) (body : list stmt) (st : regs) : list bytes * regs :=
  fold_left (fun acc y => let '(out, s1) := run_stmt n y (snd acc) in (fst acc ++ out, s1)) body ([], st).
