(* C15 lemmas: digests.  Provable structure only (padding, lengths, output format) plus the standards' test vectors
   as labelled tests; no cryptographic property is claimed. *)
From Miller Require Import Base.Bytes C15.Model C15.Proofs C15.ModelHash.
From Coq Require Import ZifyBool ZifyN ZifyNat.
Open Scope N_scope.
Ltac Zify.zify_post_hook ::= Z.div_mod_to_equations.

(* ---- byte representations *)
Lemma le_bytes_length n v : List.length (le_bytes n v) = n.
Proof. revert v. induction n as [|n IH]; intros v; cbn [le_bytes List.length]; [reflexivity|now rewrite IH]. Qed.
Lemma be_bytes_length n v : List.length (be_bytes n v) = n.
Proof. unfold be_bytes. now rewrite rev_length, le_bytes_length. Qed.
Lemma le_bytes_lt n v : Forall (fun b => b < 256) (le_bytes n v).
Proof. revert v. induction n as [|n IH]; intros v; cbn [le_bytes]; constructor; [lia|apply IH]. Qed.

(* ---- padding: total length is a whole number of blocks *)
Lemma pad_with_length blk L m :
  N.of_nat (List.length (pad_with blk L m)) =
  N.of_nat (List.length m) + 1 + pad_zeros blk (N.of_nat (List.length L)) (N.of_nat (List.length m)) + N.of_nat (List.length L).
Proof. unfold pad_with. rewrite app_length. cbn [List.length]. rewrite app_length, repeat_length. lia. Qed.

Lemma pad_md5_blocks m : N.of_nat (List.length (pad_md5 m)) mod 64 = 0.
Proof. unfold pad_md5. rewrite pad_with_length, le_bytes_length. unfold pad_zeros. lia. Qed.
Lemma pad_sha_blocks m : N.of_nat (List.length (pad_sha m)) mod 64 = 0.
Proof. unfold pad_sha. rewrite pad_with_length, be_bytes_length. unfold pad_zeros. lia. Qed.
Lemma pad_sha512_blocks m : N.of_nat (List.length (pad_sha512 m)) mod 128 = 0.
Proof. unfold pad_sha512. rewrite pad_with_length, be_bytes_length. unfold pad_zeros. lia. Qed.

(* the padding is minimal: fewer than one block of zero bytes, and at least 9 (17) bytes are added *)
Lemma pad_sha_minimal m :
  N.of_nat (List.length m) + 9 <= N.of_nat (List.length (pad_sha m)) < N.of_nat (List.length m) + 9 + 64.
Proof. unfold pad_sha. rewrite pad_with_length, be_bytes_length. unfold pad_zeros. lia. Qed.
Lemma pad_md5_minimal m :
  N.of_nat (List.length m) + 9 <= N.of_nat (List.length (pad_md5 m)) < N.of_nat (List.length m) + 9 + 64.
Proof. unfold pad_md5. rewrite pad_with_length, le_bytes_length. unfold pad_zeros. lia. Qed.
Lemma pad_sha512_minimal m :
  N.of_nat (List.length m) + 17 <= N.of_nat (List.length (pad_sha512 m)) < N.of_nat (List.length m) + 17 + 128.
Proof. unfold pad_sha512. rewrite pad_with_length, be_bytes_length. unfold pad_zeros. lia. Qed.

(* ---- padding is injective: the message is recoverable from the padded message, whatever the length field says *)
Lemma rev_repeat {A} (a : A) k : rev (repeat a k) = repeat a k.
Proof.
  induction k as [|k IH]; [reflexivity|]. cbn [repeat rev]. rewrite IH. symmetry. apply repeat_cons.
Qed.
Lemma drop_zeros_repeat k t : drop_zeros (repeat 0 k ++ 128 :: t) = 128 :: t.
Proof. induction k as [|k IH]; [reflexivity|]. cbn [repeat app drop_zeros]. exact IH. Qed.

Lemma unpad_pad_with blk L m : unpad (List.length L) (pad_with blk L m) = m.
Proof.
  unfold unpad, pad_with. rewrite rev_app_distr. cbn [rev]. rewrite rev_app_distr, rev_repeat.
  rewrite <- !app_assoc. cbn [app].
  rewrite skipn_app, rev_length, Nat.sub_diag, skipn_all2 by (rewrite rev_length; lia). cbn [skipn app].
  rewrite drop_zeros_repeat. cbn [tl]. apply rev_involutive.
Qed.

Lemma unpad_md5 m : unpad 8 (pad_md5 m) = m.
Proof. unfold pad_md5. rewrite <- (le_bytes_length 8 (bitlen m)) at 1. apply unpad_pad_with. Qed.
Lemma unpad_sha m : unpad 8 (pad_sha m) = m.
Proof. unfold pad_sha. rewrite <- (be_bytes_length 8 (bitlen m)) at 1. apply unpad_pad_with. Qed.
Lemma unpad_sha512 m : unpad 16 (pad_sha512 m) = m.
Proof. unfold pad_sha512. rewrite <- (be_bytes_length 16 (bitlen m)) at 1. apply unpad_pad_with. Qed.

Lemma pad_md5_injective m m' : pad_md5 m = pad_md5 m' -> m = m'.
Proof. intros H. rewrite <- (unpad_md5 m), <- (unpad_md5 m'). now rewrite H. Qed.
Lemma pad_sha_injective m m' : pad_sha m = pad_sha m' -> m = m'.
Proof. intros H. rewrite <- (unpad_sha m), <- (unpad_sha m'). now rewrite H. Qed.
Lemma pad_sha512_injective m m' : pad_sha512 m = pad_sha512 m' -> m = m'.
Proof. intros H. rewrite <- (unpad_sha512 m), <- (unpad_sha512 m'). now rewrite H. Qed.

(* the byte view of a value is injective too (codes) *)
Lemma codes_injective s s' : codes s = codes s' -> s = s'.
Proof.
  unfold codes. revert s'. induction s as [|c t IH]; intros [|c' t'] H; try discriminate; [reflexivity|].
  cbn [map] in H. inversion H as [[H1 H2]]. f_equal; [|now apply IH].
  unfold code in H1. rewrite <- (ascii_N_embedding c), <- (ascii_N_embedding c'). now rewrite H1.
Qed.

(* ---- digest sizes and output format *)
Lemma md5_digest_length m : List.length (md5_digest m) = 16%nat.
Proof.
  unfold md5_digest. destruct (fold_left md5_block _ md5_iv) as [[[a b] c] d]. now rewrite !app_length, !le_bytes_length.
Qed.
Lemma sha1_digest_length m : List.length (sha1_digest m) = 20%nat.
Proof.
  unfold sha1_digest. destruct (fold_left sha1_block _ sha1_iv) as [[[[a b] c] d] e]. now rewrite !app_length, !be_bytes_length.
Qed.
Lemma sha256_digest_length m : List.length (sha256_digest m) = 32%nat.
Proof.
  unfold sha256_digest. destruct (fold_left (sha2_block p256 K256) _ sha256_iv) as [[[[[[[a b] c] d] e] f] g] h].
  now rewrite !app_length, !be_bytes_length.
Qed.
Lemma sha512_digest_length m : List.length (sha512_digest m) = 64%nat.
Proof.
  unfold sha512_digest. destruct (fold_left (sha2_block p512 K512) _ sha512_iv) as [[[[[[[a b] c] d] e] f] g] h].
  now rewrite !app_length, !be_bytes_length.
Qed.

Definition is_lower_hex (c : ascii) : bool := in_range "0" "9" c || in_range "a" "f" c.
Lemma hexdig_lower n : n < 16 -> is_lower_hex (hexdig n) = true.
Proof.
  intros H.
  assert (C : (n = 0 \/ n = 1 \/ n = 2 \/ n = 3 \/ n = 4 \/ n = 5 \/ n = 6 \/ n = 7 \/ n = 8 \/ n = 9 \/ n = 10 \/ n = 11 \/
               n = 12 \/ n = 13 \/ n = 14 \/ n = 15)%N) by lia.
  repeat (destruct C as [->|C]; [reflexivity|]). subst. reflexivity.
Qed.
Lemma hex_encode_lower s : forallb is_lower_hex (hex_encode s) = true.
Proof.
  induction s as [|c t IH]; [reflexivity|]. pose proof (code_lt c) as Hc. cbn [hex_encode forallb].
  rewrite !hexdig_lower by lia. exact IH.
Qed.

Lemma hexstr_format d : List.length (hexstr d) = (2 * List.length d)%nat /\ forallb is_lower_hex (hexstr d) = true.
Proof. unfold hexstr. split; [now rewrite hex_encode_length, map_length|apply hex_encode_lower]. Qed.

Lemma digest_text_format s :
  (List.length (md5 s) = 32 /\ List.length (sha1 s) = 40 /\ List.length (sha256 s) = 64 /\ List.length (sha512 s) = 128)%nat
  /\ forallb is_lower_hex (md5 s) = true /\ forallb is_lower_hex (sha1 s) = true
  /\ forallb is_lower_hex (sha256 s) = true /\ forallb is_lower_hex (sha512 s) = true.
Proof.
  unfold md5, sha1, sha256, sha512. repeat split; try apply hexstr_format.
  - rewrite (proj1 (hexstr_format _)), md5_digest_length. reflexivity.
  - rewrite (proj1 (hexstr_format _)), sha1_digest_length. reflexivity.
  - rewrite (proj1 (hexstr_format _)), sha256_digest_length. reflexivity.
  - rewrite (proj1 (hexstr_format _)), sha512_digest_length. reflexivity.
Qed.

(* ---- TESTS (labelled): the test suites of RFC 1321 A.5 and the FIPS 180 / RFC 3174 / RFC 6234 example messages *)
Example md5_rfc1321_test_suite :
  md5 (B "") = B "d41d8cd98f00b204e9800998ecf8427e" /\
  md5 (B "a") = B "0cc175b9c0f1b6a831c399e269772661" /\
  md5 (B "abc") = B "900150983cd24fb0d6963f7d28e17f72" /\
  md5 (B "message digest") = B "f96b697d7cb7938d525a2f31aaf161d0" /\
  md5 (B "abcdefghijklmnopqrstuvwxyz") = B "c3fcd3d76192e4007dfb496cca67e13b" /\
  md5 (B "ABCDEFGHIJKLMNOPQRSTUVWXYZabcdefghijklmnopqrstuvwxyz0123456789") = B "d174ab98d277d9f5a5611c2c9f419d9f" /\
  md5 (B "12345678901234567890123456789012345678901234567890123456789012345678901234567890") = B "57edf4a22be3c955ac49da2e2107b67a".
Proof. vm_compute. repeat split; reflexivity. Qed.

Example sha1_fips180_vectors :
  sha1 (B "abc") = B "a9993e364706816aba3e25717850c26c9cd0d89d" /\
  sha1 (B "abcdbcdecdefdefgefghfghighijhijkijkljklmklmnlmnomnopnopq") = B "84983e441c3bd26ebaae4aa1f95129e5e54670f1" /\
  sha1 (B "") = B "da39a3ee5e6b4b0d3255bfef95601890afd80709".
Proof. vm_compute. repeat split; reflexivity. Qed.

Example sha256_fips180_vectors :
  sha256 (B "abc") = B "ba7816bf8f01cfea414140de5dae2223b00361a396177a9cb410ff61f20015ad" /\
  sha256 (B "abcdbcdecdefdefgefghfghighijhijkijkljklmklmnlmnomnopnopq") = B "248d6a61d20638b8e5c026930c3e6039a33ce45964ff2167f6ecedd419db06c1" /\
  sha256 (B "") = B "e3b0c44298fc1c149afbf4c8996fb92427ae41e4649b934ca495991b7852b855".
Proof. vm_compute. repeat split; reflexivity. Qed.

Example sha512_fips180_vectors :
  sha512 (B "abc") = B "ddaf35a193617abacc417349ae20413112e6fa4e89a97ea20a9eeee64b55d39a2192992a274fc1a836ba3c23a3feebbd454d4423643ce80e2a9ac94fa54ca49f" /\
  sha512 (B "abcdefghbcdefghicdefghijdefghijkefghijklfghijklmghijklmnhijklmnoijklmnopjklmnopqklmnopqrlmnopqrsmnopqrstnopqrstu") = B "8e959b75dae313da8cf4f72814fc143f8f7779c6eb9f7fa17299aeadb6889018501d289e4900f7e4331b99dec4b5433ac7d329eeb6dd26545e96e55b874be909" /\
  sha512 (B "") = B "cf83e1357eefb8bdf1542850d66d8007d620e4050b5715dc83f4a921d36ce9ce47d0d13c5d85f2b0ff8318d2877eec2f63b931bd47417a81a538327af927da3e".
Proof. vm_compute. repeat split; reflexivity. Qed.
