(* C15 lemmas: base64 and latin1/utf8 codecs *)
From Miller Require Import Base.Bytes C15.Model C15.ModelCodec C15.Proofs C15.Utf8Proofs.
From Coq Require Import ZifyBool ZifyN ZifyNat.
Open Scope char_scope.
Open Scope N_scope.
Ltac Zify.zify_post_hook ::= Z.div_mod_to_equations.

(* ---- small tools *)
Lemma list_ind3 {A} (P : list A -> Prop) :
  P [] -> (forall a, P [a]) -> (forall a b, P [a; b]) -> (forall a b c t, P t -> P (a :: b :: c :: t)) -> forall l, P l.
Proof.
  intros H0 H1 H2 H3.
  assert (K : forall l, P l /\ (forall a, P (a :: l)) /\ (forall a b, P (a :: b :: l))).
  { induction l as [|x l [IH0 [IH1 IH2]]].
    - repeat split; auto.
    - repeat split; auto. }
  intros l. apply K.
Qed.

Lemma list_ind4 {A} (P : list A -> Prop) :
  P [] -> (forall a, P [a]) -> (forall a b, P [a; b]) -> (forall a b c, P [a; b; c]) ->
  (forall a b c d t, P t -> P (a :: b :: c :: d :: t)) -> forall l, P l.
Proof.
  intros H0 H1 H2 H3 H4.
  assert (K : forall l, P l /\ (forall a, P (a :: l)) /\ (forall a b, P (a :: b :: l)) /\ (forall a b c, P (a :: b :: c :: l))).
  { induction l as [|x l [IH0 [IH1 [IH2 IH3]]]].
    - repeat split; auto.
    - repeat split; auto. }
  intros l. apply K.
Qed.

Definition below64 : list N := map N.of_nat (seq 0 64).
Lemma below64_all n : n < 64 -> In n below64.
Proof.
  intros H. unfold below64. rewrite <- (N2Nat.id n). apply in_map. apply in_seq. lia.
Qed.
Lemma forall_below64 (p : N -> bool) : forallb p below64 = true -> forall n, n < 64 -> p n = true.
Proof. intros H n Hn. rewrite forallb_forall in H. apply H. now apply below64_all. Qed.

Lemma ascii_code c : ascii_of_N (code c) = c.
Proof. unfold code. apply ascii_N_embedding. Qed.

Lemma byte_eq n c : n = code c -> ascii_of_N n = c.
Proof. intros ->. apply ascii_code. Qed.

(* ---- base64 alphabet *)
Lemma b64val_b64char n : n < 64 -> b64val (b64char n) = Some n.
Proof.
  intros H.
  assert (K0 : forallb (fun k => match b64val (b64char k) with Some m => m =? k | None => false end) below64 = true) by (vm_compute; reflexivity).
  pose proof (forall_below64 _ K0 n H) as K. cbv beta in K. destruct (b64val (b64char n)) as [m|]; [|discriminate]. f_equal. lia.
Qed.

Lemma b64char_not_crlf n : n < 64 -> is_crlf (b64char n) = false.
Proof.
  intros H. assert (K0 : forallb (fun k => negb (is_crlf (b64char k))) below64 = true) by (vm_compute; reflexivity).
  pose proof (forall_below64 _ K0 n H) as K. cbv beta in K. now destruct (is_crlf (b64char n)).
Qed.

Lemma b64char_not_pad n : n < 64 -> Ascii.eqb (b64char n) PAD = false.
Proof.
  intros H. assert (K0 : forallb (fun k => negb (Ascii.eqb (b64char k) PAD)) below64 = true) by (vm_compute; reflexivity).
  pose proof (forall_below64 _ K0 n H) as K. cbv beta in K. now destruct (Ascii.eqb (b64char n) PAD).
Qed.

Definition is_b64 (c : ascii) : bool := match b64val c with Some _ => true | None => false end.
Definition b64_out_char (c : ascii) : bool := is_b64 c || Ascii.eqb c PAD.

Lemma is_b64_b64char n : n < 64 -> is_b64 (b64char n) = true.
Proof. intros H. unfold is_b64. now rewrite b64val_b64char. Qed.

Lemma b64val_lt c n : b64val c = Some n -> n < 64.
Proof.
  unfold b64val, in_range, cle. pose proof (code_lt c) as Hc.
  change (code "A") with 65; change (code "Z") with 90; change (code "a") with 97; change (code "z") with 122;
  change (code "0") with 48; change (code "9") with 57.
  repeat match goal with |- context [if ?b then _ else _] => destruct b eqn:? end; intros E; inversion E; subst; lia.
Qed.

(* ---- sextet arithmetic *)
Lemma sext_bounds v : v < 16777216 ->
  v / 262144 < 64 /\ (v / 4096) mod 64 < 64 /\ (v / 64) mod 64 < 64 /\ v mod 64 < 64.
Proof. intros H. repeat split; lia. Qed.

Lemma q24_sextets v : v < 16777216 -> q24 (v / 262144) ((v / 4096) mod 64) ((v / 64) mod 64) (v mod 64) = v.
Proof. intros H. unfold q24. lia. Qed.

Lemma bytes_of_v x y z : x < 256 -> y < 256 -> z < 256 ->
  let v := x * 65536 + y * 256 + z in v / 65536 = x /\ (v / 256) mod 256 = y /\ v mod 256 = z /\ v < 16777216.
Proof. intros Hx Hy Hz v. subst v. repeat split; lia. Qed.

(* ---- encode: alphabet, length *)
Lemma b64_encode_alphabet s : forallb b64_out_char (b64_encode s) = true.
Proof.
  induction s as [|a|a b|a b c t IH] using list_ind3; [reflexivity| | |].
  - pose proof (code_lt a) as Ha. cbn [b64_encode forallb]. cbv zeta. unfold b64_out_char at 1 2.
    rewrite !is_b64_b64char by lia. reflexivity.
  - pose proof (code_lt a) as Ha. pose proof (code_lt b) as Hb. cbn [b64_encode forallb]. cbv zeta. unfold b64_out_char at 1 2 3.
    rewrite !is_b64_b64char by lia. reflexivity.
  - pose proof (code_lt a) as Ha. pose proof (code_lt b) as Hb. pose proof (code_lt c) as Hc.
    cbn [b64_encode forallb]. cbv zeta. unfold b64_out_char at 1 2 3 4.
    rewrite !is_b64_b64char by lia. cbn [orb andb]. exact IH.
Qed.

Lemma b64_encode_length s : N.of_nat (List.length (b64_encode s)) = 4 * ((N.of_nat (List.length s) + 2) / 3).
Proof.
  induction s as [|a|a b|a b c t IH] using list_ind3; [reflexivity|reflexivity|reflexivity|].
  cbn [b64_encode List.length]. cbv zeta. cbn [List.length]. lia.
Qed.

Lemma b64_encode_no_crlf s : strip_crlf (b64_encode s) = b64_encode s.
Proof.
  unfold strip_crlf.
  induction s as [|a|a b|a b c t IH] using list_ind3; [reflexivity| | |].
  - pose proof (code_lt a) as Ha. cbn [b64_encode filter]. cbv zeta. rewrite !b64char_not_crlf by lia. reflexivity.
  - pose proof (code_lt a) as Ha. pose proof (code_lt b) as Hb. cbn [b64_encode filter]. cbv zeta.
    rewrite !b64char_not_crlf by lia. reflexivity.
  - pose proof (code_lt a) as Ha. pose proof (code_lt b) as Hb. pose proof (code_lt c) as Hc.
    cbn [b64_encode filter]. cbv zeta. rewrite !b64char_not_crlf by lia. cbn [negb]. now rewrite IH.
Qed.

(* ---- the inverse pair *)
Lemma b64_quanta_encode s : b64_quanta (b64_encode s) = Some s.
Proof.
  induction s as [|a|a b|a b c t IH] using list_ind3; [reflexivity| | |].
  - pose proof (code_lt a) as Ha. cbn [b64_encode]. cbv zeta. cbn [b64_quanta].
    rewrite !b64val_b64char by lia. change (b64val PAD) with (@None N). change (Ascii.eqb PAD PAD) with true. cbn [andb].
    f_equal. f_equal. unfold byte0, q24. apply byte_eq. lia.
  - pose proof (code_lt a) as Ha. pose proof (code_lt b) as Hb. cbn [b64_encode]. cbv zeta. cbn [b64_quanta].
    rewrite !b64val_b64char by lia. change (b64val PAD) with (@None N). change (Ascii.eqb PAD PAD) with true.
    unfold byte0, byte1, q24.
    f_equal. f_equal; [apply byte_eq; lia|]. f_equal. apply byte_eq. lia.
  - pose proof (code_lt a) as Ha. pose proof (code_lt b) as Hb. pose proof (code_lt c) as Hc.
    cbn [b64_encode]. cbv zeta. cbn [b64_quanta].
    destruct (bytes_of_v (code a) (code b) (code c) Ha Hb Hc) as [E0 [E1 [E2 Hv]]]. cbv zeta in E0, E1, E2, Hv.
    destruct (sext_bounds _ Hv) as [S0 [S1 [S2 S3]]].
    rewrite !b64val_b64char by assumption. rewrite IH. cbv zeta.
    rewrite (q24_sextets _ Hv). unfold byte0, byte1, byte2. rewrite E0, E1, E2, !ascii_code. reflexivity.
Qed.

Theorem b64_decode_encode s : b64_decode (b64_encode s) = Some s.
Proof. unfold b64_decode. rewrite b64_encode_no_crlf. apply b64_quanta_encode. Qed.

(* ---- decode: accepted / rejected classes *)
Lemma strip_crlf_app a b : strip_crlf (a ++ b) = strip_crlf a ++ strip_crlf b.
Proof. unfold strip_crlf. apply filter_app. Qed.

(* CR and LF are ignored wherever they stand *)
Lemma b64_decode_ignores_crlf a c b : is_crlf c = true -> b64_decode (a ++ c :: b) = b64_decode (a ++ b).
Proof.
  intros H. unfold b64_decode. rewrite !strip_crlf_app. unfold strip_crlf at 2. cbn [filter]. rewrite H. reflexivity.
Qed.

(* accepted input has (after CR/LF removal) a length that is a multiple of four, and decodes to 3 bytes per quantum
   minus the padding *)
Lemma b64_quanta_len4 s r : b64_quanta s = Some r -> (N.of_nat (List.length s)) mod 4 = 0.
Proof.
  revert r. induction s as [|a|a b|a b c|a b c d t IH] using list_ind4; intros r H; try discriminate; [reflexivity|].
  cbn [b64_quanta] in H.
  assert (T : t = [] \/ exists r', b64_quanta t = Some r').
  { destruct (b64val a); [|discriminate]. destruct (b64val b); [|discriminate].
    destruct (b64val c); destruct (b64val d).
    - destruct (b64_quanta t) as [r'|]; [right; now exists r'|discriminate].
    - destruct (Ascii.eqb d PAD); [|discriminate]. destruct t; [now left|discriminate].
    - destruct (Ascii.eqb c PAD && Ascii.eqb d PAD); [|discriminate]. destruct t; [now left|discriminate].
    - destruct (Ascii.eqb c PAD && Ascii.eqb d PAD); [|discriminate]. destruct t; [now left|discriminate]. }
  destruct T as [->|[r' Hr']]; [reflexivity|]. specialize (IH r' Hr'). cbn [List.length]. lia.
Qed.

Lemma b64_decode_len4 s r : b64_decode s = Some r -> (N.of_nat (List.length (strip_crlf s))) mod 4 = 0.
Proof. unfold b64_decode. apply b64_quanta_len4. Qed.

(* a byte outside the alphabet other than '=', CR, LF is rejected wherever it stands *)
Lemma b64_quanta_foreign s r : b64_quanta s = Some r -> forallb b64_out_char s = true.
Proof.
  revert r. induction s as [|a|a b|a b c|a b c d t IH] using list_ind4; intros r H; try discriminate; [reflexivity|].
  cbn [b64_quanta] in H. cbn [forallb]. unfold b64_out_char at 1 2 3 4. unfold is_b64.
  destruct (b64val a); [|discriminate]. destruct (b64val b); [|discriminate]. cbn [orb andb].
  destruct (b64val c); destruct (b64val d) eqn:Ed; cbn [orb andb].
  - destruct (b64_quanta t) as [r'|]; [now apply (IH r')|discriminate].
  - destruct (Ascii.eqb d PAD); [|discriminate]. destruct t; [reflexivity|discriminate].
  - destruct (Ascii.eqb c PAD); [|discriminate]. cbn [andb] in H.
    destruct (Ascii.eqb_spec d PAD) as [->|]; [discriminate Ed|discriminate].
  - destruct (Ascii.eqb c PAD); [|discriminate]. cbn [andb] in H |- *. destruct (Ascii.eqb d PAD); [|discriminate].
    destruct t; [reflexivity|discriminate].
Qed.

Lemma b64_decode_foreign s r : b64_decode s = Some r -> forallb (fun c => b64_out_char c || is_crlf c) s = true.
Proof.
  unfold b64_decode. intros H. apply b64_quanta_foreign in H. rewrite forallb_forall in *. intros c Hc.
  destruct (is_crlf c) eqn:E; [now rewrite orb_true_r|]. rewrite orb_false_r. apply H. unfold strip_crlf.
  apply filter_In. split; [exact Hc|now rewrite E].
Qed.

(* unpadded input made of whole quanta of alphabet characters is accepted, three bytes per quantum *)
Lemma b64_quanta_full_length s r : forallb is_b64 s = true -> b64_quanta s = Some r ->
  N.of_nat (List.length s) = 4 * (N.of_nat (List.length r) / 3) /\ N.of_nat (List.length r) mod 3 = 0.
Proof.
  revert r. induction s as [|a|a b|a b c|a b c d t IH] using list_ind4; intros r Ha H; try discriminate.
  - inversion H. split; reflexivity.
  - cbn [forallb] in Ha. unfold is_b64 at 1 2 3 4 in Ha. cbn [b64_quanta] in H.
    destruct (b64val a); [|discriminate]. destruct (b64val b); [|discriminate].
    destruct (b64val c); [|discriminate]. destruct (b64val d); [|discriminate]. cbn [andb] in Ha.
    destruct (b64_quanta t) as [r'|] eqn:E; [|discriminate]. inversion H; subst r.
    destruct (IH r' Ha eq_refl) as [L1 L2]. cbn [List.length]. split; lia.
Qed.

(* ------------------------------------------------------------------ latin1 <-> utf8 *)
Lemma runes_encode_latin1 c t : runes (encode_rune (code c) ++ t) = code c :: runes t.
Proof. destruct c as [[] [] [] [] [] [] [] []]; reflexivity. Qed.

Lemma runes_latin1_to_utf8 s : runes (latin1_to_utf8 s) = map code s.
Proof.
  unfold latin1_to_utf8. induction s as [|c t IH]; [reflexivity|].
  cbn [map List.concat]. rewrite runes_encode_latin1. now rewrite IH.
Qed.

Lemma latin1_of_runes_codes s : latin1_of_runes (map code s) = Some s.
Proof.
  induction s as [|c t IH]; [reflexivity|]. cbn [map latin1_of_runes]. pose proof (code_lt c) as Hc.
  replace (code c <=? 255) with true by lia. rewrite IH. unfold byte_of. now rewrite ascii_code.
Qed.

Theorem utf8_to_latin1_of_latin1_to_utf8 s : utf8_to_latin1 (latin1_to_utf8 s) = Some s.
Proof. unfold utf8_to_latin1. rewrite runes_latin1_to_utf8. apply latin1_of_runes_codes. Qed.

(* the error case, exactly: some decoded character is above U+00FF (an invalid byte decodes to U+FFFD, so it is one) *)
Lemma latin1_of_runes_none rs : latin1_of_runes rs = None <-> existsb (fun r => 255 <? r) rs = true.
Proof.
  induction rs as [|r t IH]; cbn [latin1_of_runes existsb]; [split; discriminate|].
  destruct (r <=? 255) eqn:E.
  - replace (255 <? r) with false by lia. cbn [orb]. destruct (latin1_of_runes t); [|tauto].
    split; [discriminate|]. intros H. apply IH in H. discriminate.
  - replace (255 <? r) with true by lia. tauto.
Qed.

Lemma utf8_to_latin1_none s : utf8_to_latin1 s = None <-> existsb (fun r => 255 <? r) (runes s) = true.
Proof. apply latin1_of_runes_none. Qed.

(* when it succeeds the output has one byte per character and the characters are the bytes' values *)
Lemma latin1_of_runes_some rs o : latin1_of_runes rs = Some o -> map code o = rs.
Proof.
  revert o. induction rs as [|r t IH]; intros o H; cbn [latin1_of_runes] in H; [now inversion H|].
  destruct (r <=? 255) eqn:E; [|discriminate]. destruct (latin1_of_runes t) as [o'|]; [|discriminate].
  inversion H; subst o. cbn [map]. rewrite (IH o' eq_refl). f_equal. unfold byte_of, code. apply N_ascii_embedding. lia.
Qed.

Lemma utf8_to_latin1_some s o : utf8_to_latin1 s = Some o -> map code o = runes s /\ Z.of_nat (List.length o) = strlen s.
Proof.
  intros H. apply latin1_of_runes_some in H. split; [exact H|]. unfold strlen. rewrite <- H, map_length. reflexivity.
Qed.

(* both directions are the identity on ASCII *)
Lemma latin1_to_utf8_ascii s : forallb (fun c => (code c <? 128)) s = true -> latin1_to_utf8 s = s.
Proof.
  unfold latin1_to_utf8. induction s as [|c t IH]; intros H; [reflexivity|]. cbn [forallb] in H.
  apply andb_true_iff in H. destruct H as [H1 H2]. cbn [map List.concat]. rewrite (IH H2).
  unfold encode_rune. rewrite H1. unfold byte_of. now rewrite ascii_code.
Qed.

(* non-strict decoding: the unused low bits of a padded quantum are not checked, so decoding is not injective *)
Lemma b64_decode_not_injective :
  exists s1 s2, s1 <> s2 /\ strip_crlf s1 = s1 /\ strip_crlf s2 = s2 /\ b64_decode s1 = b64_decode s2 /\ b64_decode s1 = Some (B "A").
Proof. exists (B "QQ=="), (B "QR=="). repeat split; try reflexivity. discriminate. Qed.
