(* C15 model, printf-style formatting: fmtnum / fmtifnum / hexfmt.
   - pkg/mlrval/mlrval_format.go newFormatter: exactly one '%', splitFormatDirective (literal prefix, flags/width/
     precision, dropped l/ll length modifiers, optional '_', the verb, literal suffix), then dispatch on the VERB
     (formatterToInt / ToFloat / ToString); x X o b of a negative int render its 64-bit two's complement;
   - formatterToInt.Format / formatterToFloat.Format / formatterToString.Format: fmt.Sprintf(goFormat, v) with v the
     int64, int(float), float64, float64(int) or the number's original text;
   - Go fmt (go1.23) doPrintf for one verb (flags # 0 + - space, width, .precision, verb), fmtInteger for d x X o b,
     fmtFloat for f F e E with strconv's fixed-precision rendering, which is EXACT: the decimal digits are the
     round-half-even of the exact binary64 value (computed here with N arithmetic on mantissa * 2^exponent), fmtS and
     badVerb for a string argument.
   None = outside the modelled grammar ('*', '[n]', # on floats, %g/%G, %v, %c ..., widths above 1000, non-finite
   floats, _d/_f separated forms); the correspondence only generates formats inside it.  Definitions only. *)
From Miller Require Import Base.Bytes C15.Model.
Open Scope char_scope.
Open Scope N_scope.

(* ------------------------------------------------------------------ digits *)
Definition dchar (upper : bool) (d : N) : ascii :=
  if d <? 10 then ascii_of_N (48 + d) else if upper then ascii_of_N (55 + d) else ascii_of_N (87 + d).
(* most significant first; fuel = number of bits is enough for every base >= 2 *)
Fixpoint digs (fuel : nat) (b u : N) (acc : list N) : list N :=
  match fuel with
  | O => acc
  | S f => if u <? b then u :: acc else digs f b (u / b) (u mod b :: acc)
  end.
Definition digits (b u : N) : list N := digs (S (N.to_nat (N.log2 u))) b u [].
Definition digits_text (b : N) (upper : bool) (u : N) : bytes := map (dchar upper) (digits b u).
Definition dec (u : N) : bytes := digits_text 10 false u.
Definition zeros (k : Z) : bytes := repeat "0" (Z.to_nat k).
Definition blen (s : bytes) : Z := Z.of_nat (List.length s).

(* ------------------------------------------------------------------ one Go format directive *)
Record spec := { pre : bytes; fminus : bool; fplus : bool; fsharp : bool; fspace : bool; fzero : bool;
                 fwid : option N; fprec : option N; verb : ascii; post : bytes }.

Fixpoint split_pct (s : bytes) : option (bytes * bytes) :=
  match s with
  | [] => None
  | c :: t => if Ascii.eqb c "%" then Some ([], t)
              else match split_pct t with Some (a, b) => Some (c :: a, b) | None => None end
  end.

(* flags: minus plus sharp space zero *)
Fixpoint flags_loop (s : bytes) (f : bool * bool * bool * bool * bool) : (bool * bool * bool * bool * bool) * bytes :=
  let '(mi, pl, sh, sp, ze) := f in
  match s with
  | c :: t =>
      if Ascii.eqb c "#" then flags_loop t (mi, pl, true, sp, ze)
      else if Ascii.eqb c "0" then flags_loop t (mi, pl, sh, sp, true)
      else if Ascii.eqb c "+" then flags_loop t (mi, true, sh, sp, ze)
      else if Ascii.eqb c "-" then flags_loop t (true, pl, sh, sp, ze)
      else if Ascii.eqb c " " then flags_loop t (mi, pl, sh, true, ze)
      else (f, s)
  | [] => (f, [])
  end.

Definition is_digit (c : ascii) : bool := in_range "0" "9" c.
(* parsenum *)
Fixpoint take_num (s : bytes) (acc : N) (seen : bool) : option N * bytes :=
  match s with
  | c :: t => if is_digit c then take_num t (acc * 10 + (code c - 48)) true else ((if seen then Some acc else None), s)
  | [] => ((if seen then Some acc else None), [])
  end.
Definition starts_idx (s : bytes) : bool :=
  match s with c :: _ => Ascii.eqb c "[" || Ascii.eqb c "*" | [] => false end.
Definition small (o : option N) : bool := match o with Some n => n <=? 1000 | None => true end.

(* doPrintf up to and including the verb; the text after the verb has no '%' (newFormatter) and is copied *)
Definition parse_format (f : bytes) : option spec :=
  match split_pct f with
  | None => None
  | Some (pr, r0) =>
      let '((mi, pl, sh, sp, ze), r1) := flags_loop r0 (false, false, false, false, false) in
      if starts_idx r1 then None else
      let '(w, r2) := take_num r1 0 false in
      let '(p, r4) :=
        match r2 with
        | "." :: ((_ :: _) as r3) => if starts_idx r3 then (Some 100000, r3)
                                     else let '(p, r4) := take_num r3 0 false in (Some (match p with Some n => n | None => 0 end), r4)
        | _ => (None, r2)
        end in
      if starts_idx r4 || negb (small w) || negb (small p) then None else
      match r4 with
      | [] => None                                   (* %!(NOVERB) *)
      | v :: po => if code v <? 128 then
                     Some {| pre := pr; fminus := mi; fplus := pl; fsharp := sh; fspace := sp; fzero := ze;
                             fwid := w; fprec := p; verb := v; post := po |}
                   else None
      end
  end.

(* fmt.pad / fmt.padString with the padding byte decided by writePadding: '0' iff zero && !minus *)
Definition pad_gen (w : option N) (minus zero : bool) (len : Z) (s : bytes) : bytes :=
  match w with
  | None => s
  | Some w => if w =? 0 then s else
      let k := Z.to_nat (Z.of_N w - len) in
      if minus then s ++ repeat " " k else repeat (if zero then "0" else " ") k ++ s
  end.
Definition wid_of (sp : spec) : Z := match fwid sp with Some w => Z.of_N w | None => 0%Z end.
Definition wid_present (sp : spec) : bool := match fwid sp with Some _ => true | None => false end.

(* ------------------------------------------------------------------ fmt.fmtInteger *)
Open Scope Z_scope.
Definition int_body (sp : spec) (negative : bool) (u : N) (base : N) (upper : bool) : bytes :=
  let prec := match fprec sp with
              | Some p => Z.of_N p
              | None => if fzero sp && negb (fminus sp) && wid_present sp
                        then wid_of sp - (if negative || fplus sp || fspace sp then 1 else 0) else 0
              end in
  let ds := digits_text base upper u in
  let ds := zeros (prec - blen ds) ++ ds in
  let ds := if fsharp sp then
              (if base =? 2 then "0" :: "b" :: ds
               else if base =? 8 then (match ds with "0" :: _ => ds | _ => "0" :: ds end)
               else if base =? 16 then "0" :: (if upper then "X" else "x") :: ds else ds)%N
            else ds in
  if negative then "-" :: ds else if fplus sp then "+" :: ds else if fspace sp then " " :: ds else ds.

Definition fmt_integer (sp : spec) (z : Z) (base : N) (upper : bool) : bytes :=
  let u := Z.abs_N z in
  match fprec sp, (u =? 0)%N with
  | Some 0%N, true => repeat " " (Z.to_nat (wid_of sp))          (* precision 0 and value 0: nothing but padding *)
  | _, _ => let b := int_body sp (z <? 0) u base upper in pad_gen (fwid sp) (fminus sp) false (blen b) b
  end.

(* formatterToInt.sprintfInt: uint64(intValue) for a negative int under x X o b *)
Definition as_unsigned (z : Z) : Z := if z <? 0 then z + 18446744073709551616 else z.
Definition sprintf_int (sp : spec) (z : Z) : option bytes :=
  let v := verb sp in
  let body := if Ascii.eqb v "d" then Some (fmt_integer sp z 10 false)
              else if Ascii.eqb v "x" then Some (fmt_integer sp (as_unsigned z) 16 false)
              else if Ascii.eqb v "X" then Some (fmt_integer sp (as_unsigned z) 16 true)
              else if Ascii.eqb v "o" then Some (fmt_integer sp (as_unsigned z) 8 false)
              else if Ascii.eqb v "b" then Some (fmt_integer sp (as_unsigned z) 2 false)
              else None in
  match body with Some b => Some (pre sp ++ b ++ post sp) | None => None end.

(* ------------------------------------------------------------------ exact decimal rendering of num/den (den > 0) *)
Open Scope N_scope.
(* nearest integer to a/b, ties to even *)
Definition round_div (a b : N) : N :=
  let q := a / b in let r := a mod b in
  if (b <? 2 * r) || ((2 * r =? b) && N.odd q) then q + 1 else q.

(* strconv %f: round(num/den * 10^p) as a digit string with a point before the last p digits *)
Definition fixed_q (p num den : N) : N := round_div (num * 10 ^ p) den.
Definition point_text (p : N) (q : N) : bytes :=
  let ds := dec q in
  let ds := zeros (Z.of_N p + 1 - blen ds) ++ ds in
  let k := (List.length ds - N.to_nat p)%nat in
  firstn k ds ++ (if p =? 0 then [] else "." :: skipn k ds).
Definition fixed_text (p num den : N) : bytes := point_text p (fixed_q p num den).

(* floor(log10(num/den)) for num > 0 *)
Fixpoint find_scale (fuel : nat) (num den j : N) : N :=
  match fuel with
  | O => j
  | S f => if den <=? num * 10 then j + 1 else find_scale f (num * 10) den (j + 1)
  end.
Definition ilog10 (num den : N) : Z :=
  if den <=? num then (blen (dec (num / den)) - 1)%Z
  else (- Z.of_N (find_scale (S (N.to_nat (N.log2 den))) num den 0))%Z.
(* round(num/den / 10^k) *)
Definition scaled_round (num den : N) (k : Z) : N :=
  if (0 <=? k)%Z then round_div num (den * 10 ^ Z.to_N k) else round_div (num * 10 ^ Z.to_N (- k)) den.
(* strconv %e: p+1 significant digits and the decimal exponent *)
Definition exp_digits (p num den : N) : N * Z :=
  if num =? 0 then (0, 0%Z) else
  let k := ilog10 num den in
  let q := scaled_round num den (k - Z.of_N p) in
  if q =? 10 ^ (p + 1) then (10 ^ p, (k + 1)%Z) else (q, k).
Definition exp_text (p num den : N) (e : ascii) : bytes :=
  let '(q, k) := exp_digits p num den in
  let ds := dec q in
  let ds := ds ++ zeros (Z.of_N p + 1 - blen ds) in            (* only for q = 0 *)
  let ex := dec (Z.abs_N k) in
  firstn 1 ds ++ (if p =? 0 then [] else "." :: skipn 1 ds) ++ e :: (if (k <? 0)%Z then "-" else "+") :: zeros (2 - blen ex) ++ ex.

(* ------------------------------------------------------------------ binary64 values as exact fractions *)
(* (negative, num, den) of the finite float with the given IEEE 754 bits; None for infinities and NaN *)
Definition decode_bits (bits : Z) : option (bool * N * N) :=
  let b := Z.to_N bits in
  let neg := 9223372036854775808 <=? b in
  let e := (b / 4503599627370496) mod 2048 in
  let m := b mod 4503599627370496 in
  if e =? 2047 then None else
  let '(m, ex) := if e =? 0 then (m, (-1074)%Z) else (m + 4503599627370496, (Z.of_N e - 1075)%Z) in
  if (0 <=? ex)%Z then Some (neg, m * 2 ^ Z.to_N ex, 1) else Some (neg, m, 2 ^ Z.to_N (- ex)%Z).

(* float64(int64): nearest binary64, ties to even, as an exact fraction (always an integer) *)
Definition float_of_int (z : Z) : bool * N * N :=
  let u := Z.abs_N z in
  let nb := if u =? 0 then 0 else N.log2 u + 1 in
  if nb <=? 53 then ((z <? 0)%Z, u, 1)
  else let sh := nb - 53 in ((z <? 0)%Z, round_div u (2 ^ sh) * 2 ^ sh, 1).

(* int(float64) for values inside the int64 range (truncation toward zero); None outside (platform-defined) *)
Definition int_of_float (v : bool * N * N) : option Z :=
  let '(neg, num, den) := v in
  let t := Z.of_N (num / den) in
  let z := if neg then (- t)%Z else t in
  if ((-9223372036854775808 <=? z) && (z <=? 9223372036854775807))%Z then Some z else None.

(* ------------------------------------------------------------------ fmt.fmtFloat for f F e E *)
Definition sprintf_float (sp : spec) (v : bool * N * N) : option bytes :=
  let '(neg, num, den) := v in
  let p := match fprec sp with Some p => p | None => 6 end in
  let c := verb sp in
  let body := if Ascii.eqb c "f" || Ascii.eqb c "F" then Some (fixed_text p num den)
              else if Ascii.eqb c "e" then Some (exp_text p num den "e")
              else if Ascii.eqb c "E" then Some (exp_text p num den "E")
              else None in
  match body with
  | None => None
  | Some b =>
      if fsharp sp then None else
      let sign := if neg then Some "-" else if fplus sp then Some "+" else if fspace sp then Some " " else None in
      let out :=
        match sign with
        | Some sc =>
            if fzero sp && negb (fminus sp) && wid_present sp && (blen b + 1 <? wid_of sp)%Z
            then sc :: zeros (wid_of sp - (blen b + 1)) ++ b
            else pad_gen (fwid sp) (fminus sp) (fzero sp && negb (fminus sp)) (blen b + 1) (sc :: b)
        | None => pad_gen (fwid sp) (fminus sp) (fzero sp && negb (fminus sp)) (blen b) b
        end in
      Some (pre sp ++ out ++ post sp)
  end.

(* ------------------------------------------------------------------ a string argument: fmtS, or badVerb *)
Definition is_ascii (s : bytes) : bool := forallb (fun c => code c <? 128) s.
Definition fmt_s (sp : spec) (s : bytes) : option bytes :=
  match fprec sp with
  | Some p => if is_ascii s then
                let t := firstn (N.to_nat p) s in
                Some (pad_gen (fwid sp) (fminus sp) (fzero sp && negb (fminus sp)) (blen t) t)
              else None
  | None => Some (pad_gen (fwid sp) (fminus sp) (fzero sp && negb (fminus sp)) (strlen s) s)
  end.
Definition sprintf_string (sp : spec) (s : bytes) : option bytes :=
  let c := verb sp in
  if Ascii.eqb c "s" then match fmt_s sp s with Some b => Some (pre sp ++ b ++ post sp) | None => None end
  else if Ascii.eqb c "v" || Ascii.eqb c "q" || Ascii.eqb c "x" || Ascii.eqb c "X" then None
  else (* badVerb: %!verb(string=<the text under the directive's width/precision>) *)
    match fmt_s sp s with
    | Some b => Some (pre sp ++ B "%!" ++ [c] ++ B "(string=" ++ b ++ B ")" ++ post sp)
    | None => None
    end.

(* ------------------------------------------------------------------ Miller: newFormatter and the formatters *)
Definition count_pct (s : bytes) : nat := List.length (filter (fun c => Ascii.eqb c "%") s).
(* splitFormatDirective: (prefix, flags ++ width ++ precision, has '_', verb, suffix); None = no verb *)
Fixpoint span (p : ascii -> bool) (s : bytes) : bytes * bytes :=
  match s with
  | c :: t => if p c then let '(a, b) := span p t in (c :: a, b) else ([], s)
  | [] => ([], [])
  end.
Definition is_flag (c : ascii) : bool :=
  Ascii.eqb c "#" || Ascii.eqb c "0" || Ascii.eqb c "+" || Ascii.eqb c "-" || Ascii.eqb c " ".
Definition split_directive (f : bytes) : option (bytes * bytes * bool * ascii * bytes) :=
  match split_pct f with
  | None => None
  | Some (pr, r0) =>
      let '(fl, r1) := span is_flag r0 in
      let '(wd, r2) := span is_digit r1 in
      let '(pc, r3) := match r2 with
                       | "." :: t => let '(d, r) := span is_digit t in ("." :: d, r)
                       | _ => ([], r2)
                       end in
      let '(_, r4) := span (fun c => Ascii.eqb c "l") r3 in
      let '(us, r5) := match r4 with "_" :: t => (true, t) | _ => (false, r4) end in
      match r5 with
      | [] => None
      | v :: po => Some (pr, fl ++ wd ++ pc, us, v, po)
      end
  end.

Inductive fkind := KInt | KFloat | KString | KSeparated.
(* newFormatter's switch on the verb *)
Definition formatter_kind (us : bool) (v : ascii) : fkind :=
  if Ascii.eqb v "d" then (if us then KSeparated else KInt)
  else if Ascii.eqb v "f" then (if us then KSeparated else KFloat)
  else if us then KString
  else if Ascii.eqb v "x" || Ascii.eqb v "X" || Ascii.eqb v "o" || Ascii.eqb v "b" then KInt
  else if Ascii.eqb v "e" || Ascii.eqb v "g" || Ascii.eqb v "E" || Ascii.eqb v "G" then KFloat
  else KString.
(* (kind, Go format): the numeric formatters get prefix % flags width precision verb suffix (no l, no _);
   the string formatter gets the user's format unchanged *)
Definition go_format (f : bytes) : fkind * bytes :=
  match split_directive f with
  | None => (KString, f)
  | Some (pr, mid, us, v, po) =>
      match formatter_kind us v with
      | KString => (KString, f)
      | k => (k, pr ++ "%" :: mid ++ v :: po)
      end
  end.

(* the value: an int64, or a finite binary64 given by its bits; txt is the number's text (mv.String()) *)
Inductive numv := VInt (z : Z) | VFloat (bits : Z).
Inductive fres := FOut (o : bytes) | FError | FUnmodelled.
Definition of_opt (o : option bytes) : fres := match o with Some b => FOut b | None => FUnmodelled end.

(* BIF_fmtnum on an int or float first argument and a string second argument *)
Definition fmtnum (v : numv) (txt f : bytes) : fres :=
  if negb (Nat.eqb (count_pct f) 1) then FError else
  let '(k, g) := go_format f in
  match parse_format g with
  | None => FUnmodelled
  | Some sp =>
      match k, v with
      | KSeparated, _ => FUnmodelled
      | KInt, VInt z => of_opt (sprintf_int sp z)
      | KInt, VFloat bits =>
          match decode_bits bits with
          | Some x => match int_of_float x with Some z => of_opt (sprintf_int sp z) | None => FUnmodelled end
          | None => FUnmodelled
          end
      | KFloat, VFloat bits => match decode_bits bits with Some x => of_opt (sprintf_float sp x) | None => FUnmodelled end
      | KFloat, VInt z => of_opt (sprintf_float sp (float_of_int z))
      | KString, _ => of_opt (sprintf_string sp txt)
      end
  end.

(* BIF_fmtifnum: an error output gives the input back *)
Definition fmtifnum (v : numv) (txt f : bytes) : fres :=
  match fmtnum v txt f with FError => FOut txt | r => r end.

(* BIF_hexfmt: "0x" + strconv.FormatUint(uint64(int), 16); anything else is returned unchanged *)
Definition hexfmt (v : numv) (txt : bytes) : bytes :=
  match v with
  | VInt z => "0" :: "x" :: digits_text 16 false (Z.to_N (z mod 18446744073709551616))
  | VFloat _ => txt
  end.
