(* C15: character counting is additive over well-formed UTF-8 *)
From Miller Require Import Base.Bytes C15.Model.
Open Scope char_scope.

Lemma runes_app_valid_n : forall n a, (List.length a <= n)%nat -> valid_utf8 a = true ->
  forall b, runes (a ++ b) = runes a ++ runes b.
Proof.
  induction n as [|n IH]; intros a Hlen Hv b.
  - destruct a; [reflexivity|cbn in Hlen; lia].
  - destruct a as [|b0 t]; [reflexivity|]. cbn [List.length] in Hlen.
    cbn [valid_utf8] in Hv. cbn [app runes]. cbv zeta in *.
    destruct (N.ltb (bn b0) 128).
    { cbn [app]. f_equal. apply IH; [lia|exact Hv]. }
    destruct (inr 194 223 b0).
    { destruct t as [|b1 t1]; [discriminate|]. apply andb_true_iff in Hv. destruct Hv as [H1 H2].
      cbn [app List.length] in *. rewrite H1. cbn [app]. f_equal. apply IH; [lia|exact H2]. }
    destruct (inr 224 239 b0).
    { destruct t as [|b1 [|b2 t2]]; try discriminate.
      apply andb_true_iff in Hv. destruct Hv as [H12 H3].
      cbn [app List.length] in *. rewrite H12. cbn [app]. f_equal. apply IH; [lia|exact H3]. }
    destruct (inr 240 244 b0); [|discriminate].
    destruct t as [|b1 [|b2 [|b3 t3]]]; try discriminate.
    apply andb_true_iff in Hv. destruct Hv as [H123 H4].
    cbn [app List.length] in *. rewrite H123. cbn [app]. f_equal. apply IH; [lia|exact H4].
Qed.

Lemma runes_app_valid a b : valid_utf8 a = true -> runes (a ++ b) = runes a ++ runes b.
Proof. intros H. exact (runes_app_valid_n (List.length a) a (le_n _) H b). Qed.

Lemma strlen_app_valid a b : valid_utf8 a = true -> strlen (a ++ b) = (strlen a + strlen b)%Z.
Proof. intros H. unfold strlen. rewrite (runes_app_valid a b H), app_length. lia. Qed.

(* well-formed input never produces the replacement character out of an invalid byte: every rune of a valid string
   that equals U+FFFD comes from the three bytes EF BF BD -- stated as: a valid string of ASCII bytes decodes to itself *)
Lemma valid_ascii s : forallb (fun c => (code c <? 128)%N) s = true -> valid_utf8 s = true.
Proof.
  induction s as [|c t IH]; intros H; [reflexivity|]. cbn [forallb] in H. apply andb_true_iff in H. destruct H as [H1 H2].
  cbn [valid_utf8]. cbv zeta. unfold bn. rewrite H1. now apply IH.
Qed.
