(* C15 regex proofs, part 2: gsub on the empty regex (Go's empty-match rule), interpolation with empty registers. *)
From Miller Require Import Base.Bytes C15.Model C15.RegexModel C15.RegexProofs.
Open Scope nat_scope.

Definition mk (j : nat) : nat * nat * caps := (j, j, []).
Definition E0 (rep : bytes) : bytes := interp rep (repeat [] 10).

Lemma search_eps ci pos s : search ci Eps pos s = Some (pos, pos, []).
Proof. destruct s; reflexivity. Qed.

Lemma findall_eps ci : forall s n pos prev, List.length s < n -> (forall p, prev = Some p -> p <> pos) ->
  findall n ci Eps pos s prev = map mk (seq pos (S (List.length s))).
Proof.
  induction s as [|x s IH]; intros n pos prev Hn Hp; (destruct n as [|n]; [lia|]); cbn [findall]; rewrite search_eps, Nat.eqb_refl.
  - destruct prev as [p|]; [|reflexivity].
    destruct (pos =? p) eqn:E; [|reflexivity]. apply Nat.eqb_eq in E. exfalso. apply (Hp p eq_refl). auto.
  - assert (Hne : forall p, prev = Some p -> (pos =? p) = false).
    { intros p Hpe. apply Nat.eqb_neq. intro Heq. apply (Hp p Hpe). auto. }
    assert (Hrec : findall n ci Eps (S pos) s (Some pos) = map mk (seq (S pos) (S (List.length s)))).
    { apply IH; [cbn [List.length] in Hn; lia|]. intros p Hpe. inversion Hpe. lia. }
    destruct prev as [p|]; [rewrite (Hne p eq_refl)|]; cbn [app]; rewrite Hrec; reflexivity.
Qed.

Lemma captures10_empty t a : captures10 t a a [] = repeat [] 10.
Proof. unfold captures10, piece. rewrite Nat.sub_diag. reflexivity. Qed.

Lemma splice_eps rep t : forall s done, t = done ++ s ->
  splice t rep (List.length done) (map mk (seq (S (List.length done)) (List.length s))) = List.concat (map (fun x => snd x ++ E0 rep) s).
Proof.
  induction s as [|x s IH]; intros done Ht.
  - cbn [List.length seq map splice List.concat]. subst t. rewrite app_nil_r, skipn_all. reflexivity.
  - cbn [List.length seq map splice List.concat]. unfold mk at 1. cbn [splice].
    rewrite captures10_empty.
    assert (Hp : piece t (List.length done) (S (List.length done)) = snd x).
    { unfold piece. subst t. rewrite skipn_app, Nat.sub_diag, skipn_all. cbn [skipn app].
      replace (S (List.length done) - List.length done) with 1 by lia. cbn [firstn]. unfold flat. cbn [map List.concat]. apply app_nil_r. }
    rewrite Hp. fold (E0 rep). rewrite <- app_assoc. f_equal. f_equal.
    specialize (IH (done ++ [x])). rewrite app_length in IH. cbn [List.length] in IH. rewrite Nat.add_1_r in IH.
    apply IH. subst t. rewrite <- app_assoc. reflexivity.
Qed.

(* gsub with a regex that matches only the empty word: the replacement goes before every character and at the end,
   once each (no empty match is taken twice, none is skipped) -- gsub("abc", "", "-") = "-a-b-c-" *)
Theorem gsub_empty_regex ci s rep :
  gsub ci Eps s rep = E0 rep ++ List.concat (map (fun x => snd x ++ E0 rep) (chunks s)).
Proof.
  unfold gsub, gsub_t, find_all.
  rewrite (findall_eps ci (chunks s) (S (List.length (chunks s))) 0 None); [|lia|discriminate].
  cbn [seq map]. unfold mk at 1. cbn [splice]. rewrite captures10_empty. fold (E0 rep).
  unfold piece. cbn [skipn firstn]. rewrite Nat.sub_diag. cbn [firstn]. unfold flat at 1. cbn [map List.concat app].
  f_equal. apply (splice_eps rep (chunks s) (chunks s) []). reflexivity.
Qed.

(* with all ten registers empty (after a failed =~) every \digit disappears from a string literal *)
Lemma interp_empty_aux : forall rep,
  interp rep (repeat [] 10) = strip_refs rep /\ forall x, interp (x :: rep) (repeat [] 10) = strip_refs (x :: rep).
Proof.
  induction rep as [|d t IH].
  - split; reflexivity.
  - destruct IH as [IH1 IH2]. split; [apply IH2|].
    intro x. cbn [interp strip_refs].
    destruct (Ascii.eqb x BSL).
    + destruct (digit_of d) as [k|].
      * rewrite nth_repeat_nil. cbn [app]. exact IH1.
      * f_equal. apply IH2.
    + f_equal. apply IH2.
Qed.
Theorem interp_empty_registers rep : interp rep (repeat [] 10) = strip_refs rep.
Proof. apply interp_empty_aux. Qed.

Theorem E0_plain rep : has_capture_ref rep = false -> E0 rep = rep.
Proof. apply interp_plain. Qed.
