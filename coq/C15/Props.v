(* C15 property theorems.  Only statements closed by [exact]; each followed by Print Assumptions. *)
From Miller Require Import Base.Bytes C15.Model C15.Proofs C15.Utf8Proofs.
From Miller Require C01.ModelJson C01.ProofsJson.
Open Scope char_scope.
Open Scope Z_scope.

(* 1-up inclusive bounds: for 1 <= m <= k <= strlen, the slice is characters m..k (character, not byte, positions) *)
Theorem C15_substr_spec :
  forall rs m k, 1 <= m -> m <= k -> k <= Z.of_nat (List.length rs) ->
  slice_runes rs m k false = firstn (Z.to_nat (k - m + 1)) (skipn (Z.to_nat (m - 1)) rs)
  /\ List.length (slice_runes rs m k false) = Z.to_nat (k - m + 1).
Proof. exact slice_runes_spec. Qed.
Print Assumptions C15_substr_spec.

(* negative indices -n..-1 alias 1..n *)
Theorem C15_substr_negative_alias :
  forall n m k, 1 <= m -> m <= k -> k <= n -> slice_access n (m - n - 1) (k - n - 1) false = slice_access n m k false.
Proof. exact (fun n m k H1 H2 H3 => eq_trans (slice_access_negative_alias n m k H1 H2 H3) (eq_sym (slice_access_in_range n m k H1 H2 H3))). Qed.
Print Assumptions C15_substr_negative_alias.

(* an upper bound beyond the length is clamped *)
Theorem C15_substr_clamps_high :
  forall n m k, 1 <= m -> m <= n -> n < k -> slice_access n m k false = Some (m - 1, n - 1).
Proof. exact slice_access_clamps_high. Qed.
Print Assumptions C15_substr_clamps_high.

(* substr0 is substr1 shifted by one on non-negative indices *)
Theorem C15_substr0_is_substr1_shifted :
  forall n m k, 0 <= m -> 0 <= k -> slice_access n m k true = slice_access n (m + 1) (k + 1) false.
Proof. exact slice_access_zero_up. Qed.
Print Assumptions C15_substr0_is_substr1_shifted.

(* strlen counts characters, not bytes: additive over any well-formed UTF-8 left part (whatever follows, valid or not) *)
Theorem C15_strlen_app :
  forall a b, valid_utf8 a = true -> strlen (a ++ b) = strlen a + strlen b.
Proof. exact strlen_app_valid. Qed.
Print Assumptions C15_strlen_app.

Theorem C15_runes_app :
  forall a b, valid_utf8 a = true -> runes (a ++ b) = runes a ++ runes b.
Proof. exact runes_app_valid. Qed.
Print Assumptions C15_runes_app.

(* case mapping (ASCII model): idempotence and inverse on letters *)
Theorem C15_tolower_toupper : forall s, tolower (toupper s) = tolower s.
Proof. exact tolower_toupper. Qed.
Print Assumptions C15_tolower_toupper.
Theorem C15_toupper_tolower : forall s, toupper (tolower s) = toupper s.
Proof. exact toupper_tolower. Qed.
Print Assumptions C15_toupper_tolower.
Theorem C15_tolower_toupper_inverse_on_lowercase :
  forall s, forallb (fun c => negb (in_range "A" "Z" c)) s = true -> tolower (toupper s) = s.
Proof. exact tolower_toupper_lower. Qed.
Print Assumptions C15_tolower_toupper_inverse_on_lowercase.

(* hex: inverse pair, all byte strings *)
Theorem C15_hex_decode_encode : forall s, hex_decode (hex_encode s) = Some s.
Proof. exact hex_decode_encode. Qed.
Print Assumptions C15_hex_decode_encode.

(* split / join *)
Theorem C15_join_split : forall s sep, joinv (splitax s sep) sep = s.
Proof. exact join_split. Qed.
Print Assumptions C15_join_split.

Theorem C15_split_join :
  forall c l, Forall (fun x => forallb (fun d => negb (Ascii.eqb c d)) x = true) l ->
  joinv l [c] <> [] -> splitax (joinv l [c]) [c] = l.
Proof. exact split_join. Qed.
Print Assumptions C15_split_join.

(* ssub / gssub are literal: the pattern is searched byte for byte (no metacharacters in the model at all);
   ssub rewrites exactly the first occurrence, leaves the text alone when there is none *)
Theorem C15_ssub_first_occurrence :
  forall s pat rep a b, pat <> [] -> find_lit pat s = Some (a, b) -> s = a ++ pat ++ b /\ ssub s pat rep = a ++ rep ++ b.
Proof. exact ssub_first_occurrence. Qed.
Print Assumptions C15_ssub_first_occurrence.
Theorem C15_ssub_no_match : forall s pat rep, pat <> [] -> find_lit pat s = None -> ssub s pat rep = s.
Proof. exact ssub_no_match. Qed.
Print Assumptions C15_ssub_no_match.
Theorem C15_gssub_no_match : forall s pat rep, find_lit pat s = None -> gssub s pat rep = s.
Proof. exact gssub_no_match. Qed.
Print Assumptions C15_gssub_no_match.
Theorem C15_gssub_same_is_identity : forall s pat, gssub s pat pat = s.
Proof. exact gssub_same. Qed.
Print Assumptions C15_gssub_same_is_identity.

(* json_stringify of a string (millerJSONEncodeString, model shared with C01 and tied to json_stringify by this
   property's correspondence) is read back to the same bytes by an RFC 8259 string decoder: all byte strings *)
Theorem C15_json_stringify_decodes :
  forall s, C01.ProofsJson.ref_decode_string (C01.ModelJson.json_string s) = Some s.
Proof. exact C01.ProofsJson.json_string_decodes. Qed.
Print Assumptions C15_json_stringify_decodes.

Example C15_nonvacuous :
  strlen (bs [104; 195; 169; 255; 226; 130]%N) = 5
  /\ valid_utf8 (bs [104; 195; 169; 226; 130; 172; 240; 159; 152; 128]%N) = true /\ valid_utf8 (bs [237; 160; 128]%N) = false
  /\ substr1 (bs [104; 195; 169; 108]%N) 2 2 = bs [195; 169]%N
  /\ find_lit (B ".") (B "a.b.c") = Some (B "a", B "b.c")
  /\ ssub (B "a.b.c") (B ".") (B "X") = B "aXb.c" /\ gssub (B "a.b.c") (B ".") (B "X") = B "aXbXc"
  /\ splitax (B "a,b,,c") (B ",") = [B "a"; B "b"; []; B "c"]
  /\ hex_decode (B "4A6b") = Some (B "Jk") /\ slice_access 5 (-4) (-2) false = Some (1, 3).
Proof. vm_compute. repeat split; reflexivity. Qed.

(* ================================================================== codecs (ModelCodec.v) *)
From Miller Require Import C15.ModelCodec C15.ProofsCodec C15.ModelHash C15.ProofsHash C15.ModelFmt C15.ProofsFmt.
Open Scope N_scope.

(* base64: inverse pair, ALL byte strings *)
Theorem C15_base64_decode_encode : forall s, b64_decode (b64_encode s) = Some s.
Proof. exact b64_decode_encode. Qed.
Print Assumptions C15_base64_decode_encode.

(* output length 4*ceil(n/3), alphabet A-Za-z0-9+/ and '=' *)
Theorem C15_base64_encode_length : forall s, N.of_nat (List.length (b64_encode s)) = 4 * ((N.of_nat (List.length s) + 2) / 3).
Proof. exact b64_encode_length. Qed.
Print Assumptions C15_base64_encode_length.
Theorem C15_base64_encode_alphabet : forall s, forallb b64_out_char (b64_encode s) = true.
Proof. exact b64_encode_alphabet. Qed.
Print Assumptions C15_base64_encode_alphabet.

(* what the decoder accepts: (after CR/LF removal) a multiple of four characters, all from the alphabet or '=' ... *)
Theorem C15_base64_decode_accepts_only :
  forall s r, b64_decode s = Some r ->
  N.of_nat (List.length (strip_crlf s)) mod 4 = 0 /\ forallb (fun c => b64_out_char c || is_crlf c) s = true.
Proof. exact (fun s r H => conj (b64_decode_len4 s r H) (b64_decode_foreign s r H)). Qed.
Print Assumptions C15_base64_decode_accepts_only.
(* ... CR and LF are ignored wherever they stand ... *)
Theorem C15_base64_decode_ignores_crlf : forall a c b, is_crlf c = true -> b64_decode (a ++ c :: b) = b64_decode (a ++ b).
Proof. exact b64_decode_ignores_crlf. Qed.
Print Assumptions C15_base64_decode_ignores_crlf.
(* ... unpadded whole quanta give three bytes each *)
Theorem C15_base64_decode_full_quanta :
  forall s r, forallb is_b64 s = true -> b64_quanta s = Some r ->
  N.of_nat (List.length s) = 4 * (N.of_nat (List.length r) / 3) /\ N.of_nat (List.length r) mod 3 = 0.
Proof. exact b64_quanta_full_length. Qed.
Print Assumptions C15_base64_decode_full_quanta.
(* "decoding is injective on CR/LF-free text" is FALSE of the code (StdEncoding is not Strict()): QQ== and QR== both give "A" *)
Theorem C15_base64_decode_injective_refuted :
  exists s1 s2, s1 <> s2 /\ strip_crlf s1 = s1 /\ strip_crlf s2 = s2 /\ b64_decode s1 = b64_decode s2 /\ b64_decode s1 = Some (B "A").
Proof. exact b64_decode_not_injective. Qed.
Print Assumptions C15_base64_decode_injective_refuted.

(* latin1 -> utf8 -> latin1 is the identity on ALL byte strings *)
Theorem C15_latin1_utf8_latin1 : forall s, utf8_to_latin1 (latin1_to_utf8 s) = Some s.
Proof. exact utf8_to_latin1_of_latin1_to_utf8. Qed.
Print Assumptions C15_latin1_utf8_latin1.
(* utf8_to_latin1 is an error exactly when some decoded character is above U+00FF (each invalid byte decodes to U+FFFD) *)
Theorem C15_utf8_to_latin1_error_iff : forall s, utf8_to_latin1 s = None <-> existsb (fun r => 255 <? r) (runes s) = true.
Proof. exact utf8_to_latin1_none. Qed.
Print Assumptions C15_utf8_to_latin1_error_iff.
(* otherwise: one byte per character, the byte value being the code point *)
Theorem C15_utf8_to_latin1_result :
  forall s o, utf8_to_latin1 s = Some o -> map code o = runes s /\ Z.of_nat (List.length o) = strlen s.
Proof. exact utf8_to_latin1_some. Qed.
Print Assumptions C15_utf8_to_latin1_result.
(* NOT PROVED (full statement): forall s o, valid_utf8 s = true -> utf8_to_latin1 s = Some o -> latin1_to_utf8 o = s.
   Missing: encode (runes s) = s for well-formed s.  Proved part: the identity on ASCII. *)
Theorem C15_latin1_to_utf8_ascii_partial : forall s, forallb (fun c => (code c <? 128)) s = true -> latin1_to_utf8 s = s.
Proof. exact latin1_to_utf8_ascii. Qed.
Print Assumptions C15_latin1_to_utf8_ascii_partial.

(* ================================================================== digests (ModelHash.v): structure only, no cryptographic claim *)
Theorem C15_digest_padding_whole_blocks :
  forall m, N.of_nat (List.length (pad_md5 m)) mod 64 = 0 /\ N.of_nat (List.length (pad_sha m)) mod 64 = 0
            /\ N.of_nat (List.length (pad_sha512 m)) mod 128 = 0.
Proof. exact (fun m => conj (pad_md5_blocks m) (conj (pad_sha_blocks m) (pad_sha512_blocks m))). Qed.
Print Assumptions C15_digest_padding_whole_blocks.
Theorem C15_digest_padding_minimal :
  forall m, N.of_nat (List.length m) + 9 <= N.of_nat (List.length (pad_sha m)) < N.of_nat (List.length m) + 9 + 64
         /\ N.of_nat (List.length m) + 9 <= N.of_nat (List.length (pad_md5 m)) < N.of_nat (List.length m) + 9 + 64
         /\ N.of_nat (List.length m) + 17 <= N.of_nat (List.length (pad_sha512 m)) < N.of_nat (List.length m) + 17 + 128.
Proof. exact (fun m => conj (pad_sha_minimal m) (conj (pad_md5_minimal m) (pad_sha512_minimal m))). Qed.
Print Assumptions C15_digest_padding_minimal.
(* the message is recoverable from the padded message (whatever the length field holds), hence padding is injective *)
Theorem C15_digest_padding_recoverable :
  forall m, unpad 8 (pad_md5 m) = m /\ unpad 8 (pad_sha m) = m /\ unpad 16 (pad_sha512 m) = m.
Proof. exact (fun m => conj (unpad_md5 m) (conj (unpad_sha m) (unpad_sha512 m))). Qed.
Print Assumptions C15_digest_padding_recoverable.
Theorem C15_digest_padding_injective :
  forall m m', (pad_md5 m = pad_md5 m' -> m = m') /\ (pad_sha m = pad_sha m' -> m = m') /\ (pad_sha512 m = pad_sha512 m' -> m = m').
Proof. exact (fun m m' => conj (pad_md5_injective m m') (conj (pad_sha_injective m m') (pad_sha512_injective m m'))). Qed.
Print Assumptions C15_digest_padding_injective.
(* md5/sha1/sha256/sha512 texts: 32/40/64/128 lower-case hex characters, every input *)
Theorem C15_digest_text_format :
  forall s,
  (List.length (md5 s) = 32 /\ List.length (sha1 s) = 40 /\ List.length (sha256 s) = 64 /\ List.length (sha512 s) = 128)%nat
  /\ forallb is_lower_hex (md5 s) = true /\ forallb is_lower_hex (sha1 s) = true
  /\ forallb is_lower_hex (sha256 s) = true /\ forallb is_lower_hex (sha512 s) = true.
Proof. exact digest_text_format. Qed.
Print Assumptions C15_digest_text_format.

(* ================================================================== printf-style formatting (ModelFmt.v) *)
(* fmtnum(z, "%d") reads back as z (signed decimal), every integer *)
Theorem C15_fmtnum_d_roundtrip :
  forall z txt, exists t, fmtnum (VInt z) txt (B "%d") = FOut t /\ parse_signed_dec t = Some z.
Proof. exact fmtnum_d_roundtrip. Qed.
Print Assumptions C15_fmtnum_d_roundtrip.
(* fmtnum(z, "%x") of a non-negative integer reads back as z *)
Theorem C15_fmtnum_x_roundtrip :
  forall z txt, (0 <= z)%Z -> exists t, fmtnum (VInt z) txt (B "%x") = FOut t /\ parse_base 16 t 0 = Some (Z.to_N z).
Proof. exact fmtnum_x_roundtrip. Qed.
Print Assumptions C15_fmtnum_x_roundtrip.
(* the digit text in any base 2..16, either case, reads back as the number *)
Theorem C15_digits_text_roundtrip : forall b up u, 2 <= b -> b <= 16 -> parse_base b (digits_text b up u) 0 = Some u.
Proof. exact parse_digits_text. Qed.
Print Assumptions C15_digits_text_roundtrip.
(* width: the result is max(width, natural length) long and only blanks are added, left or (flag -) right *)
Theorem C15_fmt_integer_width_law :
  forall sp z base up w, fwid sp = Some w -> (fprec sp = Some 0 -> z <> 0%Z) ->
  let b := int_body sp (z <? 0)%Z (Z.abs_N z) base up in
  blen (fmt_integer sp z base up) = Z.max (Z.of_N w) (blen b)
  /\ fmt_integer sp z base up = (if fminus sp then b ++ repeat " "%char (Z.to_nat (Z.of_N w - blen b)) else repeat " "%char (Z.to_nat (Z.of_N w - blen b)) ++ b).
Proof. exact fmt_integer_width. Qed.
Print Assumptions C15_fmt_integer_width_law.
(* %0Nd: sign, zeros up to the width, digits; nothing else *)
Theorem C15_fmt_zero_padding_law :
  forall (sp : spec) (negative : bool) (u base : N) (up : bool) (w : N),
  fwid sp = Some w -> fprec sp = None -> fzero sp = true -> fminus sp = false -> fsharp sp = false ->
  let ds := digits_text base up u in
  let sg := if negative then ["-"%char] else if fplus sp then ["+"%char] else if fspace sp then [" "%char] else [] in
  int_body sp negative u base up = sg ++ zeros (Z.of_N w - blen sg - blen ds) ++ ds
  /\ blen (int_body sp negative u base up) = Z.max (Z.of_N w) (blen sg + blen ds).
Proof. exact int_body_zero_padding. Qed.
Print Assumptions C15_fmt_zero_padding_law.
(* %.pf: the digits q satisfy |q/10^p - num/den| <= 1/2 * 10^-p (cross-multiplied), ties go to the even q;
   num/den is the exact value of the binary64 argument (decode_bits, positive denominator) *)
Theorem C15_fixed_precision_correctly_rounded :
  forall p num den, 0 < den ->
  (2 * Z.abs (Z.of_N (fixed_q p num den) * Z.of_N den - Z.of_N num * 10 ^ Z.of_N p) <= Z.of_N den)%Z.
Proof. exact fixed_q_correctly_rounded. Qed.
Print Assumptions C15_fixed_precision_correctly_rounded.
Theorem C15_rounding_ties_to_even : forall a b, 0 < b -> 2 * (a mod b) = b -> N.even (round_div a b) = true.
Proof. exact round_div_ties_even. Qed.
Print Assumptions C15_rounding_ties_to_even.
Theorem C15_decode_bits_denominator_positive : forall bits neg num den, decode_bits bits = Some (neg, num, den) -> 0 < den.
Proof. exact decode_bits_den. Qed.
Print Assumptions C15_decode_bits_denominator_positive.
(* the witnesses of the repaired findings (literal text mangled, trailing text, %x of a negative int) *)
Theorem C15_fmtnum_repaired_witnesses :
  fmtnum (VInt 17) (B "17") (B "old:%d") = FOut (B "old:17")
  /\ fmtnum (VInt 17) (B "17") (B "%5d|") = FOut (B "   17|")
  /\ fmtnum (VInt 0) (B "0") (B "le %16lf") = FOut (B "le         0.000000")
  /\ fmtnum (VInt (-1)) (B "-1") (B "%x") = FOut (B "ffffffffffffffff") /\ hexfmt (VInt (-1)) (B "-1") = B "0xffffffffffffffff"
  /\ fmtnum (VInt (-5)) (B "-5") (B "%08llx") = FOut (B "fffffffffffffffb")
  /\ fmtnum (VInt (-1)) (B "-1") (B "%-10x|") = FOut (B "ffffffffffffffff|").
Proof. exact fmtnum_repaired_witnesses. Qed.
Print Assumptions C15_fmtnum_repaired_witnesses.

Example C15_nonvacuous_2 :
  b64_encode (B "Ma") = B "TWE=" /\ b64_decode (B "TW
Fu") = Some (B "Man") /\ b64_decode (B "TWE") = None
  /\ utf8_to_latin1 (bs [195; 169]%N) = Some (bs [233]%N) /\ utf8_to_latin1 (bs [226; 130; 172]%N) = None /\ utf8_to_latin1 (bs [255]%N) = None
  /\ (exists sp, parse_format (B "%-8d") = Some sp /\ fwid sp = Some 8 /\ fprec sp = None /\ fminus sp = true /\ fmt_integer sp (-17) 10 false = B "-17     ")
  /\ (exists sp, parse_format (B "%+08d") = Some sp /\ fwid sp = Some 8 /\ fprec sp = None /\ fzero sp = true /\ fminus sp = false /\ fsharp sp = false
                 /\ int_body sp false 17 10 false = B "+0000017")
  /\ decode_bits 4612811918334230528%Z = Some (false, 5629499534213120, 2251799813685248)        (* 2.5 *)
  /\ fixed_q 0 5 2 = 2 /\ fixed_q 0 7 2 = 4 /\ 2 * (5 mod 2) = 2
  /\ fmtnum (VFloat 4612811918334230528%Z) (B "2.5") (B "%08.3lf") = FOut (B "0002.500")
  /\ fmtnum (VFloat 4612811918334230528%Z) (B "2.5") (B "%.0f") = FOut (B "2")
  /\ fmtnum (VFloat 4600877379321698714%Z) (B "0.4") (B "%.20f") = FOut (B "0.40000000000000002220")
  /\ fmtnum (VInt 9007199254740993) (B "9007199254740993") (B "%.1le") = FOut (B "9.0e+15")
  /\ fmtnum (VInt 17) (B "17") (B "%5d|") = FOut (B "   17|") /\ fmtnum (VInt (-1)) (B "-1") (B "%x") = FOut (B "ffffffffffffffff").
Proof. vm_compute. repeat split; try reflexivity; eexists; repeat split; reflexivity. Qed.

(* ================================================================== wrapper verbs (ModelVerbs.v) *)
From Miller Require Import C15.ModelVerbs C15.ProofsVerbs.
(* the verb is the function applied per selected field: entry i keeps its key; its value is the function of the old
   value when the field is selected and the old value otherwise; the key sequence is unchanged *)
Theorem C15_verb_is_function_per_field :
  forall v r i k x, nth_error r i = Some (k, x) ->
  nth_error (run_verb v r) i = Some (k, if verb_sel v k then verb_fun v x else x) /\ map fst (run_verb v r) = map fst r.
Proof. exact run_verb_spec. Qed.
Print Assumptions C15_verb_is_function_per_field.
Theorem C15_verb_record_length : forall sel f r, List.length (map_values sel f r) = List.length r.
Proof. exact map_values_length. Qed.
Print Assumptions C15_verb_record_length.
Example C15_nonvacuous_verbs :
  run_verb (VSsub (Some [B "a"; B "c"]) (B ".") (B "X")) [(B "a", B "1.2.3"); (B "b", B "4.5"); (B "c", B "6")]
    = [(B "a", B "1X2.3"); (B "b", B "4.5"); (B "c", B "6")]
  /\ run_verb VUtf8ToLatin1 [(B "k", bs [195; 169]%N); (B "e", bs [226; 130; 172]%N)] = [(B "k", bs [233]%N); (B "e", B "(error)")]
  /\ nth_error [(B "a", B "x"); (B "b", B "y")] 1 = Some (B "b", B "y").
Proof. vm_compute. repeat split; reflexivity. Qed.

(* ================================================================== round 2: fmtnum after the repairs of newFormatter *)
(* the text before and after the directive is copied verbatim: ALL integers, ALL texts free of '%' (the finding
   fmtnum-literal-text-mangled / fmtnum-trailing-text, now the full law) *)
Theorem C15_fmtnum_copies_literal_text :
  forall z txt pr po, no_pct pr = true -> no_pct po = true ->
  fmtnum (VInt z) txt (pr ++ B "%d" ++ po) = FOut (pr ++ sdec z ++ po) /\ parse_signed_dec (sdec z) = Some z.
Proof. intros z txt pr po Hp Ho. split; [exact (fmtnum_d_literal z txt pr po Hp Ho)|exact (parse_signed_dec_text z)]. Qed.
Print Assumptions C15_fmtnum_copies_literal_text.
Theorem C15_fmtnum_x_copies_literal_text :
  forall z txt pr po, no_pct pr = true -> no_pct po = true -> (-18446744073709551616 <= z)%Z ->
  fmtnum (VInt z) txt (pr ++ B "%x" ++ po) = FOut (pr ++ digits_text 16 false (Z.to_N (as_unsigned z)) ++ po).
Proof. exact fmtnum_x_literal. Qed.
Print Assumptions C15_fmtnum_x_copies_literal_text.
(* %x of ANY int64 is its 64-bit two's complement: hexfmt without the 0x, reading back as z mod 2^64 *)
Theorem C15_fmtnum_x_twos_complement :
  forall z txt, (-9223372036854775808 <= z <= 9223372036854775807)%Z ->
  exists t, fmtnum (VInt z) txt (B "%x") = FOut t /\ hexfmt (VInt z) txt = "0"%char :: "x"%char :: t
            /\ parse_base 16 t 0 = Some (Z.to_N (z mod 18446744073709551616)).
Proof. exact fmtnum_x_hexfmt. Qed.
Print Assumptions C15_fmtnum_x_twos_complement.
Example C15_nonvacuous_fmt_round2 :
  no_pct (B "old: le lld ") = true /\ no_pct (B " units|") = true /\ no_pct (B "100%") = false
  /\ fmtnum (VInt (-42)) (B "-42") (B "old: le lld %d units|") = FOut (B "old: le lld -42 units|")
  /\ sdec (-42) = B "-42" /\ as_unsigned (-1) = 18446744073709551615%Z /\ as_unsigned 5 = 5%Z
  /\ fmtnum (VInt (-9223372036854775808)) (B "") (B "<%x>") = FOut (B "<8000000000000000>")
  /\ split_directive (B "a%-08.3ll_fz") = Some (B "a", B "-08.3", true, "f"%char, B "z")
  /\ go_format (B "x%05lldy") = (KInt, B "x%05dy") /\ go_format (B "old:%s") = (KString, B "old:%s") /\ go_format (B "%5") = (KString, B "%5").
Proof. vm_compute. repeat split; reflexivity. Qed.
(* coercion rule: an integer verb (d x X o b) applied to a float formats int(float) = truncation toward zero (inside
   int64); a float verb (f e g E G) applied to an int formats float64(int), exact below 2^53 *)
Theorem C15_fmtnum_int_verb_truncates_float :
  forall bits neg num den z txt f,
  fst (go_format f) = KInt -> decode_bits bits = Some (neg, num, den) -> int_of_float (neg, num, den) = Some z ->
  fmtnum (VFloat bits) txt f = fmtnum (VInt z) txt f
  /\ z = (if neg then - Z.of_N (num / den) else Z.of_N (num / den))%Z.
Proof.
  intros bits neg num den z txt f K D I. split; [exact (fmtnum_int_verb_of_float bits _ z txt f K D I)|].
  exact (proj1 (int_of_float_trunc neg num den z I)).
Qed.
Print Assumptions C15_fmtnum_int_verb_truncates_float.
Theorem C15_fmtnum_float_verb_converts_int :
  forall z txt f, fst (go_format f) = KFloat ->
  fmtnum (VInt z) txt f =
    (if negb (Nat.eqb (count_pct f) 1) then FError else
     match parse_format (snd (go_format f)) with Some sp => of_opt (sprintf_float sp (float_of_int z)) | None => FUnmodelled end)
  /\ ((Z.abs z < 9007199254740992)%Z -> float_of_int z = ((z <? 0)%Z, Z.abs_N z, 1%N)).
Proof. intros z txt f K. split; [exact (fmtnum_float_verb_of_int z txt f K)|exact (float_of_int_exact z)]. Qed.
Print Assumptions C15_fmtnum_float_verb_converts_int.
(* fmtifnum = fmtnum except that an error gives the first argument back: ALL values and formats *)
Theorem C15_fmtifnum_is_fmtnum_or_identity :
  forall v txt f, fmtifnum v txt f <> FError
  /\ (fmtnum v txt f = FError -> fmtifnum v txt f = FOut txt) /\ (fmtnum v txt f <> FError -> fmtifnum v txt f = fmtnum v txt f)
  /\ (count_pct f <> 1%nat -> fmtnum v txt f = FError /\ fmtifnum v txt f = FOut txt).
Proof.
  intros v txt f. split; [exact (fmtifnum_never_error v txt f)|]. split; [exact (proj1 (fmtifnum_spec v txt f))|].
  split; [exact (proj2 (fmtifnum_spec v txt f))|exact (fmtnum_rejects v txt f)].
Qed.
Print Assumptions C15_fmtifnum_is_fmtnum_or_identity.
Example C15_nonvacuous_fmt_coercion :
  fst (go_format (B "%5d|")) = KInt /\ fst (go_format (B "%.2lf")) = KFloat
  /\ decode_bits 13836465430165716992%Z = Some (true, 5910974510923776, 2251799813685248)%N     (* -2.625 *)
  /\ int_of_float (true, 5910974510923776, 2251799813685248)%N = Some (-2)%Z
  /\ fmtnum (VFloat 13836465430165716992%Z) (B "-2.625") (B "%5d|") = FOut (B "   -2|")
  /\ fmtnum (VInt 3) (B "3") (B "%.2lf") = FOut (B "3.00") /\ float_of_int 9007199254740993 = (false, 9007199254740992, 1)%N
  /\ fmtnum (VInt 17) (B "17") (B "%d%d") = FError /\ fmtifnum (VInt 17) (B "17") (B "%d%d") = FOut (B "17")
  /\ fmtifnum (VInt 17) (B "17") (B "%04d") = FOut (B "0017").
Proof. vm_compute. repeat split; reflexivity. Qed.
(* leftpad/rightpad: length in CHARACTERS; whole copies of the pad only: the result never exceeds n and falls short of n by
   less than one pad; nothing is added when not even one copy fits; truncate leaves short strings alone *)
Theorem C15_pad_length_law :
  forall s n p, valid_utf8 p = true ->
  strlen (leftpad s n p) = (Z.of_nat (pad_count s n p) * strlen p + strlen s)%Z
  /\ (valid_utf8 s = true -> strlen (rightpad s n p) = (strlen s + Z.of_nat (pad_count s n p) * strlen p)%Z)
  /\ ((0 < strlen p)%Z -> (strlen s + strlen p <= n)%Z -> (n - strlen p < strlen (leftpad s n p) <= n)%Z)
  /\ ((n < strlen s + strlen p)%Z -> leftpad s n p = s /\ rightpad s n p = s).
Proof.
  intros s n p V. split; [exact (leftpad_length s n p V)|]. split; [intros Vs; exact (rightpad_length s n p Vs V)|].
  split; [intros P H; rewrite (leftpad_length s n p V); exact (pad_count_bounds s n p P H)|exact (pad_count_zero s n p)].
Qed.
Print Assumptions C15_pad_length_law.
Theorem C15_truncate_short_is_identity : forall s n, (strlen s <= n)%Z -> truncate s n = s.
Proof. exact truncate_short. Qed.
Print Assumptions C15_truncate_short_is_identity.
Example C15_nonvacuous_pad :
  valid_utf8 (bs [195; 169; 45]%N) = true /\ strlen (bs [195; 169; 45]%N) = 2%Z
  /\ leftpad (B "ab") 7 (bs [195; 169; 45]%N) = bs [195; 169; 45; 195; 169; 45; 97; 98]%N
  /\ strlen (leftpad (B "ab") 7 (bs [195; 169; 45]%N)) = 6%Z /\ pad_count (B "ab") 7 (bs [195; 169; 45]%N) = 2%nat
  /\ leftpad (B "ab") 3 (bs [195; 169; 45]%N) = B "ab" /\ truncate (B "ab") 5 = B "ab".
Proof. vm_compute. repeat split; reflexivity. Qed.

(* ================================================================== regex: matcher, sub/gsub/regextract, =~ registers
   (RegexModel.v, RegexProofs.v, RegexProofs2.v).  D ci r i w rest is the denotational semantics of the regex subset
   (literals, ., classes, ? * +, |, groups, ^ $, case folding): r matches the word w at character position i of the
   text, followed by rest.  The matcher m is the backtracking (leftmost-first) matcher the harness runs. *)
From Miller Require Import C15.RegexModel C15.RegexProofs C15.RegexProofs2.
Open Scope nat_scope.

(* soundness, for every continuation: whatever the matcher accepts is a word of the language, and the continuation
   was run right after it *)
Theorem C15_regex_matcher_sound :
  forall ci r i s c k res, m ci r i s c k = Some res ->
  exists w s' c', s = w ++ s' /\ D ci r i w s' /\ k (i + List.length w) s' c' = Some res.
Proof. exact m_sound. Qed.
Print Assumptions C15_regex_matcher_sound.

(* completeness: if some word of the language is a prefix of the text and the continuation accepts after it, the
   matcher succeeds (stars over bodies that can match the empty word included) *)
Theorem C15_regex_matcher_complete :
  forall ci r i w rest, D ci r i w rest -> forall c k, (forall c', exists res, k (i + List.length w) rest c' = Some res) ->
  exists res, m ci r i (w ++ rest) c k = Some res.
Proof. exact m_complete. Qed.
Print Assumptions C15_regex_matcher_complete.

(* the unanchored search finds a match iff one exists anywhere, and what it returns is a match of the language whose
   start is leftmost: no word of the language starts at an earlier position *)
Theorem C15_regex_search_finds_iff :
  forall ci r s i, (exists pre w post, s = pre ++ w ++ post /\ D ci r (i + List.length pre) w post) <-> search ci r i s <> None.
Proof. exact search_finds_iff. Qed.
Print Assumptions C15_regex_search_finds_iff.
Theorem C15_regex_search_leftmost :
  forall ci r s i a b c, search ci r i s = Some (a, b, c) ->
  exists pre w post, s = pre ++ w ++ post /\ a = i + List.length pre /\ b = a + List.length w /\ D ci r a w post
                     /\ no_match_before ci r i s (List.length pre).
Proof. exact search_some. Qed.
Print Assumptions C15_regex_search_leftmost.
(* PARTIAL: among the matches that start at the leftmost position the matcher returns the FIRST in backtracking order
   (Perl / Go leftmost-first: left alternative before right, greedy iteration); that order is the definition of m and is
   tied to Go's regexp by correspondence only -- there is no independent ordered semantics it is proved against. *)

(* the text the matcher walks over is a partition of the subject's bytes (invalid UTF-8 included) *)
Theorem C15_regex_text_is_partition_of_bytes : forall s, flat (chunks s) = s.
Proof. exact flat_chunks. Qed.
Print Assumptions C15_regex_text_is_partition_of_bytes.

(* gsub / sub with a regex that matches nowhere are the identity, regextract is absent *)
Theorem C15_gsub_sub_identity_without_match :
  forall ci r s rep, no_match ci r (chunks s) -> gsub ci r s rep = s /\ sub ci r s rep = s /\ regextract ci r s = None.
Proof. exact gsub_sub_identity_without_match. Qed.
Print Assumptions C15_gsub_sub_identity_without_match.

(* sub replaces exactly the leftmost match, byte-exact around it; regextract returns that match *)
Theorem C15_sub_replaces_leftmost_match :
  forall ci r s rep a b c, search ci r 0 (chunks s) = Some (a, b, c) ->
  exists pre w post, chunks s = pre ++ w ++ post /\ a = List.length pre /\ b = a + List.length w /\ D ci r a w post
    /\ no_match_before ci r 0 (chunks s) (List.length pre)
    /\ s = flat pre ++ flat w ++ flat post
    /\ sub ci r s rep = flat pre ++ interp rep (captures10 (chunks s) a b c) ++ flat post
    /\ regextract ci r s = Some (flat w).
Proof. exact sub_replaces_leftmost_match. Qed.
Print Assumptions C15_sub_replaces_leftmost_match.
Theorem C15_sub_plain_replacement :
  forall ci r s rep a b c, search ci r 0 (chunks s) = Some (a, b, c) -> has_capture_ref rep = false ->
  exists pre w post, s = flat pre ++ flat w ++ flat post /\ D ci r (List.length pre) w post /\ sub ci r s rep = flat pre ++ rep ++ flat post.
Proof. exact sub_plain_replacement. Qed.
Print Assumptions C15_sub_plain_replacement.

(* gsub on empty matches (Go's FindAll rule): once before every character and once at the end *)
Theorem C15_gsub_empty_regex :
  forall ci s rep, gsub ci Eps s rep = E0 rep ++ List.concat (map (fun x => snd x ++ E0 rep) (chunks s)).
Proof. exact gsub_empty_regex. Qed.
Print Assumptions C15_gsub_empty_regex.

(* the "\0".."\9" registers: untouched by anything but =~ / !=~ (print, sub, gsub, calls of user-defined functions,
   which get a fresh frame); a string literal is left alone while they are unset; after a failed match every \digit
   interpolates as empty *)
Theorem C15_registers_kept_until_next_match :
  forall n body st, forallb (fun x => negb (sets_registers x)) body = true -> snd (run_block n body st) = st.
Proof. exact registers_kept_until_next_match. Qed.
Print Assumptions C15_registers_kept_until_next_match.
Theorem C15_sub_replacement_ignores_registers :
  forall n glob subj ci r rep st,
  run_stmt n (SSub glob subj ci r rep) st = ([(if glob then gsub else sub) ci r (eval_lit subj st) (unbackslash rep)], st).
Proof. exact sub_replacement_ignores_registers. Qed.
Print Assumptions C15_sub_replacement_ignores_registers.
Theorem C15_literal_untouched_while_unset : forall lit, eval_lit lit None = unbackslash lit.
Proof. exact eval_lit_unset. Qed.
Print Assumptions C15_literal_untouched_while_unset.
Theorem C15_failed_match_clears_registers :
  forall n neg subj ci r st, no_match ci r (chunks (eval_lit subj st)) ->
  run_stmt n (SMatch neg subj ci r) st = ([if neg then TRUE_ else FALSE_], Some (repeat [] 10)).
Proof. exact failed_match_clears. Qed.
Print Assumptions C15_failed_match_clears_registers.
Theorem C15_empty_registers_erase_references : forall rep, interp rep (repeat [] 10) = strip_refs rep.
Proof. exact interp_empty_registers. Qed.
Print Assumptions C15_empty_registers_erase_references.

(* "..."i and "..." as CompileMillerRegex reads them, for every pattern text *)
Theorem C15_regex_case_insensitive_suffix :
  forall p, compile_miller (DQ :: p ++ [DQ; "i"%char]) = (true, p) /\ compile_miller (DQ :: p ++ [DQ]) = (false, p).
Proof. exact (fun p => conj (compile_quoted_i p) (compile_quoted p)). Qed.
Print Assumptions C15_regex_case_insensitive_suffix.

Example C15_nonvacuous_regex :
  let a := At (AChr 97%N) in let b := At (AChr 98%N) in
  gsub false (Star (At (AChr 120%N))) (B "abc") (B "-") = B "-a-b-c-"
  /\ gsub false (Grp 1%N (Plus a)) (B "aabab") (B "<\1>") = B "<aa>b<a>b"
  /\ sub false (Cat (Grp 1%N a) (Grp 2%N b)) (B "xxabab") (B "<\2\1\0\3>") = B "xx<baab>ab"
  /\ sub true (Alt (At (AChr 107%N)) b) (bs [226; 132; 170; 66]%N) (B "_") = bs [95; 66]%N
  /\ search false (Cat a b) 0 (chunks (B "xab")) = Some (1, 3, [])
  /\ D false (Cat a b) 1 (chunks (B "ab")) []
  /\ no_match false (Cat a a) (chunks (B "a"))
  /\ gsub false (Cat a a) (B "a") (B "X") = B "a"
  /\ fst (run_block 3 [SPrint (B "\1:\2"); SMatch false (B "abc") false (Cat (Grp 1%N a) (Grp 2%N b)); SPrint (B "\1:\2\101");
                       SFrame [SPrint (B "in\1")]; SSub false (B "ab") false (Grp 1%N b) (B "[\1]"); SMatch false (B "q") false a; SPrint (B "<\1>")] None)
     = [B "\1:\2"; B "true"; B "a:bA"; B "in\1"; B "a[b]"; B "false"; B "<>"]
  /\ compile_miller (B """a.*b""i") = (true, B "a.*b").
Proof.
  cbv zeta. repeat split; try (vm_compute; reflexivity).
  - change (chunks (B "ab")) with ([(97%N, B "a")] ++ [(98%N, B "b")]).
    apply (DCat false _ _ 1 [(97%N, B "a")] [(98%N, B "b")] []); constructor; reflexivity.
  - intros pre w post Heq HD. inversion HD; subst.
    match goal with H1 : D _ (At _) _ ?w1 _, H2 : D _ (At _) _ ?w2 _ |- _ => inversion H1; inversion H2; subst end.
    vm_compute in Heq. destruct pre as [|p0 [|p1 pre]]; cbn in Heq; discriminate.
Qed.
