(* C15 property theorems.  Only statements closed by [exact]; each followed by Print Assumptions. *)
From Miller Require Import Base.Bytes C15.Model C15.Proofs C15.Utf8Proofs.
From Miller Require C01.ModelJson C01.ProofsJson.
Open Scope char_scope.
Open Scope Z_scope.

(* 1-up inclusive bounds: for 1 <= m <= k <= strlen, the slice is characters m..k (character, not byte, positions) *)
Theorem C15_substr_spec :
  forall rs m k, 1 <= m -> m <= k -> k <= Z.of_nat (List.length rs) ->
  slice_runes rs m k false = firstn (Z.to_nat (k - m + 1)) (skipn (Z.to_nat (m - 1)) rs)
  /\ List.length (slice_runes rs m k false) = Z.to_nat (k - m + 1).
Proof. exact slice_runes_spec. Qed.
Print Assumptions C15_substr_spec.

(* negative indices -n..-1 alias 1..n *)
Theorem C15_substr_negative_alias :
  forall n m k, 1 <= m -> m <= k -> k <= n -> slice_access n (m - n - 1) (k - n - 1) false = slice_access n m k false.
Proof. exact (fun n m k H1 H2 H3 => eq_trans (slice_access_negative_alias n m k H1 H2 H3) (eq_sym (slice_access_in_range n m k H1 H2 H3))). Qed.
Print Assumptions C15_substr_negative_alias.

(* an upper bound beyond the length is clamped *)
Theorem C15_substr_clamps_high :
  forall n m k, 1 <= m -> m <= n -> n < k -> slice_access n m k false = Some (m - 1, n - 1).
Proof. exact slice_access_clamps_high. Qed.
Print Assumptions C15_substr_clamps_high.

(* substr0 is substr1 shifted by one on non-negative indices *)
Theorem C15_substr0_is_substr1_shifted :
  forall n m k, 0 <= m -> 0 <= k -> slice_access n m k true = slice_access n (m + 1) (k + 1) false.
Proof. exact slice_access_zero_up. Qed.
Print Assumptions C15_substr0_is_substr1_shifted.

(* strlen counts characters, not bytes: additive over any well-formed UTF-8 left part (whatever follows, valid or not) *)
Theorem C15_strlen_app :
  forall a b, valid_utf8 a = true -> strlen (a ++ b) = strlen a + strlen b.
Proof. exact strlen_app_valid. Qed.
Print Assumptions C15_strlen_app.

Theorem C15_runes_app :
  forall a b, valid_utf8 a = true -> runes (a ++ b) = runes a ++ runes b.
Proof. exact runes_app_valid. Qed.
Print Assumptions C15_runes_app.

(* case mapping (ASCII model): idempotence and inverse on letters *)
Theorem C15_tolower_toupper : forall s, tolower (toupper s) = tolower s.
Proof. exact tolower_toupper. Qed.
Print Assumptions C15_tolower_toupper.
Theorem C15_toupper_tolower : forall s, toupper (tolower s) = toupper s.
Proof. exact toupper_tolower. Qed.
Print Assumptions C15_toupper_tolower.
Theorem C15_tolower_toupper_inverse_on_lowercase :
  forall s, forallb (fun c => negb (in_range "A" "Z" c)) s = true -> tolower (toupper s) = s.
Proof. exact tolower_toupper_lower. Qed.
Print Assumptions C15_tolower_toupper_inverse_on_lowercase.

(* hex: inverse pair, all byte strings *)
Theorem C15_hex_decode_encode : forall s, hex_decode (hex_encode s) = Some s.
Proof. exact hex_decode_encode. Qed.
Print Assumptions C15_hex_decode_encode.

(* split / join *)
Theorem C15_join_split : forall s sep, joinv (splitax s sep) sep = s.
Proof. exact join_split. Qed.
Print Assumptions C15_join_split.

Theorem C15_split_join :
  forall c l, Forall (fun x => forallb (fun d => negb (Ascii.eqb c d)) x = true) l ->
  joinv l [c] <> [] -> splitax (joinv l [c]) [c] = l.
Proof. exact split_join. Qed.
Print Assumptions C15_split_join.

(* ssub / gssub are literal: the pattern is searched byte for byte (no metacharacters in the model at all);
   ssub rewrites exactly the first occurrence, leaves the text alone when there is none *)
Theorem C15_ssub_first_occurrence :
  forall s pat rep a b, pat <> [] -> find_lit pat s = Some (a, b) -> s = a ++ pat ++ b /\ ssub s pat rep = a ++ rep ++ b.
Proof. exact ssub_first_occurrence. Qed.
Print Assumptions C15_ssub_first_occurrence.
Theorem C15_ssub_no_match : forall s pat rep, pat <> [] -> find_lit pat s = None -> ssub s pat rep = s.
Proof. exact ssub_no_match. Qed.
Print Assumptions C15_ssub_no_match.
Theorem C15_gssub_no_match : forall s pat rep, find_lit pat s = None -> gssub s pat rep = s.
Proof. exact gssub_no_match. Qed.
Print Assumptions C15_gssub_no_match.
Theorem C15_gssub_same_is_identity : forall s pat, gssub s pat pat = s.
Proof. exact gssub_same. Qed.
Print Assumptions C15_gssub_same_is_identity.

(* json_stringify of a string (millerJSONEncodeString, model shared with C01 and tied to json_stringify by this
   property's correspondence) is read back to the same bytes by an RFC 8259 string decoder: all byte strings *)
Theorem C15_json_stringify_decodes :
  forall s, C01.ProofsJson.ref_decode_string (C01.ModelJson.json_string s) = Some s.
Proof. exact C01.ProofsJson.json_string_decodes. Qed.
Print Assumptions C15_json_stringify_decodes.

Example C15_nonvacuous :
  strlen (bs [104; 195; 169; 255; 226; 130]%N) = 5
  /\ valid_utf8 (bs [104; 195; 169; 226; 130; 172; 240; 159; 152; 128]%N) = true /\ valid_utf8 (bs [237; 160; 128]%N) = false
  /\ substr1 (bs [104; 195; 169; 108]%N) 2 2 = bs [195; 169]%N
  /\ find_lit (B ".") (B "a.b.c") = Some (B "a", B "b.c")
  /\ ssub (B "a.b.c") (B ".") (B "X") = B "aXb.c" /\ gssub (B "a.b.c") (B ".") (B "X") = B "aXbXc"
  /\ splitax (B "a,b,,c") (B ",") = [B "a"; B "b"; []; B "c"]
  /\ hex_decode (B "4A6b") = Some (B "Jk") /\ slice_access 5 (-4) (-2) false = Some (1, 3).
Proof. vm_compute. repeat split; reflexivity. Qed.
