(* C15 lemmas: wrapper verbs = function per selected field *)
From Miller Require Import Base.Bytes C15.Model C15.ModelCodec C15.ModelVerbs.

Lemma map_values_keys sel f r : map fst (map_values sel f r) = map fst r.
Proof.
  unfold map_values. rewrite map_map. apply map_ext. intros [k v]. cbn [fst]. now destruct (sel k).
Qed.

Lemma map_values_length sel f r : List.length (map_values sel f r) = List.length r.
Proof. unfold map_values. apply map_length. Qed.

(* position by position: a selected field's value is f of the old value, any other entry is unchanged *)
Lemma map_values_nth sel f r i k v :
  nth_error r i = Some (k, v) ->
  nth_error (map_values sel f r) i = Some (k, if sel k then f v else v).
Proof.
  intros H. unfold map_values. rewrite nth_error_map, H. cbn [option_map fst snd]. now destruct (sel k).
Qed.

Lemma run_verb_spec v r i k x :
  nth_error r i = Some (k, x) ->
  nth_error (run_verb v r) i = Some (k, if verb_sel v k then verb_fun v x else x)
  /\ map fst (run_verb v r) = map fst r.
Proof. intros H. split; [now apply map_values_nth|apply map_values_keys]. Qed.

(* nothing selected: the record is unchanged; applying to a concatenation distributes *)
Lemma map_values_none f r : map_values (fun _ => false) f r = r.
Proof. unfold map_values. induction r as [|[k v] t IH]; [reflexivity|]. cbn [map]. now rewrite IH. Qed.
Lemma map_values_app sel f a b : map_values sel f (a ++ b) = map_values sel f a ++ map_values sel f b.
Proof. unfold map_values. apply map_app. Qed.
