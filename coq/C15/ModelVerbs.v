(* C15 model, wrapper verbs: the verb equals the function applied to the value of each selected field, keys and the
   other fields untouched (pkg/transformers/subs.go ssub -f/-a, case.go -u/-l -v -f, utf8_to_latin1.go,
   latin1_to_utf8.go: loop over the record's entries, rewrite pe.Value).  All field values are strings here (mlr -S).
   Definitions only. *)
From Miller Require Import Base.Bytes C15.Model C15.ModelCodec.
Open Scope char_scope.

Definition record := list (bytes * bytes).
Definition mem (names : list bytes) (k : bytes) : bool := existsb (beqb k) names.

(* for pe := inrec.Head; pe != nil; pe = pe.Next { if selected(pe.Key) { pe.Value = f(pe.Value) } } *)
Definition map_values (sel : bytes -> bool) (f : bytes -> bytes) (r : record) : record :=
  map (fun kv => if sel (fst kv) then (fst kv, f (snd kv)) else kv) r.

Definition ERRTXT : bytes := B "(error)".
Inductive verb :=
| VSsub (names : option (list bytes)) (pat rep : bytes)        (* None = -a *)
| VCaseUpper (names : list bytes)                              (* case -u -v -f *)
| VCaseLower (names : list bytes)                              (* case -l -v -f *)
| VLatin1ToUtf8
| VUtf8ToLatin1.

Definition sel_of (names : option (list bytes)) : bytes -> bool :=
  match names with Some l => mem l | None => fun _ => true end.

Definition verb_fun (v : verb) : bytes -> bytes :=
  match v with
  | VSsub _ pat rep => fun x => ssub x pat rep
  | VCaseUpper _ => toupper
  | VCaseLower _ => tolower
  | VLatin1ToUtf8 => latin1_to_utf8
  | VUtf8ToLatin1 => fun x => match utf8_to_latin1 x with Some o => o | None => ERRTXT end
  end.
Definition verb_sel (v : verb) : bytes -> bool :=
  match v with
  | VSsub n _ _ => sel_of n
  | VCaseUpper n | VCaseLower n => mem n
  | VLatin1ToUtf8 | VUtf8ToLatin1 => fun _ => true
  end.
Definition run_verb (v : verb) (r : record) : record := map_values (verb_sel v) (verb_fun v) r.
