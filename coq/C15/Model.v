(* C15 model: string functions of pkg/bifs/strings.go, pkg/bifs/regex.go (ssub/gssub), pkg/bifs/collections.go
   (MillerSliceAccess, splitax, joinv), pkg/mlrval/mlrval_collections.go (UnaliasArrayLengthIndex), pkg/bifs/hex.go.
   Go's unicode/utf8 decoding is transliterated (each invalid byte is one character, U+FFFD when re-encoded);
   strings.ToUpper/ToLower are modelled on ASCII only (stated domain).  Definitions only. *)
From Miller Require Import Base.Bytes.
Open Scope char_scope.
Open Scope N_scope.

(* ------------------------------------------------------------------ UTF-8 as Go decodes it *)
Definition RUNE_ERROR : N := 65533.
Definition bn (c : ascii) : N := code c.
Definition cont (c : ascii) : bool := (128 <=? bn c) && (bn c <=? 191).
Definition inr (lo hi : N) (c : ascii) : bool := (lo <=? bn c) && (bn c <=? hi).

(* []rune(s): code points, RUNE_ERROR for every byte that does not start a well-formed sequence *)
Fixpoint runes (s : bytes) : list N :=
  match s with
  | [] => []
  | b0 :: t =>
      let x := bn b0 in
      if x <? 128 then x :: runes t
      else if inr 194 223 b0 then
        match t with
        | b1 :: t1 => if cont b1 then ((x - 192) * 64 + (bn b1 - 128)) :: runes t1 else RUNE_ERROR :: runes t
        | [] => [RUNE_ERROR]
        end
      else if inr 224 239 b0 then
        match t with
        | b1 :: ((b2 :: t2) as t1) =>
            let ok1 := if x =? 224 then inr 160 191 b1 else if x =? 237 then inr 128 159 b1 else cont b1 in
            if ok1 && cont b2 then ((x - 224) * 4096 + (bn b1 - 128) * 64 + (bn b2 - 128)) :: runes t2
            else RUNE_ERROR :: runes t
        | _ => RUNE_ERROR :: runes t
        end
      else if inr 240 244 b0 then
        match t with
        | b1 :: ((b2 :: ((b3 :: t3) as t2)) as t1) =>
            let ok1 := if x =? 240 then inr 144 191 b1 else if x =? 244 then inr 128 143 b1 else cont b1 in
            if ok1 && cont b2 && cont b3
            then ((x - 240) * 262144 + (bn b1 - 128) * 4096 + (bn b2 - 128) * 64 + (bn b3 - 128)) :: runes t3
            else RUNE_ERROR :: runes t
        | _ => RUNE_ERROR :: runes t
        end
      else RUNE_ERROR :: runes t
  end.

(* well-formed UTF-8 (utf8.ValidString): the same table, as a recogniser *)
Fixpoint valid_utf8 (s : bytes) : bool :=
  match s with
  | [] => true
  | b0 :: t =>
      let x := bn b0 in
      if x <? 128 then valid_utf8 t
      else if inr 194 223 b0 then
        match t with b1 :: t1 => cont b1 && valid_utf8 t1 | [] => false end
      else if inr 224 239 b0 then
        match t with
        | b1 :: b2 :: t2 =>
            (if x =? 224 then inr 160 191 b1 else if x =? 237 then inr 128 159 b1 else cont b1) && cont b2 && valid_utf8 t2
        | _ => false
        end
      else if inr 240 244 b0 then
        match t with
        | b1 :: b2 :: b3 :: t3 =>
            (if x =? 240 then inr 144 191 b1 else if x =? 244 then inr 128 143 b1 else cont b1) && cont b2 && cont b3 && valid_utf8 t3
        | _ => false
        end
      else false
  end.

Definition byte_of (n : N) : ascii := ascii_of_N n.
(* utf8.EncodeRune *)
Definition encode_rune (r : N) : bytes :=
  if r <? 128 then [byte_of r]
  else if r <? 2048 then [byte_of (192 + r / 64); byte_of (128 + r mod 64)]
  else if (1114111 <? r) || ((55296 <=? r) && (r <=? 57343)) then [byte_of 239; byte_of 191; byte_of 189]
  else if r <? 65536 then [byte_of (224 + r / 4096); byte_of (128 + (r / 64) mod 64); byte_of (128 + r mod 64)]
  else [byte_of (240 + r / 262144); byte_of (128 + (r / 4096) mod 64); byte_of (128 + (r / 64) mod 64); byte_of (128 + r mod 64)].
Definition encode (rs : list N) : bytes := List.concat (map encode_rune rs).

Definition strlen (s : bytes) : Z := Z.of_nat (List.length (runes s)).

(* ------------------------------------------------------------------ slices: UnaliasArrayLengthIndex, MillerSliceAccess *)
Open Scope Z_scope.
Definition unalias (n m : Z) : Z := if 1 <=? m then m - 1 else if m <=? -1 then m + n else -1.

(* None = empty slice; Some (lo, hi) 0-up inclusive *)
Definition slice_access (n lo hi : Z) (zero_up : bool) : option (Z * Z) :=
  let lo := if zero_up && (0 <=? lo) then lo + 1 else lo in
  let hi := if zero_up && (0 <=? hi) then hi + 1 else hi in
  let l := unalias n lo in
  let h := unalias n hi in
  if h <? l then None else
  let l := if l <? 0 then 0 else l in
  if h <? l then None else
  let h := if n - 1 <? h then n - 1 else h in
  if h <? l then None else Some (l, h).

Definition slice_runes (rs : list N) (lo hi : Z) (zero_up : bool) : list N :=
  match slice_access (Z.of_nat (List.length rs)) lo hi zero_up with
  | None => []
  | Some (l, h) => firstn (Z.to_nat (h - l + 1)) (skipn (Z.to_nat l) rs)
  end.

Definition substr1 (s : bytes) (m n : Z) : bytes := encode (slice_runes (runes s) m n false).
Definition substr0 (s : bytes) (m n : Z) : bytes := encode (slice_runes (runes s) m n true).

(* truncate: unchanged when short enough (no re-encoding), else the first n characters re-encoded *)
Definition truncate (s : bytes) (n : Z) : bytes :=
  let rs := runes s in
  if Z.of_nat (List.length rs) <=? n then s else encode (firstn (Z.to_nat n) rs).

(* leftpad / rightpad: whole copies of the pad while they fit; pad must be non-empty (the loop does not end otherwise) *)
Definition pad_count (s : bytes) (n : Z) (p : bytes) : nat :=
  let il := strlen s in let pl := strlen p in
  if (pl <=? 0) || (n <? il + pl) then 0%nat else Z.to_nat ((n - il) / pl).
Definition leftpad (s : bytes) (n : Z) (p : bytes) : bytes := List.concat (repeat p (pad_count s n p)) ++ s.
Definition rightpad (s : bytes) (n : Z) (p : bytes) : bytes := s ++ List.concat (repeat p (pad_count s n p)).

(* ------------------------------------------------------------------ case, ASCII *)
Definition up_c (c : ascii) : ascii := if in_range "a" "z" c then ascii_of_N (code c - 32) else c.
Definition lo_c (c : ascii) : ascii := if in_range "A" "Z" c then ascii_of_N (code c + 32) else c.
Definition toupper (s : bytes) : bytes := map up_c s.
Definition tolower (s : bytes) : bytes := map lo_c s.
Definition capitalize (s : bytes) : bytes := match s with [] => [] | c :: t => up_c c :: t end.

(* ------------------------------------------------------------------ strip family: space and tab *)
Definition is_sp (c : ascii) : bool := Ascii.eqb c " " || Ascii.eqb c "009".
Fixpoint lstrip (s : bytes) : bytes := match s with c :: t => if is_sp c then lstrip t else s | [] => [] end.
Definition rstrip (s : bytes) : bytes := rev (lstrip (rev s)).
Definition strip (s : bytes) : bytes := rstrip (lstrip s).

(* ------------------------------------------------------------------ literal replace (strings.Replace, non-empty pattern) *)

(* first occurrence: text before and after *)
Fixpoint find_lit (pat s : bytes) : option (bytes * bytes) :=
  if prefixb pat s then Some ([], skipn (List.length pat) s)
  else match s with
       | [] => None
       | c :: t => match find_lit pat t with Some (a, b) => Some (c :: a, b) | None => None end
       end.

Definition ssub (s pat rep : bytes) : bytes :=
  match pat with
  | [] => rep ++ s
  | _ => match find_lit pat s with Some (a, b) => a ++ rep ++ b | None => s end
  end.

Fixpoint gssub_fuel (fuel : nat) (s pat rep : bytes) : bytes :=
  match fuel with
  | O => s
  | S f => match find_lit pat s with
           | Some (a, b) => a ++ rep ++ gssub_fuel f b pat rep
           | None => s
           end
  end.
(* non-empty pattern: each step consumes at least one byte, so length s + 1 steps suffice *)
Definition gssub (s pat rep : bytes) : bytes := gssub_fuel (S (List.length s)) s pat rep.

(* ------------------------------------------------------------------ split / join (non-empty separator) *)
Fixpoint split_fuel (fuel : nat) (s sep : bytes) : list bytes :=
  match fuel with
  | O => [s]
  | S f => match find_lit sep s with
           | Some (a, b) => a :: split_fuel f b sep
           | None => [s]
           end
  end.
(* lib.SplitString: empty input gives the empty list *)
Definition splitax (s sep : bytes) : list bytes :=
  match s with [] => [] | _ => split_fuel (S (List.length s)) s sep end.

Fixpoint joinv (l : list bytes) (sep : bytes) : bytes :=
  match l with
  | [] => []
  | [x] => x
  | x :: t => x ++ sep ++ joinv t sep
  end.

(* ------------------------------------------------------------------ hex *)
Definition hexdig (n : N) : ascii := if (n <? 10)%N then ascii_of_N (48 + n) else ascii_of_N (87 + n).
Fixpoint hex_encode (s : bytes) : bytes :=
  match s with [] => [] | c :: t => hexdig (code c / 16) :: hexdig (code c mod 16) :: hex_encode t end.
Definition hexval (c : ascii) : option N :=
  if in_range "0" "9" c then Some (code c - 48)%N
  else if in_range "a" "f" c then Some (code c - 87)%N
  else if in_range "A" "F" c then Some (code c - 55)%N else None.
Fixpoint hex_decode (s : bytes) : option bytes :=
  match s with
  | [] => Some []
  | a :: b :: t =>
      match hexval a, hexval b, hex_decode t with
      | Some x, Some y, Some r => Some (ascii_of_N (x * 16 + y) :: r)
      | _, _, _ => None
      end
  | _ => None
  end.
