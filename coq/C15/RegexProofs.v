(* C15 regex proofs: the backtracking matcher of RegexModel against a denotational semantics D (soundness, completeness,
   leftmost start), and the laws of sub / gsub / regextract / the capture registers on top of it. *)
From Miller Require Import Base.Bytes C15.Model C15.RegexModel.
Open Scope nat_scope.

(* ------------------------------------------------------------------ denotational semantics
   D ci r i w rest : r matches the word w when w starts at position i of the text and is followed by rest *)
Inductive D (ci : bool) : re -> nat -> list ch -> list ch -> Prop :=
| DEps i rest : D ci Eps i [] rest
| DAt a x i rest : test ci a (fst x) = true -> D ci (At a) i [x] rest
| DCat r1 r2 i w1 w2 rest : D ci r1 i w1 (w2 ++ rest) -> D ci r2 (i + List.length w1) w2 rest -> D ci (Cat r1 r2) i (w1 ++ w2) rest
| DAltL r1 r2 i w rest : D ci r1 i w rest -> D ci (Alt r1 r2) i w rest
| DAltR r1 r2 i w rest : D ci r2 i w rest -> D ci (Alt r1 r2) i w rest
| DStar0 r i rest : D ci (Star r) i [] rest
| DStarS r i w1 w2 rest : D ci r i w1 (w2 ++ rest) -> D ci (Star r) (i + List.length w1) w2 rest -> D ci (Star r) i (w1 ++ w2) rest
| DPlus r i w1 w2 rest : D ci r i w1 (w2 ++ rest) -> D ci (Star r) (i + List.length w1) w2 rest -> D ci (Plus r) i (w1 ++ w2) rest
| DOpt0 r i rest : D ci (Opt r) i [] rest
| DOptS r i w rest : D ci r i w rest -> D ci (Opt r) i w rest
| DGrp n r i w rest : D ci r i w rest -> D ci (Grp n r) i w rest
| DBol rest : D ci Bol 0 [] rest
| DEol i : D ci Eol i [] [].

(* ------------------------------------------------------------------ soundness *)
Definition sound_body (ci : bool) (r : re) (mb : nat -> list ch -> caps -> K -> option R) : Prop :=
  forall i s c k res, mb i s c k = Some res ->
    exists w s' c', s = w ++ s' /\ D ci r i w s' /\ k (i + List.length w) s' c' = Some res.

Lemma loop_sound ci r mb : sound_body ci r mb ->
  forall n i s c k res, loop mb n i s c k = Some res ->
    exists w s' c', s = w ++ s' /\ D ci (Star r) i w s' /\ k (i + List.length w) s' c' = Some res.
Proof.
  intros Hb n; induction n as [|n IH]; intros i s c k res H; cbn [loop] in H.
  - exists [], s, c. cbn [app List.length]. rewrite Nat.add_0_r. repeat split; auto. constructor.
  - destruct (mb i s c _) as [x|] eqn:E.
    + inversion H; subst x; clear H.
      apply Hb in E. destruct E as (w1 & s1 & c1 & Hs & HD & Hk).
      destruct (List.length s1 <? List.length s) eqn:Hlt.
      * apply IH in Hk. destruct Hk as (w2 & s2 & c2 & Hs2 & HD2 & Hk2).
        exists (w1 ++ w2), s2, c2. subst s1 s. rewrite app_assoc. repeat split; auto.
        -- apply DStarS; auto.
        -- rewrite app_length, Nat.add_assoc. exact Hk2.
      * exists w1, s1, c1. repeat split; auto.
        rewrite <- (app_nil_r w1). apply DStarS; [exact HD | constructor].
    + exists [], s, c. cbn [app List.length]. rewrite Nat.add_0_r. repeat split; auto. constructor.
Qed.

Lemma m_sound ci r : sound_body ci r (m ci r).
Proof.
  induction r as [|a|r1 IH1 r2 IH2|r1 IH1 r2 IH2|r1 IH1|r1 IH1|r1 IH1|n r1 IH1| |]; intros i s c k res H; cbn [m] in H.
  - exists [], s, c. cbn [app List.length]. rewrite Nat.add_0_r. repeat split; auto. constructor.
  - destruct s as [|x s']; [discriminate|]. destruct (test ci a (fst x)) eqn:T; [|discriminate].
    exists [x], s', c. cbn [app List.length]. rewrite Nat.add_1_r. repeat split; auto. constructor; auto.
  - apply IH1 in H. destruct H as (w1 & s1 & c1 & Hs & HD & Hk).
    apply IH2 in Hk. destruct Hk as (w2 & s2 & c2 & Hs2 & HD2 & Hk2).
    exists (w1 ++ w2), s2, c2. subst s1 s. rewrite app_assoc. repeat split; auto.
    + constructor; auto.
    + rewrite app_length, Nat.add_assoc. exact Hk2.
  - destruct (m ci r1 i s c k) as [x|] eqn:E.
    + inversion H; subst x. apply IH1 in E. destruct E as (w & s' & c' & Hs & HD & Hk).
      exists w, s', c'. repeat split; auto. apply DAltL; auto.
    + apply IH2 in H. destruct H as (w & s' & c' & Hs & HD & Hk).
      exists w, s', c'. repeat split; auto. apply DAltR; auto.
  - eapply loop_sound; eauto.
  - apply IH1 in H. destruct H as (w1 & s1 & c1 & Hs & HD & Hk).
    eapply loop_sound in Hk; [|exact IH1]. destruct Hk as (w2 & s2 & c2 & Hs2 & HD2 & Hk2).
    exists (w1 ++ w2), s2, c2. subst s1 s. rewrite app_assoc. repeat split; auto.
    + apply DPlus; auto.
    + rewrite app_length, Nat.add_assoc. exact Hk2.
  - destruct (m ci r1 i s c k) as [x|] eqn:E.
    + inversion H; subst x. apply IH1 in E. destruct E as (w & s' & c' & Hs & HD & Hk).
      exists w, s', c'. repeat split; auto. apply DOptS; auto.
    + exists [], s, c. cbn [app List.length]. rewrite Nat.add_0_r. repeat split; auto. constructor.
  - apply IH1 in H. destruct H as (w & s' & c' & Hs & HD & Hk).
    exists w, s', ((n, (i, i + List.length w)) :: c'). repeat split; auto. constructor; auto.
  - destruct i; [|discriminate]. exists [], s, c. cbn [app List.length]. repeat split; auto. constructor.
  - destruct s; [|discriminate]. exists [], [], c. cbn [app List.length]. rewrite Nat.add_0_r. repeat split; auto. constructor.
Qed.

(* ------------------------------------------------------------------ completeness (existence of a match) *)
Definition kok (k : K) (i : nat) (s : list ch) : Prop := forall c, exists res, k i s c = Some res.

Definition complete_body (ci : bool) (r : re) (mb : nat -> list ch -> caps -> K -> option R) : Prop :=
  forall i w rest, D ci r i w rest -> forall c k, kok k (i + List.length w) rest -> exists res, mb i (w ++ rest) c k = Some res.

Lemma loop_complete ci r mb : complete_body ci r mb ->
  forall i w rest, D ci (Star r) i w rest ->
  forall n c k, List.length (w ++ rest) <= n -> kok k (i + List.length w) rest -> exists res, loop mb n i (w ++ rest) c k = Some res.
Proof.
  intros Hb i w rest HD. remember (Star r) as sr eqn:Esr.
  induction HD; inversion Esr; subst; clear Esr; intros n c k Hn Hk.
  - (* no iteration *)
    cbn [app List.length] in *. rewrite Nat.add_0_r in Hk.
    destruct n as [|n]; cbn [loop].
    + apply Hk.
    + destruct (mb i rest c _) as [x|]; [eauto | apply Hk].
  - (* one iteration w1, then w2 *)
    clear IHHD1. specialize (IHHD2 eq_refl).
    destruct w1 as [|x1 w1].
    + cbn [app List.length] in *. rewrite Nat.add_0_r in *. apply IHHD2; auto.
    + destruct n as [|n]; [cbn [app List.length] in Hn; lia|].
      cbn [loop]. rewrite <- app_assoc.
      destruct (Hb _ _ _ HD1 c
                  (fun i' s' c' => if List.length s' <? List.length ((x1 :: w1) ++ w2 ++ rest) then loop mb n i' s' c' k else k i' s' c')) as [res Hres].
      * intro c'.
        assert (Hlt : (List.length (w2 ++ rest) <? List.length ((x1 :: w1) ++ w2 ++ rest)) = true).
        { apply Nat.ltb_lt. rewrite (app_length (x1 :: w1)). cbn [List.length]. lia. }
        rewrite Hlt. apply IHHD2.
        -- rewrite <- app_assoc in Hn. rewrite (app_length (x1 :: w1)) in Hn. cbn [List.length] in Hn. lia.
        -- rewrite app_length, Nat.add_assoc in Hk. exact Hk.
      * rewrite Hres. eauto.
Qed.

Lemma m_complete ci r : complete_body ci r (m ci r).
Proof.
  induction r as [|a|r1 IH1 r2 IH2|r1 IH1 r2 IH2|r1 IH1|r1 IH1|r1 IH1|n r1 IH1| |]; intros i w rest HD c k Hk; inversion HD; subst; cbn [m].
  - cbn [app List.length] in *. rewrite Nat.add_0_r in Hk. apply Hk.
  - cbn [app List.length] in *. rewrite Nat.add_1_r in Hk.
    match goal with H : test _ _ _ = true |- _ => rewrite H end. apply Hk.
  - rewrite <- app_assoc. eapply IH1; eauto. intro c'. eapply IH2; eauto.
    rewrite app_length, Nat.add_assoc in Hk. exact Hk.
  - match goal with H : D _ r1 _ _ _ |- _ => destruct (IH1 _ _ _ H c k Hk) as [res Hres] end. rewrite Hres. eauto.
  - destruct (m ci r1 i (w ++ rest) c k) as [x|]; [eauto|]. eapply IH2; eauto.
  - cbn [app List.length] in *. rewrite Nat.add_0_r in Hk.
    destruct (List.length rest); cbn [loop]; [apply Hk|].
    destruct (m ci r1 i rest c _); [eauto | apply Hk].
  - eapply loop_complete; eauto.
  - rewrite <- app_assoc. eapply IH1; eauto. intro c'.
    eapply loop_complete; eauto. rewrite app_length, Nat.add_assoc in Hk. exact Hk.
  - cbn [app List.length] in *. rewrite Nat.add_0_r in Hk.
    destruct (m ci r1 i rest c k); [eauto | apply Hk].
  - match goal with H : D _ r1 _ _ _ |- _ => destruct (IH1 _ _ _ H c k Hk) as [res Hres] end. rewrite Hres. eauto.
  - eapply IH1; eauto. intro c'. apply Hk.
  - cbn [app List.length] in *. apply Hk.
  - cbn [app List.length] in *. rewrite Nat.add_0_r in Hk. apply Hk.
Qed.

Lemma kok_kend i s : kok kend i s.
Proof. intro c. unfold kend. eauto. Qed.

(* ------------------------------------------------------------------ the unanchored search *)
Definition no_match_before (ci : bool) (r : re) (i : nat) (s : list ch) (n : nat) : Prop :=
  forall pre w post, s = pre ++ w ++ post -> List.length pre < n -> ~ D ci r (i + List.length pre) w post.

Lemma search_some ci r : forall s i a b c, search ci r i s = Some (a, b, c) ->
  exists pre w post, s = pre ++ w ++ post /\ a = i + List.length pre /\ b = a + List.length w /\ D ci r a w post
                     /\ no_match_before ci r i s (List.length pre).
Proof.
  induction s as [|x s IH]; intros i a b c H; cbn [search] in H.
  - destruct (m ci r i [] [] kend) as [[j c']|] eqn:E; [|discriminate].
    inversion H; subst. apply m_sound in E. destruct E as (w & s' & c'' & Hs & HD & Hk).
    unfold kend in Hk. inversion Hk; subst.
    exists [], w, s'. cbn [app List.length]. rewrite Nat.add_0_r. repeat split; auto.
    intros pre w' post _ Hl. lia.
  - destruct (m ci r i (x :: s) [] kend) as [[j c']|] eqn:E.
    + inversion H; subst. apply m_sound in E. destruct E as (w & s' & c'' & Hs & HD & Hk).
      unfold kend in Hk. inversion Hk; subst.
      exists [], w, s'. cbn [app List.length]. rewrite Nat.add_0_r. repeat split; auto.
      intros pre w' post _ Hl. lia.
    + apply IH in H. destruct H as (pre & w & post & Hs & Ha & Hb & HD & Hno).
      exists (x :: pre), w, post. cbn [app List.length]. subst s a.
      split; [reflexivity|]. split; [lia|]. split; [lia|]. split; [exact HD|].
      intros pre' w' post' Heq Hl HD'.
      destruct pre' as [|y pre'].
      * cbn [app List.length] in *. rewrite Nat.add_0_r in HD'.
        destruct (m_complete ci r _ _ _ HD' [] kend (kok_kend _ _)) as [res Hres].
        rewrite <- Heq in Hres. congruence.
      * cbn [app List.length] in *. inversion Heq; subst y.
        apply (Hno pre' w' post'); auto; try lia.
        replace (S i + List.length pre') with (i + S (List.length pre')) by lia. exact HD'.
Qed.

Lemma search_none ci r : forall s i, search ci r i s = None ->
  forall pre w post, s = pre ++ w ++ post -> ~ D ci r (i + List.length pre) w post.
Proof.
  induction s as [|x s IH]; intros i H pre w post Heq HD; cbn [search] in H.
  - destruct (m ci r i [] [] kend) as [[j c']|] eqn:E; [discriminate|].
    destruct pre; [|discriminate]. cbn [app List.length] in *. rewrite Nat.add_0_r in HD.
    destruct (m_complete ci r _ _ _ HD [] kend (kok_kend _ _)) as [res Hres]. rewrite <- Heq in Hres. congruence.
  - destruct (m ci r i (x :: s) [] kend) as [[j c']|] eqn:E; [discriminate|].
    destruct pre as [|y pre].
    + cbn [app List.length] in *. rewrite Nat.add_0_r in HD.
      destruct (m_complete ci r _ _ _ HD [] kend (kok_kend _ _)) as [res Hres]. rewrite <- Heq in Hres. congruence.
    + cbn [app List.length] in *. inversion Heq; subst y.
      apply (IH (S i) H pre w post); auto.
      replace (S i + List.length pre) with (i + S (List.length pre)) by lia. exact HD.
Qed.

(* a match exists somewhere  <->  the search finds one *)
Theorem search_finds_iff ci r s i :
  (exists pre w post, s = pre ++ w ++ post /\ D ci r (i + List.length pre) w post) <-> search ci r i s <> None.
Proof.
  split.
  - intros (pre & w & post & Heq & HD) Hn. exact (search_none ci r s i Hn pre w post Heq HD).
  - intro Hn. destruct (search ci r i s) as [[[a b] c]|] eqn:E; [|congruence].
    apply search_some in E. destruct E as (pre & w & post & Hs & Ha & Hb & HD & _).
    exists pre, w, post. subst a. auto.
Qed.

(* ------------------------------------------------------------------ decoding: the text is a partition of the bytes *)
Lemma step_width s r w : step s = Some (r, w) -> 1 <= w <= List.length s.
Proof.
  unfold step. destruct s as [|b0 t]; [discriminate|].
  repeat match goal with
         | |- context [if ?c then _ else _] => destruct c
         | |- context [match ?l with [] => _ | _ :: _ => _ end] => destruct l
         end; intro H; inversion H; subst; cbn [List.length]; lia.
Qed.
Lemma step_none s : step s = None -> s = [].
Proof.
  unfold step. destruct s as [|b0 t]; [auto|].
  repeat match goal with
         | |- context [if ?c then _ else _] => destruct c
         | |- context [match ?l with [] => _ | _ :: _ => _ end] => destruct l
         end; intro H; discriminate.
Qed.

Lemma chunks_fuel_flat : forall n s, List.length s <= n -> flat (chunks_fuel n s) = s.
Proof.
  induction n as [|n IH]; intros s Hn.
  - destruct s; [reflexivity | cbn [List.length] in Hn; lia].
  - cbn [chunks_fuel]. destruct (step s) as [[r w]|] eqn:E.
    + apply step_width in E.
      change (flat ((r, firstn w s) :: chunks_fuel n (skipn w s))) with (firstn w s ++ flat (chunks_fuel n (skipn w s))).
      rewrite IH; [apply firstn_skipn|]. rewrite skipn_length. lia.
    + apply step_none in E. subst. reflexivity.
Qed.
Theorem flat_chunks s : flat (chunks s) = s.
Proof. apply chunks_fuel_flat. auto. Qed.

(* ------------------------------------------------------------------ sub / gsub / regextract *)
Lemma flat_app a b : flat (a ++ b) = flat a ++ flat b.
Proof. unfold flat. rewrite map_app, concat_app. reflexivity. Qed.

Lemma find_all_none ci r t : search ci r 0 t = None -> find_all ci r t = [].
Proof. intro H. unfold find_all. cbn [findall]. rewrite H. reflexivity. Qed.

Lemma find_all_head ci r t a b c : search ci r 0 t = Some (a, b, c) -> exists tl, find_all ci r t = (a, b, c) :: tl.
Proof.
  intro H. unfold find_all. cbn [findall]. rewrite H.
  destruct (b =? 0).
  - destruct t; cbn [app]; eauto.
  - eauto.
Qed.

Definition no_match (ci : bool) (r : re) (t : list ch) : Prop :=
  forall pre w post, t = pre ++ w ++ post -> ~ D ci r (List.length pre) w post.

Theorem gsub_sub_identity_without_match ci r s rep :
  no_match ci r (chunks s) -> gsub ci r s rep = s /\ sub ci r s rep = s /\ regextract ci r s = None.
Proof.
  intro Hno.
  assert (E : search ci r 0 (chunks s) = None).
  { destruct (search ci r 0 (chunks s)) as [[[a b] c]|] eqn:E; [|reflexivity].
    apply search_some in E. destruct E as (pre & w & post & Hs & Ha & Hb & HD & _).
    exfalso. apply (Hno pre w post Hs). subst a. exact HD. }
  unfold gsub, sub, gsub_t, sub_t, regextract. rewrite (find_all_none _ _ _ E), E, flat_chunks. auto.
Qed.

Lemma piece_pre pre w post : piece (pre ++ w ++ post) 0 (List.length pre) = flat pre.
Proof.
  unfold piece. cbn [skipn]. rewrite Nat.sub_0_r, firstn_app, Nat.sub_diag, firstn_all. cbn [firstn]. rewrite app_nil_r. reflexivity.
Qed.
Lemma piece_mid pre w post : piece (pre ++ w ++ post) (List.length pre) (List.length pre + List.length w) = flat w.
Proof.
  unfold piece. rewrite skipn_app, Nat.sub_diag, skipn_all. cbn [skipn app].
  replace (List.length pre + List.length w - List.length pre) with (List.length w) by lia.
  rewrite firstn_app, Nat.sub_diag, firstn_all. cbn [firstn]. rewrite app_nil_r. reflexivity.
Qed.
Lemma skipn_post (pre w post : list ch) : skipn (List.length pre + List.length w) (pre ++ w ++ post) = post.
Proof.
  rewrite app_assoc. rewrite <- app_length. rewrite skipn_app, Nat.sub_diag, skipn_all. reflexivity.
Qed.

(* sub replaces exactly the leftmost match: the text splits as pre ++ w ++ post with w matched by r at that position,
   no match starts inside pre, and the result is pre ++ (replacement with \0..\9 filled in) ++ post *)
Theorem sub_replaces_leftmost_match ci r s rep a b c :
  search ci r 0 (chunks s) = Some (a, b, c) ->
  exists pre w post, chunks s = pre ++ w ++ post /\ a = List.length pre /\ b = a + List.length w /\ D ci r a w post
    /\ no_match_before ci r 0 (chunks s) (List.length pre)
    /\ s = flat pre ++ flat w ++ flat post
    /\ sub ci r s rep = flat pre ++ interp rep (captures10 (chunks s) a b c) ++ flat post
    /\ regextract ci r s = Some (flat w).
Proof.
  intro H. pose proof (search_some _ _ _ _ _ _ _ H) as (pre & w & post & Hs & Ha & Hb & HD & Hno).
  cbn [plus] in Ha. exists pre, w, post. repeat split; auto.
  - rewrite <- (flat_chunks s) at 1. rewrite Hs, !flat_app. reflexivity.
  - unfold sub, sub_t. destruct (find_all_head _ _ _ _ _ _ H) as [tl Htl]. rewrite Htl.
    cbn [splice]. subst a b. rewrite Hs at 1 3. rewrite piece_pre, skipn_post. reflexivity.
  - unfold regextract. rewrite H. subst a b. rewrite Hs. rewrite piece_mid. reflexivity.
Qed.

(* a replacement without \digit is copied verbatim *)
Lemma interp_plain rep cs : has_capture_ref rep = false -> interp rep cs = rep.
Proof.
  induction rep as [|x t IH]; intro H; [reflexivity|].
  cbn [interp]. destruct t as [|d t']; [reflexivity|].
  cbn [has_capture_ref] in H. apply orb_false_iff in H. destruct H as [H1 H2].
  destruct (Ascii.eqb x BSL); cbn [andb] in H1.
  - destruct (digit_of d); [discriminate|]. rewrite IH; auto.
  - rewrite IH; auto.
Qed.

Theorem sub_plain_replacement ci r s rep a b c :
  search ci r 0 (chunks s) = Some (a, b, c) -> has_capture_ref rep = false ->
  exists pre w post, s = flat pre ++ flat w ++ flat post /\ D ci r (List.length pre) w post /\ sub ci r s rep = flat pre ++ rep ++ flat post.
Proof.
  intros H Hp. destruct (sub_replaces_leftmost_match ci r s rep a b c H) as (pre & w & post & Hs & Ha & Hb & HD & _ & Hflat & Hsub & _).
  exists pre, w, post. subst a. rewrite interp_plain in Hsub; auto.
Qed.

(* ------------------------------------------------------------------ capture registers *)
Lemma run_stmt_frame_isolated n body st : snd (run_stmt n (SFrame body) st) = st.
Proof. destruct n; reflexivity. Qed.

Definition sets_registers (x : stmt) : bool :=
  match x with SMatch _ _ _ _ => true | SReset => true | _ => false end.

Lemma run_stmt_keeps n x st : sets_registers x = false -> snd (run_stmt n x st) = st.
Proof.
  destruct x; cbn [sets_registers]; intro H; try discriminate.
  - destruct n; reflexivity.
  - destruct n; reflexivity.
  - apply run_stmt_frame_isolated.
Qed.

Lemma run_block_keeps n body : forall acc st,
  forallb (fun x => negb (sets_registers x)) body = true ->
  snd (fold_left (fun acc y => let '(out, s1) := run_stmt n y (snd acc) in (fst acc ++ out, s1)) body (acc, st)) = st.
Proof.
  induction body as [|x body IH]; intros acc st H; [reflexivity|].
  cbn [forallb] in H. apply andb_true_iff in H. destruct H as [Hx Hb].
  cbn [fold_left snd fst].
  pose proof (run_stmt_keeps n x st) as Hk. destruct (run_stmt n x st) as [out s1]. cbn [snd] in Hk.
  rewrite Hk; [|destruct (sets_registers x); [discriminate | reflexivity]].
  apply IH; auto.
Qed.

Theorem registers_kept_until_next_match n body st :
  forallb (fun x => negb (sets_registers x)) body = true -> snd (run_block n body st) = st.
Proof. intro H. unfold run_block. apply run_block_keeps; auto. Qed.

(* the \digits of the replacement argument of sub/gsub belong to that call, whatever the registers hold *)
Lemma sub_replacement_ignores_registers n glob subj ci r rep st :
  run_stmt n (SSub glob subj ci r rep) st = ([(if glob then gsub else sub) ci r (eval_lit subj st) (unbackslash rep)], st).
Proof. destruct n; reflexivity. Qed.

Lemma eval_lit_unset lit : eval_lit lit None = unbackslash lit.
Proof. reflexivity. Qed.

Lemma match_sets_registers n neg subj ci r st :
  exists cs, snd (run_stmt n (SMatch neg subj ci r) st) = Some cs /\ List.length cs = 10.
Proof.
  destruct n; cbn [run_stmt]; unfold match_captures;
  destruct (search ci r 0 (chunks (eval_lit subj st))) as [[[a b] c]|]; cbn [snd]; eexists; split; reflexivity.
Qed.

Lemma failed_match_clears n neg subj ci r st :
  no_match ci r (chunks (eval_lit subj st)) ->
  run_stmt n (SMatch neg subj ci r) st = ([if neg then TRUE_ else FALSE_], Some (repeat [] 10)).
Proof.
  intro Hno. assert (Hr : run_stmt n (SMatch neg subj ci r) st =
    (let '(ok, cs) := match_captures ci r (eval_lit subj st) in ([if xorb neg ok then TRUE_ else FALSE_], Some cs))) by (destruct n; reflexivity).
  rewrite Hr. clear Hr. unfold match_captures.
  destruct (search ci r 0 (chunks (eval_lit subj st))) as [[[a b] c]|] eqn:E.
  - apply search_some in E. destruct E as (pre & w & post & Hs & Ha & Hb & HD & _).
    exfalso. apply (Hno pre w post Hs). subst a. exact HD.
  - destruct neg; reflexivity.
Qed.

(* with all registers empty every \digit disappears *)
Fixpoint strip_refs (rep : bytes) : bytes :=
  match rep with
  | [] => []
  | x :: t =>
      match t with
      | d :: t' => if Ascii.eqb x BSL then match digit_of d with Some _ => strip_refs t' | None => x :: strip_refs t end else x :: strip_refs t
      | [] => [x]
      end
  end.
Lemma nth_repeat_nil k : nth k (repeat (@nil ascii) 10) [] = [].
Proof. do 11 (destruct k as [|k]; [reflexivity|]). reflexivity. Qed.

(* compile_miller *)
Lemma compile_quoted p : compile_miller (DQ :: p ++ [DQ]) = (false, p).
Proof.
  unfold compile_miller.
  assert (L : (List.length (DQ :: p ++ [DQ]) <? 2) = false).
  { apply Nat.ltb_ge. cbn [List.length]. rewrite app_length. cbn [List.length]. lia. }
  rewrite L. unfold first_is, last_is. cbn [rev]. rewrite rev_app_distr. cbn [rev app].
  rewrite Ascii.eqb_refl. cbn [andb].
  unfold mid. cbn [skipn List.length]. rewrite app_length. cbn [List.length].
  replace (S (List.length p + 1) - 1 - 1) with (List.length p) by lia.
  rewrite firstn_app, Nat.sub_diag, firstn_all. cbn [firstn]. rewrite app_nil_r. reflexivity.
Qed.

Lemma compile_quoted_i p : compile_miller (DQ :: p ++ [DQ; "i"%char]) = (true, p).
Proof.
  unfold compile_miller.
  assert (L : (List.length (DQ :: p ++ [DQ; "i"%char]) <? 2) = false).
  { apply Nat.ltb_ge. cbn [List.length]. rewrite app_length. cbn [List.length]. lia. }
  rewrite L. unfold first_is, last_is, ends_with2. cbn [rev]. rewrite rev_app_distr. cbn [rev app].
  rewrite !Ascii.eqb_refl. cbn [andb].
  replace (Ascii.eqb DQ "i"%char) with false by reflexivity.
  replace (Ascii.eqb SL DQ) with false by reflexivity. cbn [andb].
  unfold mid. cbn [skipn List.length]. rewrite app_length. cbn [List.length].
  replace (S (List.length p + 2) - 1 - 2) with (List.length p) by lia.
  rewrite firstn_app, Nat.sub_diag, firstn_all. cbn [firstn]. rewrite app_nil_r. reflexivity.
Qed.
