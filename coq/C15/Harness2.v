(* C15 correspondence harness, second part: codecs, digests, printf-style formatting, wrapper verbs.
   Falls back to C15.Harness.chk for the kinds defined there. *)
From Miller Require Import Base.Bytes C15.Model C15.Harness C15.ModelCodec C15.ModelHash C15.ModelFmt C15.ModelVerbs.
Open Scope Z_scope.

Definition opt_chk (r : option bytes) (a : Z) (o : bytes) : bool :=
  match r with Some x => (a =? 0) && beqb x o | None => a =? 1 end.

Definition numv_of (a b : Z) : numv := if b =? 0 then VInt a else VFloat a.
Definition fres_chk (r : fres) (s3 o : bytes) : bool :=
  match r with
  | FOut x => beqb s3 [] && beqb x o
  | FError => beqb s3 (B "E")
  | FUnmodelled => false
  end.

(* records travel as fields joined by 0x1e, key and value by 0x1f *)
Definition RS : bytes := bs [30]%N.
Definition US : bytes := bs [31]%N.
Definition dec_record (s : bytes) : record :=
  map (fun f => match splitax f US with [k; v] => (k, v) | [k] => (k, []) | _ => (f, []) end) (splitax s RS).
Fixpoint rec_eqb (a b : record) : bool :=
  match a, b with
  | [], [] => true
  | (k, v) :: a', (k', v') :: b' => beqb k k' && beqb v v' && rec_eqb a' b'
  | _, _ => false
  end.
(* s2 = names (comma separated; "*" = all) RS pat RS rep *)
Definition verb_of (id : Z) (s2 : bytes) : option verb :=
  match splitax s2 RS with
  | [n; p; r] =>
      let names := if beqb n (B "*") then None else Some (splitax n (B ",")) in
      let nl := match names with Some l => l | None => [] end in
      if id =? 0 then Some (VSsub names p r)
      else if id =? 2 then Some (VCaseUpper nl) else if id =? 3 then Some (VCaseLower nl)
      else if id =? 4 then Some VLatin1ToUtf8 else if id =? 5 then Some VUtf8ToLatin1 else None
  | _ => None
  end.

Definition chk2 (c : Z * Z * Z * bytes * bytes * bytes * bytes) : bool :=
  let '(k, a, b, s1, s2, s3, o) := c in
  match k with
  | 30 => beqb (b64_encode s1) o
  | 31 => opt_chk (b64_decode s1) a o
  | 32 => beqb (latin1_to_utf8 s1) o
  | 33 => opt_chk (utf8_to_latin1 s1) a o
  | 40 => beqb (md5 s1) o
  | 41 => beqb (sha1 s1) o
  | 42 => beqb (sha256 s1) o
  | 43 => beqb (sha512 s1) o
  | 50 => fres_chk (fmtnum (numv_of a b) s2 s1) s3 o
  | 51 => fres_chk (fmtifnum (numv_of a b) s2 s1) s3 o
  | 52 => beqb (hexfmt (numv_of a b) s2) o
  | 60 => match verb_of a s2 with Some v => rec_eqb (run_verb v (dec_record s1)) (dec_record o) | None => false end
  | _ => chk c
  end.
