(* C15 correspondence harness, second part: codecs, digests, printf-style formatting, wrapper verbs.
   Falls back to C15.Harness.chk for the kinds defined there. *)
From Miller Require Import Base.Bytes C15.Model C15.Harness C15.ModelCodec C15.ModelHash C15.ModelFmt.
Open Scope Z_scope.

Definition opt_chk (r : option bytes) (a : Z) (o : bytes) : bool :=
  match r with Some x => (a =? 0) && beqb x o | None => a =? 1 end.

Definition numv_of (a b : Z) : numv := if b =? 0 then VInt a else VFloat a.
Definition fres_chk (r : fres) (s3 o : bytes) : bool :=
  match r with
  | FOut x => beqb s3 [] && beqb x o
  | FError => beqb s3 (B "E")
  | FUnmodelled => false
  end.

Definition chk2 (c : Z * Z * Z * bytes * bytes * bytes * bytes) : bool :=
  let '(k, a, b, s1, s2, s3, o) := c in
  match k with
  | 30 => beqb (b64_encode s1) o
  | 31 => opt_chk (b64_decode s1) a o
  | 32 => beqb (latin1_to_utf8 s1) o
  | 33 => opt_chk (utf8_to_latin1 s1) a o
  | 40 => beqb (md5 s1) o
  | 41 => beqb (sha1 s1) o
  | 42 => beqb (sha256 s1) o
  | 43 => beqb (sha512 s1) o
  | 50 => fres_chk (fmtnum (numv_of a b) s2 s1) s3 o
  | 51 => fres_chk (fmtifnum (numv_of a b) s2 s1) s3 o
  | 52 => beqb (hexfmt (numv_of a b) s2) o
  | _ => chk c
  end.
