(* C15 lemmas *)
From Miller Require Import Base.Bytes C15.Model.
Open Scope char_scope.

(* ---- hex *)
Lemma hexval_hexdig n : (n < 16)%N -> hexval (hexdig n) = Some n.
Proof.
  intros H.
  assert (C : (n = 0 \/ n = 1 \/ n = 2 \/ n = 3 \/ n = 4 \/ n = 5 \/ n = 6 \/ n = 7 \/ n = 8 \/ n = 9 \/ n = 10 \/ n = 11 \/
               n = 12 \/ n = 13 \/ n = 14 \/ n = 15)%N) by lia.
  repeat (destruct C as [->|C]; [reflexivity|]). subst. reflexivity.
Qed.

Lemma code_lt c : (code c < 256)%N.
Proof. unfold code. apply N_ascii_bounded. Qed.

Lemma hex_decode_encode s : hex_decode (hex_encode s) = Some s.
Proof.
  induction s as [|c t IH]; cbn [hex_encode hex_decode]; [reflexivity|].
  pose proof (code_lt c) as Hc.
  rewrite !hexval_hexdig.
  - rewrite IH. f_equal. f_equal.
    replace (code c / 16 * 16 + code c mod 16)%N with (code c) by (pose proof (N.div_mod (code c) 16 ltac:(lia)); lia).
    unfold code. apply ascii_N_embedding.
  - apply N.mod_lt. lia.
  - apply N.div_lt_upper_bound; lia.
Qed.

Lemma hex_encode_length s : List.length (hex_encode s) = (2 * List.length s)%nat.
Proof. induction s as [|c t IH]; cbn [hex_encode List.length]; lia. Qed.

(* ---- case mapping on ASCII *)
Lemma lo_up_c c : lo_c (up_c c) = lo_c c.
Proof. destruct c as [[] [] [] [] [] [] [] []]; reflexivity. Qed.
Lemma up_lo_c c : up_c (lo_c c) = up_c c.
Proof. destruct c as [[] [] [] [] [] [] [] []]; reflexivity. Qed.
Lemma up_up_c c : up_c (up_c c) = up_c c.
Proof. destruct c as [[] [] [] [] [] [] [] []]; reflexivity. Qed.
Lemma up_c_letter c : in_range "a" "z" c = true -> lo_c (up_c c) = c.
Proof. destruct c as [[] [] [] [] [] [] [] []]; cbn; intros H; try discriminate H; reflexivity. Qed.
Lemma lo_c_letter c : in_range "A" "Z" c = true -> up_c (lo_c c) = c.
Proof. destruct c as [[] [] [] [] [] [] [] []]; cbn; intros H; try discriminate H; reflexivity. Qed.
Lemma up_c_nonletter c : in_range "a" "z" c = false -> up_c c = c.
Proof. unfold up_c. now intros ->. Qed.

Lemma tolower_toupper s : tolower (toupper s) = tolower s.
Proof. unfold tolower, toupper. rewrite map_map. apply map_ext. apply lo_up_c. Qed.
Lemma toupper_tolower s : toupper (tolower s) = toupper s.
Proof. unfold tolower, toupper. rewrite map_map. apply map_ext. apply up_lo_c. Qed.
Lemma toupper_idem s : toupper (toupper s) = toupper s.
Proof. unfold toupper. rewrite map_map. apply map_ext. apply up_up_c. Qed.
Lemma tolower_toupper_lower s : forallb (fun c => negb (in_range "A" "Z" c)) s = true -> tolower (toupper s) = s.
Proof.
  intros H. rewrite tolower_toupper. unfold tolower. induction s as [|c t IH]; cbn [map forallb] in *; [reflexivity|].
  apply andb_true_iff in H. destruct H as [Hc Ht]. rewrite (IH Ht). f_equal. unfold lo_c.
  apply negb_true_iff in Hc. now rewrite Hc.
Qed.
Lemma toupper_length s : List.length (toupper s) = List.length s.
Proof. apply map_length. Qed.

(* ---- slices *)
Open Scope Z_scope.
Lemma unalias_pos n m : 1 <= m -> unalias n m = m - 1.
Proof. intros H. unfold unalias. destruct (Z.leb_spec 1 m); [reflexivity|lia]. Qed.
Lemma unalias_neg n m : m <= -1 -> unalias n m = m + n.
Proof. intros H. unfold unalias. destruct (Z.leb_spec 1 m); [lia|]. destruct (Z.leb_spec m (-1)); [reflexivity|lia]. Qed.

Ltac ltb_step a b := destruct (Z.ltb_spec a b); try lia.

Lemma slice_access_in_range n m k :
  1 <= m -> m <= k -> k <= n -> slice_access n m k false = Some (m - 1, k - 1).
Proof.
  intros H1 H2 H3. unfold slice_access. cbn [andb]. cbv zeta. rewrite !unalias_pos by lia.
  ltb_step (m - 1) 0. ltb_step (n - 1) (k - 1).
  repeat match goal with |- context [?a <? ?b] => destruct (Z.ltb_spec a b); try lia end; reflexivity.
Qed.

Lemma slice_access_negative_alias n m k :
  1 <= m -> m <= k -> k <= n -> slice_access n (m - n - 1) (k - n - 1) false = Some (m - 1, k - 1).
Proof.
  intros H1 H2 H3. unfold slice_access. cbn [andb]. cbv zeta. rewrite !unalias_neg by lia.
  replace (m - n - 1 + n) with (m - 1) by lia. replace (k - n - 1 + n) with (k - 1) by lia.
  ltb_step (m - 1) 0. ltb_step (n - 1) (k - 1).
  repeat match goal with |- context [?a <? ?b] => destruct (Z.ltb_spec a b); try lia end; reflexivity.
Qed.

Lemma slice_access_clamps_high n m k :
  1 <= m -> m <= n -> n < k -> slice_access n m k false = Some (m - 1, n - 1).
Proof.
  intros H1 H2 H3. unfold slice_access. cbn [andb]. cbv zeta. rewrite !unalias_pos by lia.
  ltb_step (m - 1) 0. ltb_step (n - 1) (k - 1).
  repeat match goal with |- context [?a <? ?b] => destruct (Z.ltb_spec a b); try lia end; reflexivity.
Qed.

Lemma slice_access_zero_up n m k : 0 <= m -> 0 <= k -> slice_access n m k true = slice_access n (m + 1) (k + 1) false.
Proof.
  intros H1 H2. unfold slice_access. cbn [andb].
  destruct (0 <=? m) eqn:E1; [|apply Z.leb_gt in E1; lia]. destruct (0 <=? k) eqn:E2; [|apply Z.leb_gt in E2; lia]. reflexivity.
Qed.

Lemma slice_runes_spec rs m k :
  1 <= m -> m <= k -> k <= Z.of_nat (List.length rs) ->
  slice_runes rs m k false = firstn (Z.to_nat (k - m + 1)) (skipn (Z.to_nat (m - 1)) rs)
  /\ List.length (slice_runes rs m k false) = Z.to_nat (k - m + 1).
Proof.
  intros H1 H2 H3. unfold slice_runes. rewrite slice_access_in_range by lia.
  replace (k - 1 - (m - 1) + 1) with (k - m + 1) by lia. split; [reflexivity|].
  rewrite firstn_length, skipn_length. lia.
Qed.

(* ---- literal search *)
Lemma prefixb_spec p s : prefixb p s = true -> s = p ++ skipn (List.length p) s.
Proof.
  revert s; induction p as [|c p IH]; intros s H; [reflexivity|].
  destruct s as [|d s]; cbn in H; [discriminate|]. apply andb_true_iff in H. destruct H as [H1 H2].
  apply Ascii.eqb_eq in H1. subst d. cbn. f_equal. now apply IH.
Qed.

Lemma find_lit_spec pat s a b : find_lit pat s = Some (a, b) -> s = a ++ pat ++ b.
Proof.
  revert a b; induction s as [|c t IH]; intros a b H; cbn [find_lit] in H.
  - destruct (prefixb pat []) eqn:E; [|discriminate]. inversion H; subst. now apply prefixb_spec in E.
  - destruct (prefixb pat (c :: t)) eqn:E.
    + inversion H; subst. now apply prefixb_spec in E.
    + destruct (find_lit pat t) as [[a' b']|] eqn:F; [|discriminate]. inversion H; subst. cbn. f_equal. now apply IH.
Qed.

Lemma find_lit_shorter pat s a b : pat <> [] -> find_lit pat s = Some (a, b) -> (List.length b < List.length s)%nat.
Proof.
  intros Hp H. apply find_lit_spec in H. subst s. rewrite !app_length. destruct pat; [congruence|]. cbn. lia.
Qed.

(* ---- split / join *)
Lemma joinv_cons x l sep : l <> [] -> joinv (x :: l) sep = x ++ sep ++ joinv l sep.
Proof. destruct l; [congruence|reflexivity]. Qed.

Lemma split_fuel_nonempty f s sep : split_fuel f s sep <> [].
Proof. destruct f; cbn; [congruence|]. destruct (find_lit sep s) as [[a b]|]; congruence. Qed.

Lemma join_split_fuel f s sep : joinv (split_fuel f s sep) sep = s.
Proof.
  revert s; induction f as [|f IH]; intros s; cbn [split_fuel]; [reflexivity|].
  destruct (find_lit sep s) as [[a b]|] eqn:F; [|reflexivity].
  rewrite joinv_cons by apply split_fuel_nonempty. rewrite IH. symmetry. now apply find_lit_spec.
Qed.

Lemma join_split s sep : joinv (splitax s sep) sep = s.
Proof. unfold splitax. destruct s; [reflexivity|]. apply join_split_fuel. Qed.

(* single-byte separator: search facts *)
Lemma find_lit1_none c x : forallb (fun d => negb (Ascii.eqb c d)) x = true -> find_lit [c] x = None.
Proof.
  induction x as [|d x IH]; intros H; cbn [find_lit prefixb]; [reflexivity|].
  cbn [forallb] in H. apply andb_true_iff in H. destruct H as [H1 H2]. apply negb_true_iff in H1. rewrite H1. cbn [andb].
  now rewrite (IH H2).
Qed.

Lemma find_lit1_first c x rest :
  forallb (fun d => negb (Ascii.eqb c d)) x = true -> find_lit [c] (x ++ c :: rest) = Some (x, rest).
Proof.
  induction x as [|d x IH]; intros H.
  - cbn [app find_lit prefixb]. rewrite Ascii.eqb_refl. reflexivity.
  - cbn [forallb] in H. apply andb_true_iff in H. destruct H as [H1 H2]. apply negb_true_iff in H1.
    cbn [app find_lit prefixb]. rewrite H1. cbn [andb]. now rewrite (IH H2).
Qed.

Lemma split_join_fuel c l : l <> [] ->
  Forall (fun x => forallb (fun d => negb (Ascii.eqb c d)) x = true) l ->
  forall f, (List.length (joinv l [c]) < f)%nat -> split_fuel f (joinv l [c]) [c] = l.
Proof.
  induction l as [|x l IH]; intros Hne Hall f Hf; [congruence|].
  inversion Hall as [|? ? Hx Hl]; subst.
  destruct l as [|y l'].
  - cbn [joinv] in *. destruct f; [lia|]. cbn [split_fuel]. now rewrite find_lit1_none.
  - rewrite joinv_cons in * by congruence. destruct f; [lia|]. cbn [split_fuel].
    change ([c] ++ joinv (y :: l') [c]) with (c :: joinv (y :: l') [c]) in *.
    rewrite find_lit1_first by exact Hx. f_equal. apply IH; [congruence|exact Hl|].
    rewrite app_length in Hf. cbn [List.length] in Hf. lia.
Qed.

Lemma split_join c l :
  Forall (fun x => forallb (fun d => negb (Ascii.eqb c d)) x = true) l ->
  joinv l [c] <> [] -> splitax (joinv l [c]) [c] = l.
Proof.
  intros Hall Hne. unfold splitax. destruct (joinv l [c]) eqn:E; [congruence|]. rewrite <- E.
  assert (l <> []) by (intros ->; discriminate E).
  apply split_join_fuel; auto; rewrite E; cbn; lia.
Qed.

(* ---- ssub / gssub *)
Lemma ssub_no_match s pat rep : pat <> [] -> find_lit pat s = None -> ssub s pat rep = s.
Proof. intros Hp H. unfold ssub. destruct pat; [congruence|]. now rewrite H. Qed.

Lemma ssub_first_occurrence s pat rep a b :
  pat <> [] -> find_lit pat s = Some (a, b) -> s = a ++ pat ++ b /\ ssub s pat rep = a ++ rep ++ b.
Proof.
  intros Hp H. split; [now apply find_lit_spec|]. unfold ssub. destruct pat; [congruence|]. now rewrite H.
Qed.

Lemma gssub_no_match s pat rep : find_lit pat s = None -> gssub s pat rep = s.
Proof. intros H. unfold gssub. cbn [gssub_fuel]. now rewrite H. Qed.

(* gssub with the pattern as replacement is the identity: nothing but occurrences of the pattern is touched *)
Lemma gssub_fuel_same f s pat : gssub_fuel f s pat pat = s.
Proof.
  revert s; induction f as [|f IH]; intros s; cbn [gssub_fuel]; [reflexivity|].
  destruct (find_lit pat s) as [[a b]|] eqn:F; [|reflexivity]. rewrite IH. symmetry. now apply find_lit_spec.
Qed.
Lemma gssub_same s pat : gssub s pat pat = s.
Proof. apply gssub_fuel_same. Qed.

(* ---- strlen on ASCII *)
Lemma runes_ascii s : forallb (fun c => (code c <? 128)%N) s = true -> runes s = map code s.
Proof.
  induction s as [|c t IH]; intros H; [reflexivity|]. cbn [forallb] in H. apply andb_true_iff in H. destruct H as [H1 H2].
  cbn [runes map]. unfold bn. rewrite H1. f_equal. now apply IH.
Qed.

Lemma strlen_ascii_app a b :
  forallb (fun c => (code c <? 128)%N) a = true -> strlen (a ++ b) = strlen a + strlen b.
Proof.
  intros H. unfold strlen. induction a as [|c t IH]; [cbn; lia|].
  cbn [forallb] in H. apply andb_true_iff in H. destruct H as [H1 H2].
  cbn [app runes]. unfold bn. rewrite H1. cbn [List.length]. specialize (IH H2). lia.
Qed.
