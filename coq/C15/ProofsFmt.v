(* C15 lemmas: printf-style formatting model *)
From Miller Require Import Base.Bytes C15.Model C15.Proofs C15.ModelFmt.
From Coq Require Import ZifyBool ZifyN ZifyNat.
Open Scope char_scope.
Open Scope N_scope.

(* ---- positional digits: value (digits b u) = u *)
Definition value (b : N) (l : list N) : N := fold_left (fun a d => a * b + d) l 0.

Lemma digs_value b f : 2 <= b -> forall u acc, u < 2 ^ N.of_nat f ->
  fold_left (fun a d => a * b + d) (digs f b u acc) 0 = fold_left (fun a d => a * b + d) acc u.
Proof.
  intros Hb. induction f as [|f IH]; intros u acc Hu.
  - cbn [digs]. change (2 ^ N.of_nat 0) with 1 in Hu. now replace u with 0 by lia.
  - cbn [digs]. destruct (u <? b) eqn:E.
    + cbn [fold_left]. now rewrite N.mul_0_l, N.add_0_l.
    + rewrite IH.
      * cbn [fold_left]. f_equal. rewrite N.mul_comm. symmetry. apply N.div_mod. lia.
      * rewrite Nat2N.inj_succ, N.pow_succ_r' in Hu.
        apply N.div_lt_upper_bound; [lia|]. apply N.lt_le_trans with (2 * 2 ^ N.of_nat f); [exact Hu|].
        apply N.mul_le_mono_r. exact Hb.
Qed.

Lemma lt_pow2_log2 u : u < 2 ^ N.of_nat (S (N.to_nat (N.log2 u))).
Proof.
  rewrite Nat2N.inj_succ, N2Nat.id. destruct (N.eq_dec u 0) as [->|Hne]; [reflexivity|].
  apply N.log2_spec. lia.
Qed.

Lemma digits_value b u : 2 <= b -> value b (digits b u) = u.
Proof.
  intros Hb. unfold value, digits. rewrite (digs_value b _ Hb u [] (lt_pow2_log2 u)). reflexivity.
Qed.

Lemma digs_lt b f : 2 <= b -> forall u acc, Forall (fun d => d < b) acc -> Forall (fun d => d < b) (digs f b u acc).
Proof.
  intros Hb. induction f as [|f IH]; intros u acc Ha; cbn [digs]; [exact Ha|].
  destruct (u <? b) eqn:E.
  - constructor; [lia|exact Ha].
  - apply IH. constructor; [apply N.mod_lt; lia|exact Ha].
Qed.
Lemma digits_lt b u : 2 <= b -> Forall (fun d => d < b) (digits b u).
Proof. intros Hb. apply digs_lt; [exact Hb|constructor]. Qed.

Lemma digs_nonempty b f u acc : digs (S f) b u acc <> [].
Proof.
  revert u acc. induction f as [|f IH]; intros u acc; cbn [digs].
  - destruct (u <? b); [discriminate|]. cbn [digs]. discriminate.
  - destruct (u <? b); [discriminate|]. apply IH.
Qed.
Lemma digits_nonempty b u : digits b u <> [].
Proof. apply digs_nonempty. Qed.

(* ---- reading digit characters back (either case) *)
Definition dval (c : ascii) : option N :=
  if in_range "0" "9" c then Some (code c - 48)
  else if in_range "a" "f" c then Some (code c - 87)
  else if in_range "A" "F" c then Some (code c - 55) else None.
Fixpoint parse_base (b : N) (s : bytes) (acc : N) : option N :=
  match s with
  | [] => Some acc
  | c :: t => match dval c with Some d => if d <? b then parse_base b t (acc * b + d) else None | None => None end
  end.

Lemma dval_dchar up d : d < 16 -> dval (dchar up d) = Some d.
Proof.
  intros H.
  assert (C : (d = 0 \/ d = 1 \/ d = 2 \/ d = 3 \/ d = 4 \/ d = 5 \/ d = 6 \/ d = 7 \/ d = 8 \/ d = 9 \/ d = 10 \/ d = 11 \/
               d = 12 \/ d = 13 \/ d = 14 \/ d = 15)%N) by lia.
  destruct up; repeat (destruct C as [->|C]; [reflexivity|]); subst; reflexivity.
Qed.

Lemma parse_base_digits b up l : b <= 16 -> Forall (fun d => d < b) l ->
  forall acc, parse_base b (map (dchar up) l) acc = Some (fold_left (fun a d => a * b + d) l acc).
Proof.
  intros Hb Hl. induction Hl as [|d l Hd _ IH]; intros acc; [reflexivity|].
  cbn [map parse_base fold_left]. rewrite dval_dchar by lia. replace (d <? b) with true by lia. apply IH.
Qed.

(* the digit text of any u in a base 2..16 reads back as u *)
Lemma parse_digits_text b up u : 2 <= b -> b <= 16 -> parse_base b (digits_text b up u) 0 = Some u.
Proof.
  intros H2 H16. unfold digits_text. rewrite (parse_base_digits b up _ H16 (digits_lt b u H2)).
  f_equal. exact (digits_value b u H2).
Qed.

(* ---- signed decimal text *)
Definition parse_signed_dec (s : bytes) : option Z :=
  match s with
  | "-" :: t => match t with [] => None | _ => match parse_base 10 t 0 with Some u => Some (- Z.of_N u)%Z | None => None end end
  | [] => None
  | _ => match parse_base 10 s 0 with Some u => Some (Z.of_N u) | None => None end
  end.

Lemma dchar_not_minus up d : d < 16 -> Ascii.eqb (dchar up d) "-" = false.
Proof.
  intros H.
  assert (C : (d = 0 \/ d = 1 \/ d = 2 \/ d = 3 \/ d = 4 \/ d = 5 \/ d = 6 \/ d = 7 \/ d = 8 \/ d = 9 \/ d = 10 \/ d = 11 \/
               d = 12 \/ d = 13 \/ d = 14 \/ d = 15)%N) by lia.
  destruct up; repeat (destruct C as [->|C]; [reflexivity|]); subst; reflexivity.
Qed.

Definition plain (v : ascii) : spec :=
  {| pre := []; fminus := false; fplus := false; fsharp := false; fspace := false; fzero := false;
     fwid := None; fprec := None; verb := v; post := [] |}.

Lemma parse_plain_d : parse_format (B "%d") = Some (plain "d").
Proof. reflexivity. Qed.
Lemma parse_plain_x : parse_format (B "%x") = Some (plain "x").
Proof. reflexivity. Qed.

Lemma fmt_integer_plain v z base up :
  fmt_integer (plain v) z base up = (if (z <? 0)%Z then ["-"] else []) ++ digits_text base up (Z.abs_N z).
Proof.
  unfold fmt_integer. cbn [fprec plain]. unfold int_body. cbn [fprec plain fzero fminus fsharp fplus fspace andb fwid pad_gen].
  unfold zeros. replace (Z.to_nat (0 - blen (digits_text base up (Z.abs_N z)))) with 0%nat by (unfold blen; lia).
  cbn [repeat app]. now destruct (z <? 0)%Z.
Qed.

(* fmtnum(z, "%d") is the signed decimal text and reads back as z: all integers *)
Lemma fmtnum_d_text z txt :
  fmtnum (VInt z) txt (B "%d") = FOut ((if (z <? 0)%Z then ["-"] else []) ++ dec (Z.abs_N z)).
Proof.
  unfold fmtnum. change (count_pct (B "%d")) with 1%nat. cbn [Nat.eqb negb].
  change (translate (B "%d")) with (B "%d"). rewrite parse_plain_d. change (formatter_kind (B "%d")) with KInt.
  cbv iota. unfold sprintf_int. cbn [verb plain pre post]. change (Ascii.eqb "d" "d") with true. cbv iota.
  rewrite fmt_integer_plain. cbn [app of_opt]. now rewrite app_nil_r.
Qed.

Lemma parse_signed_dec_text z :
  parse_signed_dec ((if (z <? 0)%Z then ["-"] else []) ++ dec (Z.abs_N z)) = Some z.
Proof.
  unfold dec. pose proof (parse_digits_text 10 false (Z.abs_N z)) as P.
  assert (H2 : 2 <= 10) by lia. assert (H16 : 10 <= 16) by lia. specialize (P H2 H16).
  destruct (z <? 0)%Z eqn:E.
  - cbn [app parse_signed_dec]. unfold digits_text in *.
    destruct (digits 10 (Z.abs_N z)) as [|d l] eqn:D; [now apply digits_nonempty in D|].
    cbn [map] in *. rewrite P. f_equal. lia.
  - cbn [app]. unfold digits_text in *. pose proof (digits_lt 10 (Z.abs_N z) H2) as L.
    destruct (digits 10 (Z.abs_N z)) as [|d l] eqn:D; [now apply digits_nonempty in D|].
    inversion L as [|? ? Hd _]; subst. cbn [map] in *. unfold parse_signed_dec.
    pose proof (dchar_not_minus false d) as M. specialize (M ltac:(lia)).
    destruct (dchar false d) as [b0 b1 b2 b3 b4 b5 b6 b7] eqn:C.
    destruct b0, b1, b2, b3, b4, b5, b6, b7; try discriminate M; rewrite P; f_equal; lia.
Qed.

Lemma fmtnum_x_text z txt : (0 <= z)%Z ->
  fmtnum (VInt z) txt (B "%x") = FOut (digits_text 16 false (Z.to_N z)).
Proof.
  intros Hz. unfold fmtnum. change (count_pct (B "%x")) with 1%nat. cbn [Nat.eqb negb].
  change (translate (B "%x")) with (B "%x"). rewrite parse_plain_x. change (formatter_kind (B "%x")) with KInt.
  cbv iota. unfold sprintf_int. cbn [verb plain pre post]. change (Ascii.eqb "x" "d") with false. change (Ascii.eqb "x" "x") with true.
  cbv iota. rewrite fmt_integer_plain. replace (z <? 0)%Z with false by lia. cbn [app of_opt]. rewrite app_nil_r.
  now replace (Z.abs_N z) with (Z.to_N z) by lia.
Qed.

(* ---- width and padding laws *)
Lemma pad_gen_length w minus zero s :
  blen (pad_gen (Some w) minus zero (blen s) s) = Z.max (Z.of_N w) (blen s).
Proof.
  unfold pad_gen. destruct (w =? 0) eqn:E; [unfold blen; lia|].
  destruct minus; unfold blen; rewrite app_length, repeat_length; lia.
Qed.

Lemma pad_gen_shape w minus zero s :
  exists k, k = Z.to_nat (Z.of_N w - blen s) /\
  pad_gen (Some w) minus zero (blen s) s =
    if minus then s ++ repeat " " k else repeat (if zero then "0" else " ") k ++ s.
Proof.
  exists (Z.to_nat (Z.of_N w - blen s)). split; [reflexivity|]. unfold pad_gen.
  destruct (w =? 0) eqn:E; [|reflexivity].
  replace (Z.to_nat (Z.of_N w - blen s)) with 0%nat by (unfold blen; lia). cbn [repeat app].
  destruct minus; [now rewrite app_nil_r|reflexivity].
Qed.

Lemma pad_gen_none minus zero len s : pad_gen None minus zero len s = s.
Proof. reflexivity. Qed.

(* an integer directive with a width: the result is as long as max(width, natural length), where the natural text
   (sign, prefix, zeros, digits) is int_body; nothing but blanks is added around it *)
Lemma fmt_integer_width sp z base up w :
  fwid sp = Some w -> (fprec sp = Some 0 -> z <> 0%Z) ->
  let b := int_body sp (z <? 0)%Z (Z.abs_N z) base up in
  blen (fmt_integer sp z base up) = Z.max (Z.of_N w) (blen b)
  /\ fmt_integer sp z base up = (if fminus sp then b ++ repeat " " (Z.to_nat (Z.of_N w - blen b)) else repeat " " (Z.to_nat (Z.of_N w - blen b)) ++ b).
Proof.
  intros Hw Hp b.
  assert (E : fmt_integer sp z base up = pad_gen (fwid sp) (fminus sp) false (blen b) b).
  { unfold fmt_integer. fold b. destruct (fprec sp) as [[|p]|]; try reflexivity. destruct (Z.abs_N z =? 0) eqn:E0; [|reflexivity].
    exfalso. apply Hp; [reflexivity|lia]. }
  rewrite E, Hw. split; [apply pad_gen_length|].
  destruct (pad_gen_shape w (fminus sp) false b) as [k [-> ->]]. reflexivity.
Qed.

(* %0Nd: zero flag, no minus, width, no precision, no '#': sign, then zeros up to the width, then the digits *)
Lemma int_body_zero_padding (sp : spec) (negative : bool) (u base : N) (up : bool) (w : N) :
  fwid sp = Some w -> fprec sp = None -> fzero sp = true -> fminus sp = false -> fsharp sp = false ->
  let ds := digits_text base up u in
  let sg := if negative then ["-"] else if fplus sp then ["+"] else if fspace sp then [" "] else [] in
  int_body sp negative u base up = sg ++ zeros (Z.of_N w - blen sg - blen ds) ++ ds
  /\ blen (int_body sp negative u base up) = Z.max (Z.of_N w) (blen sg + blen ds).
Proof.
  intros Hw Hp Hz Hm Hs ds sg. unfold int_body. rewrite Hp, Hz, Hm, Hs. unfold wid_present, wid_of. rewrite Hw.
  cbn [andb negb]. fold ds.
  assert (L : blen sg = if negative || fplus sp || fspace sp then 1%Z else 0%Z).
  { subst sg. destruct negative, (fplus sp), (fspace sp); reflexivity. }
  replace (Z.of_N w - (if negative || fplus sp || fspace sp then 1 else 0) - blen ds)%Z with (Z.of_N w - blen sg - blen ds)%Z by lia.
  split.
  - subst sg. destruct negative; [reflexivity|]. destruct (fplus sp); [reflexivity|]. destruct (fspace sp); reflexivity.
  - assert (K : blen (zeros (Z.of_N w - blen sg - blen ds) ++ ds) = Z.max (Z.of_N w - blen sg) (blen ds)).
    { unfold blen, zeros. rewrite app_length, repeat_length. unfold blen. lia. }
    destruct negative; [|destruct (fplus sp); [|destruct (fspace sp)]]; subst sg; cbn [orb] in L; unfold blen in *; cbn [List.length app] in *; lia.
Qed.

(* ---- exact rounding *)
Lemma round_div_nearest a b : 0 < b ->
  (2 * Z.abs (Z.of_N (round_div a b) * Z.of_N b - Z.of_N a) <= Z.of_N b)%Z.
Proof.
  intros Hb. unfold round_div.
  pose proof (N.div_mod a b ltac:(lia)) as D. pose proof (N.mod_lt a b ltac:(lia)) as R.
  set (q := a / b) in *. set (r := a mod b) in *.
  destruct ((b <? 2 * r) || ((2 * r =? b) && N.odd q)) eqn:E; nia.
Qed.

Lemma round_div_ties_even a b : 0 < b -> 2 * (a mod b) = b -> N.even (round_div a b) = true.
Proof.
  intros Hb T. unfold round_div. replace (b <? 2 * (a mod b)) with false by lia. replace (2 * (a mod b) =? b) with true by lia.
  cbn [orb andb]. destruct (N.odd (a / b)) eqn:O.
  - rewrite N.add_1_r, N.even_succ. exact O.
  - rewrite <- N.negb_odd. now rewrite O.
Qed.

Lemma round_div_exact a b : 0 < b -> a mod b = 0 -> round_div a b = a / b.
Proof.
  intros Hb E. unfold round_div. rewrite E. replace (b <? 2 * 0) with false by lia. replace (2 * 0 =? b) with false by lia. reflexivity.
Qed.

(* %.pf: the digits are the nearest integer to value * 10^p (|q - value*10^p| <= 1/2, cross-multiplied by den) *)
Lemma fixed_q_correctly_rounded p num den : 0 < den ->
  (2 * Z.abs (Z.of_N (fixed_q p num den) * Z.of_N den - Z.of_N num * 10 ^ Z.of_N p) <= Z.of_N den)%Z.
Proof.
  intros Hd. unfold fixed_q. pose proof (round_div_nearest (num * 10 ^ p) den Hd) as H.
  rewrite N2Z.inj_mul, N2Z.inj_pow in H. exact H.
Qed.

(* the decoded fraction of a finite binary64 always has a positive denominator *)
Lemma decode_bits_den bits neg num den : decode_bits bits = Some (neg, num, den) -> 0 < den.
Proof.
  unfold decode_bits. destruct (_ =? 2047); [discriminate|].
  assert (P : forall k, 0 < 2 ^ k) by (intros k; apply N.neq_0_lt_0, N.pow_nonzero; discriminate).
  destruct (_ =? 0); cbv zeta beta iota.
  - change (0 <=? -1074)%Z with false. cbv iota. intros H. injection H as _ _ H3. rewrite <- H3. first [apply P | reflexivity].
  - match goal with |- context [(0 <=? ?e)%Z] => destruct (0 <=? e)%Z end; intros H; inversion H; [lia|apply P].
Qed.

Lemma fmtnum_d_roundtrip z txt : exists t, fmtnum (VInt z) txt (B "%d") = FOut t /\ parse_signed_dec t = Some z.
Proof. eexists. split; [apply fmtnum_d_text|apply parse_signed_dec_text]. Qed.

Lemma fmtnum_x_roundtrip z txt : (0 <= z)%Z ->
  exists t, fmtnum (VInt z) txt (B "%x") = FOut t /\ parse_base 16 t 0 = Some (Z.to_N z).
Proof. intros Hz. eexists. split; [now apply fmtnum_x_text|]. apply parse_digits_text; lia. Qed.

(* witnesses of the recorded findings, on the model (the same inputs are probed on mlr by the check) *)
Lemma fmtnum_literal_text_mangled : fmtnum (VInt 17) (B "17") (B "old:%d") = FOut (B "od:17").
Proof. vm_compute. reflexivity. Qed.
Lemma fmtnum_trailing_text : fmtnum (VInt 17) (B "17") (B "%5d|") = FOut (B "%!d(string=   17)|").
Proof. vm_compute. reflexivity. Qed.
Lemma fmtnum_x_negative : fmtnum (VInt (-1)) (B "-1") (B "%x") = FOut (B "-1") /\ hexfmt (VInt (-1)) (B "-1") = B "0xffffffffffffffff".
Proof. vm_compute. split; reflexivity. Qed.
