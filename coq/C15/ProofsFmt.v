(* C15 lemmas: printf-style formatting model *)
From Miller Require Import Base.Bytes C15.Model C15.Proofs C15.ModelFmt.
From Coq Require Import ZifyBool ZifyN ZifyNat.
Open Scope char_scope.
Open Scope N_scope.

(* ---- positional digits: value (digits b u) = u *)
Definition value (b : N) (l : list N) : N := fold_left (fun a d => a * b + d) l 0.

Lemma digs_value b f : 2 <= b -> forall u acc, u < 2 ^ N.of_nat f ->
  fold_left (fun a d => a * b + d) (digs f b u acc) 0 = fold_left (fun a d => a * b + d) acc u.
Proof.
  intros Hb. induction f as [|f IH]; intros u acc Hu.
  - cbn [digs]. change (2 ^ N.of_nat 0) with 1 in Hu. now replace u with 0 by lia.
  - cbn [digs]. destruct (u <? b) eqn:E.
    + cbn [fold_left]. now rewrite N.mul_0_l, N.add_0_l.
    + rewrite IH.
      * cbn [fold_left]. f_equal. rewrite N.mul_comm. symmetry. apply N.div_mod. lia.
      * rewrite Nat2N.inj_succ, N.pow_succ_r' in Hu.
        apply N.div_lt_upper_bound; [lia|]. apply N.lt_le_trans with (2 * 2 ^ N.of_nat f); [exact Hu|].
        apply N.mul_le_mono_r. exact Hb.
Qed.

Lemma lt_pow2_log2 u : u < 2 ^ N.of_nat (S (N.to_nat (N.log2 u))).
Proof.
  rewrite Nat2N.inj_succ, N2Nat.id. destruct (N.eq_dec u 0) as [->|Hne]; [reflexivity|].
  apply N.log2_spec. lia.
Qed.

Lemma digits_value b u : 2 <= b -> value b (digits b u) = u.
Proof.
  intros Hb. unfold value, digits. rewrite (digs_value b _ Hb u [] (lt_pow2_log2 u)). reflexivity.
Qed.

Lemma digs_lt b f : 2 <= b -> forall u acc, Forall (fun d => d < b) acc -> Forall (fun d => d < b) (digs f b u acc).
Proof.
  intros Hb. induction f as [|f IH]; intros u acc Ha; cbn [digs]; [exact Ha|].
  destruct (u <? b) eqn:E.
  - constructor; [lia|exact Ha].
  - apply IH. constructor; [apply N.mod_lt; lia|exact Ha].
Qed.
Lemma digits_lt b u : 2 <= b -> Forall (fun d => d < b) (digits b u).
Proof. intros Hb. apply digs_lt; [exact Hb|constructor]. Qed.

Lemma digs_nonempty b f u acc : digs (S f) b u acc <> [].
Proof.
  revert u acc. induction f as [|f IH]; intros u acc; cbn [digs].
  - destruct (u <? b); [discriminate|]. cbn [digs]. discriminate.
  - destruct (u <? b); [discriminate|]. apply IH.
Qed.
Lemma digits_nonempty b u : digits b u <> [].
Proof. apply digs_nonempty. Qed.

(* ---- reading digit characters back (either case) *)
Definition dval (c : ascii) : option N :=
  if in_range "0" "9" c then Some (code c - 48)
  else if in_range "a" "f" c then Some (code c - 87)
  else if in_range "A" "F" c then Some (code c - 55) else None.
Fixpoint parse_base (b : N) (s : bytes) (acc : N) : option N :=
  match s with
  | [] => Some acc
  | c :: t => match dval c with Some d => if d <? b then parse_base b t (acc * b + d) else None | None => None end
  end.

Lemma dval_dchar up d : d < 16 -> dval (dchar up d) = Some d.
Proof.
  intros H.
  assert (C : (d = 0 \/ d = 1 \/ d = 2 \/ d = 3 \/ d = 4 \/ d = 5 \/ d = 6 \/ d = 7 \/ d = 8 \/ d = 9 \/ d = 10 \/ d = 11 \/
               d = 12 \/ d = 13 \/ d = 14 \/ d = 15)%N) by lia.
  destruct up; repeat (destruct C as [->|C]; [reflexivity|]); subst; reflexivity.
Qed.

Lemma parse_base_digits b up l : b <= 16 -> Forall (fun d => d < b) l ->
  forall acc, parse_base b (map (dchar up) l) acc = Some (fold_left (fun a d => a * b + d) l acc).
Proof.
  intros Hb Hl. induction Hl as [|d l Hd _ IH]; intros acc; [reflexivity|].
  cbn [map parse_base fold_left]. rewrite dval_dchar by lia. replace (d <? b) with true by lia. apply IH.
Qed.

(* the digit text of any u in a base 2..16 reads back as u *)
Lemma parse_digits_text b up u : 2 <= b -> b <= 16 -> parse_base b (digits_text b up u) 0 = Some u.
Proof.
  intros H2 H16. unfold digits_text. rewrite (parse_base_digits b up _ H16 (digits_lt b u H2)).
  f_equal. exact (digits_value b u H2).
Qed.

(* ---- signed decimal text *)
Definition parse_signed_dec (s : bytes) : option Z :=
  match s with
  | "-" :: t => match t with [] => None | _ => match parse_base 10 t 0 with Some u => Some (- Z.of_N u)%Z | None => None end end
  | [] => None
  | _ => match parse_base 10 s 0 with Some u => Some (Z.of_N u) | None => None end
  end.

Lemma dchar_not_minus up d : d < 16 -> Ascii.eqb (dchar up d) "-" = false.
Proof.
  intros H.
  assert (C : (d = 0 \/ d = 1 \/ d = 2 \/ d = 3 \/ d = 4 \/ d = 5 \/ d = 6 \/ d = 7 \/ d = 8 \/ d = 9 \/ d = 10 \/ d = 11 \/
               d = 12 \/ d = 13 \/ d = 14 \/ d = 15)%N) by lia.
  destruct up; repeat (destruct C as [->|C]; [reflexivity|]); subst; reflexivity.
Qed.

Definition plainp (pr : bytes) (v : ascii) (po : bytes) : spec :=
  {| pre := pr; fminus := false; fplus := false; fsharp := false; fspace := false; fzero := false;
     fwid := None; fprec := None; verb := v; post := po |}.
Definition plain (v : ascii) : spec := plainp [] v [].

Lemma parse_plain_d : parse_format (B "%d") = Some (plain "d").
Proof. reflexivity. Qed.
Lemma parse_plain_x : parse_format (B "%x") = Some (plain "x").
Proof. reflexivity. Qed.

Lemma fmt_integer_plain pr po v z base up :
  fmt_integer (plainp pr v po) z base up = (if (z <? 0)%Z then ["-"] else []) ++ digits_text base up (Z.abs_N z).
Proof.
  unfold fmt_integer. cbn [fprec plainp]. unfold int_body. cbn [fprec plainp fzero fminus fsharp fplus fspace andb fwid pad_gen].
  unfold zeros. replace (Z.to_nat (0 - blen (digits_text base up (Z.abs_N z)))) with 0%nat by (unfold blen; lia).
  cbn [repeat app]. now destruct (z <? 0)%Z.
Qed.

(* ---- literal text around the directive: texts free of '%' *)
Definition no_pct (s : bytes) : bool := forallb (fun c => negb (Ascii.eqb c "%")) s.

Lemma split_pct_app pr r : no_pct pr = true -> split_pct (pr ++ "%" :: r) = Some (pr, r).
Proof.
  unfold no_pct. induction pr as [|c t IH]; intros H; [reflexivity|].
  cbn [forallb] in H. apply andb_prop in H. destruct H as [Hc Ht].
  cbn [app split_pct]. destruct (Ascii.eqb c "%"); [discriminate Hc|]. rewrite (IH Ht). reflexivity.
Qed.

Lemma filter_no_pct s : no_pct s = true -> filter (fun c => Ascii.eqb c "%") s = [].
Proof.
  unfold no_pct. induction s as [|c t IH]; intros H; [reflexivity|].
  cbn [forallb] in H. apply andb_prop in H. destruct H as [Hc Ht].
  cbn [filter]. destruct (Ascii.eqb c "%"); [discriminate Hc|]. exact (IH Ht).
Qed.

Lemma count_pct_one pr r : no_pct pr = true -> no_pct r = true -> count_pct (pr ++ "%" :: r) = 1%nat.
Proof.
  intros Hp Hr. unfold count_pct. rewrite filter_app. cbn [filter]. change (Ascii.eqb "%" "%") with true. cbv iota.
  rewrite (filter_no_pct pr Hp), (filter_no_pct r Hr). reflexivity.
Qed.

Lemma split_directive_dx pr v po : no_pct pr = true -> v = "d" \/ v = "x" ->
  split_directive (pr ++ "%" :: v :: po) = Some (pr, [], false, v, po).
Proof. intros H [-> | ->]; unfold split_directive; rewrite (split_pct_app pr _ H); reflexivity. Qed.

Lemma parse_format_dx pr v po : no_pct pr = true -> v = "d" \/ v = "x" ->
  parse_format (pr ++ "%" :: v :: po) = Some (plainp pr v po).
Proof. intros H [-> | ->]; unfold parse_format; rewrite (split_pct_app pr _ H); reflexivity. Qed.

Lemma go_format_dx pr v po : no_pct pr = true -> v = "d" \/ v = "x" ->
  go_format (pr ++ "%" :: v :: po) = (KInt, pr ++ "%" :: v :: po).
Proof. intros H V. unfold go_format. rewrite (split_directive_dx pr v po H V). destruct V as [-> | ->]; reflexivity. Qed.

Definition sdec (z : Z) : bytes := (if (z <? 0)%Z then ["-"] else []) ++ dec (Z.abs_N z).

(* fmtnum(z, pr ++ "%d" ++ po) = pr ++ signed decimal text ++ po: all integers, all texts free of '%' *)
Lemma fmtnum_d_literal z txt pr po : no_pct pr = true -> no_pct po = true ->
  fmtnum (VInt z) txt (pr ++ "%" :: "d" :: po) = FOut (pr ++ sdec z ++ po).
Proof.
  intros Hp Ho. unfold fmtnum.
  assert (Hd : no_pct ("d" :: po) = true) by exact Ho.
  rewrite (count_pct_one pr ("d" :: po) Hp Hd). cbn [Nat.eqb negb].
  rewrite (go_format_dx pr "d" po Hp (or_introl eq_refl)). cbv beta iota.
  rewrite (parse_format_dx pr "d" po Hp (or_introl eq_refl)). cbv beta iota.
  unfold sprintf_int. cbn [verb plainp pre post]. change (Ascii.eqb "d" "d") with true. cbv iota.
  rewrite fmt_integer_plain. reflexivity.
Qed.

Lemma fmtnum_d_text z txt :
  fmtnum (VInt z) txt (B "%d") = FOut ((if (z <? 0)%Z then ["-"] else []) ++ dec (Z.abs_N z)).
Proof.
  pose proof (fmtnum_d_literal z txt [] [] eq_refl eq_refl) as H. cbn [app] in H. rewrite app_nil_r in H. exact H.
Qed.

Lemma as_unsigned_nonneg z : (-18446744073709551616 <= z)%Z -> (0 <= as_unsigned z)%Z.
Proof. intros H. unfold as_unsigned. destruct (z <? 0)%Z eqn:E; lia. Qed.

Lemma as_unsigned_mod z : (-18446744073709551616 <= z < 18446744073709551616)%Z ->
  (z mod 18446744073709551616)%Z = as_unsigned z.
Proof.
  intros H. unfold as_unsigned. destruct (z <? 0)%Z eqn:E.
  - rewrite <- (Z_mod_plus_full z 1 18446744073709551616). rewrite Z.mul_1_l. apply Z.mod_small. lia.
  - apply Z.mod_small. lia.
Qed.

(* fmtnum(z, pr ++ "%x" ++ po) = pr ++ hex digits of the 64-bit two's complement of z ++ po *)
Lemma fmtnum_x_literal z txt pr po : no_pct pr = true -> no_pct po = true -> (-18446744073709551616 <= z)%Z ->
  fmtnum (VInt z) txt (pr ++ "%" :: "x" :: po) = FOut (pr ++ digits_text 16 false (Z.to_N (as_unsigned z)) ++ po).
Proof.
  intros Hp Ho Hz. unfold fmtnum.
  assert (Hd : no_pct ("x" :: po) = true) by exact Ho.
  rewrite (count_pct_one pr ("x" :: po) Hp Hd). cbn [Nat.eqb negb].
  rewrite (go_format_dx pr "x" po Hp (or_intror eq_refl)). cbv beta iota.
  rewrite (parse_format_dx pr "x" po Hp (or_intror eq_refl)). cbv beta iota.
  unfold sprintf_int. cbn [verb plainp pre post]. change (Ascii.eqb "x" "d") with false. change (Ascii.eqb "x" "x") with true. cbv iota.
  rewrite fmt_integer_plain. pose proof (as_unsigned_nonneg z Hz) as N.
  replace (as_unsigned z <? 0)%Z with false by lia. cbn [app of_opt].
  now replace (Z.abs_N (as_unsigned z)) with (Z.to_N (as_unsigned z)) by lia.
Qed.

Lemma parse_signed_dec_text z :
  parse_signed_dec ((if (z <? 0)%Z then ["-"] else []) ++ dec (Z.abs_N z)) = Some z.
Proof.
  unfold dec. pose proof (parse_digits_text 10 false (Z.abs_N z)) as P.
  assert (H2 : 2 <= 10) by lia. assert (H16 : 10 <= 16) by lia. specialize (P H2 H16).
  destruct (z <? 0)%Z eqn:E.
  - cbn [app parse_signed_dec]. unfold digits_text in *.
    destruct (digits 10 (Z.abs_N z)) as [|d l] eqn:D; [now apply digits_nonempty in D|].
    cbn [map] in *. rewrite P. f_equal. lia.
  - cbn [app]. unfold digits_text in *. pose proof (digits_lt 10 (Z.abs_N z) H2) as L.
    destruct (digits 10 (Z.abs_N z)) as [|d l] eqn:D; [now apply digits_nonempty in D|].
    inversion L as [|? ? Hd _]; subst. cbn [map] in *. unfold parse_signed_dec.
    pose proof (dchar_not_minus false d) as M. specialize (M ltac:(lia)).
    destruct (dchar false d) as [b0 b1 b2 b3 b4 b5 b6 b7] eqn:C.
    destruct b0, b1, b2, b3, b4, b5, b6, b7; try discriminate M; rewrite P; f_equal; lia.
Qed.

Lemma fmtnum_x_text z txt : (0 <= z)%Z ->
  fmtnum (VInt z) txt (B "%x") = FOut (digits_text 16 false (Z.to_N z)).
Proof.
  intros Hz. pose proof (fmtnum_x_literal z txt [] [] eq_refl eq_refl ltac:(lia)) as H. cbn [app] in H. rewrite app_nil_r in H.
  unfold as_unsigned in H. replace (z <? 0)%Z with false in H by lia. exact H.
Qed.

(* %x of any int64 is hexfmt without its 0x: the 64-bit two's complement, which reads back as z mod 2^64 *)
Lemma fmtnum_x_hexfmt z txt : (-9223372036854775808 <= z <= 9223372036854775807)%Z ->
  exists t, fmtnum (VInt z) txt (B "%x") = FOut t /\ hexfmt (VInt z) txt = "0" :: "x" :: t
            /\ parse_base 16 t 0 = Some (Z.to_N (z mod 18446744073709551616)).
Proof.
  intros Hz. exists (digits_text 16 false (Z.to_N (as_unsigned z))).
  pose proof (fmtnum_x_literal z txt [] [] eq_refl eq_refl ltac:(lia)) as H. cbn [app] in H. rewrite app_nil_r in H.
  split; [exact H|]. unfold hexfmt. rewrite (as_unsigned_mod z ltac:(lia)). split; [reflexivity|].
  apply parse_digits_text; lia.
Qed.

(* ---- width and padding laws *)
Lemma pad_gen_length w minus zero s :
  blen (pad_gen (Some w) minus zero (blen s) s) = Z.max (Z.of_N w) (blen s).
Proof.
  unfold pad_gen. destruct (w =? 0) eqn:E; [unfold blen; lia|].
  destruct minus; unfold blen; rewrite app_length, repeat_length; lia.
Qed.

Lemma pad_gen_shape w minus zero s :
  exists k, k = Z.to_nat (Z.of_N w - blen s) /\
  pad_gen (Some w) minus zero (blen s) s =
    if minus then s ++ repeat " " k else repeat (if zero then "0" else " ") k ++ s.
Proof.
  exists (Z.to_nat (Z.of_N w - blen s)). split; [reflexivity|]. unfold pad_gen.
  destruct (w =? 0) eqn:E; [|reflexivity].
  replace (Z.to_nat (Z.of_N w - blen s)) with 0%nat by (unfold blen; lia). cbn [repeat app].
  destruct minus; [now rewrite app_nil_r|reflexivity].
Qed.

Lemma pad_gen_none minus zero len s : pad_gen None minus zero len s = s.
Proof. reflexivity. Qed.

(* an integer directive with a width: the result is as long as max(width, natural length), where the natural text
   (sign, prefix, zeros, digits) is int_body; nothing but blanks is added around it *)
Lemma fmt_integer_width sp z base up w :
  fwid sp = Some w -> (fprec sp = Some 0 -> z <> 0%Z) ->
  let b := int_body sp (z <? 0)%Z (Z.abs_N z) base up in
  blen (fmt_integer sp z base up) = Z.max (Z.of_N w) (blen b)
  /\ fmt_integer sp z base up = (if fminus sp then b ++ repeat " " (Z.to_nat (Z.of_N w - blen b)) else repeat " " (Z.to_nat (Z.of_N w - blen b)) ++ b).
Proof.
  intros Hw Hp b.
  assert (E : fmt_integer sp z base up = pad_gen (fwid sp) (fminus sp) false (blen b) b).
  { unfold fmt_integer. fold b. destruct (fprec sp) as [[|p]|]; try reflexivity. destruct (Z.abs_N z =? 0) eqn:E0; [|reflexivity].
    exfalso. apply Hp; [reflexivity|lia]. }
  rewrite E, Hw. split; [apply pad_gen_length|].
  destruct (pad_gen_shape w (fminus sp) false b) as [k [-> ->]]. reflexivity.
Qed.

(* %0Nd: zero flag, no minus, width, no precision, no '#': sign, then zeros up to the width, then the digits *)
Lemma int_body_zero_padding (sp : spec) (negative : bool) (u base : N) (up : bool) (w : N) :
  fwid sp = Some w -> fprec sp = None -> fzero sp = true -> fminus sp = false -> fsharp sp = false ->
  let ds := digits_text base up u in
  let sg := if negative then ["-"] else if fplus sp then ["+"] else if fspace sp then [" "] else [] in
  int_body sp negative u base up = sg ++ zeros (Z.of_N w - blen sg - blen ds) ++ ds
  /\ blen (int_body sp negative u base up) = Z.max (Z.of_N w) (blen sg + blen ds).
Proof.
  intros Hw Hp Hz Hm Hs ds sg. unfold int_body. rewrite Hp, Hz, Hm, Hs. unfold wid_present, wid_of. rewrite Hw.
  cbn [andb negb]. fold ds.
  assert (L : blen sg = if negative || fplus sp || fspace sp then 1%Z else 0%Z).
  { subst sg. destruct negative, (fplus sp), (fspace sp); reflexivity. }
  replace (Z.of_N w - (if negative || fplus sp || fspace sp then 1 else 0) - blen ds)%Z with (Z.of_N w - blen sg - blen ds)%Z by lia.
  split.
  - subst sg. destruct negative; [reflexivity|]. destruct (fplus sp); [reflexivity|]. destruct (fspace sp); reflexivity.
  - assert (K : blen (zeros (Z.of_N w - blen sg - blen ds) ++ ds) = Z.max (Z.of_N w - blen sg) (blen ds)).
    { unfold blen, zeros. rewrite app_length, repeat_length. unfold blen. lia. }
    destruct negative; [|destruct (fplus sp); [|destruct (fspace sp)]]; subst sg; cbn [orb] in L; unfold blen in *; cbn [List.length app] in *; lia.
Qed.

(* ---- exact rounding *)
Lemma round_div_nearest a b : 0 < b ->
  (2 * Z.abs (Z.of_N (round_div a b) * Z.of_N b - Z.of_N a) <= Z.of_N b)%Z.
Proof.
  intros Hb. unfold round_div.
  pose proof (N.div_mod a b ltac:(lia)) as D. pose proof (N.mod_lt a b ltac:(lia)) as R.
  set (q := a / b) in *. set (r := a mod b) in *.
  destruct ((b <? 2 * r) || ((2 * r =? b) && N.odd q)) eqn:E; nia.
Qed.

Lemma round_div_ties_even a b : 0 < b -> 2 * (a mod b) = b -> N.even (round_div a b) = true.
Proof.
  intros Hb T. unfold round_div. replace (b <? 2 * (a mod b)) with false by lia. replace (2 * (a mod b) =? b) with true by lia.
  cbn [orb andb]. destruct (N.odd (a / b)) eqn:O.
  - rewrite N.add_1_r, N.even_succ. exact O.
  - rewrite <- N.negb_odd. now rewrite O.
Qed.

Lemma round_div_exact a b : 0 < b -> a mod b = 0 -> round_div a b = a / b.
Proof.
  intros Hb E. unfold round_div. rewrite E. replace (b <? 2 * 0) with false by lia. replace (2 * 0 =? b) with false by lia. reflexivity.
Qed.

(* %.pf: the digits are the nearest integer to value * 10^p (|q - value*10^p| <= 1/2, cross-multiplied by den) *)
Lemma fixed_q_correctly_rounded p num den : 0 < den ->
  (2 * Z.abs (Z.of_N (fixed_q p num den) * Z.of_N den - Z.of_N num * 10 ^ Z.of_N p) <= Z.of_N den)%Z.
Proof.
  intros Hd. unfold fixed_q. pose proof (round_div_nearest (num * 10 ^ p) den Hd) as H.
  rewrite N2Z.inj_mul, N2Z.inj_pow in H. exact H.
Qed.

(* the decoded fraction of a finite binary64 always has a positive denominator *)
Lemma decode_bits_den bits neg num den : decode_bits bits = Some (neg, num, den) -> 0 < den.
Proof.
  unfold decode_bits. destruct (_ =? 2047); [discriminate|].
  assert (P : forall k, 0 < 2 ^ k) by (intros k; apply N.neq_0_lt_0, N.pow_nonzero; discriminate).
  destruct (_ =? 0); cbv zeta beta iota.
  - change (0 <=? -1074)%Z with false. cbv iota. intros H. injection H as _ _ H3. rewrite <- H3. first [apply P | reflexivity].
  - match goal with |- context [(0 <=? ?e)%Z] => destruct (0 <=? e)%Z end; intros H; inversion H; [lia|apply P].
Qed.

Lemma fmtnum_d_roundtrip z txt : exists t, fmtnum (VInt z) txt (B "%d") = FOut t /\ parse_signed_dec t = Some z.
Proof. eexists. split; [apply fmtnum_d_text|apply parse_signed_dec_text]. Qed.

Lemma fmtnum_x_roundtrip z txt : (0 <= z)%Z ->
  exists t, fmtnum (VInt z) txt (B "%x") = FOut t /\ parse_base 16 t 0 = Some (Z.to_N z).
Proof. intros Hz. eexists. split; [now apply fmtnum_x_text|]. apply parse_digits_text; lia. Qed.

(* the witnesses of the repaired findings fmtnum-literal-text-mangled, fmtnum-trailing-text and
   fmtnum-x-negative-not-twos-complement, on the model (the same inputs are probed on mlr by the check) *)
Lemma fmtnum_repaired_witnesses :
  fmtnum (VInt 17) (B "17") (B "old:%d") = FOut (B "old:17")
  /\ fmtnum (VInt 17) (B "17") (B "%5d|") = FOut (B "   17|")
  /\ fmtnum (VInt 0) (B "0") (B "le %16lf") = FOut (B "le         0.000000")
  /\ fmtnum (VInt (-1)) (B "-1") (B "%x") = FOut (B "ffffffffffffffff") /\ hexfmt (VInt (-1)) (B "-1") = B "0xffffffffffffffff"
  /\ fmtnum (VInt (-5)) (B "-5") (B "%08llx") = FOut (B "fffffffffffffffb")
  /\ fmtnum (VInt (-1)) (B "-1") (B "%-10x|") = FOut (B "ffffffffffffffff|").
Proof. vm_compute. repeat split; reflexivity. Qed.

(* ---- the int <-> float coercion rule of the formatters, and fmtifnum *)
(* an integer verb applied to a float formats int(float): truncation toward zero *)
Lemma fmtnum_int_verb_of_float bits x z txt f :
  fst (go_format f) = KInt -> decode_bits bits = Some x -> int_of_float x = Some z ->
  fmtnum (VFloat bits) txt f = fmtnum (VInt z) txt f.
Proof.
  intros K D I. unfold fmtnum. destruct (negb (Nat.eqb (count_pct f) 1)); [reflexivity|].
  destruct (go_format f) as [k g]. cbn [fst] in K. subst k. cbv beta iota.
  destruct (parse_format g); [|reflexivity]. rewrite D, I. reflexivity.
Qed.

Lemma int_of_float_trunc neg num den z : int_of_float (neg, num, den) = Some z ->
  z = (if neg then - Z.of_N (num / den) else Z.of_N (num / den))%Z /\ (-9223372036854775808 <= z <= 9223372036854775807)%Z.
Proof.
  unfold int_of_float.
  destruct ((-9223372036854775808 <=? (if neg then - Z.of_N (num / den) else Z.of_N (num / den)))%Z &&
            ((if neg then - Z.of_N (num / den) else Z.of_N (num / den)) <=? 9223372036854775807)%Z) eqn:E; [|discriminate].
  intros H. injection H as <-. split; [reflexivity|lia].
Qed.

(* a float verb applied to an int formats float64(int), which is exact below 2^53 *)
Lemma fmtnum_float_verb_of_int z txt f :
  fst (go_format f) = KFloat ->
  fmtnum (VInt z) txt f =
    if negb (Nat.eqb (count_pct f) 1) then FError else
    match parse_format (snd (go_format f)) with Some sp => of_opt (sprintf_float sp (float_of_int z)) | None => FUnmodelled end.
Proof.
  intros K. unfold fmtnum. destruct (negb (Nat.eqb (count_pct f) 1)); [reflexivity|].
  destruct (go_format f) as [k g]. cbn [fst snd] in *. subst k. reflexivity.
Qed.

Lemma float_of_int_exact z : (Z.abs z < 9007199254740992)%Z -> float_of_int z = ((z <? 0)%Z, Z.abs_N z, 1).
Proof.
  intros H. unfold float_of_int. destruct (N.eq_dec (Z.abs_N z) 0) as [E|E].
  - rewrite E. reflexivity.
  - replace (Z.abs_N z =? 0) with false by lia.
    assert (L : N.log2 (Z.abs_N z) < 53).
    { apply N.log2_lt_pow2; [lia|]. change (2 ^ 53) with 9007199254740992. lia. }
    replace (N.log2 (Z.abs_N z) + 1 <=? 53) with true by lia. reflexivity.
Qed.

(* fmtifnum never answers error; a format without exactly one '%' is an error for fmtnum and the input back for fmtifnum *)
Lemma fmtifnum_never_error v txt f : fmtifnum v txt f <> FError.
Proof. unfold fmtifnum. destruct (fmtnum v txt f); discriminate. Qed.
Lemma fmtifnum_spec v txt f :
  (fmtnum v txt f = FError -> fmtifnum v txt f = FOut txt) /\ (fmtnum v txt f <> FError -> fmtifnum v txt f = fmtnum v txt f).
Proof. unfold fmtifnum. destruct (fmtnum v txt f); split; intros H; try reflexivity; try discriminate; now elim H. Qed.
Lemma fmtnum_rejects v txt f : count_pct f <> 1%nat -> fmtnum v txt f = FError /\ fmtifnum v txt f = FOut txt.
Proof.
  intros H. assert (E : fmtnum v txt f = FError).
  { unfold fmtnum. destruct (Nat.eqb (count_pct f) 1) eqn:Q; [apply Nat.eqb_eq in Q; contradiction|reflexivity]. }
  split; [exact E|]. unfold fmtifnum. now rewrite E.
Qed.

(* ---- leftpad / rightpad / truncate: length laws in characters *)
From Miller Require Import C15.Utf8Proofs.
Lemma strlen_repeat p k b : valid_utf8 p = true ->
  strlen (List.concat (repeat p k) ++ b) = (Z.of_nat k * strlen p + strlen b)%Z.
Proof.
  intros V. induction k as [|k IH].
  - cbn [repeat List.concat app]. lia.
  - cbn [repeat List.concat]. rewrite <- app_assoc. rewrite (strlen_app_valid p _ V). rewrite IH. lia.
Qed.
Lemma leftpad_length s n p : valid_utf8 p = true ->
  strlen (leftpad s n p) = (Z.of_nat (pad_count s n p) * strlen p + strlen s)%Z.
Proof. intros V. unfold leftpad. apply strlen_repeat. exact V. Qed.
Lemma rightpad_length s n p : valid_utf8 s = true -> valid_utf8 p = true ->
  strlen (rightpad s n p) = (strlen s + Z.of_nat (pad_count s n p) * strlen p)%Z.
Proof.
  intros Vs V. unfold rightpad. rewrite (strlen_app_valid s _ Vs). f_equal.
  rewrite <- (app_nil_r (List.concat (repeat p (pad_count s n p)))). rewrite (strlen_repeat p _ [] V).
  change (strlen []) with 0%Z. lia.
Qed.
Lemma pad_count_bounds s n p : (0 < strlen p)%Z -> (strlen s + strlen p <= n)%Z ->
  (n - strlen p < Z.of_nat (pad_count s n p) * strlen p + strlen s <= n)%Z.
Proof.
  intros P H. unfold pad_count.
  replace ((strlen p <=? 0)%Z || (n <? strlen s + strlen p)%Z) with false by lia.
  assert (Q : (0 <= (n - strlen s) / strlen p)%Z) by (apply Z.div_pos; lia).
  rewrite (Z2Nat.id _ Q).
  pose proof (Z.div_mod (n - strlen s) (strlen p) ltac:(lia)) as D.
  pose proof (Z.mod_pos_bound (n - strlen s) (strlen p) P) as B. nia.
Qed.
Lemma pad_count_zero s n p : (n < strlen s + strlen p)%Z -> leftpad s n p = s /\ rightpad s n p = s.
Proof.
  intros H. unfold leftpad, rightpad, pad_count.
  replace ((strlen p <=? 0)%Z || (n <? strlen s + strlen p)%Z) with true by lia.
  cbn [repeat List.concat app]. split; [reflexivity|apply app_nil_r].
Qed.
Lemma truncate_short s n : (strlen s <= n)%Z -> truncate s n = s.
Proof. intros H. unfold truncate. unfold strlen in H. now replace (Z.of_nat (List.length (runes s)) <=? n)%Z with true by lia. Qed.
