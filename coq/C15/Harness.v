(* C15 correspondence harness *)
From Miller Require Import Base.Bytes C15.Model.
From Miller Require C01.ModelJson.
Open Scope Z_scope.

Definition BAR : bytes := B "|".
(* case = (kind, a, b, s1, s2, s3, observed) *)
Definition chk (c : Z * Z * Z * bytes * bytes * bytes * bytes) : bool :=
  let '(k, a, b, s1, s2, s3, o) := c in
  match k with
  | 0 => strlen s1 =? a
  | 1 => beqb (substr1 s1 a b) o
  | 2 => beqb (substr0 s1 a b) o
  | 4 => beqb (truncate s1 a) o
  | 5 => beqb (leftpad s1 a s2) o
  | 6 => beqb (rightpad s1 a s2) o
  | 7 => beqb (toupper s1) o
  | 8 => beqb (tolower s1) o
  | 9 => beqb (capitalize s1) o
  | 10 => beqb (lstrip s1) o
  | 11 => beqb (rstrip s1) o
  | 12 => beqb (strip s1) o
  | 13 => beqb (ssub s1 s2 s3) o
  | 14 => beqb (gssub s1 s2 s3) o
  | 15 => let l := splitax s1 s2 in (Z.of_nat (List.length l) =? a) && beqb (joinv l BAR) o
  | 17 => beqb (hex_encode s1) o
  | 18 => match hex_decode s1 with Some r => (a =? 0) && beqb r o | None => a =? 1 end
  | 20 => beqb (C01.ModelJson.json_string s1) o          (* json_stringify of a string value *)
  | 19 => Bool.eqb (valid_utf8 s1) (a =? 1)
  | _ => false
  end.
