(* C15 model, codecs: base64_encode / base64_decode (pkg/bifs/base64.go: Go encoding/base64 StdEncoding, i.e. RFC 4648
   alphabet, '=' padding, NON-strict decoding, CR and LF skipped anywhere by decodeQuantum) and latin1_to_utf8 /
   utf8_to_latin1 (pkg/lib/latin1.go TryLatin1ToUTF8 / TryUTF8ToLatin1).  Definitions only. *)
From Miller Require Import Base.Bytes C15.Model.
Open Scope char_scope.
Open Scope N_scope.

(* ------------------------------------------------------------------ base64 *)
(* encodeStd = "ABCDEFGHIJKLMNOPQRSTUVWXYZabcdefghijklmnopqrstuvwxyz0123456789+/" *)
Definition b64char (n : N) : ascii :=
  if n <? 26 then ascii_of_N (65 + n)
  else if n <? 52 then ascii_of_N (71 + n)
  else if n <? 62 then ascii_of_N (n - 4)
  else if n =? 62 then "+" else "/".

(* enc.decodeMap: 0xff (here None) outside the alphabet *)
Definition b64val (c : ascii) : option N :=
  if in_range "A" "Z" c then Some (code c - 65)
  else if in_range "a" "z" c then Some (code c - 71)
  else if in_range "0" "9" c then Some (code c + 4)
  else if Ascii.eqb c "+" then Some 62
  else if Ascii.eqb c "/" then Some 63 else None.

Definition PAD : ascii := "=".

(* Encoding.Encode: 3 bytes -> 4 characters; the 1- or 2-byte remainder is padded with '=' *)
Fixpoint b64_encode (s : bytes) : bytes :=
  match s with
  | [] => []
  | [a] => let v := code a * 65536 in
           [b64char (v / 262144); b64char ((v / 4096) mod 64); PAD; PAD]
  | [a; b] => let v := code a * 65536 + code b * 256 in
           [b64char (v / 262144); b64char ((v / 4096) mod 64); b64char ((v / 64) mod 64); PAD]
  | a :: b :: c :: t =>
           let v := code a * 65536 + code b * 256 + code c in
           b64char (v / 262144) :: b64char ((v / 4096) mod 64) :: b64char ((v / 64) mod 64) :: b64char (v mod 64) :: b64_encode t
  end.

Definition is_crlf (c : ascii) : bool := Ascii.eqb c "010" || Ascii.eqb c "013".

(* the 24-bit value of four sextets, cut into dlen-1 bytes (decodeQuantum's tail; strict = false so the unused low
   bits of a padded quantum are NOT checked) *)
Definition q24 (a b c d : N) : N := ((a * 64 + b) * 64 + c) * 64 + d.
Definition byte0 (v : N) : ascii := ascii_of_N (v / 65536).
Definition byte1 (v : N) : ascii := ascii_of_N ((v / 256) mod 256).
Definition byte2 (v : N) : ascii := ascii_of_N (v mod 256).

(* Encoding.Decode over the input with CR/LF removed: full quanta of four alphabet characters; only the LAST quantum
   may be "xx==" or "xxx="; anything else (length not a multiple of 4, '=' elsewhere, foreign byte, text after the
   padding) is CorruptInputError = None *)
Fixpoint b64_quanta (s : bytes) : option bytes :=
  match s with
  | [] => Some []
  | a :: b :: c :: d :: t =>
      match b64val a, b64val b with
      | Some x, Some y =>
          match b64val c, b64val d with
          | Some z, Some w =>
              match b64_quanta t with
              | Some r => let v := q24 x y z w in Some (byte0 v :: byte1 v :: byte2 v :: r)
              | None => None
              end
          | Some z, None =>
              if Ascii.eqb d PAD then match t with [] => let v := q24 x y z 0 in Some [byte0 v; byte1 v] | _ => None end
              else None
          | None, _ =>
              if Ascii.eqb c PAD && Ascii.eqb d PAD then match t with [] => Some [byte0 (q24 x y 0 0)] | _ => None end
              else None
          end
      | _, _ => None
      end
  | _ => None
  end.

Definition strip_crlf (s : bytes) : bytes := filter (fun c => negb (is_crlf c)) s.
(* BIF_base64_decode: None is the error value *)
Definition b64_decode (s : bytes) : option bytes := b64_quanta (strip_crlf s).

(* ------------------------------------------------------------------ latin1 <-> utf8 *)
(* TryLatin1ToUTF8: buffer.WriteRune(rune(b)) for every byte *)
Definition latin1_to_utf8 (s : bytes) : bytes := List.concat (map (fun c => encode_rune (code c)) s).

(* TryUTF8ToLatin1: utf8.DecodeRune in a loop (each invalid byte decodes to U+FFFD, size 1); a rune above 0xff is
   the error "not encodable as Latin-1" = None *)
Fixpoint latin1_of_runes (rs : list N) : option bytes :=
  match rs with
  | [] => Some []
  | r :: t => if r <=? 255 then match latin1_of_runes t with Some o => Some (byte_of r :: o) | None => None end else None
  end.
Definition utf8_to_latin1 (s : bytes) : option bytes := latin1_of_runes (runes s).
