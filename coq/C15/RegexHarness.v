(* C15 regex correspondence harness: the observed behaviour of mlr (sub, gsub, regextract_or_else, strmatchx, and whole
   DSL programs over =~ / !=~ / string literals / sub / gsub / user-defined frames) against RegexModel. *)
From Miller Require Import Base.Bytes C15.Model C15.RegexModel.
Open Scope Z_scope.

Inductive rcase :=
| RSub (glob : bool) (rx : bytes) (ci : bool) (r : re) (s rep out : bytes)
| RExtract (rx : bytes) (ci : bool) (r : re) (s dflt out : bytes)
| RMatchx (rx : bytes) (ci : bool) (r : re) (ngroups : nat) (s : bytes) (out : option (list (bytes * Z * Z)))
| RProg (prog : list stmt) (outs : list bytes).

(* the regex string handed to mlr denotes, through CompileMillerRegex, exactly the printed tree and flag *)
Definition rx_ok (rx : bytes) (ci : bool) (r : re) : bool :=
  let '(ci', p) := compile_miller rx in Bool.eqb ci ci' && beqb p (show r).

Fixpoint list_eqb {A} (e : A -> A -> bool) (a b : list A) : bool :=
  match a, b with
  | [], [] => true
  | x :: a', y :: b' => e x y && list_eqb e a' b'
  | _, _ => false
  end.
Definition ent_eqb (x y : bytes * Z * Z) : bool :=
  let '(t1, a1, b1) := x in let '(t2, a2, b2) := y in beqb t1 t2 && (a1 =? a2) && (b1 =? b2).
Definition decode_ok (s : bytes) : bool :=
  beqb (flat (chunks s)) s && list_eqb N.eqb (map fst (chunks s)) (runes s).

Definition rchk (c : rcase) : bool :=
  match c with
  | RSub glob rx ci r s rep out => rx_ok rx ci r && decode_ok s && beqb ((if glob then gsub else sub) ci r s rep) out
  | RExtract rx ci r s d out => rx_ok rx ci r && beqb (regextract_or_else ci r s d) out
  | RMatchx rx ci r ng s out =>
      rx_ok rx ci r &&
      match strmatchx ci r ng s, out with
      | Some l, Some l' => list_eqb ent_eqb l l'
      | None, None => true
      | _, _ => false
      end
  | RProg prog outs => list_eqb beqb (fst (run_block 6 prog None)) outs
  end.
