(* C06: the inferrer model equals the documented inference [doc_infer] for ALL byte strings and flags. *)
From Miller Require Import Base.Bytes C06.Model C06.Proofs C06.Grammar C06.GrammarProofs.
Require Import Lia.
Open Scope char_scope.

Notation sinfer := (infer spec_dec spec_oct spec_hex spec_flt).
Notation sscan := (scan spec_dec spec_oct spec_hex spec_flt).

(* ---------- shape facts from the lexical category ---------- *)
Definition signed_of (sg : option bool) : bool := match sg with None => false | _ => true end.

Lemma classify_split s : s <> [] ->
  classify s = classify_pos (signed_of (fst (split_sign s))) (snd (split_sign s)).
Proof.
  destruct s as [|c t]; [intros H; now elim H|]. intros _. cbn [classify split_sign].
  destruct (eqc c "-"); [reflexivity|]. destruct (eqc c "+"); reflexivity.
Qed.

Definition pref_ok (l u : ascii) (dig : ascii -> bool) (r : bytes) : Prop :=
  exists c0 c1 d, r = c0 :: c1 :: d /\ eqc c0 "0" = true /\ eqc c1 l || eqc c1 u = true /\ d <> [] /\ forallb dig d = true.

Lemma nonempty_ne (d : bytes) : nonempty d = true -> d <> [].
Proof. destruct d; [discriminate|discriminate]. Qed.

Lemma classify_pos_inv signed r :
  match classify_pos signed r with
  | SDecInt => digits1 r = true
  | SLzDecInt => digits1 r = true
  | SLzOctInt => digits1 r = true /\ forallb spec_oct r = true
  | SHexInt => pref_ok "x" "X" spec_hex r
  | SOctInt => pref_ok "o" "O" spec_oct r
  | SBinInt => pref_ok "b" "B" is_bin r
  | _ => True
  end.
Proof.
  destruct r as [|c0 t]; [exact I|]. cbn [classify_pos].
  destruct (negb (spec_dec c0 || eqc c0 ".")) eqn:H0; [exact I|].
  destruct (pref2 "0" "x" "X" (c0 :: t)) eqn:Hx.
  { destruct t as [|c1 d]; [discriminate|]. cbn in Hx. apply andb_true_iff in Hx as [Hz Hxx]. cbn [skipn].
    destruct (nonempty d && forallb spec_hex d) eqn:Hh; [|exact I]. apply andb_true_iff in Hh as [Hn Hh].
    exists c0, c1, d. repeat split; auto using nonempty_ne. }
  destruct (pref2 "0" "o" "O" (c0 :: t)) eqn:Ho.
  { destruct t as [|c1 d]; [discriminate|]. cbn in Ho. apply andb_true_iff in Ho as [Hz Hoo]. cbn [skipn].
    destruct (nonempty d && forallb spec_oct d) eqn:Hh; [|exact I]. apply andb_true_iff in Hh as [Hn Hh].
    exists c0, c1, d. repeat split; auto using nonempty_ne. }
  destruct (pref2 "0" "b" "B" (c0 :: t)) eqn:Hb.
  { destruct t as [|c1 d]; [discriminate|]. cbn in Hb. apply andb_true_iff in Hb as [Hz Hbb]. cbn [skipn].
    destruct (nonempty d && forallb is_bin d) eqn:Hh; [|exact I]. apply andb_true_iff in Hh as [Hn Hh].
    exists c0, c1, d. repeat split; auto using nonempty_ne. }
  destruct (eqc c0 "0" && nonempty t && forallb spec_oct t) eqn:H1.
  { apply andb_true_iff in H1 as [H1 H2]. apply andb_true_iff in H1 as [Hz Hn].
    unfold digits1. cbn [nonempty forallb andb]. rewrite (zero_dec _ Hz), (forallb_oct_dec _ H2).
    split; [reflexivity|]. cbn [andb]. rewrite H2. revert Hz. clear. all_bytes c0. }
  destruct (eqc c0 "0" && nonempty t && forallb spec_dec t) eqn:H2.
  { apply andb_true_iff in H2 as [H2 H3]. apply andb_true_iff in H2 as [Hz Hn].
    unfold digits1. cbn [nonempty forallb andb]. now rewrite (zero_dec _ Hz), H3. }
  destruct (forallb spec_dec (c0 :: t)) eqn:H3; [exact H3|].
  destruct (forallb spec_flt (c0 :: t) && negb (negb signed && is_dot (c0 :: t))); exact I.
Qed.

(* ---------- strconv.ParseInt on what reaches it ---------- *)
Open Scope Z_scope.

Lemma parse_int_split base s :
  parse_int base s =
  match snd (split_sign s) with
  | [] => None
  | r => match digits_val base r 0 with
         | Some v => let n := sgn (is_neg (fst (split_sign s))) v in if in64 n then Some n else None
         | None => None
         end
  end.
Proof.
  destruct s as [|c t]; [reflexivity|]. unfold parse_int, split_sign.
  destruct (eqc c "-"); [destruct t; reflexivity|]. destruct (eqc c "+"); [destruct t; reflexivity|]. reflexivity.
Qed.

Definition dv (c : ascii) : Z := match digit_val c with Some v => v | None => 0 end.

Lemma digits_val_base base (dig : ascii -> bool) :
  (forall c, dig c = true -> exists v, digit_val c = Some v /\ 0 <= v < base) ->
  forall d acc, forallb dig d = true ->
  digits_val base d acc = Some (fold_left (fun a c => a * base + dv c) d acc).
Proof.
  intros Hdig d. induction d as [|c d IH]; intros acc; cbn [forallb digits_val fold_left]; [reflexivity|].
  rewrite andb_true_iff. intros [Hc Hd]. destruct (Hdig c Hc) as (v & Hv & Hr).
  assert (Hdv : dv c = v) by (unfold dv; now rewrite Hv). rewrite Hv, Hdv. destruct (Z.ltb_spec v base); [|lia]. now apply IH.
Qed.

Lemma base_val_fold base d : base_val base d = fold_left (fun a c => a * base + dv c) d 0.
Proof. reflexivity. Qed.

Lemma oct_digit c : spec_oct c = true -> exists v, digit_val c = Some v /\ 0 <= v < 8.
Proof. destruct c as [[] [] [] [] [] [] [] []]; intros H; try discriminate H; eexists; (split; [reflexivity|split; [discriminate|reflexivity]]). Qed.
Lemma bin_digit c : is_bin c = true -> exists v, digit_val c = Some v /\ 0 <= v < 2.
Proof. destruct c as [[] [] [] [] [] [] [] []]; intros H; try discriminate H; eexists; (split; [reflexivity|split; [discriminate|reflexivity]]). Qed.
Lemma hex_digit c : spec_hex c = true -> exists v, digit_val c = Some v /\ 0 <= v < 16.
Proof. destruct c as [[] [] [] [] [] [] [] []]; intros H; try discriminate H; eexists; (split; [reflexivity|split; [discriminate|reflexivity]]). Qed.

Lemma fold_nonneg base d : 0 < base -> forall acc, 0 <= acc -> 0 <= fold_left (fun a c => a * base + dv c) d acc.
Proof.
  intros Hb. induction d as [|c d IH]; intros acc Ha; cbn [fold_left]; [exact Ha|]. apply IH.
  assert (0 <= dv c). { unfold dv, digit_val. destruct (in_range "0" "9" c) eqn:E1; [|destruct (in_range "a" "f" c) eqn:E2; [|destruct (in_range "A" "F" c) eqn:E3]]; try lia;
    revert E1; try revert E2; try revert E3; clear; destruct c as [[] [] [] [] [] [] [] []]; vm_compute; intros; try discriminate; try congruence. }
  nia.
Qed.

Lemma in64_nonneg u : 0 <= u -> in64 u = (u <? two63).
Proof.
  intros H. unfold in64. destruct (Z.leb_spec (- two63) u) as [|H1]; [reflexivity|].
  unfold two63 in H1. assert (0 < 2 ^ 63) by (apply Z.pow_pos_nonneg; lia). lia.
Qed.

Lemma parse_int_signed base dig s :
  0 < base ->
  (forall c, dig c = true -> exists v, digit_val c = Some v /\ 0 <= v < base) ->
  snd (split_sign s) <> [] -> forallb dig (snd (split_sign s)) = true ->
  parse_int base s =
  let v := sgn (is_neg (fst (split_sign s))) (base_val base (snd (split_sign s))) in if in64 v then Some v else None.
Proof.
  intros Hb Hdig Hne Hall. rewrite parse_int_split.
  destruct (snd (split_sign s)) as [|c t] eqn:E; [now elim Hne|].
  rewrite (digits_val_base base dig Hdig _ 0 Hall). reflexivity.
Qed.

Lemma parse_int_unsigned base dig d :
  0 < base ->
  (forall c, dig c = true -> exists v, digit_val c = Some v /\ 0 <= v < base) ->
  (forall c, dig c = true -> eqc c "-" = false /\ eqc c "+" = false) ->
  d <> [] -> forallb dig d = true ->
  parse_int base d = if base_val base d <? two63 then Some (base_val base d) else None.
Proof.
  intros Hb Hdig Hns Hne Hall.
  assert (Hsp : split_sign d = (None, d)).
  { destruct d as [|c t]; [now elim Hne|]. cbn [forallb] in Hall. apply andb_true_iff in Hall as [Hc _].
    destruct (Hns c Hc) as [Hm Hp]. cbn [split_sign]. now rewrite Hm, Hp. }
  rewrite (parse_int_signed base dig d Hb Hdig); rewrite Hsp; cbn [fst snd]; auto.
  cbn [is_neg sgn]. cbv zeta. rewrite in64_nonneg; [reflexivity|]. rewrite base_val_fold. apply fold_nonneg; lia.
Qed.

Lemma dec_digit c : spec_dec c = true -> exists v, digit_val c = Some v /\ 0 <= v < 10.
Proof. intros H. destruct (digit_val_dec c H) as [H1 H2]. eauto. Qed.

Lemma fold_dec r : forall acc, forallb spec_dec r = true ->
  fold_left (fun a c => a * 10 + dv c) r acc = fold_left (fun a c => a * 10 + (Z.of_N (code c) - 48)) r acc.
Proof.
  induction r as [|c r IH]; intros acc; cbn [forallb fold_left]; [reflexivity|].
  rewrite andb_true_iff. intros [Hc Hr]. destruct (digit_val_dec c Hc) as [Hv _].
  assert (Hdv : dv c = Z.of_N (code c) - 48) by (unfold dv; now rewrite Hv). rewrite Hdv. now apply IH.
Qed.
Lemma base_val_dec r : forallb spec_dec r = true -> base_val 10 r = dec_val r.
Proof. intros H. rewrite base_val_fold. unfold dec_val. now apply fold_dec. Qed.

Lemma as_string_ne s : s <> [] -> as_string s = VString.
Proof. destruct s; [intros H; now elim H|reflexivity]. Qed.

Lemma infer_maybe_float_doc s : s <> [] ->
  infer_maybe_float s = doc_float (is_neg (fst (split_sign s))) (snd (split_sign s)).
Proof.
  intros Hne. unfold infer_maybe_float, doc_float. rewrite parse_float_spec. unfold spec_parse_float.
  rewrite (as_string_ne s Hne). destruct (float_parts _); [destruct (float_value _ _)|]; reflexivity.
Qed.

Lemma digits1_split r : digits1 r = true -> r <> [] /\ forallb spec_dec r = true.
Proof. unfold digits1. rewrite andb_true_iff. intros [H1 H2]. split; [now apply nonempty_ne|exact H2]. Qed.

Lemma infer_decimal_doc s : s <> [] -> digits1 (snd (split_sign s)) = true ->
  infer_decimal s =
  let neg := is_neg (fst (split_sign s)) in let r := snd (split_sign s) in
  let v := sgn neg (dec_val r) in if in64 v then VInt v else doc_float neg r.
Proof.
  intros Hne Hd. apply digits1_split in Hd as [Hr Hall]. unfold infer_decimal.
  rewrite (parse_int_signed 10 spec_dec s); [|lia|exact dec_digit|exact Hr|exact Hall].
  rewrite (base_val_dec _ Hall). cbv zeta. destruct (in64 _); [reflexivity|]. now apply infer_maybe_float_doc.
Qed.

Lemma infer_lz_octal_doc s : s <> [] -> snd (split_sign s) <> [] -> forallb spec_oct (snd (split_sign s)) = true ->
  infer_lz_octal s =
  let v := sgn (is_neg (fst (split_sign s))) (base_val 8 (snd (split_sign s))) in if in64 v then VInt v else VString.
Proof.
  intros Hne Hr Hall. unfold infer_lz_octal.
  rewrite (parse_int_signed 8 spec_oct s); [|lia|exact oct_digit|exact Hr|exact Hall].
  cbv zeta. destruct (in64 _); [reflexivity|]. now apply as_string_ne.
Qed.

Lemma strip_prefix_split s : s <> [] ->
  strip_prefix s = (is_neg (fst (split_sign s)), skipn 2 (snd (split_sign s))).
Proof.
  destruct s as [|c t]; [intros H; now elim H|]. intros _. cbn [strip_prefix split_sign].
  destruct (eqc c "-"); [reflexivity|]. destruct (eqc c "+"); reflexivity.
Qed.

Lemma not_sign_oct c : spec_oct c = true -> eqc c "-" = false /\ eqc c "+" = false.   Proof. all_bytes c. Qed.
Lemma not_sign_bin c : is_bin c = true -> eqc c "-" = false /\ eqc c "+" = false.     Proof. all_bytes c. Qed.
Lemma not_sign_hex c : spec_hex c = true -> eqc c "-" = false /\ eqc c "+" = false.   Proof. all_bytes c. Qed.

Lemma infer_base_doc base dig l u s :
  0 < base ->
  (forall c, dig c = true -> exists v, digit_val c = Some v /\ 0 <= v < base) ->
  (forall c, dig c = true -> eqc c "-" = false /\ eqc c "+" = false) ->
  s <> [] -> pref_ok l u dig (snd (split_sign s)) ->
  infer_base base s =
  let uu := base_val base (skipn 2 (snd (split_sign s))) in
  if uu <? two63 then VInt (sgn (is_neg (fst (split_sign s))) uu) else VString.
Proof.
  intros Hb Hdig Hns Hne (c0 & c1 & d & Hr & _ & _ & Hd & Hall).
  unfold infer_base. rewrite (strip_prefix_split s Hne), Hr. cbn [skipn].
  rewrite (parse_int_unsigned base dig d Hb Hdig Hns Hd Hall). cbv zeta.
  destruct (base_val base d <? two63); [reflexivity|]. now apply as_string_ne.
Qed.

(* hex: bounds of the value by the number of digits *)
Lemma fold_bounds base (dig : ascii -> bool) :
  0 < base ->
  (forall c, dig c = true -> exists v, digit_val c = Some v /\ 0 <= v < base) ->
  forall d acc, 0 <= acc -> forallb dig d = true ->
  acc * base ^ zlen d <= fold_left (fun a c => a * base + dv c) d acc < (acc + 1) * base ^ zlen d.
Proof.
  intros Hb Hdig d. induction d as [|c d IH]; intros acc Ha; cbn [forallb fold_left List.length].
  - intros _. cbn. lia.
  - rewrite andb_true_iff. intros [Hc Hd]. destruct (Hdig c Hc) as (v & Hv & Hr).
    assert (Hdv : dv c = v) by (unfold dv; now rewrite Hv). rewrite Hdv.
    rewrite Nat2Z.inj_succ, Z.pow_succ_r by lia.
    assert (Hp : 0 < base ^ zlen d) by (apply Z.pow_pos_nonneg; lia).
    specialize (IH (acc * base + v) ltac:(nia) Hd). nia.
Qed.

Lemma top_digit c : spec_hex c = true -> in_range "8" "f" c = (8 <=? dv c).
Proof. destruct c as [[] [] [] [] [] [] [] []]; intros H; try discriminate H; reflexivity. Qed.

Lemma parse_uint_hex d : d <> [] -> forallb spec_hex d = true ->
  parse_uint 16 d = if base_val 16 d <? two64 then Some (base_val 16 d) else None.
Proof.
  intros Hd Hall. unfold parse_uint. destruct d as [|c t]; [now elim Hd|].
  rewrite (digits_val_base 16 spec_hex hex_digit _ 0 Hall), <- base_val_fold. reflexivity.
Qed.

Lemma infer_hex_doc s :
  s <> [] -> pref_ok "x" "X" spec_hex (snd (split_sign s)) ->
  infer_hex s =
  let neg := is_neg (fst (split_sign s)) in
  let d := skipn 2 (snd (split_sign s)) in
  let u := base_val 16 d in
  if (zlen d =? 16) && (two63 <=? u)
  then VInt (if neg then wrap64 (- wrap64 u) else wrap64 u)
  else if u <? two63 then VInt (sgn neg u) else VString.
Proof.
  intros Hne (c0 & c1 & d & Hr & _ & _ & Hd & Hall).
  unfold infer_hex. rewrite (strip_prefix_split s Hne), Hr. cbn [skipn]. cbv zeta.
  destruct d as [|i0 t]; [now elim Hd|]. cbv beta iota.
  assert (Hi0 : spec_hex i0 = true) by (cbn [forallb] in Hall; now apply andb_true_iff in Hall as [? _]).
  assert (Ht' : forallb spec_hex t = true) by (cbn [forallb] in Hall; now apply andb_true_iff in Hall as [_ ?]).
  assert (Hu : base_val 16 (i0 :: t) = fold_left (fun a c => a * 16 + dv c) t (dv i0)) by reflexivity.
  assert (Hlen' : zlen (i0 :: t) = zlen t + 1) by (cbn [List.length]; lia).
  remember (i0 :: t) as d eqn:Ed.
  rewrite (top_digit _ Hi0).
  pose proof (fold_bounds 16 spec_hex ltac:(lia) hex_digit d 0 ltac:(lia) Hall) as Hb0. rewrite <- base_val_fold in Hb0.
  rewrite (parse_uint_hex d Hd Hall).
  rewrite (parse_int_unsigned 16 spec_hex d ltac:(lia) hex_digit not_sign_hex Hd Hall).
  destruct (zlen d =? 16) eqn:Hlen; cbn [andb].
  - apply Z.eqb_eq in Hlen.
    assert (Ht : zlen t = 15) by lia.
    destruct (hex_digit _ Hi0) as (v & Hv & Hvr). assert (Hdv : dv i0 = v) by (unfold dv; now rewrite Hv).
    pose proof (fold_bounds 16 spec_hex ltac:(lia) hex_digit t (dv i0) ltac:(lia) Ht') as Hb1.
    rewrite <- Hu, Ht in Hb1. rewrite Hlen in Hb0.
    change (16 ^ 15) with 1152921504606846976 in Hb1. change (16 ^ 16) with 18446744073709551616 in Hb0.
    assert (H63 : two63 = 9223372036854775808) by reflexivity.
    assert (H64 : two64 = 18446744073709551616) by reflexivity.
    destruct (Z.leb_spec 8 (dv i0)) as [H8|H8].
    + destruct (Z.leb_spec two63 (base_val 16 d)); [|lia].
      destruct (Z.ltb_spec (base_val 16 d) two64); [reflexivity|lia].
    + destruct (Z.leb_spec two63 (base_val 16 d)); [lia|].
      destruct (Z.ltb_spec (base_val 16 d) two63); [reflexivity|lia].
  - idtac.
    destruct (base_val 16 d <? two63); [reflexivity|]. now apply as_string_ne.
Qed.

(* ---------- the main theorem ---------- *)
Lemma infer_normal_doc oai s : infer_normal spec_dec spec_oct spec_hex spec_flt oai s = doc_infer_normal oai s.
Proof.
  destruct s as [|c0 t0] eqn:Es; [reflexivity|]. rewrite <- Es. assert (Hne : s <> []) by (rewrite Es; discriminate).
  clear Es c0 t0.
  unfold infer_normal, doc_infer_normal. rewrite scan_classify.
  pose proof (classify_split s Hne) as Hcl.
  pose proof (classify_pos_inv (signed_of (fst (split_sign s))) (snd (split_sign s))) as Hinv. rewrite <- Hcl in Hinv.
  pose proof (infer_maybe_float_doc s Hne) as Hmf.
  pose proof (infer_decimal_doc s Hne) as Hdec.
  pose proof (infer_lz_octal_doc s Hne) as Hlz.
  pose proof (infer_hex_doc s Hne) as Hhex.
  pose proof (infer_base_doc 8 spec_oct "o" "O" s ltac:(lia) oct_digit not_sign_oct Hne) as Hoct.
  pose proof (infer_base_doc 2 is_bin "b" "B" s ltac:(lia) bin_digit not_sign_bin Hne) as Hbin.
  destruct (split_sign s) as [sg r]. cbn [fst snd] in *. cbv zeta in *.
  destruct (classify s).
  - reflexivity.
  - now apply Hdec.
  - destruct oai; [now apply Hdec|now apply as_string_ne].
  - now apply Hoct.
  - destruct oai; [|now apply as_string_ne]. destruct Hinv as [Hd Ho]. apply digits1_split in Hd as [Hr _]. now apply Hlz.
  - now apply Hhex.
  - now apply Hbin.
  - exact Hmf.
Qed.

Theorem infer_is_documented f s : sinfer f s = doc_infer f s.
Proof. destruct f; cbn [infer doc_infer]; rewrite ?infer_normal_doc; reflexivity. Qed.

(* ---------- the inductive grammar and the boolean recogniser agree ---------- *)
Open Scope char_scope.
Definition starts_nonsign (b : bytes) : Prop := match b with c :: _ => eqc c "-" = false /\ eqc c "+" = false | [] => True end.

Lemma split_sign_app sg body : Sign sg -> starts_nonsign body -> snd (split_sign (sg ++ body)) = body.
Proof.
  intros Hs Hb. destruct Hs; cbn [app]; [|reflexivity|reflexivity].
  destruct body as [|c t]; [reflexivity|]. destruct Hb as [Hm Hp]. cbn [split_sign]. now rewrite Hm, Hp.
Qed.

Lemma dec_not_sign c : spec_dec c = true -> eqc c "-" = false /\ eqc c "+" = false.   Proof. all_bytes c. Qed.
Lemma dot_not_sign c : eqc c "." = true -> eqc c "-" = false /\ eqc c "+" = false.    Proof. all_bytes c. Qed.
Lemma e_not_dec c : eqc c "e" || eqc c "E" = true -> spec_dec c = false.               Proof. all_bytes c. Qed.
Lemma e_not_dec_dot c : eqc c "e" || eqc c "E" = true -> eqc c "." = false.            Proof. all_bytes c. Qed.

Lemma digits_start_nonsign d rest : Digits d -> d <> [] -> starts_nonsign (d ++ rest).
Proof. destruct d as [|c d]; [intros _ H; now elim H|]. intros H _. cbn in H. apply andb_true_iff in H as [Hc _]. cbn. now apply dec_not_sign. Qed.

Lemma exponent_starts_nondigit ex : Exponent ex -> starts_nondigit ex.
Proof. destruct 1 as [|e sg ed He]; [exact I|]. cbn. now apply e_not_dec. Qed.

Lemma exponent_tail ip fp ex : Exponent ex -> exists p, spec_tail ip fp ex = Some p.
Proof.
  destruct 1 as [|e sg ed He Hs Hd Hne]; [cbn; eauto|]. cbn [spec_tail]. rewrite He.
  assert (Hsp : snd (split_sign (sg ++ ed)) = ed).
  { apply split_sign_app; [exact Hs|]. rewrite <- (app_nil_r ed). now apply digits_start_nonsign. }
  destruct (split_sign (sg ++ ed)) as [sg' ed']. cbn [snd] in Hsp. subst ed'.
  unfold digits1. destruct ed; [now elim Hne|]. cbn [nonempty andb]. unfold Digits in Hd. rewrite Hd. eauto.
Qed.

Lemma floatlit_complete s : FloatLit s -> float_syntax s = true.
Proof.
  intros [sg m ex Hs Hm Hex]. unfold float_syntax.
  assert (Hb : starts_nonsign (m ++ ex)).
  { destruct Hm as [ip Hip Hne | ip fp Hip Hfp Hor].
    - now apply digits_start_nonsign.
    - destruct ip as [|c ip]; [cbn; split; reflexivity|].
      rewrite <- app_assoc. apply digits_start_nonsign; [exact Hip|discriminate]. }
  rewrite (split_sign_app sg (m ++ ex) Hs Hb). rewrite float_parts_tail. cbv zeta.
  destruct Hm as [ip Hip Hne | ip fp Hip Hfp Hor].
  - rewrite (span_dec_app ip ex Hip (exponent_starts_nondigit ex Hex)). cbn [fst snd].
    assert (Hn : nonempty ip = true) by (destruct ip; [now elim Hne|reflexivity]).
    destruct Hex as [|e sg' ed He].
    + cbn. now rewrite Hn.
    + rewrite (e_not_dec_dot e He). rewrite Hn. cbn [orb].
      destruct (exponent_tail ip [] _ (Exp_some e sg' ed He H H0 H1)) as [p ->]. reflexivity.
  - rewrite <- app_assoc. cbn [app].
    rewrite (span_dec_app ip ("." :: fp ++ ex) Hip); [|reflexivity]. cbn [fst snd].
    change (eqc "." ".") with true. cbv iota.
    rewrite (span_dec_app fp ex Hfp (exponent_starts_nondigit ex Hex)). cbn [fst snd].
    assert (Hn : nonempty ip || nonempty fp = true).
    { destruct Hor as [H|H]; [destruct ip; [now elim H|reflexivity]|destruct fp; [now elim H|apply orb_true_r]]. }
    rewrite Hn. destruct (exponent_tail ip fp ex Hex) as [p ->]. reflexivity.
Qed.

Lemma eqc_eq c d : eqc c d = true -> c = d.
Proof. apply Ascii.eqb_eq. Qed.

Lemma split_sign_inv s : exists sgb, Sign sgb /\ s = sgb ++ snd (split_sign s).
Proof.
  destruct s as [|c t]; [exists []; split; [constructor|reflexivity]|]. cbn [split_sign].
  destruct (eqc c "-") eqn:Hm.
  { exists ["-"]. split; [constructor|]. apply eqc_eq in Hm. now subst c. }
  destruct (eqc c "+") eqn:Hp.
  { exists ["+"]. split; [constructor|]. apply eqc_eq in Hp. now subst c. }
  exists []. split; [constructor|reflexivity].
Qed.

Lemma spec_tail_sound ip fp r3 p : spec_tail ip fp r3 = Some p -> Exponent r3.
Proof.
  destruct r3 as [|c t]; [constructor|]. cbn [spec_tail].
  destruct (eqc c "e" || eqc c "E") eqn:He; [|discriminate].
  destruct (split_sign_inv t) as (sgb & Hs & Ht).
  destruct (split_sign t) as [sg ed]. cbn [snd] in Ht.
  destruct (digits1 ed) eqn:Hd; [|discriminate]. intros _.
  rewrite Ht. apply digits1_split in Hd as [Hne Hall]. now constructor.
Qed.

Lemma floatlit_sound s : float_syntax s = true -> FloatLit s.
Proof.
  unfold float_syntax. intros H. destruct (split_sign_inv s) as (sgb & Hs & Heq).
  remember (snd (split_sign s)) as r eqn:Er. clear Er. rewrite float_parts_tail in H. cbv zeta in H.
  destruct (span_dec_spec r) as (Hr & Hip & _).
  destruct (span_dec r) as [ip r1]. cbn [fst snd] in *.
  destruct r1 as [|c t].
  - rewrite orb_false_r in H. destruct (nonempty ip) eqn:Hn; [|discriminate].
    rewrite Heq, Hr. apply FloatLit_intro; [exact Hs| |constructor].
    apply Mant_int; [exact Hip|now apply nonempty_ne].
  - destruct (eqc c ".") eqn:Hdot.
    + destruct (span_dec_spec t) as (Ht & Hfp & _). destruct (span_dec t) as [fp r3]. cbn [fst snd] in *.
      destruct (nonempty ip || nonempty fp) eqn:Hn; [|discriminate].
      destruct (spec_tail ip fp r3) as [p|] eqn:Etail; [|discriminate].
      apply eqc_eq in Hdot. subst c. rewrite Heq, Hr, Ht.
      replace (ip ++ "." :: fp ++ r3) with ((ip ++ "." :: fp) ++ r3) by (rewrite <- app_assoc; reflexivity).
      apply FloatLit_intro; [exact Hs| |exact (spec_tail_sound _ _ _ _ Etail)].
      apply Mant_point; [exact Hip|exact Hfp|].
      apply orb_true_iff in Hn as [Hn|Hn]; [left|right]; now apply nonempty_ne.
    + rewrite orb_false_r in H. destruct (nonempty ip) eqn:Hn; [|discriminate].
      destruct (spec_tail ip [] (c :: t)) as [p|] eqn:Etail; [|discriminate].
      rewrite Heq, Hr. apply FloatLit_intro; [exact Hs| |exact (spec_tail_sound _ _ _ _ Etail)].
      apply Mant_int; [exact Hip|now apply nonempty_ne].
Qed.

Theorem floatlit_iff s : FloatLit s <-> float_syntax s = true.
Proof. split; [apply floatlit_complete|apply floatlit_sound]. Qed.

(* ---------- scanner-accepts-as-float <=> grammar ---------- *)
(* the scanner sends a string down the float path (scan type "float?") and strconv accepts it
   exactly when it is a float literal of the grammar that has a decimal point or an exponent *)
Lemma flt_chars_of_parts r p : float_parts r = Some p -> forallb spec_flt r = true.
Proof.
  intros H. assert (Hf : FloatLit r).
  { apply floatlit_sound. unfold float_syntax.
    destruct (split_sign_inv r) as (sgb & Hs & Heq). destruct Hs.
    - cbn in Heq. rewrite <- Heq. now rewrite H.
    - (* r starts with '-': impossible, float_parts needs a digit or '.' first *)
      exfalso. rewrite Heq in H. cbn [app] in H. rewrite float_parts_tail in H. cbn in H. discriminate.
    - exfalso. rewrite Heq in H. cbn [app] in H. rewrite float_parts_tail in H. cbn in H. discriminate. }
  clear H. destruct Hf as [sg m ex Hs Hm Hex].
  assert (Hd : forall d, Digits d -> forallb spec_flt d = true) by (intros d Hd; now apply forallb_dec_flt).
  rewrite !forallb_app. apply andb_true_iff; split; [destruct Hs; reflexivity|]. apply andb_true_iff; split.
  - destruct Hm; [auto|]. rewrite forallb_app. cbn [forallb]. rewrite (Hd _ H), (Hd _ H0). reflexivity.
  - destruct Hex as [|e sg' ed He Hs' Hed _]; [reflexivity|]. cbn [forallb]. rewrite forallb_app, (Hd _ Hed).
    assert (spec_flt e = true) by (revert He; clear; all_bytes e). rewrite H.
    destruct Hs'; reflexivity.
Qed.

(* whatever is inferred as a float matches the float grammar (ints that overflow included: D+ is a mantissa) *)
Lemma float_kind_sound s b : doc_infer FDefault s = VFloat b -> FloatLit s.
Proof.
  cbn [doc_infer]. unfold doc_infer_normal.
  destruct (split_sign s) as [sg r] eqn:E. assert (Hr : r = snd (split_sign s)) by now rewrite E.
  assert (K : forall neg, doc_float neg r = VFloat b -> FloatLit s).
  { intros neg H. apply floatlit_sound. unfold float_syntax. rewrite <- Hr. unfold doc_float in H.
    destruct (float_parts r); [reflexivity|discriminate]. }
  cbv zeta. destruct (classify s);
    repeat match goal with |- context [if ?c then _ else _] => destruct c end;
    try discriminate; try apply K.
  destruct s; discriminate.
Qed.
