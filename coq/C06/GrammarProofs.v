(* C06: proofs that the scanner/inferrer model equals the documented grammar of Grammar.v, for ALL byte strings. *)
From Miller Require Import Base.Bytes C06.Model C06.Proofs C06.Grammar.
Require Import Lia.
Open Scope char_scope.

(* ---------- span_dec ---------- *)
Definition starts_nondigit (b : bytes) : Prop := match b with c :: _ => spec_dec c = false | [] => True end.

Lemma span_dec_spec s :
  s = fst (span_dec s) ++ snd (span_dec s) /\ forallb spec_dec (fst (span_dec s)) = true /\ starts_nondigit (snd (span_dec s)).
Proof.
  induction s as [|c s IH]; cbn [span_dec]; [repeat split|].
  destruct (spec_dec c) eqn:Hc.
  - destruct (span_dec s) as [a b]. cbn [fst snd] in *. destruct IH as (H1 & H2 & H3).
    repeat split; [cbn; congruence | cbn; now rewrite Hc, H2 | exact H3].
  - cbn. repeat split. exact Hc.
Qed.

Lemma span_dec_app a b : forallb spec_dec a = true -> starts_nondigit b -> span_dec (a ++ b) = (a, b).
Proof.
  induction a as [|c a IH]; cbn [app forallb]; intros Ha Hb.
  - destruct b as [|c b]; [reflexivity|]. cbn in *. now rewrite Hb.
  - apply andb_true_iff in Ha as [Hc Ha]. cbn [span_dec]. rewrite Hc, (IH Ha Hb). reflexivity.
Qed.

(* ---------- strconv's mantissa loop in terms of span_dec ---------- *)
Open Scope Z_scope.
Notation dfold := (fold_left (fun a c => a * 10 + (Z.of_N (code c) - 48))).
Notation zlen l := (Z.of_nat (List.length l)).

Lemma read_mant_true s : forall m after sawdig nd,
  read_mant s m after true sawdig nd =
  (dfold (fst (span_dec s)) m, after + zlen (fst (span_dec s)), sawdig || nonempty (fst (span_dec s)),
   nd + zlen (fst (span_dec s)), snd (span_dec s)).
Proof.
  induction s as [|c s IH]; intros m after sawdig nd; cbn [read_mant span_dec].
  - cbn. now rewrite !Z.add_0_r, orb_false_r.
  - change (is_digit c) with (spec_dec c). destruct (spec_dec c) eqn:Hc.
    + rewrite IH. destruct (span_dec s) as [a b]. cbn [fst snd fold_left nonempty List.length].
      rewrite orb_true_r, Nat2Z.inj_succ. cbn [orb].
      replace (after + 1 + zlen a) with (after + Z.succ (zlen a)) by lia.
      replace (nd + 1 + zlen a) with (nd + Z.succ (zlen a)) by lia. reflexivity.
    + cbn [fst snd fold_left nonempty List.length]. rewrite !Z.add_0_r, orb_false_r. destruct (eqc c "."); reflexivity.
Qed.

Lemma read_mant_false s : forall m after sawdig nd,
  read_mant s m after false sawdig nd =
  let ip := fst (span_dec s) in
  match snd (span_dec s) with
  | c :: t => if eqc c "." then read_mant t (dfold ip m) after true (sawdig || nonempty ip) (nd + zlen ip)
              else (dfold ip m, after, sawdig || nonempty ip, nd + zlen ip, c :: t)
  | [] => (dfold ip m, after, sawdig || nonempty ip, nd + zlen ip, [])
  end.
Proof.
  induction s as [|c s IH]; intros m after sawdig nd; cbn [read_mant span_dec].
  - cbn. now rewrite !Z.add_0_r, orb_false_r.
  - change (is_digit c) with (spec_dec c). destruct (spec_dec c) eqn:Hc.
    + rewrite IH. destruct (span_dec s) as [a b]. cbn [fst snd fold_left nonempty List.length].
      rewrite !orb_true_r, Nat2Z.inj_succ. cbn [orb].
      replace (nd + 1 + zlen a) with (nd + Z.succ (zlen a)) by lia.
      destruct b as [|c' t]; [reflexivity|]. destruct (eqc c' "."); reflexivity.
    + cbn [fst snd fold_left nonempty List.length]. rewrite !Z.add_0_r, orb_false_r. destruct (eqc c "."); reflexivity.
Qed.

(* ---------- parse_float, restated ---------- *)
Definition pf_tail (neg : bool) (m after : Z) (rest : bytes) : option (option Z) :=
  match rest with
  | [] => Some (round_decimal neg m (- after))
  | c :: t =>
      if eqc c "e" || eqc c "E" then
        let '(eneg, t') :=
          match t with
          | d :: u => if eqc d "-" then (true, u) else if eqc d "+" then (false, u) else (false, t)
          | [] => (false, t)
          end in
        match t' with
        | [] => None
        | _ => match read_digits t' 0 with
               | Some e => Some (round_decimal neg m ((if eneg then - e else e) - after))
               | None => None
               end
        end
      else None
  end.

Definition pf_body (neg : bool) (r : bytes) : option (option Z) :=
  let '(m, after, sawdig, nd, rest) := read_mant r 0 0 false false 0 in
  if negb sawdig then None else pf_tail neg m after rest.

Lemma parse_float_body s : parse_float s = pf_body (is_neg (fst (split_sign s))) (snd (split_sign s)).
Proof.
  destruct s as [|c t]; [reflexivity|]. unfold parse_float, split_sign.
  destruct (eqc c "-"); [reflexivity|]. destruct (eqc c "+"); reflexivity.
Qed.

Definition spec_tail (ip fp r3 : bytes) : option fparts :=
  match r3 with
  | [] => Some (ip, fp, None)
  | c :: t => if eqc c "e" || eqc c "E" then
                let '(sg, ed) := split_sign t in
                if digits1 ed then Some (ip, fp, Some (is_neg sg, ed)) else None
              else None
  end.

Lemma read_digits_none ed : forall acc, forallb spec_dec ed = false -> read_digits ed acc = None.
Proof.
  induction ed as [|c ed IH]; intros acc; cbn [forallb read_digits]; [discriminate|].
  change (is_digit c) with (spec_dec c). destruct (spec_dec c); cbn [andb]; [apply IH|reflexivity].
Qed.
Lemma read_digits_some ed : forall acc : Z, forallb spec_dec ed = true -> exists e : Z, read_digits ed acc = Some e.
Proof.
  induction ed as [|c ed IH]; intros acc; cbn [forallb read_digits]; [eauto|].
  change (is_digit c) with (spec_dec c). destruct (spec_dec c); cbn [andb]; [apply IH|discriminate].
Qed.

Lemma exp_case (neg : bool) (M after : Z) (eneg : bool) (ed : bytes) :
  match ed return option (option Z) with
  | [] => None
  | _ => match read_digits ed 0 with
         | Some e => Some (round_decimal neg M ((if eneg then - e else e) - after))
         | None => None
         end
  end = if digits1 ed then Some (round_decimal neg M ((if eneg then - exp_val ed else exp_val ed) - after)) else None.
Proof.
  destruct ed as [|c ed]; [reflexivity|]. unfold digits1. cbn [nonempty andb].
  destruct (forallb spec_dec (c :: ed)) eqn:H.
  - destruct (read_digits_some _ 0 H) as [e He]. unfold exp_val. now rewrite He.
  - now rewrite (read_digits_none _ 0 H).
Qed.

Lemma tail_eq neg ip fp r3 :
  pf_tail neg (dec_val (ip ++ fp)) (zlen fp) r3 =
  match spec_tail ip fp r3 with Some p => Some (float_value neg p) | None => None end.
Proof.
  destruct r3 as [|c t]; cbn [pf_tail spec_tail].
  - unfold float_value. do 2 f_equal; try lia.
  - destruct (eqc c "e" || eqc c "E"); [|reflexivity].
    destruct t as [|d u]; [reflexivity|]. cbn [split_sign].
    destruct (eqc d "-").
    { pose proof (exp_case neg (dec_val (ip ++ fp)) (zlen fp) true u) as H.
      cbv beta iota zeta in H |- *. rewrite H. cbn [is_neg]. destruct (digits1 u); reflexivity. }
    destruct (eqc d "+").
    { pose proof (exp_case neg (dec_val (ip ++ fp)) (zlen fp) false u) as H.
      cbv beta iota zeta in H |- *. rewrite H. cbn [is_neg]. destruct (digits1 u); reflexivity. }
    pose proof (exp_case neg (dec_val (ip ++ fp)) (zlen fp) false (d :: u)) as H.
    cbv beta iota zeta in H |- *. rewrite H. cbn [is_neg]. destruct (digits1 (d :: u)); reflexivity.
Qed.

Lemma float_parts_tail r :
  float_parts r =
  let ip := fst (span_dec r) in
  let r1 := snd (span_dec r) in
  let fp := match r1 with c :: t => if eqc c "." then fst (span_dec t) else [] | [] => [] end in
  let r3 := match r1 with c :: t => if eqc c "." then snd (span_dec t) else r1 | [] => r1 end in
  if nonempty ip || nonempty fp then spec_tail ip fp r3 else None.
Proof.
  unfold float_parts. destruct (span_dec r) as [ip r1]. cbn [fst snd].
  destruct r1 as [|c t]; [reflexivity|]. destruct (eqc c "."); [|reflexivity].
  destruct (span_dec t) as [fp r3]. reflexivity.
Qed.

Lemma dec_val_app a b : dec_val (a ++ b) = dfold b (dec_val a).
Proof. unfold dec_val. apply fold_left_app. Qed.

Lemma pf_body_spec neg r :
  pf_body neg r = match float_parts r with Some p => Some (float_value neg p) | None => None end.
Proof.
  unfold pf_body. rewrite read_mant_false, float_parts_tail. cbn zeta.
  destruct (span_dec r) as [ip r1]. cbn [fst snd orb].
  destruct r1 as [|c t].
  - rewrite orb_false_r. cbn [List.length]. destruct (nonempty ip); cbn [negb]; [|reflexivity].
    rewrite <- (tail_eq neg ip [] []). rewrite app_nil_r. reflexivity.
  - destruct (eqc c ".").
    + rewrite read_mant_true. destruct (span_dec t) as [fp r3]. cbn [fst snd].
      destruct (nonempty ip || nonempty fp); cbn [negb]; [|reflexivity].
      rewrite <- tail_eq, dec_val_app. reflexivity.
    + rewrite orb_false_r. destruct (nonempty ip); cbn [negb]; [|reflexivity].
      rewrite <- (tail_eq neg ip [] (c :: t)), app_nil_r. reflexivity.
Qed.

(* strconv.ParseFloat restricted to what reaches it = the documented float grammar, with the value of the literal *)
Definition spec_parse_float (s : bytes) : option (option Z) :=
  match float_parts (snd (split_sign s)) with
  | Some p => Some (float_value (is_neg (fst (split_sign s))) p)
  | None => None
  end.

Lemma parse_float_spec s : parse_float s = spec_parse_float s.
Proof. rewrite parse_float_body. apply pf_body_spec. Qed.

Lemma parse_float_syntax s : (parse_float s <> None) <-> float_syntax s = true.
Proof.
  rewrite parse_float_spec. unfold spec_parse_float, float_syntax.
  destruct (float_parts (snd (split_sign s))); split; intros H; try reflexivity; try discriminate; now elim H.
Qed.
