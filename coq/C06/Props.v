(* C06 property theorems.  Only statements closed by [exact]; each followed by Print Assumptions.
   All are stated over the scanner/inferrer instantiated with the digit tables REGENERATED from /repo. *)
From Miller Require Import Base.Bytes C06.Model C06.Proofs C06.TableProofs gen.Gen_ScanTables.
Open Scope char_scope.

(* (B) regenerated tables = documented digit classes, all 256 bytes *)
Theorem C06_tables_match_documented_classes :
  forall c, gen_is_dec c = in_range "0" "9" c
         /\ gen_is_oct c = in_range "0" "7" c
         /\ gen_is_hex c = (in_range "0" "9" c || in_range "a" "f" c || in_range "A" "F" c)
         /\ gen_is_flt c = (in_range "0" "9" c || eqc c "." || eqc c "e" || eqc c "E" || eqc c "+" || eqc c "-").
Proof. exact (fun c => conj (gen_dec_spec c) (conj (gen_oct_spec c) (conj (gen_hex_spec c) (gen_flt_spec c)))). Qed.
Print Assumptions C06_tables_match_documented_classes.

(* the scanner decides exactly the documented lexical grammar, for ALL byte strings *)
Theorem C06_scan_matches_grammar : forall s : bytes, gscan s = classify s.
Proof. exact (fun s => eq_trans (gscan_spec s) (scan_classify s)). Qed.
Print Assumptions C06_scan_matches_grammar.

(* anything containing a byte outside [0-9a-fA-FxXoObB.+-eE] is a string under every flag:
   inf, NaN, true, false, digit separators, embedded spaces ... *)
Theorem C06_non_numeric_is_string :
  forall f s c, In c s -> numeric_char c = false -> ginfer f s = VString.
Proof. exact (fun f s c Hin Hc => eq_trans (ginfer_spec f s) (non_numeric_is_string f s c Hin Hc)). Qed.
Print Assumptions C06_non_numeric_is_string.

Theorem C06_empty_is_empty : forall f, ginfer f [] = VEmpty.
Proof. exact (fun f => eq_trans (ginfer_spec f []) (infer_empty f)). Qed.
Print Assumptions C06_empty_is_empty.

(* -S: never a number.  -A: never an int. *)
Theorem C06_S_all_strings : forall s, ginfer FS s = as_string s.
Proof. exact (fun s => eq_trans (ginfer_spec FS s) (infer_S_never_numeric s)). Qed.
Print Assumptions C06_S_all_strings.

Theorem C06_A_no_ints : forall s n, ginfer FA s <> VInt n.
Proof. exact (fun s n H => infer_A_no_ints s n (eq_trans (eq_sym (ginfer_spec FA s)) H)). Qed.
Print Assumptions C06_A_no_ints.

(* decimal digits without a leading zero: int with the exact value when it fits in 64 bits,
   else the correctly rounded float (a string only beyond the double range) -- for every digit string of every length *)
Theorem C06_decimal_int_unsigned :
  forall d, signed_dec_ok d = true ->
  ginfer FDefault d = if in64 (dec_val d) then VInt (dec_val d) else dec_float false d.
Proof. exact (fun d H => eq_trans (ginfer_spec FDefault d) (decimal_unsigned d H)). Qed.
Print Assumptions C06_decimal_int_unsigned.

Theorem C06_decimal_int_signed :
  forall (neg : bool) d, signed_dec_ok d = true ->
  let s := (if neg then "-" else "+") :: d in
  let v := (if neg then - dec_val d else dec_val d)%Z in
  ginfer FDefault s = if in64 v then VInt v else dec_float neg d.
Proof. exact (fun neg d H => eq_trans (ginfer_spec FDefault _) (decimal_signed neg d H)). Qed.
Print Assumptions C06_decimal_int_signed.

(* leading-zero decimals are strings by default and ints under -O *)
Theorem C06_leading_zero_default_string :
  forall t, nonempty t = true -> forallb spec_dec t = true -> ginfer FDefault ("0" :: t) = VString.
Proof. exact (fun t H1 H2 => eq_trans (ginfer_spec FDefault _) (leading_zero_default_is_string t H1 H2)). Qed.
Print Assumptions C06_leading_zero_default_string.

Theorem C06_leading_zero_O_int :
  forall t, nonempty t = true -> forallb spec_dec t = true -> forallb spec_oct t = false ->
  ginfer FO ("0" :: t) = if in64 (dec_val t) then VInt (dec_val t) else infer_maybe_float ("0" :: t).
Proof. exact (fun t H1 H2 H3 => eq_trans (ginfer_spec FO _) (leading_zero_O_decimal_is_int t H1 H2 H3)). Qed.
Print Assumptions C06_leading_zero_O_int.

(* "integers that do not fit in 64 bits become floats": concrete instance (the general statement is the
   else-branch of the two theorems above) *)
Theorem C06_int_overflow_becomes_float_instance :
  ginfer FDefault (B "9223372036854775808") = VFloat 4890909195324358656.
Proof. exact (eq_trans (ginfer_spec FDefault _) (proj1 (proj2 (proj2 int_overflow_is_float_witness)))). Qed.
Print Assumptions C06_int_overflow_becomes_float_instance.

(* non-vacuity: concrete inputs meeting the hypotheses *)
Example C06_nonvacuous :
  signed_dec_ok (B "18446744073709551615") = true /\ signed_dec_ok (B "0") = true
  /\ ginfer FDefault (B "-9223372036854775808") = VInt (- 9223372036854775808)
  /\ ginfer FDefault (B "0xffffffffffffffff") = VInt (-1)
  /\ ginfer FDefault (B "1_000") = VString /\ ginfer FDefault (B "0x1p3") = VString
  /\ ginfer FDefault (B "1e3") = VFloat 4652007308841189376
  /\ ginfer FA (B "7") = VFloat 4619567317775286272.
Proof. vm_compute. repeat split; reflexivity. Qed.
