(* C06 property theorems.  Only statements closed by [exact]; each followed by Print Assumptions.
   All are stated over the scanner/inferrer instantiated with the digit tables REGENERATED from /repo. *)
From Miller Require Import Base.Bytes C06.Model C06.Proofs C06.Grammar C06.GrammarProofs C06.GrammarInfer C06.GrammarAccept C06.Tables C06.TableProofs gen.Gen_ScanTables gen.Gen_ScanTypes.
Open Scope char_scope.

(* (B) regenerated tables = documented digit classes, all 256 bytes *)
Theorem C06_tables_match_documented_classes :
  forall c, gen_is_dec c = in_range "0" "9" c
         /\ gen_is_oct c = in_range "0" "7" c
         /\ gen_is_hex c = (in_range "0" "9" c || in_range "a" "f" c || in_range "A" "F" c)
         /\ gen_is_flt c = (in_range "0" "9" c || eqc c "." || eqc c "e" || eqc c "E" || eqc c "+" || eqc c "-").
Proof. exact (fun c => conj (gen_dec_spec c) (conj (gen_oct_spec c) (conj (gen_hex_spec c) (gen_flt_spec c)))). Qed.
Print Assumptions C06_tables_match_documented_classes.

(* the scanner decides exactly the documented lexical grammar, for ALL byte strings *)
Theorem C06_scan_matches_grammar : forall s : bytes, gscan s = classify s.
Proof. exact (fun s => eq_trans (gscan_spec s) (scan_classify s)). Qed.
Print Assumptions C06_scan_matches_grammar.

(* anything containing a byte outside [0-9a-fA-FxXoObB.+-eE] is a string under every flag:
   inf, NaN, true, false, digit separators, embedded spaces ... *)
Theorem C06_non_numeric_is_string :
  forall f s c, In c s -> numeric_char c = false -> ginfer f s = VString.
Proof. exact (fun f s c Hin Hc => eq_trans (ginfer_spec f s) (non_numeric_is_string f s c Hin Hc)). Qed.
Print Assumptions C06_non_numeric_is_string.

Theorem C06_empty_is_empty : forall f, ginfer f [] = VEmpty.
Proof. exact (fun f => eq_trans (ginfer_spec f []) (infer_empty f)). Qed.
Print Assumptions C06_empty_is_empty.

(* -S: never a number.  -A: never an int. *)
Theorem C06_S_all_strings : forall s, ginfer FS s = as_string s.
Proof. exact (fun s => eq_trans (ginfer_spec FS s) (infer_S_never_numeric s)). Qed.
Print Assumptions C06_S_all_strings.

Theorem C06_A_no_ints : forall s n, ginfer FA s <> VInt n.
Proof. exact (fun s n H => infer_A_no_ints s n (eq_trans (eq_sym (ginfer_spec FA s)) H)). Qed.
Print Assumptions C06_A_no_ints.

(* decimal digits without a leading zero: int with the exact value when it fits in 64 bits,
   else the correctly rounded float (a string only beyond the double range) -- for every digit string of every length *)
Theorem C06_decimal_int_unsigned :
  forall d, signed_dec_ok d = true ->
  ginfer FDefault d = if in64 (dec_val d) then VInt (dec_val d) else dec_float false d.
Proof. exact (fun d H => eq_trans (ginfer_spec FDefault d) (decimal_unsigned d H)). Qed.
Print Assumptions C06_decimal_int_unsigned.

Theorem C06_decimal_int_signed :
  forall (neg : bool) d, signed_dec_ok d = true ->
  let s := (if neg then "-" else "+") :: d in
  let v := (if neg then - dec_val d else dec_val d)%Z in
  ginfer FDefault s = if in64 v then VInt v else dec_float neg d.
Proof. exact (fun neg d H => eq_trans (ginfer_spec FDefault _) (decimal_signed neg d H)). Qed.
Print Assumptions C06_decimal_int_signed.

(* leading-zero decimals are strings by default and ints under -O *)
Theorem C06_leading_zero_default_string :
  forall t, nonempty t = true -> forallb spec_dec t = true -> ginfer FDefault ("0" :: t) = VString.
Proof. exact (fun t H1 H2 => eq_trans (ginfer_spec FDefault _) (leading_zero_default_is_string t H1 H2)). Qed.
Print Assumptions C06_leading_zero_default_string.

Theorem C06_leading_zero_O_int :
  forall t, nonempty t = true -> forallb spec_dec t = true -> forallb spec_oct t = false ->
  ginfer FO ("0" :: t) = if in64 (dec_val t) then VInt (dec_val t) else infer_maybe_float ("0" :: t).
Proof. exact (fun t H1 H2 H3 => eq_trans (ginfer_spec FO _) (leading_zero_O_decimal_is_int t H1 H2 H3)). Qed.
Print Assumptions C06_leading_zero_O_int.

(* "integers that do not fit in 64 bits become floats": concrete instance (the general statement is the
   else-branch of the two theorems above) *)
Theorem C06_int_overflow_becomes_float_instance :
  ginfer FDefault (B "9223372036854775808") = VFloat 4890909195324358656.
Proof. exact (eq_trans (ginfer_spec FDefault _) (proj1 (proj2 (proj2 int_overflow_is_float_witness)))). Qed.
Print Assumptions C06_int_overflow_becomes_float_instance.

(* ---------- the float grammar and the full documented inference (round 2) ---------- *)
(* the float grammar as an inductive definition (sign? (D+ | D+ '.' D* | D* '.' D+) ([eE] sign? D+)?) and as a boolean recogniser agree, all byte strings *)
Theorem C06_float_grammar_inductive_iff_boolean : forall s : bytes, FloatLit s <-> float_syntax s = true.
Proof. exact floatlit_iff. Qed.
Print Assumptions C06_float_grammar_inductive_iff_boolean.

(* strconv.ParseFloat's syntax, as modelled (mantissa loop with its flags, exponent loop), accepts exactly the float grammar;
   Inf/NaN/infinity/hex floats/underscores never reach it: C06_non_numeric_is_string *)
Theorem C06_float_syntax_acceptance : forall s : bytes, (parse_float s <> None) <-> FloatLit s.
Proof. exact (fun s => iff_trans (parse_float_syntax s) (iff_sym (floatlit_iff s))). Qed.
Print Assumptions C06_float_syntax_acceptance.

(* ... and computes the value the literal denotes: (int digits ++ fraction digits) * 10^(exp - |fraction|), correctly rounded *)
Theorem C06_float_value : forall s : bytes, parse_float s = spec_parse_float s.
Proof. exact parse_float_spec. Qed.
Print Assumptions C06_float_value.

(* THE classification theorem: for ALL byte strings and every flag, the inferrer built from the regenerated tables gives the kind
   AND the value of the documented grammar (doc_infer: decimal / 0x incl. the two's-complement range and signs / 0o / 0b /
   leading zeros vs -O / floats / overflow to float / everything else string; -S; -A) *)
Theorem C06_inference_is_documented_grammar : forall (f : iflag) (s : bytes), ginfer f s = doc_infer f s.
Proof. exact (fun f s => eq_trans (ginfer_spec f s) (infer_is_documented f s)). Qed.
Print Assumptions C06_inference_is_documented_grammar.

(* whatever is inferred as a float is a float literal of the grammar *)
Theorem C06_inferred_float_is_float_literal : forall (s : bytes) (b : Z), ginfer FDefault s = VFloat b -> FloatLit s.
Proof. exact (fun s b H => float_kind_sound s b (eq_trans (eq_sym (C06_inference_is_documented_grammar FDefault s)) H)). Qed.
Print Assumptions C06_inferred_float_is_float_literal.

(* scanner-accepts-as-float <=> grammar, ALL byte strings: the scanner (regenerated tables) classifies s as a float candidate and
   strconv accepts it exactly when s is a float literal of the grammar that has a decimal point or an exponent *)
Theorem C06_scanner_float_path_iff_grammar :
  forall s : bytes, (gscan s = SMaybeFloat /\ parse_float s <> None) <-> (FloatLit s /\ has_point_or_exp s = true).
Proof. exact g_float_path_iff_grammar. Qed.
Print Assumptions C06_scanner_float_path_iff_grammar.

(* ... and then the inferred value is the literal's value correctly rounded (a string only beyond the double range) *)
Theorem C06_float_literal_is_inferred_float :
  forall s : bytes, FloatLit s -> has_point_or_exp s = true ->
  exists p, float_parts (snd (split_sign s)) = Some p
  /\ ginfer FDefault s = match float_value (is_neg (fst (split_sign s))) p with Some b => VFloat b | None => VString end.
Proof. exact g_float_literal_inferred. Qed.
Print Assumptions C06_float_literal_is_inferred_float.

(* the regenerated scan-type enum, inferrer dispatch tables and flag -> inferrer selection are those of the model *)
Theorem C06_dispatch_tables_match :
  gen_type_names = map (fun t => (N.to_nat (scantype_code t), scantype_name t)) all_scantypes
  /\ gen_normal_table = map (fun t => inferrer_name (dispatch false t)) all_scantypes
  /\ gen_octal_table = map (fun t => inferrer_name (dispatch true t)) all_scantypes
  /\ gen_selectors = map (fun f => (flag_name f, selector_name f)) [FDefault; FS; FA; FO]
  /\ map snd gen_examples = map (fun t => N.to_nat (scantype_code t)) all_scantypes
  /\ forall oai s, infer_normal gen_is_dec gen_is_oct gen_is_hex gen_is_flt oai s = run_inferrer (dispatch oai (gscan s)) s.
Proof. exact (conj gen_type_names_spec (conj gen_normal_table_spec (conj gen_octal_table_spec (conj gen_selectors_spec
              (conj (proj2 gen_examples_spec) (infer_normal_dispatch gen_is_dec gen_is_oct gen_is_hex gen_is_flt)))))). Qed.
Print Assumptions C06_dispatch_tables_match.

(* the documented examples, evaluated on the specification AND (by the theorem above) true of the inferrer *)
Open Scope string_scope.
Example C06_documented_examples :
  let k f s := kind_of (doc_infer f (B s)) in
  let v f s := doc_infer f (B s) in
  (k FDefault "08.5" = KFloat /\ k FDefault "1e5" = KFloat /\ k FDefault ".5" = KFloat /\ k FDefault "5." = KFloat /\ k FDefault "1E-5" = KFloat
   /\ k FDefault "-.5e+3" = KFloat /\ k FDefault "007.5" = KFloat /\ k FDefault "1e400" = KString /\ v FDefault "1e-400" = VFloat 0)
  /\ (v FDefault "-0x1F" = VInt (-31) /\ v FDefault "0xff" = VInt 255 /\ v FDefault "-0xff" = VInt (-255) /\ v FDefault "+0xff" = VInt 255
      /\ v FDefault "0xFFFFFFFFFFFFFFFF" = VInt (-1) /\ v FDefault "0x8000000000000000" = VInt (-9223372036854775808)
      /\ v FDefault "-0x8000000000000000" = VInt (-9223372036854775808) /\ v FDefault "-0xffffffffffffffff" = VInt 1
      /\ v FDefault "0x7fffffffffffffff" = VInt 9223372036854775807 /\ v FDefault "0x08000000000000000" = VString
      /\ v FDefault "0o17" = VInt 15 /\ v FDefault "0b101" = VInt 5 /\ v FDefault "-0b101" = VInt (-5))
  /\ (v FDefault "017" = VString /\ v FDefault "08" = VString /\ v FO "017" = VInt 15 /\ v FO "08" = VInt 8 /\ v FO "-0377" = VInt (-255)
      /\ k FA "0xff" = KFloat /\ k FA "12" = KFloat /\ v FS "12" = VString /\ v FS "" = VEmpty)
  /\ (v FDefault "1_000" = VString /\ v FDefault "1e" = VString /\ v FDefault "e5" = VString /\ v FDefault "0x" = VString
      /\ v FDefault "1.2.3" = VString /\ v FDefault "--1" = VString /\ v FDefault "+-1" = VString /\ v FDefault " 1" = VString
      /\ v FDefault "1 " = VString /\ v FDefault "." = VString /\ v FDefault "-." = VString /\ v FDefault "Inf" = VString
      /\ v FDefault "NaN" = VString /\ v FDefault "+Inf" = VString /\ v FDefault "-inf" = VString /\ v FDefault "infinity" = VString
      /\ v FDefault "0x1.8p1" = VString /\ v FDefault "1e5e" = VString /\ v FDefault "0b102" = VString /\ v FDefault "0o18" = VString)
  /\ FloatLit (B "-12.5e-3") /\ ~ FloatLit (B "1e").
Proof.
  cbv zeta. split; [vm_compute; repeat split; reflexivity|]. split; [vm_compute; repeat split; reflexivity|].
  split; [vm_compute; repeat split; reflexivity|]. split; [vm_compute; repeat split; reflexivity|].
  split; [apply floatlit_iff; reflexivity|]. intros H. apply floatlit_iff in H. discriminate H.
Qed.
Close Scope string_scope.

(* non-vacuity: concrete inputs meeting the hypotheses *)
Example C06_nonvacuous :
  signed_dec_ok (B "18446744073709551615") = true /\ signed_dec_ok (B "0") = true
  /\ ginfer FDefault (B "-9223372036854775808") = VInt (- 9223372036854775808)
  /\ ginfer FDefault (B "0xffffffffffffffff") = VInt (-1)
  /\ ginfer FDefault (B "1_000") = VString /\ ginfer FDefault (B "0x1p3") = VString
  /\ ginfer FDefault (B "1e3") = VFloat 4652007308841189376
  /\ ginfer FA (B "7") = VFloat 4619567317775286272.
Proof. vm_compute. repeat split; reflexivity. Qed.
