(* C06: the scanner sends a string down the float path and strconv accepts it  <=>  the string is a float literal of
   the grammar with a decimal point or an exponent.  For ALL byte strings. *)
From Miller Require Import Base.Bytes C06.Model C06.Proofs C06.Grammar C06.GrammarProofs C06.GrammarInfer.
Require Import Lia.
Open Scope char_scope.

Lemma classify_pos_float signed r :
  forallb spec_flt r = true -> forallb spec_dec r = false ->
  match r with c0 :: _ => spec_dec c0 || eqc c0 "." = true | [] => False end ->
  (signed = false -> is_dot r = false) ->
  classify_pos signed r = SMaybeFloat.
Proof.
  intros Hf Hd H0 Hdot. destruct r as [|c0 t]; [contradiction|]. cbn [classify_pos]. rewrite H0. cbn [negb].
  assert (Hp : forall l u, (forall c, eqc c l || eqc c u = true -> spec_flt c = false) -> pref2 "0" l u (c0 :: t) = false).
  { intros l u Hlu. destruct t as [|c1 t2]; [reflexivity|]. cbn [pref2].
    destruct (eqc c1 l || eqc c1 u) eqn:E; [|apply andb_false_r].
    apply Hlu in E. cbn [forallb] in Hf. rewrite E in Hf. cbn [andb] in Hf. rewrite andb_false_r in Hf. discriminate. }
  rewrite (Hp "x" "X" x_not_flt), (Hp "o" "O" o_not_flt), (Hp "b" "B" b_not_flt).
  destruct (eqc c0 "0" && nonempty t && forallb spec_oct t) eqn:H1.
  { apply andb_true_iff in H1 as [H1 H2]. apply andb_true_iff in H1 as [Hz _].
    cbn [forallb] in Hd. rewrite (zero_dec _ Hz), (forallb_oct_dec _ H2) in Hd. discriminate. }
  destruct (eqc c0 "0" && nonempty t && forallb spec_dec t) eqn:H2.
  { apply andb_true_iff in H2 as [H2 H3]. apply andb_true_iff in H2 as [Hz _].
    cbn [forallb] in Hd. rewrite (zero_dec _ Hz), H3 in Hd. discriminate. }
  rewrite Hd, Hf. destruct signed; cbn [negb andb]; [reflexivity|]. now rewrite (Hdot eq_refl).
Qed.

Lemma floatlit_flt_chars s : FloatLit s -> forallb spec_flt s = true.
Proof.
  intros [sg m ex Hs Hm Hex].
  assert (Hd : forall d, Digits d -> forallb spec_flt d = true) by (intros d Hd; now apply forallb_dec_flt).
  rewrite !forallb_app. apply andb_true_iff; split; [destruct Hs; reflexivity|]. apply andb_true_iff; split.
  - destruct Hm; [auto|]. rewrite forallb_app. cbn [forallb]. rewrite (Hd _ H), (Hd _ H0). reflexivity.
  - destruct Hex as [|e sg' ed He Hs' Hed _]; [reflexivity|]. cbn [forallb]. rewrite forallb_app, (Hd _ Hed).
    assert (spec_flt e = true) by (revert He; clear; all_bytes e). rewrite H.
    destruct Hs'; reflexivity.
Qed.

Definition pe (c : ascii) : bool := eqc c "." || eqc c "e" || eqc c "E".
Lemma pe_not_dec c : pe c = true -> spec_dec c = false.   Proof. unfold pe. all_bytes c. Qed.
Lemma e_is_pe c : eqc c "e" || eqc c "E" = true -> pe c = true.   Proof. unfold pe. all_bytes c. Qed.
Lemma exists_pe_not_dec r : existsb pe r = true -> forallb spec_dec r = false.
Proof.
  induction r as [|c r IH]; cbn [existsb forallb]; [discriminate|]. rewrite orb_true_iff. intros [H|H].
  - now rewrite (pe_not_dec _ H).
  - rewrite (IH H). apply andb_false_r.
Qed.
Lemma digits_no_pe d : Digits d -> existsb pe d = false.
Proof.
  unfold Digits. induction d as [|c d IH]; cbn [existsb forallb]; [reflexivity|]. rewrite andb_true_iff. intros [Hc Hd].
  rewrite (IH Hd), orb_false_r. destruct (pe c) eqn:E; [|reflexivity]. apply pe_not_dec in E. congruence.
Qed.

Lemma mantissa_head m ex : Mantissa m ->
  match m ++ ex with c0 :: _ => spec_dec c0 || eqc c0 "." = true | [] => False end
  /\ is_dot (m ++ ex) = false /\ starts_nonsign (m ++ ex).
Proof.
  intros [ip Hip Hne | ip fp Hip Hfp Hor].
  - destruct ip as [|c ip]; [now elim Hne|]. unfold Digits in Hip. cbn [forallb] in Hip. apply andb_true_iff in Hip as [Hc _].
    cbn [app]. rewrite Hc. repeat split; [|apply (dec_not_sign _ Hc)|apply (dec_not_sign _ Hc)].
    cbn [is_dot]. destruct (ip ++ ex); [|reflexivity]. destruct (eqc c ".") eqn:E; [|reflexivity]. apply dot_not_dec in E. congruence.
  - destruct ip as [|c ip].
    + cbn [app]. change (eqc "." ".") with true. rewrite orb_true_r. repeat split.
      destruct Hor as [H|H]; [now elim H|]. destruct fp; [now elim H|reflexivity].
    + unfold Digits in Hip. cbn [forallb] in Hip. apply andb_true_iff in Hip as [Hc _]. cbn [app]. rewrite Hc.
      repeat split; [|apply (dec_not_sign _ Hc)|apply (dec_not_sign _ Hc)].
      cbn [is_dot]. destruct ip; reflexivity.
Qed.

Lemma sign_no_pe sg : Sign sg -> existsb pe sg = false.
Proof. destruct 1; reflexivity. Qed.

Lemma floatlit_classify s : FloatLit s -> has_point_or_exp s = true -> classify s = SMaybeFloat.
Proof.
  intros Hfl Hpe. pose proof (floatlit_flt_chars s Hfl) as Hflt. destruct Hfl as [sg m ex Hs Hm Hex].
  destruct (mantissa_head m ex Hm) as (H0 & Hdot & Hns).
  assert (Hne : sg ++ m ++ ex <> []).
  { destruct (m ++ ex); [contradiction|]. destruct sg; discriminate. }
  rewrite (classify_split _ Hne), (split_sign_app sg (m ++ ex) Hs Hns).
  change (has_point_or_exp (sg ++ m ++ ex)) with (existsb pe (sg ++ m ++ ex)) in Hpe.
  rewrite existsb_app, (sign_no_pe sg Hs) in Hpe. cbn [orb] in Hpe.
  rewrite forallb_app in Hflt. apply andb_true_iff in Hflt as [_ Hflt].
  apply classify_pos_float; [exact Hflt|now apply exists_pe_not_dec|exact H0|intros _; exact Hdot].
Qed.

(* an all-digit body is an integer category, never the float path *)
Lemma digits_not_float_path signed r : digits1 r = true -> classify_pos signed r <> SMaybeFloat.
Proof.
  intros Hd. apply digits1_split in Hd as [Hne Hall].
  destruct r as [|c0 t]; [now elim Hne|].
  destruct (eqc c0 "0" && nonempty t) eqn:Hz.
  - apply andb_true_iff in Hz as [Hz Hn]. apply eqc_eq in Hz. subst c0.
    cbn [forallb] in Hall. apply andb_true_iff in Hall as [_ Ht].
    rewrite (classify_pos_lz signed t Hn Ht). destruct (forallb spec_oct t); discriminate.
  - rewrite (classify_pos_dec signed (c0 :: t)); [discriminate|].
    unfold signed_dec_ok. cbn [nonempty hd List.length]. rewrite Hall. cbn [andb].
    apply andb_false_iff in Hz as [Hz|Hz]; [now rewrite Hz|]. destruct t; [apply orb_true_r|discriminate].
Qed.

Lemma floatlit_without_pe s : FloatLit s -> has_point_or_exp s = false -> digits1 (snd (split_sign s)) = true.
Proof.
  intros [sg m ex Hs Hm Hex] Hpe. destruct (mantissa_head m ex Hm) as (_ & _ & Hns).
  rewrite (split_sign_app sg (m ++ ex) Hs Hns).
  change (has_point_or_exp (sg ++ m ++ ex)) with (existsb pe (sg ++ m ++ ex)) in Hpe.
  rewrite !existsb_app in Hpe. apply orb_false_iff in Hpe as [_ Hpe]. apply orb_false_iff in Hpe as [Hm' Hex'].
  destruct Hex as [|e sg' ed He]; [|cbn [existsb] in Hex'; rewrite (e_is_pe _ He) in Hex'; discriminate].
  rewrite app_nil_r. destruct Hm as [ip Hip Hne | ip fp Hip Hfp Hor].
  - unfold digits1. destruct ip; [now elim Hne|]. cbn [nonempty andb]. exact Hip.
  - rewrite existsb_app in Hm'. cbn [existsb] in Hm'. change (pe ".") with true in Hm'. rewrite orb_true_r in Hm'. discriminate.
Qed.

Theorem float_path_iff_grammar s :
  (scan spec_dec spec_oct spec_hex spec_flt s = SMaybeFloat /\ parse_float s <> None)
  <-> (FloatLit s /\ has_point_or_exp s = true).
Proof.
  rewrite scan_classify. split.
  - intros [Hk Hp]. apply parse_float_syntax in Hp. apply floatlit_sound in Hp. split; [exact Hp|].
    destruct (has_point_or_exp s) eqn:E; [reflexivity|exfalso].
    pose proof (floatlit_without_pe s Hp E) as Hd.
    assert (Hne : s <> []) by (destruct s; [discriminate Hk|discriminate]).
    rewrite (classify_split s Hne) in Hk. exact (digits_not_float_path _ _ Hd Hk).
  - intros [Hfl Hpe]. split; [now apply floatlit_classify|]. apply parse_float_syntax. now apply floatlit_complete.
Qed.

(* the inferred value of such a literal: the correctly rounded float, or a string beyond the double range *)
Theorem float_literal_inferred s :
  FloatLit s -> has_point_or_exp s = true ->
  exists p, float_parts (snd (split_sign s)) = Some p
  /\ infer spec_dec spec_oct spec_hex spec_flt FDefault s
     = match float_value (is_neg (fst (split_sign s))) p with Some b => VFloat b | None => VString end.
Proof.
  intros Hfl Hpe. pose proof (floatlit_complete s Hfl) as Hsyn. unfold float_syntax in Hsyn.
  destruct (float_parts (snd (split_sign s))) as [p|] eqn:Ep; [|discriminate]. exists p. split; [reflexivity|].
  rewrite infer_is_documented. cbn [doc_infer]. unfold doc_infer_normal.
  rewrite (floatlit_classify s Hfl Hpe). destruct (split_sign s) as [sg r]. cbn [fst snd] in *.
  unfold doc_float. now rewrite Ep.
Qed.
