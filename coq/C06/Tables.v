(* C06: the table-shaped parts of the code, as the model sees them: the scan-type enum of pkg/scan/type.go, the two
   inferrer dispatch tables of pkg/mlrval/mlrval_infer.go (normalInferrerTable, leadingZeroAsIntInferrerTable) and the
   inferrer each flag installs.  gen/Gen_ScanTypes.v is REGENERATED from the implementation on every run and re-proved
   equal to these in TableProofs.v. *)
From Miller Require Import Base.Bytes C06.Model.
Require Import String.

Definition all_scantypes : list scantype := [SString; SDecInt; SLzDecInt; SOctInt; SLzOctInt; SHexInt; SBinInt; SMaybeFloat].

Definition scantype_name (t : scantype) : string :=
  match t with
  | SString => "string" | SDecInt => "decint" | SLzDecInt => "lzdecint" | SOctInt => "octint"
  | SLzOctInt => "lzoctint" | SHexInt => "hexint" | SBinInt => "binint" | SMaybeFloat => "float?"
  end%string.

Inductive inferrer := IString | IDecimalInt | ILzDecAsInt | IOctalInt | ILzOctAsInt | IHexInt | IBinaryInt | IMaybeFloat.

Definition inferrer_name (i : inferrer) : string :=
  match i with
  | IString => "inferString" | IDecimalInt => "inferDecimalInt" | ILzDecAsInt => "inferLeadingZeroDecimalIntAsInt"
  | IOctalInt => "inferOctalInt" | ILzOctAsInt => "inferFromLeadingZeroOctalIntAsInt" | IHexInt => "inferHexInt"
  | IBinaryInt => "inferBinaryInt" | IMaybeFloat => "inferMaybeFloat"
  end%string.

(* which inferrer a scan type is dispatched to: normal table (false) / leading-zero-as-int table (true, mlr -O) *)
Definition dispatch (octal_as_int : bool) (t : scantype) : inferrer :=
  match t with
  | SString => IString
  | SDecInt => IDecimalInt
  | SLzDecInt => if octal_as_int then ILzDecAsInt else IString
  | SOctInt => IOctalInt
  | SLzOctInt => if octal_as_int then ILzOctAsInt else IString
  | SHexInt => IHexInt
  | SBinInt => IBinaryInt
  | SMaybeFloat => IMaybeFloat
  end.

Definition run_inferrer (i : inferrer) (s : bytes) : ival :=
  match i with
  | IString => as_string s
  | IDecimalInt | ILzDecAsInt => infer_decimal s
  | IOctalInt => infer_base 8 s
  | ILzOctAsInt => infer_lz_octal s
  | IHexInt => infer_hex s
  | IBinaryInt => infer_base 2 s
  | IMaybeFloat => infer_maybe_float s
  end.

(* the model's inferrer IS scan-then-dispatch through these tables *)
Lemma infer_normal_dispatch d o h f oai s :
  infer_normal d o h f oai s = run_inferrer (dispatch oai (scan d o h f s)) s.
Proof. unfold infer_normal. destruct (scan d o h f s), oai; reflexivity. Qed.

(* the package-level inferrer installed by each flag (SetInferrerOctalAsInt / SetInferrerIntAsFloat / SetInferrerStringOnly) *)
Definition selector_name (f : iflag) : string :=
  match f with FDefault => "inferNormally" | FS => "inferString" | FA => "inferWithIntAsFloat" | FO => "inferWithOctalAsInt" end%string.
Definition flag_name (f : iflag) : string := match f with FDefault => "default" | FS => "S" | FA => "A" | FO => "O" end%string.
