(* C06 correspondence harness: executable checks run by vm_compute on cases written by the Python driver.
   The scanner/inferrer are instantiated with the tables REGENERATED from /repo (gen/Gen_ScanTables.v). *)
From Miller Require Import Base.Bytes C06.Model gen.Gen_ScanTables.
Open Scope Z_scope.

Definition gscan := scan gen_is_dec gen_is_oct gen_is_hex gen_is_flt.
Definition ginfer := infer gen_is_dec gen_is_oct gen_is_hex gen_is_flt.

Definition flag_of (n : Z) : iflag := if n =? 1 then FS else if n =? 2 then FA else if n =? 3 then FO else FDefault.

(* observed encoding: (kind, value): 0 string, 1 int n, 2 float bits, 3 empty *)
Definition ival_code (v : ival) : Z * Z :=
  match v with VString => (0, 0) | VEmpty => (3, 0) | VInt n => (1, n) | VFloat b => (2, b) end.

(* case = (flag, input, observed scan code, observed kind, observed value) *)
Definition chk (c : Z * bytes * Z * Z * Z) : bool :=
  let '(f, s, sc, k, v) := c in
  let '(mk, mv) := ival_code (ginfer (flag_of f) s) in
  (Z.of_N (scantype_code (gscan s)) =? sc) && (mk =? k) && (mv =? v).
