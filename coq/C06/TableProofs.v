(* Re-proved on every run against the tables regenerated from /repo. *)
From Miller Require Import Base.Bytes C06.Model C06.Proofs gen.Gen_ScanTables.
Open Scope char_scope.

Lemma gen_dec_spec c : gen_is_dec c = spec_dec c.  Proof. all_bytes c. Qed.
Lemma gen_oct_spec c : gen_is_oct c = spec_oct c.  Proof. all_bytes c. Qed.
Lemma gen_hex_spec c : gen_is_hex c = spec_hex c.  Proof. all_bytes c. Qed.
Lemma gen_flt_spec c : gen_is_flt c = spec_flt c.  Proof. all_bytes c. Qed.

Notation gscan := (scan gen_is_dec gen_is_oct gen_is_hex gen_is_flt).
Notation ginfer := (infer gen_is_dec gen_is_oct gen_is_hex gen_is_flt).

Lemma gscan_spec s : gscan s = scan spec_dec spec_oct spec_hex spec_flt s.
Proof. apply scan_ext; [apply gen_dec_spec|apply gen_oct_spec|apply gen_hex_spec|apply gen_flt_spec]. Qed.
Lemma ginfer_spec f s : ginfer f s = infer spec_dec spec_oct spec_hex spec_flt f s.
Proof. apply infer_ext; [apply gen_dec_spec|apply gen_oct_spec|apply gen_hex_spec|apply gen_flt_spec]. Qed.
