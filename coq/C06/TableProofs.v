(* Re-proved on every run against the tables regenerated from /repo. *)
From Miller Require Import Base.Bytes C06.Model C06.Proofs C06.Grammar C06.GrammarProofs C06.GrammarInfer C06.GrammarAccept C06.Tables gen.Gen_ScanTables gen.Gen_ScanTypes.
Require Import String.
Open Scope char_scope.

Lemma gen_dec_spec c : gen_is_dec c = spec_dec c.  Proof. all_bytes c. Qed.
Lemma gen_oct_spec c : gen_is_oct c = spec_oct c.  Proof. all_bytes c. Qed.
Lemma gen_hex_spec c : gen_is_hex c = spec_hex c.  Proof. all_bytes c. Qed.
Lemma gen_flt_spec c : gen_is_flt c = spec_flt c.  Proof. all_bytes c. Qed.

Notation gscan := (scan gen_is_dec gen_is_oct gen_is_hex gen_is_flt).
Notation ginfer := (infer gen_is_dec gen_is_oct gen_is_hex gen_is_flt).

Lemma gscan_spec s : gscan s = scan spec_dec spec_oct spec_hex spec_flt s.
Proof. apply scan_ext; [apply gen_dec_spec|apply gen_oct_spec|apply gen_hex_spec|apply gen_flt_spec]. Qed.
Lemma ginfer_spec f s : ginfer f s = infer spec_dec spec_oct spec_hex spec_flt f s.
Proof. apply infer_ext; [apply gen_dec_spec|apply gen_oct_spec|apply gen_hex_spec|apply gen_flt_spec]. Qed.

(* the regenerated scan-type enum and inferrer tables are the ones the model dispatches through *)
Lemma gen_type_names_spec :
  gen_type_names = map (fun t => (N.to_nat (scantype_code t), scantype_name t)) all_scantypes.
Proof. reflexivity. Qed.
Lemma gen_normal_table_spec : gen_normal_table = map (fun t => inferrer_name (dispatch false t)) all_scantypes.
Proof. reflexivity. Qed.
Lemma gen_octal_table_spec : gen_octal_table = map (fun t => inferrer_name (dispatch true t)) all_scantypes.
Proof. reflexivity. Qed.
Lemma gen_selectors_spec : gen_selectors = map (fun f => (flag_name f, selector_name f)) [FDefault; FS; FA; FO].
Proof. reflexivity. Qed.
(* the canonical example in each type name's comment (type.go) gets that scan type from the real scanner, and from the model *)
Lemma gen_examples_spec :
  gen_examples = map (fun e => (fst e, N.to_nat (scantype_code (scan spec_dec spec_oct spec_hex spec_flt (B (fst e))))))
                     [("abc", 0); ("123", 0); ("0899", 0); ("0o377", 0); ("0377", 0); ("0xcafe", 0); ("0b1011", 0); ("1.5", 0)]%string%nat
  /\ map snd gen_examples = map (fun t => N.to_nat (scantype_code t)) all_scantypes.
Proof. split; reflexivity. Qed.

(* the float-path theorems, for the scanner/inferrer instantiated with the regenerated tables *)
Lemma g_float_path_iff_grammar s :
  (gscan s = SMaybeFloat /\ parse_float s <> None) <-> (FloatLit s /\ has_point_or_exp s = true).
Proof. rewrite gscan_spec. apply float_path_iff_grammar. Qed.
Lemma g_float_literal_inferred s :
  FloatLit s -> has_point_or_exp s = true ->
  exists p, float_parts (snd (split_sign s)) = Some p
  /\ ginfer FDefault s = match float_value (is_neg (fst (split_sign s))) p with Some b => VFloat b | None => VString end.
Proof. rewrite ginfer_spec. apply float_literal_inferred. Qed.
