(* C06 model: pkg/scan/find.go (FindScanType) and pkg/mlrval/mlrval_infer.go (the inferrers),
   with strconv.ParseInt/ParseUint/ParseFloat modelled by their specification
   (exact value, range check, correct rounding to binary64).  Definitions only. *)
From Miller Require Import Base.Bytes.
Open Scope char_scope.

Inductive scantype :=
  SString | SDecInt | SLzDecInt | SOctInt | SLzOctInt | SHexInt | SBinInt | SMaybeFloat.

Definition scantype_code (t : scantype) : N :=
  match t with
  | SString => 0 | SDecInt => 1 | SLzDecInt => 2 | SOctInt => 3
  | SLzOctInt => 4 | SHexInt => 5 | SBinInt => 6 | SMaybeFloat => 7
  end%N.

Definition eqc (a b : ascii) : bool := Ascii.eqb a b.

Section Scanner.
  (* the four table-driven byte predicates of pkg/scan/digits.go *)
  Variables is_dec is_oct is_hex is_flt : ascii -> bool.

  Definition is_bin (c : ascii) : bool := in_range "0" "1" c.

  Definition scan_float_or_string (s : bytes) : scantype :=
    if forallb is_flt s then SMaybeFloat else SString.

  Definition scan_dec_or_float_or_string (s : bytes) : scantype :=
    if forallb is_flt s then (if forallb is_dec s then SDecInt else SMaybeFloat) else SString.

  Definition scan_oct (s : bytes) := if forallb is_oct s then SOctInt else SString.
  Definition scan_hex (s : bytes) := if forallb is_hex s then SHexInt else SString.
  Definition scan_bin (s : bytes) := if forallb is_bin s then SBinInt else SString.

  (* the allOctal/allDecimal loop with its break *)
  Fixpoint lz_loop (s : bytes) (all_oct all_dec : bool) : bool * bool :=
    match s with
    | [] => (all_oct, all_dec)
    | c :: t =>
        let all_oct' := if is_oct c then all_oct else false in
        if is_dec c then lz_loop t all_oct' all_dec else (all_oct', false)
    end.

  Definition scan_pos (s : bytes) : scantype :=
    match s with
    | [] => SString
    | i0 :: rest =>
        if eqc i0 "." then scan_float_or_string s
        else if is_dec i0 then
          match rest with
          | [] => SDecInt
          | i1 :: rest2 =>
              if eqc i0 "0" then
                if eqc i1 "x" || eqc i1 "X" then
                  match rest2 with [] => SString | _ => scan_hex rest2 end
                else if eqc i1 "o" || eqc i1 "O" then
                  match rest2 with [] => SString | _ => scan_oct rest2 end
                else if eqc i1 "b" || eqc i1 "B" then
                  match rest2 with [] => SString | _ => scan_bin rest2 end
                else
                  let '(ao, ad) := lz_loop rest true true in
                  if ao then SLzOctInt
                  else if ad then SLzDecInt
                  else scan_dec_or_float_or_string s
              else scan_dec_or_float_or_string s
          end
        else SString
    end.

  Definition scan (s : bytes) : scantype :=
    match s with
    | [] => SString
    | i0 :: rest =>
        if eqc i0 "-" then scan_pos rest
        else if eqc i0 "+" then scan_pos rest
        else if in_range "0" "9" i0 then scan_pos s
        else if eqc i0 "." then
          match rest with [] => SString | _ => scan_dec_or_float_or_string s end
        else SString
    end.
End Scanner.

(* ---------- strconv models (specification level) ---------- *)
Open Scope Z_scope.

Definition two63 : Z := 2 ^ 63.
Definition two64 : Z := 2 ^ 64.
Definition in64 (n : Z) : bool := (- two63 <=? n) && (n <? two63).
Definition wrap64 (n : Z) : Z := (n + two63) mod two64 - two63.

Definition digit_val (c : ascii) : option Z :=
  if in_range "0" "9" c then Some (Z.of_N (code c) - 48)
  else if in_range "a" "f" c then Some (Z.of_N (code c) - 87)
  else if in_range "A" "F" c then Some (Z.of_N (code c) - 55)
  else None.

(* digits in [base], accumulated left to right; None on any char that is not a digit of the base *)
Fixpoint digits_val (base : Z) (s : bytes) (acc : Z) : option Z :=
  match s with
  | [] => Some acc
  | c :: t =>
      match digit_val c with
      | Some d => if d <? base then digits_val base t (acc * base + d) else None
      | None => None
      end
  end.

(* strconv.ParseUint(s, base, 64) for base in {2,8,10,16}: no sign, no underscores, non-empty *)
Definition parse_uint (base : Z) (s : bytes) : option Z :=
  match s with
  | [] => None
  | _ => match digits_val base s 0 with
         | Some v => if v <? two64 then Some v else None
         | None => None
         end
  end.

(* strconv.ParseInt(s, base, 64): optional single sign, then digits; range error => None *)
Definition parse_int (base : Z) (s : bytes) : option Z :=
  let '(neg, r) :=
    match s with
    | c :: t => if eqc c "-" then (true, t) else if eqc c "+" then (false, t) else (false, s)
    | [] => (false, s)
    end in
  match r with
  | [] => None
  | _ => match digits_val base r 0 with
         | Some v => let n := if neg then - v else v in
                     if in64 n then Some n else None
         | None => None
         end
  end.

(* ---- decimal -> binary64, correctly rounded (round-half-even), by exact integer arithmetic ---- *)
(* v = num/den > 0.  Result: Some bits (without sign) or None on overflow (>= 2^1024 after rounding). *)
Definition round_pos_rational (num den : Z) : option Z :=
  let e2 := Z.log2 num - Z.log2 den in
  let ge := if 0 <=? e2 then den * 2 ^ e2 <=? num else den <=? num * 2 ^ (- e2) in
  let fl := if ge then e2 else e2 - 1 in          (* 2^fl <= v < 2^(fl+1) *)
  let shift := Z.max (fl - 52) (-1074) in
  (* q = floor(v / 2^shift) *)
  let '(n', d') := if 0 <=? shift then (num, den * 2 ^ shift) else (num * 2 ^ (- shift), den) in
  let q := n' / d' in
  let r := n' mod d' in
  let q1 := if (2 * r <? d') then q
            else if (d' <? 2 * r) then q + 1
            else if Z.even q then q else q + 1 in
  let '(q2, shift2) := if q1 =? 2 ^ 53 then (2 ^ 52, shift + 1) else (q1, shift) in
  if q2 <? 2 ^ 52 then Some q2                               (* subnormal (shift = -1074) or zero *)
  else
    let biased := shift2 + 52 + 1023 in
    if 2047 <=? biased then None
    else Some (biased * 2 ^ 52 + (q2 - 2 ^ 52)).

Fixpoint ndigits_fuel (fuel : nat) (m : Z) : Z :=
  match fuel with
  | O => 0
  | S f => if m <=? 0 then 0 else 1 + ndigits_fuel f (m / 10)
  end.

(* value m * 10^e10, m >= 0.  The two magnitude shortcuts are exact (no approximation):
   m >= 1 and e10 > 400 give a value >= 10^401 > max double (ErrRange);
   m < 2^(log2 m + 1) <= 10^(log2 m + 1), so e10 + log2 m + 1 < -400 gives a value < 10^-400, which rounds to zero. *)
Definition round_decimal (neg : bool) (m e10 : Z) : option Z :=
  let signbit := if neg then two63 else 0 in
  if m =? 0 then Some signbit
  else if 400 <? e10 then None
  else if e10 + (Z.log2 m + 1) <? -400 then Some signbit
  else
    let r := if 0 <=? e10 then round_pos_rational (m * 10 ^ e10) 1
             else round_pos_rational m (10 ^ (- e10)) in
    match r with Some b => Some (signbit + b) | None => None end.

(* float64(int64 n) *)
Definition float_of_int (n : Z) : Z :=
  if n =? 0 then 0
  else match round_pos_rational (Z.abs n) 1 with
       | Some b => (if n <? 0 then two63 else 0) + b
       | None => 0
       end.

(* strconv.ParseFloat syntax (readFloat, base 10) over the whole string *)
Definition is_digit (c : ascii) : bool := in_range "0" "9" c.

(* mantissa part: digits with at most one '.', returns (mantissa, digits_after_dot, ndigits_seen, saw_digits, rest) *)
Fixpoint read_mant (s : bytes) (m : Z) (after : Z) (sawdot sawdig : bool) (nd : Z)
  : Z * Z * bool * Z * bytes :=
  match s with
  | c :: t =>
      if is_digit c then
        read_mant t (m * 10 + (Z.of_N (code c) - 48)) (if sawdot then after + 1 else after) sawdot true (nd + 1)
      else if eqc c "." then
        if sawdot then (m, after, sawdig, nd, s) else read_mant t m after true sawdig nd
      else (m, after, sawdig, nd, s)
  | [] => (m, after, sawdig, nd, [])
  end.

Fixpoint read_digits (s : bytes) (acc : Z) : option Z :=
  match s with
  | [] => Some acc
  | c :: t => if is_digit c then read_digits t (if acc <? 10000 then acc * 10 + (Z.of_N (code c) - 48) else acc) else None
  end.

(* Some (Some bits) = parsed; Some None = syntactically fine but out of range; None = syntax error *)
Definition parse_float (s : bytes) : option (option Z) :=
  let '(neg, r) :=
    match s with
    | c :: t => if eqc c "-" then (true, t) else if eqc c "+" then (false, t) else (false, s)
    | [] => (false, s)
    end in
  let '(m, after, sawdig, nd, rest) := read_mant r 0 0 false false 0 in
  if negb sawdig then None
  else
    match rest with
    | [] => Some (round_decimal neg m (- after))
    | c :: t =>
        if eqc c "e" || eqc c "E" then
          let '(eneg, t') :=
            match t with
            | d :: u => if eqc d "-" then (true, u) else if eqc d "+" then (false, u) else (false, t)
            | [] => (false, t)
            end in
          match t' with
          | [] => None
          | _ => match read_digits t' 0 with
                 | Some e => Some (round_decimal neg m ((if eneg then - e else e) - after))
                 | None => None
                 end
          end
        else None
    end.

(* ---------- the inferrers ---------- *)
Inductive ival := VString | VEmpty | VInt (n : Z) | VFloat (bits : Z).

Definition as_string (s : bytes) : ival := match s with [] => VEmpty | _ => VString end.

(* strip "0x" / "-0x" / "+0x" as inferHexInt / inferBaseInt do: (negate, digits) *)
Definition strip_prefix (s : bytes) : bool * bytes :=
  match s with
  | c :: t => if eqc c "-" then (true, skipn 2 t)
              else if eqc c "+" then (false, skipn 2 t)
              else (false, skipn 1 t)
  | [] => (false, [])
  end.

Definition infer_lz_octal (s : bytes) : ival :=
  match parse_int 8 s with Some n => VInt n | None => as_string s end.

Definition infer_base (base : Z) (s : bytes) : ival :=
  let '(neg, d) := strip_prefix s in
  match parse_int base d with
  | Some n => VInt (if neg then - n else n)     (* cannot wrap: -n of n in [0,2^63) *)
  | None => as_string s
  end.

Definition infer_hex (s : bytes) : ival :=
  let '(neg, d) := strip_prefix s in
  match d with
  | [] => as_string s    (* unreachable after the scanner: Go would index out of range here *)
  | i0 :: _ =>
      if (Z.of_nat (List.length d) =? 16) && in_range "8" "f" i0 then
        match parse_uint 16 d with
        | Some u => let n := wrap64 u in VInt (if neg then wrap64 (- n) else n)
        | None => as_string s
        end
      else
        match parse_int 16 d with
        | Some n => VInt (if neg then - n else n)
        | None => as_string s
        end
  end.

Definition infer_maybe_float (s : bytes) : ival :=
  match parse_float s with
  | Some (Some b) => VFloat b
  | _ => as_string s
  end.

(* inferDecimalInt / inferLeadingZeroDecimalIntAsInt: on a ParseInt range error the value is a float *)
Definition infer_decimal (s : bytes) : ival :=
  match parse_int 10 s with Some n => VInt n | None => infer_maybe_float s end.

Inductive iflag := FDefault | FS | FA | FO.

Section Infer.
  Variables is_dec is_oct is_hex is_flt : ascii -> bool.

  Definition infer_normal (octal_as_int : bool) (s : bytes) : ival :=
    match scan is_dec is_oct is_hex is_flt s with
    | SString => as_string s
    | SDecInt => infer_decimal s
    | SLzDecInt => if octal_as_int then infer_decimal s else as_string s
    | SOctInt => infer_base 8 s
    | SLzOctInt => if octal_as_int then infer_lz_octal s else as_string s
    | SHexInt => infer_hex s
    | SBinInt => infer_base 2 s
    | SMaybeFloat => infer_maybe_float s
    end.

  Definition infer (f : iflag) (s : bytes) : ival :=
    match f with
    | FDefault => infer_normal false s
    | FO => infer_normal true s
    | FS => as_string s
    | FA => match infer_normal false s with
            | VInt n => VFloat (float_of_int n)
            | v => v
            end
    end.
End Infer.

(* documented predicates (the specification side) *)
Definition spec_dec (c : ascii) := in_range "0" "9" c.
Definition spec_oct (c : ascii) := in_range "0" "7" c.
Definition spec_hex (c : ascii) := in_range "0" "9" c || in_range "a" "f" c || in_range "A" "F" c.
Definition spec_flt (c : ascii) :=
  in_range "0" "9" c || eqc c "." || eqc c "e" || eqc c "E" || eqc c "+" || eqc c "-".
