(* C06 proofs.  Specification-side grammar [classify] and the lemmas behind Props.v. *)
From Miller Require Import Base.Bytes C06.Model.
Open Scope char_scope.

(* ---------- the documented grammar, as an independent classifier ---------- *)
Definition nonempty (s : bytes) : bool := match s with [] => false | _ => true end.
Definition pref2 (a b1 b2 : ascii) (s : bytes) : bool :=
  match s with c0 :: c1 :: _ => eqc c0 a && (eqc c1 b1 || eqc c1 b2) | _ => false end.
Definition is_dot (s : bytes) : bool := match s with [c] => eqc c "." | _ => false end.

(* [signed]: a sign was stripped.  r: the remainder. *)
Definition classify_pos (signed : bool) (r : bytes) : scantype :=
  match r with
  | [] => SString
  | c0 :: t =>
      if negb (spec_dec c0 || eqc c0 ".") then SString
      else if pref2 "0" "x" "X" r then (if nonempty (skipn 2 r) && forallb spec_hex (skipn 2 r) then SHexInt else SString)
      else if pref2 "0" "o" "O" r then (if nonempty (skipn 2 r) && forallb spec_oct (skipn 2 r) then SOctInt else SString)
      else if pref2 "0" "b" "B" r then (if nonempty (skipn 2 r) && forallb is_bin (skipn 2 r) then SBinInt else SString)
      else if eqc c0 "0" && nonempty t && forallb spec_oct t then SLzOctInt
      else if eqc c0 "0" && nonempty t && forallb spec_dec t then SLzDecInt
      else if forallb spec_dec r then SDecInt
      else if forallb spec_flt r && negb (negb signed && is_dot r) then SMaybeFloat
      else SString
  end.

Definition classify (s : bytes) : scantype :=
  match s with
  | [] => SString
  | c0 :: t => if eqc c0 "-" || eqc c0 "+" then classify_pos true t else classify_pos false s
  end.

Notation sscan := (scan spec_dec spec_oct spec_hex spec_flt).
Notation sscan_pos := (scan_pos spec_dec spec_oct spec_hex spec_flt).

(* single-byte facts, by enumeration of the 256 bytes *)
Ltac all_bytes c := destruct c as [[] [] [] [] [] [] [] []]; vm_compute; try reflexivity; try discriminate; auto.

Lemma oct_dec c : spec_oct c = true -> spec_dec c = true.            Proof. all_bytes c. Qed.
Lemma dec_flt c : spec_dec c = true -> spec_flt c = true.            Proof. all_bytes c. Qed.
Lemma dot_not_dec c : eqc c "." = true -> spec_dec c = false.        Proof. all_bytes c. Qed.
Lemma dot_flt c : eqc c "." = true -> spec_flt c = true.             Proof. all_bytes c. Qed.
Lemma zero_dec c : eqc c "0" = true -> spec_dec c = true.            Proof. all_bytes c. Qed.
Lemma x_not_dec c : eqc c "x" || eqc c "X" = true -> spec_dec c = false.  Proof. all_bytes c. Qed.
Lemma o_not_dec c : eqc c "o" || eqc c "O" = true -> spec_dec c = false.  Proof. all_bytes c. Qed.
Lemma b_not_dec c : eqc c "b" || eqc c "B" = true -> spec_dec c = false.  Proof. all_bytes c. Qed.
Lemma x_not_flt c : eqc c "x" || eqc c "X" = true -> spec_flt c = false.  Proof. all_bytes c. Qed.
Lemma o_not_flt c : eqc c "o" || eqc c "O" = true -> spec_flt c = false.  Proof. all_bytes c. Qed.
Lemma b_not_flt c : eqc c "b" || eqc c "B" = true -> spec_flt c = false.  Proof. all_bytes c. Qed.
Lemma sign_not_dec c : eqc c "-" || eqc c "+" = true -> spec_dec c || eqc c "." = false.  Proof. all_bytes c. Qed.
Lemma range_is_dec c : in_range "0" "9" c = spec_dec c.               Proof. reflexivity. Qed.
Lemma xob_excl c : (eqc c "x" || eqc c "X" = true -> eqc c "o" || eqc c "O" = false /\ eqc c "b" || eqc c "B" = false)
                /\ (eqc c "o" || eqc c "O" = true -> eqc c "b" || eqc c "B" = false).
Proof. all_bytes c. Qed.

Lemma forallb_oct_dec s : forallb spec_oct s = true -> forallb spec_dec s = true.
Proof. induction s as [|c s IH]; cbn; [auto|]. rewrite !andb_true_iff. intros [H1 H2]. split; [apply oct_dec|]; auto. Qed.
Lemma forallb_dec_flt s : forallb spec_dec s = true -> forallb spec_flt s = true.
Proof. induction s as [|c s IH]; cbn; [auto|]. rewrite !andb_true_iff. intros [H1 H2]. split; [apply dec_flt|]; auto. Qed.

Lemma lz_loop_spec s ao ad :
  lz_loop spec_dec spec_oct s ao ad = (ao && forallb spec_oct s, ad && forallb spec_dec s).
Proof.
  revert ao ad; induction s as [|c s IH]; intros ao ad; cbn [lz_loop forallb].
  - now rewrite !andb_true_r.
  - destruct (spec_dec c) eqn:Hd.
    + rewrite IH. destruct (spec_oct c); cbn; [reflexivity|]. now rewrite !andb_false_r.
    + assert (spec_oct c = false) as ->.
      { destruct (spec_oct c) eqn:Ho; [|reflexivity]. apply oct_dec in Ho. congruence. }
      cbn. now rewrite !andb_false_r.
Qed.

Lemma scan_pos_classify signed r :
  (signed = false -> is_dot r = false) ->
  sscan_pos r = classify_pos signed r.
Proof.
  intros Hdot.
  destruct r as [|i0 rest]; [reflexivity|].
  cbn [scan_pos classify_pos].
  destruct (eqc i0 ".") eqn:Hp.
  - (* leading point *)
    rewrite (dot_not_dec _ Hp). cbn [orb negb].
    assert (pref2 "0" "x" "X" (i0 :: rest) = false /\ pref2 "0" "o" "O" (i0 :: rest) = false
            /\ pref2 "0" "b" "B" (i0 :: rest) = false /\ eqc i0 "0" = false) as (-> & -> & -> & Hz).
    { clear -Hp. revert Hp. destruct rest; all_bytes i0. }
    rewrite Hz. cbn [andb].
    unfold scan_float_or_string. cbn [forallb]. rewrite (dot_not_dec _ Hp), (dot_flt _ Hp). cbn [andb].
    destruct signed; cbn [negb andb]; [now rewrite andb_true_r|].
    rewrite (Hdot eq_refl). cbn. now rewrite andb_true_r.
  - destruct (spec_dec i0) eqn:Hd; cbn [orb negb]; [|reflexivity].
    destruct rest as [|i1 rest2].
    + (* single digit *)
      cbn. rewrite Hd. destruct (eqc i0 "0"); reflexivity.
    + destruct (eqc i0 "0") eqn:Hz.
      * cbn [pref2 skipn]. rewrite Hz. cbn [andb].
        destruct (eqc i1 "x" || eqc i1 "X") eqn:Hx.
        { destruct rest2; [reflexivity|]. unfold scan_hex. cbn [nonempty andb]. destruct (forallb _ _); reflexivity. }
        destruct (eqc i1 "o" || eqc i1 "O") eqn:Ho.
        { destruct rest2; [reflexivity|]. unfold scan_oct. cbn [nonempty andb]. destruct (forallb _ _); reflexivity. }
        destruct (eqc i1 "b" || eqc i1 "B") eqn:Hb.
        { destruct rest2; [reflexivity|]. unfold scan_bin. cbn [nonempty andb]. destruct (forallb _ _); reflexivity. }
        rewrite lz_loop_spec. cbn [andb nonempty].
        destruct (forallb spec_oct (i1 :: rest2)) eqn:Hao; [reflexivity|].
        destruct (forallb spec_dec (i1 :: rest2)) eqn:Had; [reflexivity|].
        unfold scan_dec_or_float_or_string.
        cbn [forallb]. rewrite Hd, (dec_flt _ Hd). cbn [andb].
        change (spec_dec i1 && forallb spec_dec rest2) with (forallb spec_dec (i1 :: rest2)). rewrite Had.
        change (spec_flt i1 && forallb spec_flt rest2) with (forallb spec_flt (i1 :: rest2)).
        assert (is_dot (i0 :: i1 :: rest2) = false) as -> by reflexivity.
        rewrite ?andb_false_r; cbn [negb]; rewrite ?andb_true_r.
        destruct (forallb spec_flt (i1 :: rest2)); reflexivity.
      * cbn [pref2]. rewrite Hz. cbn [andb].
        unfold scan_dec_or_float_or_string.
        assert (is_dot (i0 :: i1 :: rest2) = false) as -> by reflexivity.
        rewrite ?andb_false_r; cbn [negb]; rewrite ?andb_true_r.
        destruct (forallb spec_dec (i0 :: i1 :: rest2)) eqn:Had.
        { rewrite (forallb_dec_flt _ Had). reflexivity. }
        destruct (forallb spec_flt (i0 :: i1 :: rest2)); reflexivity.
Qed.

Lemma scan_classify s : sscan s = classify s.
Proof.
  destruct s as [|i0 rest]; [reflexivity|].
  cbn [scan classify].
  destruct (eqc i0 "-") eqn:Hm; cbn [orb].
  { apply scan_pos_classify. discriminate. }
  destruct (eqc i0 "+") eqn:Hpl; cbn [orb].
  { apply scan_pos_classify. discriminate. }
  rewrite range_is_dec.
  destruct (spec_dec i0) eqn:Hd.
  { apply scan_pos_classify. intros _. destruct rest; cbn; [|reflexivity].
    destruct (eqc i0 ".") eqn:Hp; [|reflexivity]. apply dot_not_dec in Hp. congruence. }
  destruct (eqc i0 ".") eqn:Hp.
  - destruct rest as [|i1 rest].
    + cbn. rewrite Hd, Hp. cbn.
      assert (eqc i0 "0" = false) as -> by (clear -Hp; revert Hp; all_bytes i0).
      cbn. rewrite (dot_flt _ Hp). reflexivity.
    + (* ".xyz": the code calls scan_dec_or_float_or_string directly *)
      cbn [classify_pos]. rewrite Hd, Hp. cbn [orb negb].
      assert (pref2 "0" "x" "X" (i0 :: i1 :: rest) = false /\ pref2 "0" "o" "O" (i0 :: i1 :: rest) = false
              /\ pref2 "0" "b" "B" (i0 :: i1 :: rest) = false /\ eqc i0 "0" = false) as (-> & -> & -> & ->).
      { clear -Hp. revert Hp. all_bytes i0. }
      cbn [andb]. unfold scan_dec_or_float_or_string.
      assert (is_dot (i0 :: i1 :: rest) = false) as -> by reflexivity.
      rewrite ?andb_false_r; cbn [negb]; rewrite ?andb_true_r.
      cbn [forallb]. rewrite Hd. cbn [andb].
      destruct (spec_flt i0 && (spec_flt i1 && forallb spec_flt rest)); reflexivity.
  - cbn [classify_pos]. rewrite Hd, Hp. reflexivity.
Qed.

(* ---------- inference lemmas ---------- *)
Notation sinfer := (infer spec_dec spec_oct spec_hex spec_flt).
Open Scope Z_scope.

Lemma infer_S_never_numeric s : sinfer FS s = as_string s.
Proof. reflexivity. Qed.

Lemma infer_A_no_ints s n : sinfer FA s <> VInt n.
Proof. unfold infer. destruct (infer_normal _ _ _ _ _ s); discriminate. Qed.

Lemma infer_empty f : sinfer f [] = VEmpty.
Proof. destruct f; reflexivity. Qed.

(* every byte of a string that scans as a number is in the numeric alphabet *)
Definition numeric_char (c : ascii) : bool :=
  spec_hex c || spec_flt c || eqc c "x" || eqc c "X" || eqc c "o" || eqc c "O" || eqc c "b" || eqc c "B".

Lemma hex_numeric c : spec_hex c = true -> numeric_char c = true.   Proof. all_bytes c. Qed.
Lemma flt_numeric c : spec_flt c = true -> numeric_char c = true.   Proof. all_bytes c. Qed.
Lemma oct_numeric c : spec_oct c = true -> numeric_char c = true.   Proof. all_bytes c. Qed.
Lemma bin_numeric c : is_bin c = true -> numeric_char c = true.     Proof. all_bytes c. Qed.
Lemma dec_numeric c : spec_dec c = true -> numeric_char c = true.   Proof. all_bytes c. Qed.
Lemma x_numeric c : eqc c "x" || eqc c "X" = true -> numeric_char c = true.   Proof. all_bytes c. Qed.
Lemma o_numeric c : eqc c "o" || eqc c "O" = true -> numeric_char c = true.   Proof. all_bytes c. Qed.
Lemma b_numeric c : eqc c "b" || eqc c "B" = true -> numeric_char c = true.   Proof. all_bytes c. Qed.
Lemma sign_numeric c : eqc c "-" || eqc c "+" = true -> numeric_char c = true.   Proof. all_bytes c. Qed.
Lemma zero_numeric c : eqc c "0" = true -> numeric_char c = true.   Proof. all_bytes c. Qed.

Lemma forallb_impl (p q : ascii -> bool) s :
  (forall c, p c = true -> q c = true) -> forallb p s = true -> forallb q s = true.
Proof. intros H; induction s as [|c s IH]; cbn; [auto|]. rewrite !andb_true_iff. intros [H1 H2]; auto. Qed.

Lemma classify_pos_numeric signed r :
  classify_pos signed r <> SString -> forallb numeric_char r = true.
Proof.
  destruct r as [|c0 t]; [intros H; now elim H|].
  cbn [classify_pos].
  destruct (negb (spec_dec c0 || eqc c0 ".")) eqn:H0; [intros H; now elim H|].
  destruct (pref2 "0" "x" "X" (c0 :: t)) eqn:Hx.
  { destruct t as [|c1 t2]; [discriminate|]. cbn in Hx. apply andb_true_iff in Hx as [Hz Hxx].
    cbn [skipn]. destruct (nonempty t2 && forallb spec_hex t2) eqn:Hh; [|intros H; now elim H]. intros _.
    apply andb_true_iff in Hh as [_ Hh]. cbn [forallb].
    rewrite (zero_numeric _ Hz), (x_numeric _ Hxx). cbn. eapply forallb_impl; [apply hex_numeric|exact Hh]. }
  destruct (pref2 "0" "o" "O" (c0 :: t)) eqn:Ho.
  { destruct t as [|c1 t2]; [discriminate|]. cbn in Ho. apply andb_true_iff in Ho as [Hz Hoo].
    cbn [skipn]. destruct (nonempty t2 && forallb spec_oct t2) eqn:Hh; [|intros H; now elim H]. intros _.
    apply andb_true_iff in Hh as [_ Hh]. cbn [forallb].
    rewrite (zero_numeric _ Hz), (o_numeric _ Hoo). cbn. eapply forallb_impl; [apply oct_numeric|exact Hh]. }
  destruct (pref2 "0" "b" "B" (c0 :: t)) eqn:Hb.
  { destruct t as [|c1 t2]; [discriminate|]. cbn in Hb. apply andb_true_iff in Hb as [Hz Hbb].
    cbn [skipn]. destruct (nonempty t2 && forallb is_bin t2) eqn:Hh; [|intros H; now elim H]. intros _.
    apply andb_true_iff in Hh as [_ Hh]. cbn [forallb].
    rewrite (zero_numeric _ Hz), (b_numeric _ Hbb). cbn. eapply forallb_impl; [apply bin_numeric|exact Hh]. }
  destruct (eqc c0 "0" && nonempty t && forallb spec_oct t) eqn:H1.
  { intros _. apply andb_true_iff in H1 as [H1 H2]. apply andb_true_iff in H1 as [Hz _].
    cbn [forallb]. rewrite (zero_numeric _ Hz). cbn. eapply forallb_impl; [apply oct_numeric|exact H2]. }
  destruct (eqc c0 "0" && nonempty t && forallb spec_dec t) eqn:H2.
  { intros _. apply andb_true_iff in H2 as [H2 H3]. apply andb_true_iff in H2 as [Hz _].
    cbn [forallb]. rewrite (zero_numeric _ Hz). cbn. eapply forallb_impl; [apply dec_numeric|exact H3]. }
  destruct (forallb spec_dec (c0 :: t)) eqn:H3.
  { intros _. eapply forallb_impl; [apply dec_numeric|exact H3]. }
  destruct (forallb spec_flt (c0 :: t) && negb (negb signed && is_dot (c0 :: t))) eqn:H4; [|intros H; now elim H].
  intros _. apply andb_true_iff in H4 as [H4 _]. eapply forallb_impl; [apply flt_numeric|exact H4].
Qed.

Lemma classify_numeric s : classify s <> SString -> forallb numeric_char s = true.
Proof.
  destruct s as [|c0 t]; [intros H; now elim H|]. cbn [classify].
  destruct (eqc c0 "-" || eqc c0 "+") eqn:Hs.
  - intros H. cbn [forallb]. rewrite (sign_numeric _ Hs). cbn. eapply classify_pos_numeric; eauto.
  - apply classify_pos_numeric.
Qed.

Lemma non_numeric_scans_string s c :
  In c s -> numeric_char c = false -> sscan s = SString.
Proof.
  intros Hin Hc. rewrite scan_classify.
  destruct (classify s) eqn:Hk; try reflexivity;
    (assert (Hn : forallb numeric_char s = true) by (apply classify_numeric; rewrite Hk; discriminate);
     rewrite forallb_forall in Hn; specialize (Hn c Hin); congruence).
Qed.

Lemma non_numeric_is_string f s c :
  In c s -> numeric_char c = false -> sinfer f s = VString.
Proof.
  intros Hin Hc. pose proof (non_numeric_scans_string s c Hin Hc) as Hs.
  assert (Has : as_string s = VString) by (destruct s; [inversion Hin|reflexivity]).
  destruct f; cbn [infer]; unfold infer_normal; rewrite ?Hs, ?Has; auto.
Qed.

(* decimal integers *)
Definition dec_val (d : bytes) : Z := fold_left (fun acc c => acc * 10 + (Z.of_N (code c) - 48)) d 0.

Lemma digit_val_dec c : spec_dec c = true -> digit_val c = Some (Z.of_N (code c) - 48) /\ 0 <= Z.of_N (code c) - 48 < 10.
Proof. destruct c as [[] [] [] [] [] [] [] []]; intros H; try discriminate H; (split; [reflexivity | split; [vm_compute; discriminate | reflexivity]]). Qed.

Lemma digits_val_dec d acc :
  forallb spec_dec d = true ->
  digits_val 10 d acc = Some (fold_left (fun a c => a * 10 + (Z.of_N (code c) - 48)) d acc).
Proof.
  revert acc; induction d as [|c d IH]; intros acc; cbn [forallb digits_val fold_left]; [reflexivity|].
  rewrite andb_true_iff. intros [Hc Hd]. destruct (digit_val_dec c Hc) as [-> Hr].
  destruct (Z.ltb_spec (Z.of_N (code c) - 48) 10); [|lia]. now apply IH.
Qed.

Definition signed_dec_ok (d : bytes) : bool :=
  nonempty d && forallb spec_dec d && (negb (eqc (hd "0"%char d) "0") || (Nat.eqb (List.length d) 1)).

Lemma classify_pos_dec signed d : signed_dec_ok d = true -> classify_pos signed d = SDecInt.
Proof.
  unfold signed_dec_ok. rewrite !andb_true_iff. intros [[Hne Hall] Hlz].
  destruct d as [|c0 t]; [discriminate|]. cbn [classify_pos].
  pose proof Hall as Hall'. cbn [forallb] in Hall'. apply andb_true_iff in Hall' as [Hc0 Ht].
  rewrite Hc0. cbn [orb negb].
  assert (Hx : pref2 "0" "x" "X" (c0 :: t) = false).
  { destruct t as [|c1 t2]; [reflexivity|]. cbn. cbn in Ht. apply andb_true_iff in Ht as [Hc1 _].
    destruct (eqc c1 "x" || eqc c1 "X") eqn:E; [apply x_not_dec in E; congruence|]. apply andb_false_r. }
  assert (Ho : pref2 "0" "o" "O" (c0 :: t) = false).
  { destruct t as [|c1 t2]; [reflexivity|]. cbn. cbn in Ht. apply andb_true_iff in Ht as [Hc1 _].
    destruct (eqc c1 "o" || eqc c1 "O") eqn:E; [apply o_not_dec in E; congruence|]. apply andb_false_r. }
  assert (Hb : pref2 "0" "b" "B" (c0 :: t) = false).
  { destruct t as [|c1 t2]; [reflexivity|]. cbn. cbn in Ht. apply andb_true_iff in Ht as [Hc1 _].
    destruct (eqc c1 "b" || eqc c1 "B") eqn:E; [apply b_not_dec in E; congruence|]. apply andb_false_r. }
  rewrite Hx, Ho, Hb.
  assert (Hlz' : eqc c0 "0" && nonempty t = false).
  { cbn [hd List.length] in Hlz. apply orb_true_iff in Hlz as [H|H].
    - apply negb_true_iff in H. now rewrite H.
    - destruct t; [apply andb_false_r|discriminate]. }
  rewrite Hlz'. cbn [andb]. rewrite Hall. reflexivity.
Qed.

Lemma is_digit_spec c : is_digit c = spec_dec c.  Proof. reflexivity. Qed.

Lemma read_mant_digits s m after nd sawdig :
  forallb spec_dec s = true ->
  read_mant s m after false sawdig nd =
  (fold_left (fun a c => a * 10 + (Z.of_N (code c) - 48)) s m, after, sawdig || nonempty s, nd + Z.of_nat (List.length s), []).
Proof.
  revert m nd sawdig; induction s as [|c s IH]; intros m nd sawdig; cbn [forallb read_mant fold_left nonempty List.length].
  - intros _. now rewrite orb_false_r, Z.add_0_r.
  - rewrite andb_true_iff. intros [Hc Hs]. rewrite is_digit_spec, Hc. rewrite (IH _ _ _ Hs).
    rewrite orb_true_r. cbn [orb]. replace (nd + 1 + Z.of_nat (List.length s)) with (nd + Z.of_nat (S (List.length s))) by lia. reflexivity.
Qed.

(* the float a too-large decimal integer becomes: the correctly rounded value, or a string beyond the double range *)
Definition dec_float (neg : bool) (d : bytes) : ival :=
  match round_decimal neg (dec_val d) 0 with Some b => VFloat b | None => VString end.

Lemma parse_float_digits_unsigned d :
  nonempty d = true -> forallb spec_dec d = true ->
  infer_maybe_float d = dec_float false d.
Proof.
  intros Hne Hall. unfold infer_maybe_float, parse_float, dec_float.
  destruct d as [|c0 t]; [discriminate|].
  pose proof Hall as Hc0. cbn [forallb] in Hc0. apply andb_true_iff in Hc0 as [Hc0 _].
  assert (eqc c0 "-" = false /\ eqc c0 "+" = false) as [-> ->] by (clear -Hc0; revert Hc0; all_bytes c0).
  rewrite (read_mant_digits _ _ _ _ _ Hall). cbn [orb nonempty negb]. fold (dec_val (c0 :: t)).
  cbn [Z.opp Z.add]. destruct (round_decimal false (dec_val (c0 :: t)) 0); reflexivity.
Qed.

Lemma parse_float_digits_signed (neg : bool) d :
  nonempty d = true -> forallb spec_dec d = true ->
  infer_maybe_float ((if neg then "-"%char else "+"%char) :: d) = dec_float neg d.
Proof.
  intros Hne Hall. unfold infer_maybe_float, parse_float, dec_float.
  destruct neg; cbn [eqc Ascii.eqb Bool.eqb andb];
  rewrite (read_mant_digits _ _ _ _ _ Hall); rewrite Hne; cbn [orb negb Z.opp Z.add]; fold (dec_val d);
  destruct (round_decimal _ (dec_val d) 0); reflexivity.
Qed.

Lemma decimal_unsigned d :
  signed_dec_ok d = true ->
  sinfer FDefault d = if in64 (dec_val d) then VInt (dec_val d) else dec_float false d.
Proof.
  intros Hok. pose proof Hok as Hok'. unfold signed_dec_ok in Hok'. rewrite !andb_true_iff in Hok'.
  destruct Hok' as [[Hne Hall] _].
  cbn [infer]. unfold infer_normal. rewrite scan_classify.
  destruct d as [|c0 t]; [discriminate|]. cbn [classify].
  pose proof Hall as Hc0. cbn [forallb] in Hc0. apply andb_true_iff in Hc0 as [Hc0 _].
  assert (eqc c0 "-" || eqc c0 "+" = false) as ->.
  { destruct (eqc c0 "-" || eqc c0 "+") eqn:E; [|reflexivity]. apply sign_not_dec in E. rewrite Hc0 in E. discriminate. }
  rewrite (classify_pos_dec false _ Hok).
  unfold infer_decimal, parse_int.
  assert (eqc c0 "-" = false /\ eqc c0 "+" = false) as [-> ->].
  { clear -Hc0. revert Hc0. all_bytes c0. }
  rewrite (digits_val_dec _ 0 Hall). fold (dec_val (c0 :: t)).
  destruct (in64 (dec_val (c0 :: t))); [reflexivity|].
  now apply parse_float_digits_unsigned.
Qed.

Lemma decimal_signed (neg : bool) d :
  signed_dec_ok d = true ->
  let s := (if neg then "-"%char else "+"%char) :: d in
  let v := if neg then - dec_val d else dec_val d in
  sinfer FDefault s = if in64 v then VInt v else dec_float neg d.
Proof.
  intros Hok s v. subst s v. pose proof Hok as Hok'. unfold signed_dec_ok in Hok'. rewrite !andb_true_iff in Hok'.
  destruct Hok' as [[Hne Hall] _].
  cbn [infer]. unfold infer_normal. rewrite scan_classify. cbn [classify].
  assert (eqc (if neg then "-"%char else "+"%char) "-" || eqc (if neg then "-"%char else "+"%char) "+" = true) as -> by (destruct neg; reflexivity).
  rewrite (classify_pos_dec true _ Hok).
  unfold infer_decimal, parse_int.
  destruct d as [|c0 t]; [discriminate|].
  destruct neg; cbn [eqc Ascii.eqb Bool.eqb andb]; rewrite (digits_val_dec _ 0 Hall); fold (dec_val (c0 :: t));
    match goal with |- context [in64 ?x] => destruct (in64 x) end; try reflexivity.
  - exact (parse_float_digits_signed true (c0 :: t) Hne Hall).
  - exact (parse_float_digits_signed false (c0 :: t) Hne Hall).
Qed.

(* "integers that do not fit in 64 bits become floats": witness that the float is the correctly rounded one *)
Lemma int_overflow_is_float_witness :
  let d := B "9223372036854775808" in
  signed_dec_ok d = true /\ in64 (dec_val d) = false /\ sinfer FDefault d = VFloat 4890909195324358656
  /\ sinfer FDefault (B "-18446744073709551617") = VFloat 14118784831806504960.
Proof. vm_compute. repeat split; reflexivity. Qed.

(* leading-zero decimals *)
Lemma classify_pos_lz signed t :
  nonempty t = true -> forallb spec_dec t = true ->
  classify_pos signed ("0"%char :: t) = if forallb spec_oct t then SLzOctInt else SLzDecInt.
Proof.
  intros Hne Hall. cbn [classify_pos]. change (spec_dec "0") with true. cbn [orb negb].
  destruct t as [|c1 t2]; [discriminate|].
  cbn [forallb] in Hall. apply andb_true_iff in Hall as [Hc1 Ht2].
  assert (pref2 "0" "x" "X" ("0"%char :: c1 :: t2) = false) as ->.
  { cbn. destruct (eqc c1 "x" || eqc c1 "X") eqn:E; [apply x_not_dec in E; congruence|reflexivity]. }
  assert (pref2 "0" "o" "O" ("0"%char :: c1 :: t2) = false) as ->.
  { cbn. destruct (eqc c1 "o" || eqc c1 "O") eqn:E; [apply o_not_dec in E; congruence|reflexivity]. }
  assert (pref2 "0" "b" "B" ("0"%char :: c1 :: t2) = false) as ->.
  { cbn. destruct (eqc c1 "b" || eqc c1 "B") eqn:E; [apply b_not_dec in E; congruence|reflexivity]. }
  change (eqc "0" "0") with true. cbn [andb nonempty].
  destruct (forallb spec_oct (c1 :: t2)); [reflexivity|].
  cbn [forallb]. rewrite Hc1, Ht2. reflexivity.
Qed.

Lemma leading_zero_default_is_string t :
  nonempty t = true -> forallb spec_dec t = true ->
  sinfer FDefault ("0"%char :: t) = VString.
Proof.
  intros Hne Hall. cbn [infer]. unfold infer_normal. rewrite scan_classify. cbn [classify].
  change (eqc "0" "-" || eqc "0" "+") with false. cbn iota.
  rewrite (classify_pos_lz false t Hne Hall). destruct (forallb spec_oct t); reflexivity.
Qed.

Lemma leading_zero_O_decimal_is_int t :
  nonempty t = true -> forallb spec_dec t = true -> forallb spec_oct t = false ->
  sinfer FO ("0"%char :: t) = if in64 (dec_val t) then VInt (dec_val t) else infer_maybe_float ("0"%char :: t).
Proof.
  intros Hne Hall Hoct. cbn [infer]. unfold infer_normal. rewrite scan_classify. cbn [classify].
  change (eqc "0" "-" || eqc "0" "+") with false. cbn iota.
  rewrite (classify_pos_lz false t Hne Hall), Hoct.
  unfold infer_decimal, parse_int. change (eqc "0" "-") with false. change (eqc "0" "+") with false. cbn iota.
  assert (Hall' : forallb spec_dec ("0"%char :: t) = true) by (cbn [forallb]; now rewrite Hall).
  rewrite (digits_val_dec _ 0 Hall'). cbn [fold_left]. change (0 * 10 + (Z.of_N (code "0") - 48)) with 0.
  fold (dec_val t). destruct (in64 (dec_val t)); reflexivity.
Qed.

(* ---------- extensionality in the table predicates (ties the regenerated tables to the theorems) ---------- *)
Section Ext.
  Variables d o h f d' o' h' f' : ascii -> bool.
  Hypothesis Hd : forall c, d c = d' c.
  Hypothesis Ho : forall c, o c = o' c.
  Hypothesis Hh : forall c, h c = h' c.
  Hypothesis Hf : forall c, f c = f' c.

  Lemma forallb_ext' (p q : ascii -> bool) s : (forall c, p c = q c) -> forallb p s = forallb q s.
  Proof. intros H; induction s as [|c s IH]; cbn; [reflexivity|]. now rewrite H, IH. Qed.

  Lemma lz_loop_ext s a b : lz_loop d o s a b = lz_loop d' o' s a b.
  Proof. revert a b; induction s as [|c s IH]; intros a b; cbn; [reflexivity|]. rewrite Hd, Ho. destruct (d' c); [apply IH|reflexivity]. Qed.

  Lemma scan_pos_ext s : scan_pos d o h f s = scan_pos d' o' h' f' s.
  Proof.
    unfold scan_pos, scan_float_or_string, scan_dec_or_float_or_string, scan_hex, scan_oct.
    destruct s as [|i0 rest]; [reflexivity|].
    rewrite (forallb_ext' f f' _ Hf), (forallb_ext' d d' _ Hd), Hd.
    destruct rest as [|i1 rest2]; [reflexivity|].
    rewrite lz_loop_ext, (forallb_ext' h h' _ Hh), (forallb_ext' o o' _ Ho). reflexivity.
  Qed.

  Lemma scan_ext s : scan d o h f s = scan d' o' h' f' s.
  Proof.
    unfold scan. destruct s as [|i0 rest]; [reflexivity|].
    rewrite !scan_pos_ext. unfold scan_dec_or_float_or_string.
    rewrite (forallb_ext' f f' _ Hf), (forallb_ext' d d' _ Hd). reflexivity.
  Qed.

  Lemma infer_ext fl s : infer d o h f fl s = infer d' o' h' f' fl s.
  Proof. unfold infer, infer_normal. now rewrite scan_ext. Qed.
End Ext.
