(* C06: the documented number grammar, specification side.  Written from the documentation
   (reference-main-arithmetic / reference-main-int-literals / questions-about-the-dsl: "decimal-point/exponent forms
   are floats", "0x/0b/0o prefixes", "leading zeros", "-O", "-A", "-S"), NOT from the scanner: nothing here mentions
   FindScanType's loops, the float-character table or strconv's reader.  Definitions only; proofs in GrammarProofs.v. *)
From Miller Require Import Base.Bytes C06.Model C06.Proofs.
Open Scope char_scope.

(* ---------- float literals, as an inductive grammar ----------
     float    ::= sign? mantissa exponent?
     mantissa ::= D+ | D+ '.' D* | D* '.' D+          (at least one digit; "5." and ".5" are fine, "." is not)
     exponent ::= [eE] sign? D+
   (a plain D+ is in the language too: whether such a string is an int or a float is decided by its value, below) *)
Definition Digits (s : bytes) : Prop := forallb spec_dec s = true.

Inductive Sign : bytes -> Prop :=
| Sign_none : Sign []
| Sign_minus : Sign ["-"]
| Sign_plus : Sign ["+"].

Inductive Mantissa : bytes -> Prop :=
| Mant_int ip : Digits ip -> ip <> [] -> Mantissa ip
| Mant_point ip fp : Digits ip -> Digits fp -> (ip <> [] \/ fp <> []) -> Mantissa (ip ++ "." :: fp).

Inductive Exponent : bytes -> Prop :=
| Exp_none : Exponent []
| Exp_some e sg ed : eqc e "e" || eqc e "E" = true -> Sign sg -> Digits ed -> ed <> [] -> Exponent (e :: sg ++ ed).

Inductive FloatLit : bytes -> Prop :=
| FloatLit_intro sg m ex : Sign sg -> Mantissa m -> Exponent ex -> FloatLit (sg ++ m ++ ex).

(* ---------- the same grammar as a boolean recogniser that also returns the parts ---------- *)
Definition split_sign (s : bytes) : option bool * bytes :=
  match s with
  | c :: t => if eqc c "-" then (Some true, t) else if eqc c "+" then (Some false, t) else (None, s)
  | [] => (None, [])
  end.
Definition is_neg (sg : option bool) : bool := match sg with Some true => true | _ => false end.

Fixpoint span_dec (s : bytes) : bytes * bytes :=
  match s with
  | c :: t => if spec_dec c then let '(a, b) := span_dec t in (c :: a, b) else ([], s)
  | [] => ([], [])
  end.

Definition digits1 (s : bytes) : bool := nonempty s && forallb spec_dec s.

(* (integer digits, fraction digits, exponent = (negative?, digits)) of an unsigned float body *)
Definition fparts := (bytes * bytes * option (bool * bytes))%type.
Definition float_parts (r : bytes) : option fparts :=
  let '(ip, r1) := span_dec r in
  let '(fp, r3) := match r1 with
                   | c :: t => if eqc c "." then span_dec t else ([], r1)
                   | [] => ([], r1)
                   end in
  if nonempty ip || nonempty fp then
    match r3 with
    | [] => Some (ip, fp, None)
    | c :: t => if eqc c "e" || eqc c "E" then
                  let '(sg, ed) := split_sign t in
                  if digits1 ed then Some (ip, fp, Some (is_neg sg, ed)) else None
                else None
    end
  else None.

Definition float_syntax (s : bytes) : bool :=
  match float_parts (snd (split_sign s)) with Some _ => true | None => false end.

(* ---------- values ---------- *)
Open Scope Z_scope.

(* the exponent digits as strconv accumulates them (saturating: no further digit is added once the value reached 10000) *)
Definition exp_val (ed : bytes) : Z := match read_digits ed 0 with Some e => e | None => 0 end.

(* the literal denotes  (ip fp as one decimal integer) * 10^(exponent - |fp|); the float is that rational correctly
   rounded to binary64 (round-half-even); None beyond the double range *)
Definition float_value (neg : bool) (p : fparts) : option Z :=
  let '(ip, fp, ex) := p in
  let e := match ex with None => 0 | Some (eneg, ed) => if eneg then - exp_val ed else exp_val ed end in
  round_decimal neg (dec_val (ip ++ fp)) (e - Z.of_nat (List.length fp)).

Definition doc_float (neg : bool) (r : bytes) : ival :=
  match float_parts r with
  | Some p => match float_value neg p with Some b => VFloat b | None => VString end
  | None => VString
  end.

(* value of a digit string in a base (digits already known to be digits of the base) *)
Definition base_val (base : Z) (d : bytes) : Z :=
  fold_left (fun a c => a * base + match digit_val c with Some v => v | None => 0 end) d 0.

Definition sgn (neg : bool) (v : Z) : Z := if neg then - v else v.

(* the documented inference, default flags and -O (octal_as_int).  The lexical category is [classify] (Proofs.v: the
   documented lexical grammar); this adds what each category MEANS:
   - decimal ints: exact value when it fits in 64 bits, else the float of the same literal;
   - 0x: exactly 16 digits with the top bit set are the two's-complement negatives (a '-' in front negates, wrapping
     at -2^63); otherwise the value must be below 2^63, else the text is a string;
   - 0o / 0b: value below 2^63, else string;
   - a leading-zero digit string is a string; under -O it is octal when all digits are octal (string when out of
     range) and decimal otherwise;
   - float candidates must match the float grammar and be in the double range, else string. *)
Definition doc_infer_normal (octal_as_int : bool) (s : bytes) : ival :=
  let '(sg, r) := split_sign s in
  let neg := is_neg sg in
  let dec_or_float := let v := sgn neg (dec_val r) in if in64 v then VInt v else doc_float neg r in
  match classify s with
  | SString => as_string s
  | SDecInt => dec_or_float
  | SLzDecInt => if octal_as_int then dec_or_float else VString
  | SLzOctInt => if octal_as_int
                 then let v := sgn neg (base_val 8 r) in if in64 v then VInt v else VString
                 else VString
  | SOctInt => let u := base_val 8 (skipn 2 r) in if u <? two63 then VInt (sgn neg u) else VString
  | SBinInt => let u := base_val 2 (skipn 2 r) in if u <? two63 then VInt (sgn neg u) else VString
  | SHexInt => let d := skipn 2 r in
               let u := base_val 16 d in
               if (Z.of_nat (List.length d) =? 16) && (two63 <=? u)
               then VInt (if neg then wrap64 (- wrap64 u) else wrap64 u)
               else if u <? two63 then VInt (sgn neg u) else VString
  | SMaybeFloat => doc_float neg r
  end.

Definition doc_infer (f : iflag) (s : bytes) : ival :=
  match f with
  | FDefault => doc_infer_normal false s
  | FO => doc_infer_normal true s
  | FS => as_string s
  | FA => match doc_infer_normal false s with VInt n => VFloat (float_of_int n) | v => v end
  end.

(* inferred kinds *)
Inductive kind := KEmpty | KString | KInt | KFloat.
Definition kind_of (v : ival) : kind :=
  match v with VEmpty => KEmpty | VString => KString | VInt _ => KInt | VFloat _ => KFloat end.

(* "the literal has a decimal point or an exponent" *)
Definition has_point_or_exp (s : bytes) : bool := existsb (fun c => eqc c "." || eqc c "e" || eqc c "E") s.
