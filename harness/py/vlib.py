"""Shared machinery for the per-property checks (see DESIGN.md section 2)."""
import fcntl, hashlib, json, os, random, re, subprocess, sys, time
from pathlib import Path

VERIF = Path(__file__).resolve().parents[2]
COQ = VERIF / "coq"
GEN = COQ / "gen"
CACHE = VERIF / ".cache"
REPO = Path(os.environ.get("VERIF_REPO", "/repo"))

# axioms the development may depend on (each is named in the trusted base of the evidence file)
ALLOWED_AXIOMS = {
    # Coq stdlib primitive floats / ints specification axioms (only where PrimFloat is used)
}
FORBIDDEN_RE = re.compile(
    r"\b(Admitted|admit|Axiom|Axioms|Parameter|Parameters|Conjecture|Conjectures|Abort All)\b|Unset\s+Guard|bypass_check|Admit\s+Obligations|type-in-type|impredicative-set"
)


def sh(cmd, inp=None, timeout=600, env=None, cwd=None, binary=False):
    """run a command, never raise on non-zero; returns (rc, stdout, stderr); rc=124 on timeout."""
    try:
        p = subprocess.run(cmd, input=inp, capture_output=True, timeout=timeout, env=env, cwd=cwd,
                           text=not binary, shell=isinstance(cmd, str))
        return p.returncode, p.stdout, p.stderr
    except subprocess.TimeoutExpired as e:
        out = e.stdout or (b"" if binary else "")
        err = e.stderr or (b"" if binary else "")
        if not binary:
            out = out.decode("utf-8", "replace") if isinstance(out, bytes) else out
            err = err.decode("utf-8", "replace") if isinstance(err, bytes) else err
        return 124, out, err


class Violation(Exception):
    pass


class Ctx:
    def __init__(self, pid, tier, seed):
        self.pid, self.tier, self.seed = pid, tier, seed
        self.rng = random.Random(seed * 1000003 + int(pid[1:]))
        self.t0 = time.time()
        self.bindir = None
        self.violations = []          # list of (replay_path, found_input)
        self.known_reported = []
        self.cov = {"evaluations": 0, "distinct_nontrivial": 0, "rule": "", "samples": [],
                    "obligations": 0, "discharged": 0, "checker_cmd": "", "trusted_base": [],
                    "theorems": [], "assumptions_reported": {}, "distribution": {},
                    "known_findings_reported": [], "correspondence": {}}
        self.assumptions = []
        self._distinct = set()
        self.known = load_known_findings(pid)
        self.timings = {}

    def reseed(self, seed):
        self.seed = seed
        self.rng = random.Random(seed * 1000003 + int(self.pid[1:]))

    # ---- bookkeeping
    def count(self, case_repr, nontrivial=True):
        self.cov["evaluations"] += 1
        if nontrivial:
            h = hashlib.sha1(repr(case_repr).encode("utf-8", "replace")).digest()[:8]
            self._distinct.add(h)

    def dist(self, key, n=1):
        d = self.cov["distribution"]
        d[key] = d.get(key, 0) + n

    def sample(self, obj, cap=8):
        if len(self.cov["samples"]) < cap:
            self.cov["samples"].append(obj)

    def mlr(self):
        return str(Path(self.bindir) / "mlr")

    def implrun(self):
        return str(Path(self.bindir) / "implrun")

    # ---- verdicts
    def violation(self, replay, found_input=True):
        """record a violation; replay is a JSON-able dict describing input/expected/observed."""
        cls = replay.get("class")
        for k in self.known:
            if k["kind"] == "finding" and cls and k["class"] == cls:
                if k not in self.known_reported:
                    self.known_reported.append(k)
                    print(f"KNOWN-FINDING: property={self.pid} {k['text']}", flush=True)
                    self.cov["known_findings_reported"].append(k["class"])
                return False
        d = VERIF / "replays" / self.pid
        d.mkdir(parents=True, exist_ok=True)
        replay = dict(replay)
        replay["property"] = self.pid
        replay["found_input"] = bool(found_input)
        body = json.dumps(replay, indent=1, sort_keys=True, default=str)
        path = d / (hashlib.sha1(body.encode()).hexdigest()[:16] + ".json")
        path.write_text(body)
        tail = "" if found_input else " no-failing-input-found"
        print(f"VIOLATION property={self.pid} replay={path}{tail}", flush=True)
        self.violations.append((str(path), found_input))
        return True

    def finish(self):
        wall = time.time() - self.t0
        self.cov["distinct_nontrivial"] = len(self._distinct)
        self.cov["timings_s"] = {k: round(v, 2) for k, v in self.timings.items()}
        ev = {"property_id": self.pid, "tier": self.tier, "seed": self.seed, "level": "proof",
              "coverage": self.cov, "assumptions": self.assumptions, "wall_s": round(wall, 2),
              "violations": len(self.violations)}
        (VERIF / "evidence").mkdir(exist_ok=True)
        (VERIF / "evidence" / f"{self.pid}.json").write_text(json.dumps(ev, indent=1, default=str) + "\n")
        print(f"[{self.pid}] tier={self.tier} seed={self.seed} evaluations={self.cov['evaluations']} "
              f"distinct={self.cov['distinct_nontrivial']} obligations={self.cov['obligations']} "
              f"discharged={self.cov['discharged']} violations={len(self.violations)} wall={wall:.1f}s", flush=True)
        return 1 if self.violations else 0

    def timed(self, name):
        ctx = self

        class T:
            def __enter__(s):
                s.t = time.time()

            def __exit__(s, *a):
                ctx.timings[name] = ctx.timings.get(name, 0) + time.time() - s.t
        return T()


# ---------------------------------------------------------------- known findings
def load_known_findings(pid):
    out = []
    p = VERIF / "KNOWN_FINDINGS.txt"
    if not p.exists():
        return out
    for line in p.read_text().splitlines():
        line = line.strip()
        if not line or line.startswith("#"):
            continue
        m = re.match(r"finding:\s+property=(\S+)\s+class=(\S+)\s+witness=(\S+)\s+(.*)", line)
        if m and m.group(1) == pid:
            out.append({"kind": "finding", "class": m.group(2), "witness": m.group(3), "text": m.group(4)})
            continue
        m = re.match(r"fixed:\s+property=(\S+)\s+(\S+)\s+(.*)", line)
        if m and m.group(1) == pid:
            out.append({"kind": "fixed", "commit": m.group(2), "text": m.group(3), "class": None})
    return out


# ---------------------------------------------------------------- build of the implementation
def prepare(ctx):
    with ctx.timed("build_impl"):
        rc, out, err = sh([str(VERIF / "bin" / "prepare")], timeout=1500)
    if rc != 0:
        ctx.violation({"broken": "build", "detail": "scratch build of /repo (tag verif) + implrun failed",
                       "stderr_tail": err[-3000:]}, found_input=False)
        return False
    ctx.bindir = out.strip().splitlines()[-1]
    return True


def repo_key():
    """sha256 over the Go sources, grammar and module files of the repository under test (working tree)."""
    h = hashlib.sha256()
    files = []
    for top in ("cmd", "pkg"):
        for f in (REPO / top).rglob("*"):
            if f.is_file() and f.suffix in (".go", ".bnf", ".json"):
                files.append(f)
    for f in sorted(files) + [REPO / "go.mod", REPO / "go.sum"]:
        try:
            h.update(f.relative_to(REPO).as_posix().encode() + b"\0" + hashlib.sha256(f.read_bytes()).digest())
        except OSError:
            pass
    return h.hexdigest()[:24]


def baseline_repo_key():
    p = VERIF / "harness" / "baseline_repo_key.txt"
    return p.read_text().split()[0] if p.exists() and p.read_text().strip() else None


# ---------------------------------------------------------------- Coq
def write_if_changed(path, text):
    path = Path(path)
    if path.exists() and path.read_text() == text:
        return False
    path.parent.mkdir(parents=True, exist_ok=True)
    tmp = path.with_suffix(path.suffix + ".tmp%d" % os.getpid())
    tmp.write_text(text)
    tmp.replace(path)
    return True


class CoqLock:
    def __enter__(self):
        (CACHE / "lock").mkdir(parents=True, exist_ok=True)
        self.f = open(CACHE / "lock" / "coq.lock", "w")
        fcntl.flock(self.f, fcntl.LOCK_EX)

    def __exit__(self, *a):
        fcntl.flock(self.f, fcntl.LOCK_UN)
        self.f.close()


def gen_coqproject():
    """_CoqProject lists every .v of the development except Props.v (compiled separately on every run so that
    Print Assumptions output is fresh) and the per-run cases_*.v files."""
    files = []
    for f in sorted(COQ.rglob("*.v")):
        rel = f.relative_to(COQ).as_posix()
        if f.name == "Props.v" or f.name.startswith("cases_") or f.name.startswith("."):
            continue
        files.append(rel)
    write_if_changed(COQ / "_CoqProject", "-Q . Miller\n" + "\n".join(files) + "\n")


def coq_make(targets=(), timeout=2400):
    """incremental full-.vo build of the named targets (default: everything in _CoqProject)."""
    with CoqLock():
        gen_coqproject()
        mk = COQ / "Makefile"
        cp = COQ / "_CoqProject"
        if not mk.exists() or mk.stat().st_mtime < cp.stat().st_mtime:
            sh(["coq_makefile", "-f", "_CoqProject", "-o", "Makefile"], cwd=COQ)
        rc, out, err = sh(["make", "-j" + os.environ.get("VERIF_MAKE_J", "8"), "--no-print-directory"] + list(targets), cwd=COQ, timeout=timeout)
    return rc == 0, out + err


def coqc(vfile, timeout=900):
    rc, out, err = sh(["coqc", "-Q", ".", "Miller", str(vfile)], cwd=COQ, timeout=timeout)
    return rc, out, err


def forbidden_gate(ctx, subdirs):
    """no Admitted/admit/Axiom/... anywhere in the development files of this property (comments stripped)."""
    bad = []
    for sd in subdirs:
        for f in sorted((COQ / sd).glob("*.v")):
            txt = strip_coq_comments(f.read_text())
            for i, line in enumerate(txt.splitlines(), 1):
                if FORBIDDEN_RE.search(line):
                    bad.append(f"{f.relative_to(COQ)}:{i}: {line.strip()[:120]}")
    if bad:
        ctx.violation({"broken": "forbidden-construct", "where": bad[:20]}, found_input=False)
    return not bad


def strip_coq_comments(s):
    out, depth, i, instr = [], 0, 0, False
    while i < len(s):
        if depth == 0 and s[i] == '"':
            instr = not instr
            out.append(s[i]); i += 1; continue
        if not instr and s.startswith("(*", i):
            depth += 1; i += 2; continue
        if not instr and depth and s.startswith("*)", i):
            depth -= 1; i += 2; continue
        if depth == 0:
            out.append(s[i])
        elif s[i] == "\n":
            out.append("\n")
        i += 1
    return "".join(out)


def check_props(ctx, props_rel, deps_targets):
    """Build the proofs the property file depends on, compile the property file itself (always, so
    that Print Assumptions output is fresh), count theorems and audit their assumptions.
    Returns (ok, failing_theorem_or_file)."""
    props = COQ / props_rel
    # every Miller.* file the property file imports is a build target too
    deps_targets = list(deps_targets)
    for m in re.finditer(r"From\s+Miller\s+Require\s+(?:Import|Export)\s+((?:[A-Za-z_][\w']*(?:\.[A-Za-z_][\w']*)*\s*)+)\.", strip_coq_comments(props.read_text())):
        for name in m.group(1).split():
            t = name.replace(".", "/") + ".vo"
            if (COQ / (name.replace(".", "/") + ".v")).exists() and t not in deps_targets:
                deps_targets.append(t)
    with ctx.timed("coq_make"):
        ok, log = coq_make(deps_targets)
    src = strip_coq_comments(props.read_text())
    thms = re.findall(r"^\s*(?:Theorem|Corollary)\s+(\w+)", src, re.M)
    ctx.cov["theorems"] = thms
    ctx.cov["obligations"] = len(thms)
    ctx.cov["checker_cmd"] = f"make -C coq {' '.join(deps_targets)} && coqc -Q . Miller {props_rel}  (Coq 8.16.1, full .vo build)"
    if not ok:
        m = re.search(r'File "\./([^"]+)", line (\d+)', log)
        where = f"{m.group(1)}:{m.group(2)}" if m else "make"
        ctx.cov["discharged"] = 0
        return False, {"stage": "make", "where": where, "log_tail": log[-2500:]}
    with ctx.timed("coq_props"):
        rc, out, err = coqc(props_rel)
    if rc != 0:
        m = re.search(r'line (\d+)', err)
        failing = None
        if m:
            ln = int(m.group(1))
            lines = props.read_text().splitlines()
            for i in range(min(ln, len(lines)) - 1, -1, -1):
                mm = re.match(r"\s*(?:Theorem|Corollary|Example|Lemma)\s+(\w+)", lines[i])
                if mm:
                    failing = mm.group(1); break
        # theorems before the failing one are discharged
        ctx.cov["discharged"] = thms.index(failing) if failing in thms else 0
        return False, {"stage": "props", "theorem": failing, "log_tail": (out + err)[-2500:]}
    # audit assumptions
    bad = {}
    blocks = re.split(r"\n(?=Closed under the global context|Axioms:)", "\n" + out)
    n_closed = out.count("Closed under the global context")
    ax = re.findall(r"^Axioms:\n((?:.+\n?)+?)(?=\n\S|\Z)", out, re.M)
    names = set()
    for blk in re.findall(r"Axioms:\n((?:(?:[^\n]*\n))*?)(?=(?:Closed under|Axioms:|\Z))", out):
        for mm in re.finditer(r"^(\S+)\s*:", blk, re.M):
            names.add(mm.group(1))
    ctx.cov["assumptions_reported"] = {"closed_under_global_context": n_closed, "axioms": sorted(names)}
    notallowed = [n for n in names if n not in ALLOWED_AXIOMS and not n.startswith(("PrimFloat.", "Uint63.", "FloatAxioms.", "PrimInt63."))]
    if notallowed:
        ctx.cov["discharged"] = 0
        return False, {"stage": "assumptions", "axioms": notallowed}
    ctx.cov["discharged"] = len(thms)
    return True, None


def coq_eval_mismatches(ctx, name, imports, ty, chk, case_terms, timeout=1500, shard=4000):
    """Write gen/cases_<name>_<k>.v files holding the observed implementation behaviour, evaluate the
    model on them with vm_compute inside Coq, return list of mismatching case indices."""
    GEN.mkdir(exist_ok=True)
    bad = []
    procs = []
    maxpar = int(os.environ.get("VERIF_COQ_PAR", "6"))
    files = []
    for k in range(0, len(case_terms), shard):
        part = case_terms[k:k + shard]
        f = GEN / f"cases_{name}_{k // shard}.v"
        body = [f"From Miller Require Import Base.Bytes {imports}.", "Open Scope Z_scope.",
                f"Definition cases : list ({ty}) := [",
                ";\n".join(part), "].",
                f"Definition M := Eval vm_compute in mismatches ({chk}) cases.",
                "Print M."]
        f.write_text("\n".join(body) + "\n")
        files.append((k, f))
    from concurrent.futures import ThreadPoolExecutor

    class Done:
        def __init__(s, rc, out, err):
            s.returncode, s._o, s._e = rc, out, err

        def communicate(s):
            return s._o, s._e

    def runone(kf):
        k, f = kf
        rc, out, err = sh(["timeout", str(timeout), "coqc", "-Q", ".", "Miller", str(f)], cwd=COQ, timeout=timeout + 30)
        return (k, f, Done(rc, out, err))
    with ThreadPoolExecutor(max_workers=maxpar) as ex:
        procs = list(ex.map(runone, files))
    err_all = ""
    for k, f, p in procs:
        out, err = p.communicate()
        m = re.search(r"M\s*=\s*\[(.*?)\]\s*:\s*list N", out, re.S)
        if p.returncode != 0 or not m:
            err_all += f"{f.name}: rc={p.returncode} {err[-1500:]}\n"
            bad.append(-1 - k)
            continue
        body = m.group(1).strip()
        if body:
            for tok in body.split(";"):
                tok = tok.strip().replace("%N", "")
                if tok:
                    bad.append(k + int(tok))
        for ext in (".vo", ".vok", ".vos", ".glob"):
            try:
                f.with_suffix(ext).unlink()
            except FileNotFoundError:
                pass
        try:
            (f.parent / ("." + f.stem + ".aux")).unlink()
        except FileNotFoundError:
            pass
    return bad, err_all


# ---------------------------------------------------------------- Coq term rendering
def coq_bytes(b):
    """render a Python bytes object as a Coq term of type `bytes`."""
    if isinstance(b, str):
        b = b.encode("utf-8")
    if all(32 <= c < 127 and c != 34 for c in b):
        return '(B "%s")' % b.decode("ascii")
    return "(bs [" + ";".join(str(c) for c in b) + "]%N)"


def coq_z(n):
    return f"({n})" if n < 0 else str(n)


def hexs(b):
    if isinstance(b, str):
        b = b.encode("utf-8")
    return b.hex()


# ---------------------------------------------------------------- running mlr safely
def mlr_run(ctx, args, stdin=b"", timeout=20, max_out=50_000_000, env=None, cwd=None):
    """Run the scratch-built mlr under a wall-clock timeout, an address-space limit and an output cap.
    Returns (status, stdout_bytes, stderr_bytes) where status is an int exit code, or 'hang' on timeout.
    Never raises.  Use classify_run() for the {ok, mlr_error, panic, hang} enum."""
    import resource, tempfile

    def lim():
        resource.setrlimit(resource.RLIMIT_AS, (8 << 30, 8 << 30))
        resource.setrlimit(resource.RLIMIT_FSIZE, (max_out, max_out))
    e = dict(os.environ)
    e.pop("MLRRC", None)
    e["MLRRC"] = "__none__"
    if env:
        e.update(env)
    if isinstance(stdin, str):
        stdin = stdin.encode("utf-8")
    try:
        with tempfile.TemporaryFile() as fo, tempfile.TemporaryFile() as fe:
            p = subprocess.Popen([ctx.mlr()] + list(args), stdin=subprocess.PIPE, stdout=fo, stderr=fe, env=e, cwd=cwd, preexec_fn=lim)
            try:
                p.communicate(stdin, timeout=timeout)
                st = p.returncode
            except subprocess.TimeoutExpired:
                p.kill(); p.wait()
                st = "hang"
            fo.seek(0); fe.seek(0)
            return st, fo.read(max_out), fe.read(1_000_000)
    except Exception as ex:  # pragma: no cover
        return "harness-error", b"", repr(ex).encode()


def classify_run(st, err):
    """small error enum used when comparing with models"""
    if st == "hang":
        return "hang"
    if b"panic:" in err or b"fatal error:" in err or b"goroutine " in err or b"Internal coding error" in err:
        return "panic"
    if st == 0:
        return "ok"
    return "mlr_error"


def parse_json_records(out):
    """records from `mlr --ojson` output as list of list of (key, value) with values rendered as Miller prints them
    (strings as-is; numbers keep their JSON text; nested values as compact JSON).  Returns None when not parseable."""
    import collections
    try:
        txt = out.decode("utf-8", "surrogateescape") if isinstance(out, bytes) else out
        data = json.loads(txt, object_pairs_hook=lambda kv: kv, parse_int=lambda s: NumText(s), parse_float=lambda s: NumText(s))
    except Exception:
        return None
    recs = []
    for rec in data:
        recs.append([(k, v) for k, v in rec])
    return recs


class NumText(str):
    """a JSON number kept as its source text"""
    pass


def dkvp(records, ifs=",", ips="=", irs="\n"):
    """encode records (list of list of (k, v) str/bytes) as DKVP bytes; caller guarantees separator-freeness"""
    def b(x):
        return x if isinstance(x, bytes) else str(x).encode("utf-8")
    return b"".join(b(ifs).join(b(k) + b(ips) + b(v) for k, v in r) + b(irs) for r in records)


def coq_record(rec):
    return "[" + "; ".join(f"({coq_bytes(k)}, {coq_bytes(v)})" for k, v in rec) + "]"


def coq_records(recs):
    return "[" + ";\n  ".join(coq_record(r) for r in recs) + "]"


def coq_list(items):
    return "[" + "; ".join(items) + "]"


def coq_bool(b):
    return "true" if b else "false"


def coq_option(x, render):
    return "None" if x is None else f"(Some {render(x)})"
