"""C15 part: wrapper verbs (ssub, case -u/-l -v, latin1-to-utf8, utf8-to-latin1) against coq/C15/ModelVerbs.v
(run_verb = the function model applied to each selected field's value) and against the DSL function per field."""
RS, US = b"\x1e", b"\x1f"
KEYS = [b"a", b"b", b"c", b"d"]


def enc_record(kv):
    return RS.join(k + US + v for k, v in kv)


def gen_value(rng, kind):
    n = rng.randint(0, 7)
    if kind == "ascii":
        return bytes(rng.choice(b"abcxyzABCXYZ019 .,;:-_*+?()[]{}|^$/#@!~<>='%&") for _ in range(n))
    if kind == "caseless":
        return b"".join(rng.choice([b"a", b"Z", b"q", b" ", b"\xe2\x82\xac", b"\xf0\x9f\x98\x80", b"\xe4\xb8\xad", b"7"]) for _ in range(n))
    if kind == "latin":
        return bytes(rng.choice([rng.randrange(0x20, 0x7f), rng.randrange(0x80, 0x100)]) for _ in range(n)).replace(b"\\", b"/")
    return b"".join(rng.choice([b"a", b"\xc3\xa9", b"\xc3\xbf", b"\xc2\x80", b"\xc4\x80", b"\xe2\x82\xac", b"z", b"\xff", b"\xc3"]) for _ in range(n))


def run_part(ctx, case, bad, mlr_rows, P):
    rng = ctx.rng
    n = 15 if ctx.tier == "quick" else 600
    plans = []
    for pat, rep in ((b"a", b"<.>"), (b".", b""), (b"ab", b"ab"), (b"*", b"\xe2\x82\xac")):
        for names in ([b"a", b"c"], None, [b"d"]):
            plans.append((0, "ssub", names, pat, rep, "ascii"))
    plans = rng.sample(plans, 6 if ctx.tier == "quick" else len(plans))
    plans += [(2, "case", [b"a", b"c"], b"-u", b"", "caseless"), (3, "case", [b"b"], b"-l", b"", "caseless"), (2, "case", [b"a", b"b", b"c", b"d"], b"-u", b"", "ascii"),
              (4, "latin1-to-utf8", None, b"", b"", "latin"), (5, "utf8-to-latin1", None, b"", b"", "utf8"), (5, "utf8-to-latin1", None, b"", b"", "latin")]
    for vid, name, names, pat, rep, kind in plans:
        recs = [tuple(gen_value(rng, kind) for _ in KEYS) for _ in range(n)]
        rows = [r for r in recs]
        nm = b",".join(names) if names else b"*"
        if name == "ssub":
            verb = [name] + (["-f", nm.decode()] if names else ["-a"]) + [pat.decode(), rep.decode()]
            fn = lambda k: '%s($%s,"%s","%s")' % (name, k, pat.decode(), rep.decode())
        elif name == "case":
            verb = ["case", pat.decode(), "-v", "-f", nm.decode()]
            fn = lambda k: '%s($%s)' % ("toupper" if pat == b"-u" else "tolower", k)
        else:
            verb = [name]
            fn = lambda k: '%s($%s)' % (name.replace("-", "_"), k)
        cols = [k.decode() for k in KEYS]
        out = mlr_rows(ctx, cols, rows, None, None, verb=verb, args=["-S"])
        sel = [k for k in KEYS if names is None or k in names]
        exprs = [fn(k.decode()) if k in sel else "$" + k.decode() for k in KEYS]
        ref = mlr_rows(ctx, cols, rows, P(exprs, hexed=range(len(KEYS))), cols, args=["-S"])
        for r, o, f in zip(rows, out, ref):
            ctx.count(("verb2", name, nm, pat, rep, r))
            got = [(k, o.get(k.decode(), "<absent>").encode("latin1")) for k in KEYS]
            case(60, vid, 0, enc_record(list(zip(KEYS, r))), nm + RS + (pat if vid < 2 else b"") + RS + (rep if vid < 2 else b""), b"", enc_record(got),
                 {"fn": "verb " + " ".join(verb), "record": [x.hex() for x in r]})
            want = [(k, b"(error)" if f[k.decode()] == "(error)" else bytes.fromhex(f[k.decode()])) for k in KEYS]
            if got != want:
                bad("verb-equals-function-" + name, input={"verb": verb, "record": [x.hex() for x in r]}, observed=[v.hex() for _, v in got], expected=[v.hex() for _, v in want])
    ctx.dist("verb_model_records", n * len(plans))
