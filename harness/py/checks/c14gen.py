"""C14: program generator and the two renderers (Miller concrete syntax, Coq term of type C14.Model.prog).

AST (python tuples)
  expr: ("int",z) ("str",s) ("bool",b) ("field",k) ("oos",k) ("local",x) ("srec",) ("oosall",) ("nr",)
        ("bin",op,a,b) ("and",a,b) ("or",a,b) ("not",a) ("neg",a) ("tern",c,a,b) ("coal",a,b)
        ("maplit",[(k,v)]) ("index",b,i) ("call",f,[args]) ("fun1",name,a) ("arrlit",[e]) ("slice",b,lo|None,hi|None)
  stmt: ("assign",base,[idx],e,sugar) ("define",ty,x,e) ("assignsrec",e) ("unset",base,[idx]) ("if",[(c,body)],els|None)
        ("while",c,body) ("do",body,c) ("for1",k,e,body) ("for2",k,v,e,body) ("forc",[init],c|None,[upd],body)
        ("cond",c,body) ("break",) ("continue",) ("return",e|None) ("print",e) ("emit1",e) ("emitmap",e)
        ("emitnamed",name,e,[keys]) ("filter",e) ("bare",e) ("callsub",name,[args])
  base: ("field",k) | ("oos",k) | ("local",x)
  func: dict(name, params=[(ty,x)], ret=ty, body=[stmt])
  prog: dict(funcs, begin=[[stmt]], main=[stmt], end=[[stmt]])
"""
from vlib import coq_bytes, coq_z, coq_bool

ARITH = {"+": "OAdd", "-": "OSub", "*": "OMul"}
CMP = {"==": "CEq", "!=": "CNe", "<": "CLt", "<=": "CLe", ">": "CGt", ">=": "CGe"}
FUN1 = {"typeof": "FTypeof", "is_absent": "FIsAbsent", "is_present": "FIsPresent", "is_error": "FIsError", "is_map": "FIsMap",
        "is_string": "FIsString", "is_int": "FIsInt", "is_boolean": "FIsBool", "is_empty": "FIsEmpty", "length": "FLength", "is_array": "FIsArray"}
TY = {"any": "TAny", "var": "TVar", "int": "TInt", "num": "TNum", "str": "TStr", "bool": "TBool", "map": "TMap",
      "float": "TFloat", "arr": "TArr", "funct": "TFunct"}


# ------------------------------------------------------------------ Miller syntax
def m_str(s):
    return '"' + s + '"'


def m_expr(e):
    k = e[0]
    if k == "int":
        return str(e[1]) if e[1] >= 0 else "(%d)" % e[1]
    if k == "str":
        return m_str(e[1])
    if k == "bool":
        return "true" if e[1] else "false"
    if k == "field":
        return "$" + e[1]
    if k == "oos":
        return "@" + e[1]
    if k == "local":
        return e[1]
    if k == "srec":
        return "$*"
    if k == "oosall":
        return "@*"
    if k == "nr":
        return "NR"
    if k == "bin":
        return "(%s %s %s)" % (m_expr(e[2]), e[1], m_expr(e[3]))
    if k == "and":
        return "(%s && %s)" % (m_expr(e[1]), m_expr(e[2]))
    if k == "or":
        return "(%s || %s)" % (m_expr(e[1]), m_expr(e[2]))
    if k == "not":
        return "(!%s)" % m_expr(e[1])
    if k == "neg":
        return "(-%s)" % m_expr(e[1])
    if k == "tern":
        return "(%s ? %s : %s)" % (m_expr(e[1]), m_expr(e[2]), m_expr(e[3]))
    if k == "coal":
        return "(%s ?? %s)" % (m_expr(e[1]), m_expr(e[2]))
    if k == "maplit":
        return "{" + ", ".join("%s: %s" % (m_expr(a), m_expr(b)) for a, b in e[1]) + "}"
    if k == "index":
        return "%s[%s]" % (m_expr(e[1]), m_expr(e[2]))
    if k == "arrlit":
        return "[" + ", ".join(m_expr(a) for a in e[1]) + "]"
    if k == "slice":
        return "%s[%s:%s]" % (m_expr(e[1]), "" if e[2] is None else m_expr(e[2]), "" if e[3] is None else m_expr(e[3]))
    if k == "posname":
        return "$[[%s]]" % m_expr(e[1])
    if k == "posval":
        return "$[[[%s]]]" % m_expr(e[1])
    if k == "call":
        return "%s(%s)" % (e[1], ", ".join(m_expr(a) for a in e[2]))
    if k == "fun1":
        return "%s(%s)" % (e[1], m_expr(e[2]))
    if k == "nf":
        return "NF"
    if k == "hof":
        # ("hof", name, coll, fnref, init|None); fnref = ("named", f) | ("lit", id, params, ret, body)
        fn = e[3]
        if fn[0] == "named":
            ft = fn[1]
        else:
            ps = ", ".join((x if t == "any" else "%s %s" % (t, x)) for t, x in fn[2])
            ft = "func(%s)%s %s" % (ps, "" if fn[3] == "any" else ": " + fn[3], m_block(fn[4], 2))
        return "%s(%s, %s%s)" % (e[1], m_expr(e[2]), ft, "" if e[4] is None else ", " + m_expr(e[4]))
    raise ValueError(k)


def m_base(b):
    return {"field": "$", "oos": "@", "local": ""}[b[0]] + b[1]


def m_block(body, ind):
    if not body:
        return "{}"
    return "{\n" + m_stmts(body, ind + 1) + "\n" + "  " * ind + "}"


def m_stmts(ss, ind):
    return ";\n".join("  " * ind + m_stmt(s, ind) for s in ss)


def m_simple(s):
    return m_stmt(s, 0)


def m_stmt(s, ind):
    k = s[0]
    if k == "assign":
        lhs = m_base(s[1]) + "".join("[%s]" % m_expr(i) for i in s[2])
        if s[4]:
            # compound form: the stored expression is ("bin"/"and"/"or"/"coal", op.., lhs-as-rvalue, rhs)
            e = s[3]
            if e[0] == "bin":
                return "%s %s= %s" % (lhs, e[1], m_expr(e[3]))
            op = {"and": "&&", "or": "||", "coal": "??"}[e[0]]
            return "%s %s= %s" % (lhs, op, m_expr(e[2]))
        return "%s = %s" % (lhs, m_expr(s[3]))
    if k == "define":
        return "%s %s = %s" % (s[1], s[2], m_expr(s[3]))
    if k == "assignsrec":
        return "$* = %s" % m_expr(s[1])
    if k == "unset":
        return "unset " + m_base(s[1]) + "".join("[%s]" % m_expr(i) for i in s[2])
    if k == "if":
        out = ""
        for n, (c, body) in enumerate(s[1]):
            out += ("if" if n == 0 else " elif") + " (%s) %s" % (m_expr(c), m_block(body, ind))
        if s[2] is not None:
            out += " else " + m_block(s[2], ind)
        return out
    if k == "while":
        return "while (%s) %s" % (m_expr(s[1]), m_block(s[2], ind))
    if k == "do":
        return "do %s while (%s)" % (m_block(s[1], ind), m_expr(s[2]))
    if k == "for1":
        return "for (%s in %s) %s" % (s[1], m_expr(s[2]), m_block(s[3], ind))
    if k == "for2":
        return "for (%s, %s in %s) %s" % (s[1], s[2], m_expr(s[3]), m_block(s[4], ind))
    if k == "formulti":
        return "for ((%s), %s in %s) %s" % (", ".join(s[1]), s[2], m_expr(s[3]), m_block(s[4], ind))
    if k == "forc":
        return "for (%s; %s; %s) %s" % (", ".join(m_simple(x) for x in s[1]), m_expr(s[2]) if s[2] is not None else "",
                                        ", ".join(m_simple(x) for x in s[3]), m_block(s[4], ind))
    if k == "cond":
        return "%s %s" % (m_expr(s[1]), m_block(s[2], ind))
    if k == "break":
        return "break"
    if k == "continue":
        return "continue"
    if k == "return":
        return "return" if s[1] is None else "return " + m_expr(s[1])
    if k == "print":
        return "print " + m_expr(s[1])
    if k == "emit1":
        return "emit1 " + m_expr(s[1])
    if k == "emitmap":
        return "emit " + m_expr(s[1])
    if k == "emitnamed":
        return "emit " + m_expr(s[2]) + "".join(", " + m_str(x) for x in s[3])
    if k == "filter":
        return "filter " + m_expr(s[1])
    if k == "bare":
        return m_expr(s[1])
    if k == "callsub":
        return "call %s(%s)" % (s[1], ", ".join(m_expr(a) for a in s[2]))
    if k == "assignposname":
        return "$[[%s]] = %s" % (m_expr(s[1]), m_expr(s[2]))
    if k == "assignposval":
        return "$[[[%s]]] = %s" % (m_expr(s[1]), m_expr(s[2]))
    if k == "emitf":
        return "emitf " + ", ".join(m_base(b) for b in s[1])
    if k == "emitp":
        return "emitp " + m_base(s[1]) + "".join(", " + m_str(x) for x in s[2])
    if k == "emitlashed":
        return ("emitp" if s[1] else "emit") + " (" + ", ".join(m_base(b) for b in s[2]) + ")"
    if k == "printn":
        return "printn " + m_expr(s[1])
    if k == "eprint":
        return "eprint " + m_expr(s[1])
    if k == "dump":
        return "dump" if s[1] is None else "dump " + m_expr(s[1])
    if k == "edump":
        return "edump"
    raise ValueError(k)


def m_func(f):
    ps = ", ".join((x if t == "any" else "%s %s" % (t, x)) for t, x in f["params"])
    if f.get("sub"):
        return "subr %s(%s) %s" % (f["name"], ps, m_block(f["body"], 0))
    ret = "" if f["ret"] == "any" else ": " + f["ret"]
    return "func %s(%s)%s %s" % (f["name"], ps, ret, m_block(f["body"], 0))


def mlr_prog(p):
    parts = [m_func(f) for f in p["funcs"]]
    parts += ["begin " + m_block(b, 0) for b in p["begin"]]
    if p["main"]:
        parts.append(m_stmts(p["main"], 0))
    parts += ["end " + m_block(b, 0) for b in p["end"]]
    return ";\n".join(parts) + "\n"


# ------------------------------------------------------------------ Coq term
def cb(s):
    return coq_bytes(s.encode("utf-8"))


def c_list(items):
    return "[" + "; ".join(items) + "]"


def c_expr(e):
    k = e[0]
    if k == "int":
        return "(EInt %s)" % coq_z(e[1])
    if k == "str":
        return "(EStr %s)" % cb(e[1])
    if k == "bool":
        return "(EBool %s)" % coq_bool(e[1])
    if k == "field":
        return "(EField %s)" % cb(e[1])
    if k == "oos":
        return "(EOos %s)" % cb(e[1])
    if k == "local":
        return "(ELocal %s)" % cb(e[1])
    if k == "srec":
        return "ESrec"
    if k == "oosall":
        return "EOosAll"
    if k == "nr":
        return "ENR"
    if k == "bin":
        op = e[1]
        o = "(BArith %s)" % ARITH[op] if op in ARITH else ("BDot" if op == "." else "(BCmp %s)" % CMP[op])
        return "(EBin %s %s %s)" % (o, c_expr(e[2]), c_expr(e[3]))
    if k == "and":
        return "(EAnd %s %s)" % (c_expr(e[1]), c_expr(e[2]))
    if k == "or":
        return "(EOr %s %s)" % (c_expr(e[1]), c_expr(e[2]))
    if k == "not":
        return "(ENot %s)" % c_expr(e[1])
    if k == "neg":
        return "(ENeg %s)" % c_expr(e[1])
    if k == "tern":
        return "(ETern %s %s %s)" % (c_expr(e[1]), c_expr(e[2]), c_expr(e[3]))
    if k == "coal":
        return "(ECoal %s %s)" % (c_expr(e[1]), c_expr(e[2]))
    if k == "maplit":
        return "(EMapLit %s)" % c_list("(%s, %s)" % (c_expr(a), c_expr(b)) for a, b in e[1])
    if k == "index":
        return "(EIndex %s %s)" % (c_expr(e[1]), c_expr(e[2]))
    if k == "arrlit":
        return "(EArrLit %s)" % c_list(c_expr(a) for a in e[1])
    if k == "slice":
        void = '(EStr [])'
        return "(ESlice %s %s %s)" % (c_expr(e[1]), void if e[2] is None else c_expr(e[2]), void if e[3] is None else c_expr(e[3]))
    if k == "posname":
        return "(EPosName %s)" % c_expr(e[1])
    if k == "posval":
        return "(EPosVal %s)" % c_expr(e[1])
    if k == "call":
        return "(ECall %s %s)" % (cb(e[1]), c_list(c_expr(a) for a in e[2]))
    if k == "fun1":
        return "(EFun1 %s %s)" % (FUN1[e[1]], c_expr(e[2]))
    if k == "nf":
        return "ENF"
    if k == "hof":
        fn = e[3]
        if fn[0] == "named":
            lit, name = False, fn[1]
        else:
            # the literal is hoisted into the function list under a name no identifier can have
            lit, name = True, "#%d" % fn[1]
            if name not in LITS:
                LITS[name] = None
                LITS[name] = c_fdef({"name": name, "params": fn[2], "ret": fn[3], "body": fn[4]})
        return "(EHof %s %s %s %s %s)" % (HOFS[e[1]], c_expr(e[2]), coq_bool(lit), cb(name), "None" if e[4] is None else "(Some %s)" % c_expr(e[4]))
    raise ValueError(k)


HOFS = {"apply": "HApply", "select": "HSelect", "reduce": "HReduce", "fold": "HFold", "any": "HAny", "every": "HEvery", "sort": "HSort"}
LITS = {}


def c_base(b):
    return "(%s %s)" % ({"field": "LField", "oos": "LOos", "local": "LLocal"}[b[0]], cb(b[1]))


def c_body(ss):
    return c_list(c_stmt(s) for s in ss)


def c_stmt(s):
    k = s[0]
    if k == "assign":
        return "(SAssign %s %s %s)" % (c_base(s[1]), c_list(c_expr(i) for i in s[2]), c_expr(s[3]))
    if k == "define":
        return "(SDefine %s %s %s)" % (TY[s[1]], cb(s[2]), c_expr(s[3]))
    if k == "assignsrec":
        return "(SAssignSrec %s)" % c_expr(s[1])
    if k == "unset":
        return "(SUnset %s %s)" % (c_base(s[1]), c_list(c_expr(i) for i in s[2]))
    if k == "if":
        return "(SIf %s %s)" % (c_list("(%s, %s)" % (c_expr(c), c_body(b)) for c, b in s[1]),
                                "None" if s[2] is None else "(Some %s)" % c_body(s[2]))
    if k == "while":
        return "(SWhile %s %s)" % (c_expr(s[1]), c_body(s[2]))
    if k == "do":
        return "(SDo %s %s)" % (c_body(s[1]), c_expr(s[2]))
    if k == "for1":
        return "(SFor1 %s %s %s)" % (cb(s[1]), c_expr(s[2]), c_body(s[3]))
    if k == "for2":
        return "(SFor2 %s %s %s %s)" % (cb(s[1]), cb(s[2]), c_expr(s[3]), c_body(s[4]))
    if k == "formulti":
        return "(SForMulti %s %s %s %s)" % (c_list(cb(x) for x in s[1]), cb(s[2]), c_expr(s[3]), c_body(s[4]))
    if k == "forc":
        return "(SForC %s %s %s %s)" % (c_body(s[1]), "None" if s[2] is None else "(Some %s)" % c_expr(s[2]), c_body(s[3]), c_body(s[4]))
    if k == "cond":
        return "(SCond %s %s)" % (c_expr(s[1]), c_body(s[2]))
    if k == "break":
        return "SBreak"
    if k == "continue":
        return "SContinue"
    if k == "return":
        return "(SReturn %s)" % ("None" if s[1] is None else "(Some %s)" % c_expr(s[1]))
    if k == "print":
        return "(SPrint %s)" % c_expr(s[1])
    if k == "emit1":
        return "(SEmit1 %s)" % c_expr(s[1])
    if k == "emitmap":
        return "(SEmitMap %s)" % c_expr(s[1])
    if k == "emitnamed":
        return "(SEmitNamed %s %s %s)" % (cb(s[1]), c_expr(s[2]), c_list(cb(x) for x in s[3]))
    if k == "filter":
        return "(SFilter %s)" % c_expr(s[1])
    if k == "bare":
        return "(SBare %s)" % c_expr(s[1])
    if k == "callsub":
        return "(SCall %s %s)" % (cb(s[1]), c_list(c_expr(a) for a in s[2]))
    if k == "assignposname":
        return "(SAssignPosName %s %s)" % (c_expr(s[1]), c_expr(s[2]))
    if k == "assignposval":
        return "(SAssignPosVal %s %s)" % (c_expr(s[1]), c_expr(s[2]))
    if k == "emitf":
        return "(SEmitF %s)" % c_list("(%s, %s)" % (cb(b[1]), c_expr((b[0], b[1]))) for b in s[1])
    if k == "emitp":
        return "(SEmitP %s %s %s)" % (cb(s[1][1]), c_expr((s[1][0], s[1][1])), c_list(cb(x) for x in s[2]))
    if k == "emitlashed" and len(s[2]) == 1:
        # one emittable in parentheses is not lashed (buildEmitXStatementNode)
        b = s[2][0]
        return c_stmt(("emitp", b, [])) if s[1] else c_stmt(("emitnamed", b[1], (b[0], b[1]), []))
    if k == "emitlashed":
        return "(SEmitLashed %s %s)" % (coq_bool(s[1]), c_list("(%s, %s)" % (cb(b[1]), c_expr((b[0], b[1]))) for b in s[2]))
    if k == "printn":
        return "(SPrintN %s)" % c_expr(s[1])
    if k == "eprint":
        return "(SEprint %s)" % c_expr(s[1])
    if k == "dump":
        return "(SDump %s)" % ("None" if s[1] is None else "(Some %s)" % c_expr(s[1]))
    if k == "edump":
        return "SEdump"
    raise ValueError(k)


def c_fdef(f):
    return "{| f_name := %s; f_sub := %s; f_params := %s; f_ret := %s; f_body := %s |}" % (
        cb(f["name"]), coq_bool(bool(f.get("sub"))), c_list("(%s, %s)" % (TY[t], cb(x)) for t, x in f["params"]), TY[f["ret"]], c_body(f["body"]))


def coq_prog(p):
    LITS.clear()
    named = [c_fdef(f) for f in p["funcs"]]
    begin, main, end = c_list(c_body(b) for b in p["begin"]), c_body(p["main"]), c_list(c_body(b) for b in p["end"])
    fs = c_list(named + [v for v in LITS.values() if v is not None])
    LITS.clear()
    return "{| p_funcs := %s; p_begin := %s; p_main := %s; p_end := %s |}" % (fs, begin, main, end)


def prog_size(p):
    n = 0
    for b in p["begin"] + [p["main"]] + p["end"] + [f["body"] for f in p["funcs"]]:
        n += sum(ss(s) for s in b)
    return n


def ss(s):
    n = 1
    for x in s[1:]:
        if isinstance(x, list):
            for y in x:
                if isinstance(y, tuple) and y and isinstance(y[0], str) and y[0] in STMT_KINDS:
                    n += ss(y)
                elif isinstance(y, tuple) and len(y) == 2 and isinstance(y[1], list):
                    n += sum(ss(z) for z in y[1])
    return n


STMT_KINDS = {"emitp", "emitlashed", "printn", "eprint", "dump", "edump", "assignposname", "assignposval", "emitf", "formulti", "callsub", "assign", "define", "assignsrec", "unset", "if", "while", "do", "for1", "for2", "forc", "cond", "break", "continue",
              "return", "print", "emit1", "emitmap", "emitnamed", "filter", "bare"}

# ------------------------------------------------------------------ generator
FIELDS_INT = ["a", "b"]
FIELDS_STR = ["c", "s"]
FIELD_NEW = ["x", "y", "z"]
WORDS = ["pan", "eks", "wye", "zee", "hat", ""]
LOCALS = ["u", "v", "w", "t", "p", "q", "r"]
OOS = ["sum", "cnt", "acc", "m", "last"]
KINDS = ["int", "str", "bool", "map", "arr"]
KTY = {"int": "int", "str": "str", "bool": "bool", "map": "map", "arr": "arr", None: "any"}
ARRL = ["xs", "ys", "zs"]          # local array names (never chosen by the generic statements)
OOSARR = ["arr1", "arr2"]
SLICEWORDS = ["hello", "pan", "h\u00e9llo", "ab", "x"]


class Gen:
    def __init__(self, rng):
        self.rng = rng
        self.funcs = []          # generated function signatures: dict(name, params, ret, kind)
        self.oos_kind = {}       # oosvar name -> kind guess
        self.counter = 0

    # ---- scopes: list of dict name -> (kind, declared type or None); innermost last
    def lookup(self, scopes, kind=None):
        out = []
        seen = set()
        for sc in reversed(scopes):
            for n, (k, t) in sc.items():
                if n in seen:
                    continue
                seen.add(n)
                if k == "reserved":
                    continue
                if kind is None or k == kind:
                    out.append(n)
        return out

    def fresh_local(self, scopes):
        used = set()
        for sc in scopes:
            used |= set(sc)
        cands = [n for n in LOCALS if n not in used]
        if cands:
            return self.rng.choice(cands)
        return self.rng.choice(LOCALS)

    # ---- expressions
    def e_int(self, cx, d):
        r = self.rng
        choices = ["lit", "lit", "field", "local", "oos"]
        if d > 0:
            choices += ["bin", "bin", "bin", "tern", "neg", "call", "index", "coal", "nr", "length", "aindex", "aindex", "alength", "hof", "hof", "nf"]
        for _ in range(6):
            c = r.choice(choices)
            if c == "lit":
                return ("int", r.randint(-3, 9))
            if c == "field" and cx["fields"]:
                return ("field", r.choice(FIELDS_INT + (FIELD_NEW if r.random() < 0.2 else [])))
            if c == "local":
                ls = self.lookup(cx["scopes"], "int")
                if ls:
                    return ("local", r.choice(ls))
            if c == "oos":
                ks = [n for n, k in self.oos_kind.items() if k == "int"]
                if ks:
                    return ("oos", r.choice(ks))
            if c == "bin":
                return ("bin", r.choice(["+", "-", "*", "+", "-"]), self.e_int(cx, d - 1), self.e_int(cx, d - 1))
            if c == "tern":
                return ("tern", self.e_bool(cx, d - 1), self.e_int(cx, d - 1), self.e_int(cx, d - 1))
            if c == "neg":
                return ("neg", self.e_int(cx, d - 1))
            if c == "nr" and cx["fields"]:
                return ("nr",)
            if c == "coal":
                return ("coal", self.e_maybe_absent(cx), self.e_int(cx, d - 1))
            if c == "call":
                fs = [f for f in self.funcs if f["kind"] == "int" and f["name"] in cx["callable"]]
                if fs:
                    return self.e_call(cx, r.choice(fs), d - 1)
            if c == "index":
                return ("index", self.e_map(cx, d - 1, leaf="int"), self.e_key(cx))
            if c == "length":
                return ("fun1", "length", self.e_any(cx, d - 1))
            if c == "aindex":
                return ("index", self.e_arr(cx, d - 1, leaf="int"), self.e_aidx(cx, True))
            if c == "alength":
                return ("fun1", "length", self.e_arr(cx, d - 1))
            if c == "hof":
                return self.e_hof(cx, "int", d - 1)
            if c == "nf":
                return ("nf",)
        return ("int", r.randint(0, 5))

    def e_aidx(self, cx, wide=False):
        """an array index: mostly in 1..4 and the negative aliases, now and then 0 / far out / not an int"""
        r = self.rng
        c = r.random()
        if not wide and c >= 0.75:
            # assignment targets: mostly in range (errors end the program)
            c = r.random() * 0.8 if r.random() < 0.8 else c
        if c < 0.45:
            return ("int", r.randint(1, 4))
        if c < 0.75:
            return ("int", -r.randint(1, 4))
        if c < 0.82:
            return ("int", 0)
        if c < 0.9:
            return ("int", r.choice([5, 6, 7, -5, -6]))
        if c < 0.95:
            return self.e_int(cx, 0)
        return r.choice([("str", "a"), ("str", ""), ("bool", True), ("oos", "nosuch")])

    def e_pos(self, cx):
        r = self.rng
        c = r.random()
        if c < 0.6:
            return ("int", r.randint(1, 4))
        if c < 0.8:
            return ("int", -r.randint(1, 4))
        if c < 0.9:
            return ("int", r.choice([0, 5, 7, -6]))
        if c < 0.95:
            return ("nr",)
        return r.choice([("str", "a"), ("oos", "nosuch"), ("bool", True)])

    def e_bound(self, cx):
        r = self.rng
        c = r.random()
        if c < 0.15:
            return None
        if c < 0.9:
            return ("int", r.randint(-6, 7))
        if c < 0.95:
            return self.e_int(cx, 0)
        return r.choice([("str", ""), ("str", "a"), ("oos", "nosuch"), ("bool", False)])

    def e_arr(self, cx, d, leaf=None):
        r = self.rng
        choices = ["lit", "lit", "lit", "local", "local", "oos"]
        if d > 0:
            choices += ["slice", "slice", "call", "hof", "hof"]
        for _ in range(5):
            c = r.choice(choices)
            if c == "lit":
                els = []
                for _ in range(r.choice([0, 1, 2, 3, 3, 4, 5])):
                    x = r.random()
                    lk = leaf or r.choice(["int", "str", "int"])
                    if d > 0 and x < 0.12:
                        els.append(self.e_arr(cx, d - 1, leaf))
                    elif d > 0 and x < 0.2:
                        els.append(self.e_map(cx, d - 1, leaf))
                    elif x < 0.24:
                        els.append(self.e_maybe_absent(cx))
                    elif lk == "int":
                        els.append(self.e_int(cx, max(0, d - 1)))
                    else:
                        els.append(self.e_str(cx, max(0, d - 1)))
                return ("arrlit", els)
            if c == "local":
                ls = self.lookup(cx["scopes"], "arr")
                if ls:
                    return ("local", r.choice(ls))
            if c == "oos":
                ks = [n for n, k in self.oos_kind.items() if k == "arr"]
                if ks:
                    return ("oos", r.choice(ks))
            if c == "slice":
                return ("slice", self.e_arr(cx, d - 1, leaf), self.e_bound(cx), self.e_bound(cx))
            if c == "hof":
                return self.e_hof(cx, "arr", d - 1)
            if c == "call":
                fs = [f for f in self.funcs if f["kind"] == "arr" and f["name"] in cx["callable"]]
                if fs:
                    return self.e_call(cx, r.choice(fs), d - 1)
        return ("arrlit", [("int", r.randint(0, 9)) for _ in range(r.randint(1, 4))])

    def e_key(self, cx):
        r = self.rng
        if r.random() < 0.75:
            return ("str", r.choice(["a", "b", "k", "pan", "eks"]))
        if r.random() < 0.5:
            return ("int", r.randint(1, 3))
        if cx["fields"]:
            return ("field", r.choice(FIELDS_STR))
        return ("str", "a")

    def e_maybe_absent(self, cx):
        r = self.rng
        c = r.randrange(4)
        if c == 0 and cx["fields"]:
            return ("field", r.choice(["nosuch"] + FIELDS_INT))
        if c == 1:
            return ("oos", r.choice(["nosuch"] + OOS))
        if c == 2:
            return ("local", r.choice(["nosuchlocal"] + LOCALS))
        return ("index", ("maplit", [(("str", "a"), ("int", 1))]), ("str", r.choice(["a", "zz"])))

    def e_str(self, cx, d):
        r = self.rng
        choices = ["lit", "lit", "field", "local"]
        if d > 0:
            choices += ["dot", "dot", "tern", "call", "dotint", "typeof", "sslice", "aindex"]
        for _ in range(6):
            c = r.choice(choices)
            if c == "lit":
                return ("str", r.choice(WORDS))
            if c == "field" and cx["fields"]:
                return ("field", r.choice(FIELDS_STR))
            if c == "local":
                ls = self.lookup(cx["scopes"], "str")
                if ls:
                    return ("local", r.choice(ls))
            if c == "dot":
                return ("bin", ".", self.e_str(cx, d - 1), self.e_str(cx, d - 1))
            if c == "dotint":
                return ("bin", ".", self.e_str(cx, d - 1), self.e_int(cx, d - 1))
            if c == "typeof":
                return ("fun1", "typeof", self.e_any(cx, d - 1))
            if c == "sslice":
                base = ("str", r.choice(SLICEWORDS)) if r.random() < 0.7 else self.e_str(cx, 0)     # (expr)[..] does not parse: primaries only
                return ("slice", base, self.e_bound(cx), self.e_bound(cx))
            if c == "aindex":
                return ("index", self.e_arr(cx, d - 1, leaf="str"), self.e_aidx(cx, True))
            if c == "tern":
                return ("tern", self.e_bool(cx, d - 1), self.e_str(cx, d - 1), self.e_str(cx, d - 1))
            if c == "call":
                fs = [f for f in self.funcs if f["kind"] == "str" and f["name"] in cx["callable"]]
                if fs:
                    return self.e_call(cx, r.choice(fs), d - 1)
        return ("str", r.choice(WORDS))

    def e_bool(self, cx, d):
        r = self.rng
        choices = ["lit", "cmpi", "cmpi", "cmps", "local"]
        if d > 0:
            choices += ["and", "or", "not", "cmpmix", "tern", "pred", "pred", "hof"]
        for _ in range(6):
            c = r.choice(choices)
            if c == "lit":
                return ("bool", r.random() < 0.5)
            if c == "cmpi":
                return ("bin", r.choice(list(CMP)), self.e_int(cx, max(0, d - 1)), self.e_int(cx, max(0, d - 1)))
            if c == "cmps":
                return ("bin", r.choice(list(CMP)), self.e_str(cx, max(0, d - 1)), self.e_str(cx, max(0, d - 1)))
            if c == "pred":
                return ("fun1", r.choice(["is_absent", "is_present", "is_error", "is_map", "is_string", "is_int", "is_boolean", "is_empty", "is_array"]),
                        self.e_any(cx, d - 1))
            if c == "cmpmix":
                return ("bin", r.choice(list(CMP)), self.e_any(cx, d - 1), self.e_any(cx, d - 1))
            if c == "local":
                ls = self.lookup(cx["scopes"], "bool")
                if ls:
                    return ("local", r.choice(ls))
            if c == "and":
                return ("and", self.e_bool(cx, d - 1), self.e_bool(cx, d - 1))
            if c == "or":
                return ("or", self.e_bool(cx, d - 1), self.e_bool(cx, d - 1))
            if c == "not":
                return ("not", self.e_bool(cx, d - 1))
            if c == "hof":
                return self.e_hof(cx, "bool", d - 1)
            if c == "tern":
                return ("tern", self.e_bool(cx, d - 1), self.e_bool(cx, d - 1), self.e_bool(cx, d - 1))
        return ("bool", True)

    def e_map(self, cx, d, leaf=None):
        r = self.rng
        choices = ["lit", "lit", "local", "oos"]
        if cx["fields"]:
            choices.append("srec")
        if d > 0:
            choices.append("hof")
        for _ in range(5):
            c = r.choice(choices)
            if c == "hof":
                return self.e_hof(cx, "map", d - 1)
            if c == "lit":
                n = r.randint(0, 3)
                kvs = []
                for _ in range(n):
                    key = ("str", r.choice(["a", "b", "k", "pan", "eks"])) if r.random() < 0.8 else ("int", r.randint(1, 3))
                    lk = leaf or r.choice(["int", "str", "int"])
                    if d > 0 and r.random() < 0.25:
                        val = self.e_map(cx, d - 1, leaf)
                    elif lk == "int":
                        val = self.e_int(cx, max(0, d - 1))
                    else:
                        val = self.e_str(cx, max(0, d - 1))
                    kvs.append((key, val))
                return ("maplit", kvs)
            if c == "local":
                ls = self.lookup(cx["scopes"], "map")
                if ls:
                    return ("local", r.choice(ls))
            if c == "oos":
                ks = [n for n, k in self.oos_kind.items() if k == "map"]
                if ks:
                    return ("oos", r.choice(ks))
            if c == "srec":
                return ("srec",)
        return ("maplit", [(("str", "a"), ("int", 1))])

    def e_nested(self, cx, levels):
        """a map literal nested [levels] deep (ragged now and then: a scalar or an empty map where a sub-map is expected)"""
        r = self.rng
        kvs = []
        for key in r.sample(["a", "b", "k", "pan", "eks"], r.randint(1, 3)):
            if levels <= 1:
                val = ("int", r.randint(-2, 9)) if r.random() < 0.8 else ("str", r.choice(WORDS))
            elif r.random() < 0.12:
                val = r.choice([("int", 7), ("maplit", [])])
            else:
                val = self.e_nested(cx, levels - 1)
            kvs.append((("str", key), val))
        return ("maplit", kvs)

    def e_any(self, cx, d):
        r = self.rng
        c = r.randrange(11)
        if c == 10:
            return self.e_arr(cx, d)
        if c < 3:
            return self.e_int(cx, d)
        if c < 5:
            return self.e_str(cx, d)
        if c < 6:
            return self.e_bool(cx, d)
        if c < 7:
            return self.e_map(cx, d)
        if c < 9:
            return self.e_maybe_absent(cx)
        ls = self.lookup(cx["scopes"])
        if ls:
            return ("local", r.choice(ls))
        return self.e_int(cx, d)

    def safe(self, e):
        """make a condition robust against absent operands (most of the time): x -> (x ?? literal)"""
        k = e[0]
        if k in ("field", "oos", "local") and self.rng.random() < 0.8:
            return ("coal", e, ("int", self.rng.randint(0, 5)))
        if k == "bin":
            return ("bin", e[1], self.safe(e[2]), self.safe(e[3]))
        if k in ("and", "or"):
            return (k, self.safe(e[1]), self.safe(e[2]))
        if k in ("not", "neg"):
            return (k, self.safe(e[1]))
        if k == "tern":
            return ("tern", self.safe(e[1]), self.safe(e[2]), self.safe(e[3]))
        return e

    def e_cond(self, cx, d):
        e = self.e_kind(cx, "bool", d)
        return self.safe(e) if self.rng.random() < 0.85 else e

    def e_kind(self, cx, kind, d):
        # mostly well typed: a small fraction of the time hand back something of another kind
        if self.rng.random() < 0.06:
            return self.e_any(cx, max(0, d - 1))
        return {"int": self.e_int, "str": self.e_str, "bool": self.e_bool, "map": self.e_map, "arr": self.e_arr}[kind](cx, d)

    def e_call(self, cx, f, d):
        args = []
        for t, x in f["params"]:
            k = {"int": "int", "num": "int", "str": "str", "bool": "bool", "map": "map", "arr": "arr"}.get(t)
            if k is None:
                k = self.rng.choice(["int", "str"])
            if f.get("rec_param") == x:
                args.append(("int", self.rng.randint(0, 3)))
            else:
                args.append(self.e_kind(cx, k, min(d, 1)))
        return ("call", f["name"], args)

    # ---- higher-order functions with function literals and named functions
    def hof_fn(self, cx, params, ret_expr_of, ret_ty="any", named_ok=True):
        """a callback with the given parameter names/kinds: a function literal written in place (it sees the enclosing locals)
        or a named function (it does not).  ret_expr_of(cx2) builds the returned expression in the callback's context."""
        r = self.rng
        typed = r.random() < 0.3
        ps = [((KTY[k] if typed and r.random() < 0.7 else "any"), n) for n, k in params]
        pscope = {n: ("reserved" if k is None else k, None) for n, k in params}
        named = named_ok and r.random() < 0.3
        scopes = [pscope, {}] if named else cx["scopes"] + [pscope, {}]
        cx2 = dict(cx, scopes=scopes, in_loop=False, ret=None, in_func=True, callable=[] if named else cx["callable"], fields=cx["fields"] and r.random() < 0.5)
        body = []
        c = r.random()
        if c < 0.2:
            body.append(("define", "var", "t0", self.e_int(cx2, 1)))
            cx2["scopes"][-1]["t0"] = ("int", "var")
        elif c < 0.3:
            body.append(("print", ("bin", ".", ("str", "cb:"), ("coal", ("local", params[-1][0]), ("str", "?")))))
        elif c < 0.34 and not named:
            ls = self.lookup(cx["scopes"], "int")
            if ls:
                body.append(("assign", ("local", r.choice(ls)), [], ("int", r.randint(0, 3)), False))    # writes an enclosing local: outside the model
        if r.random() < 0.25:
            body.append(("if", [(self.e_cond(cx2, 1), [("return", ret_expr_of(cx2))])], None))
        if r.random() < 0.97:
            body.append(("return", ret_expr_of(cx2)))
        rt = ret_ty if typed and r.random() < 0.6 else "any"
        if named:
            self.counter += 1
            name = "hf%d" % self.counter
            self.funcs.append({"name": name, "params": ps, "ret": rt, "kind": "hof", "body": body})
            return ("named", name)
        self.counter += 1
        return ("lit", self.counter, ps, rt, body)

    def e_hof(self, cx, kind, d):
        r = self.rng
        d = max(0, d)
        ismap = r.random() < 0.3
        coll = self.e_map(cx, d, leaf="int") if ismap else self.e_arr(cx, d, leaf="int")
        if r.random() < 0.05:
            coll = self.e_any(cx, 0)
        L = lambda x: ("local", x)
        intf = lambda names: (lambda cx2: ("bin", r.choice(["+", "*", "-"]), L(r.choice(names)), self.e_int(cx2, 1)) if r.random() < 0.8 else self.e_any(cx2, 0))
        pred = lambda name: (lambda cx2: ("bin", r.choice(list(CMP)), ("coal", L(name), ("int", 0)), self.e_int(cx2, 0)) if r.random() < 0.9 else self.e_any(cx2, 0))
        if kind == "int":
            if ismap:
                h = r.choice(["reduce", "fold"])
                fn = self.hof_fn(cx, [("acck", "str"), ("accv", "int"), ("ek", "str"), ("ev", "int")],
                                 lambda cx2: ("maplit", [(r.choice([("str", "sum"), L("ek"), L("acck")]), ("bin", "+", L("accv"), L("ev")))]) if r.random() < 0.92 else self.e_any(cx2, 0), "map")
                init = ("maplit", [(("str", "sum"), self.e_int(cx, 0))]) if h == "fold" else None
                if h == "fold" and r.random() < 0.05:
                    init = self.e_any(cx, 0)
                return ("index", ("hof", h, coll, fn, init), ("str", "sum"))
            h = r.choice(["reduce", "fold"])
            fn = self.hof_fn(cx, [("acc", "int"), ("e", "int")], intf(["acc", "e"]), "int")
            return ("hof", h, coll, fn, self.e_int(cx, 0) if h == "fold" else None)
        if kind == "bool":
            h = r.choice(["any", "every"])
            if ismap:
                fn = self.hof_fn(cx, [("k", "str"), ("v", "int")], pred("v"), "bool")
            else:
                fn = self.hof_fn(cx, [("e", "int")], pred("e"), "bool")
            return ("hof", h, coll, fn, None)
        if kind == "map":
            coll = self.e_map(cx, d, leaf="int")
            h = r.choice(["apply", "select", "sort"])
            if h == "apply":
                fn = self.hof_fn(cx, [("k", "str"), ("v", "int")],
                                 lambda cx2: ("maplit", [(r.choice([L("k"), ("bin", ".", L("k"), ("str", "x")), ("str", "z")]), intf(["v"])(cx2))]) if r.random() < 0.92 else self.e_any(cx2, 0), "map")
            elif h == "select":
                fn = self.hof_fn(cx, [("k", "str"), ("v", "int")], pred("v"), "bool")
            else:
                fn = self.hof_fn(cx, [("ak", "str"), ("av", "int"), ("bk", "str"), ("bv", "int")],
                                 lambda cx2: r.choice([("bin", "-", L("av"), L("bv")), ("bin", "-", L("bv"), L("av"))]) if r.random() < 0.95 else self.e_any(cx2, 0), "int")
            return ("hof", h, coll, fn, None)
        # arrays
        h = r.choice(["apply", "apply", "select", "sort"])
        if h == "apply":
            fn = self.hof_fn(cx, [("e", "int")], intf(["e"]), "int")
        elif h == "select":
            fn = self.hof_fn(cx, [("e", "int")], pred("e"), "bool")
        else:
            fn = self.hof_fn(cx, [("a1", "int"), ("b1", "int")],
                             lambda cx2: r.choice([("bin", "-", L("a1"), L("b1")), ("bin", "-", L("b1"), L("a1"))]) if r.random() < 0.95 else self.e_any(cx2, 0), "int")
        return ("hof", h, coll, fn, None)

    # ---- statements
    def block(self, cx, depth, n=None, new_scope=True):
        r = self.rng
        cx2 = dict(cx)
        if new_scope:
            cx2["scopes"] = cx["scopes"] + [{}]
        out = []
        for _ in range(n if n is not None else r.randint(1, 4)):
            s = self.stmt(cx2, depth)
            if s is not None:
                out.append(s)
                if s[0] in ("break", "continue", "return"):
                    break
        return out

    def lv_base_kind(self, cx):
        """choose an assignment target and the kind we will give it"""
        r = self.rng
        c = r.random()
        if c < 0.3 and cx["fields"]:
            k = r.choice(["int", "str", "int", "bool"])
            name = r.choice(FIELD_NEW + FIELDS_INT + FIELDS_STR)
            return ("field", name), k
        if c < 0.55:
            name = r.choice(OOS)
            k = self.oos_kind.get(name) or r.choice(["int", "int", "str", "map"])
            self.oos_kind[name] = k
            return ("oos", name), k
        ls = self.lookup(cx["scopes"])
        if ls and r.random() < 0.6:
            name = r.choice(ls)
            for sc in reversed(cx["scopes"]):
                if name in sc:
                    return ("local", name), sc[name][0]
        name = self.fresh_local(cx["scopes"])
        k = r.choice(KINDS[:4])
        cx["scopes"][-1][name] = (k, None)
        return ("local", name), k

    def as_rvalue(self, base, idx):
        e = (base[0], base[1])
        for i in idx:
            e = ("index", e, i)
        return e

    def stmt(self, cx, depth):
        r = self.rng
        if getattr(self, "bv", False) and not cx["in_func"] and r.random() < 0.2:
            return self.byvalue_stmt(cx)
        kinds = ["assign"] * 6 + ["define"] * 3 + ["print"] * 2 + ["idxassign"] * 2 + ["compound"] * 2 + ["unset", "emit", "bare"]
        kinds += ["arrdef"] * 2 + ["arrassign"] * 3 + ["arrunset", "arrshow", "arrshow", "emitf"]
        kinds += ["emitp", "emitp", "emitlashed", "printn", "eprint", "dump", "dump", "edump", "printcoll", "hofshow", "hofshow"]
        if cx["fields"] and not cx["in_func"]:
            kinds += ["posassign"] * 2 + ["posshow"]
        if depth > 0:
            kinds += ["if"] * 3 + ["while", "for2", "for2", "for1", "forc", "cond", "do", "formulti", "forarr", "forarr"]
        if cx["in_loop"]:
            kinds += ["break", "continue"]
        if cx["ret"] is not None:
            kinds += ["return"] * 2
        if cx["fields"] and not cx["in_func"]:
            kinds += ["filter"]
        subs = [f for f in self.funcs if f.get("sub") and f["name"] in cx["callable"]]
        if subs:
            kinds += ["callsub"] * 2
        if cx["fields"]:
            kinds += ["assignsrec"] if r.random() < 0.3 else []
        k = r.choice(kinds)
        if k == "callsub":
            f = r.choice(subs)
            return ("callsub", f["name"], self.e_call(cx, f, 1)[2])
        if k in ("arrdef", "arrassign", "arrunset", "arrshow", "forarr"):
            return self.arr_stmt(cx, depth, k)
        if k == "emitf":
            items = []
            for _ in range(r.randint(1, 3)):
                c = r.random()
                ls = self.lookup(cx["scopes"])
                if c < 0.55 or not ls:
                    items.append(("oos", r.choice(OOS + ["nosuch"])))
                elif c < 0.9 or not cx["fields"]:
                    items.append(("local", r.choice(ls)))
                else:
                    items.append(("field", r.choice(FIELDS_INT + FIELDS_STR)))
            return ("emitf", items)
        if k == "emitp":
            base = ("oos", r.choice(OOS + ["nosuch"]))
            ls = self.lookup(cx["scopes"], "map")
            if ls and r.random() < 0.3:
                base = ("local", r.choice(ls))
            return ("emitp", base, r.choice([[], [], ["g"], ["g", "h"], ["g", "h", "i"]]))
        if k == "emitlashed":
            items = []
            for _ in range(r.randint(1, 3)):
                ls = self.lookup(cx["scopes"])
                if ls and r.random() < 0.3:
                    items.append(("local", r.choice(ls)))
                else:
                    items.append(("oos", r.choice(OOS + ["nosuch"])))
            return ("emitlashed", r.random() < 0.5, items)
        if k == "printn":
            return ("printn", self.e_kind(cx, r.choice(["int", "str", "bool"]), 1))
        if k == "eprint":
            return ("eprint", self.e_kind(cx, r.choice(["int", "str"]), 1))
        if k == "dump":
            c = r.random()
            if c < 0.4:
                return ("dump", None)
            if c < 0.7:
                return ("dump", ("oos", r.choice(OOS + ["nosuch"])))
            return ("dump", self.e_any(cx, 1))
        if k == "edump":
            return ("edump",)
        if k == "printcoll":
            return ("print", self.e_map(cx, 1) if r.random() < 0.5 else self.e_arr(cx, 1))
        if k == "hofshow":
            kind = r.choice(["int", "bool", "map", "arr", "arr"])
            e = self.e_hof(cx, kind, 1)
            if kind in ("map", "arr"):
                return ("emit1", ("maplit", [(("str", "h"), e)])) if r.random() < 0.6 else ("print", e)
            return ("print", e)
        if k == "posassign":
            pos = self.e_pos(cx)
            if r.random() < 0.5:
                name = ("str", r.choice(["a", "b", "c", "new", "x", ""])) if r.random() < 0.8 else self.e_any(cx, 1)
                return ("assignposname", pos, name)
            return ("assignposval", pos, self.e_kind(cx, r.choice(["int", "str"]), 1))
        if k == "posshow":
            pos = self.e_pos(cx)
            return ("print", ("bin", ".", ("coal", ("posname", pos), ("str", "-")), ("bin", ".", ("str", "="), ("coal", ("posval", pos), ("str", "-")))))
        if k == "assign":
            base, kind = self.lv_base_kind(cx)
            return ("assign", base, [], self.e_kind(cx, kind, 2), False)
        if k == "compound":
            base, kind = self.lv_base_kind(cx)
            lhs = (base[0], base[1])
            if kind == "int":
                return ("assign", base, [], ("bin", r.choice(["+", "-", "*"]), lhs, self.e_int(cx, 1)), True)
            if kind == "str":
                return ("assign", base, [], ("bin", ".", lhs, self.e_str(cx, 1)), True)
            if kind == "bool":
                return ("assign", base, [], (r.choice(["and", "or"]), lhs, self.e_bool(cx, 1)), True)
            if kind == "arr":
                return ("assign", base, [], ("coal", lhs, self.e_arr(cx, 1)), True)
            return ("assign", base, [], ("coal", lhs, self.e_map(cx, 1)), True)
        if k == "define":
            kind = r.choice(KINDS[:4])
            ty = r.choice({"int": ["int", "num", "var", "int"], "str": ["str", "var"], "bool": ["bool", "var"], "map": ["map", "var"]}[kind])
            if r.random() < 0.85:
                name = self.fresh_local(cx["scopes"][-1:])  # fresh in the current scope only: shadowing of outer names is wanted
                if name in cx["scopes"][-1]:
                    return None
            else:
                name = r.choice(LOCALS)
            e = self.e_kind(cx, kind, 2)
            if name not in cx["scopes"][-1]:
                cx["scopes"][-1][name] = (kind, ty)
            return ("define", ty, name, e)
        if k == "idxassign":
            c = r.random()
            idx = [self.e_key(cx) for _ in range(r.choice([1, 1, 2]))]
            val = self.e_kind(cx, r.choice(["int", "str", "int"]), 1)
            sugar = False
            if c < 0.5:
                name = r.choice(OOS)
                if self.oos_kind.get(name, "map") != "map":
                    return None
                self.oos_kind[name] = "map"
                base = ("oos", name)
            elif c < 0.9:
                ls = self.lookup(cx["scopes"], "map")
                anyl = self.lookup(cx["scopes"])
                if anyl and r.random() < 0.3:
                    base = ("local", r.choice(anyl))        # may hold a scalar, be typed int/str/bool, or have been unset
                elif ls:
                    base = ("local", r.choice(ls))
                else:
                    name = self.fresh_local(cx["scopes"])
                    if any(name in sc for sc in cx["scopes"]):
                        return None
                    cx["scopes"][-1][name] = ("map", None)
                    base = ("local", name)
            else:
                if not cx["fields"]:
                    return None
                base = ("field", r.choice(FIELD_NEW))
            if r.random() < 0.25 and len(idx) >= 1:
                val = ("bin", "+", self.as_rvalue(base, idx), self.e_int(cx, 0))
                sugar = True
            return ("assign", base, idx, val, sugar)
        if k == "unset":
            c = r.random()
            if c < 0.3 and cx["fields"]:
                return ("unset", ("field", r.choice(FIELDS_INT + FIELDS_STR + FIELD_NEW)), [])
            if c < 0.55:
                return ("unset", ("oos", r.choice(OOS)), [self.e_key(cx)] if r.random() < 0.5 else [])
            ls = self.lookup(cx["scopes"])
            if ls:
                name = r.choice(ls)
                kind = None
                for sc in reversed(cx["scopes"]):
                    if name in sc:
                        kind = sc[name][0]
                        break
                if kind == "map" and r.random() < 0.6:
                    return ("unset", ("local", name), [self.e_key(cx)])
                return ("unset", ("local", name), [])
            return None
        if k == "print":
            kind = r.choice(["int", "str", "bool", "str"])
            return ("print", self.e_kind(cx, kind, 2))
        if k == "emit":
            c = r.random()
            if c < 0.25:
                e = self.e_map(cx, 1)
                return ("emit1", e)
            if c < 0.5:
                e = r.choice([("oosall",), self.e_map(cx, 1)])
                if e[0] in ("local", "oos"):
                    return ("emitnamed", e[1], e, [])
                return ("emitmap", e)
            name = r.choice(OOS)
            keys = r.choice([[], [], ["g"], ["g", "h"]])
            if r.random() < 0.3:
                ls = self.lookup(cx["scopes"], "map")
                if ls:
                    n2 = r.choice(ls)
                    return ("emitnamed", n2, ("local", n2), keys)
            return ("emitnamed", name, ("oos", name), keys)
        if k == "bare":
            return ("bare", self.e_bool(cx, 1))
        if k == "filter":
            return ("filter", self.e_bool(cx, 2))
        if k == "assignsrec":
            return ("assignsrec", r.choice([("srec",), ("maplit", [(("str", "n"), self.e_int(cx, 1)), (("str", "c"), self.e_str(cx, 1))])]))
        if k == "if":
            arms = [(self.e_cond(cx, 2), self.block(cx, depth - 1)) for _ in range(r.choice([1, 1, 2, 3]))]
            els = self.block(cx, depth - 1) if r.random() < 0.5 else None
            return ("if", arms, els)
        if k == "cond":
            c = self.e_cond(cx, 2) if r.random() < 0.8 else ("bin", "==", self.e_maybe_absent(cx), ("int", 1))
            return ("cond", c, self.block(cx, depth - 1))
        if k in ("while", "do"):
            # counter pattern: the counter is a reserved name that the body never assigns except for the leading increment
            self.counter += 1
            cn = "i%d" % self.counter
            bound = r.randint(1, 3)
            cxl = dict(cx, in_loop=True)
            body = [("assign", ("local", cn), [], ("bin", "+", ("local", cn), ("int", 1)), r.random() < 0.5)] + self.block(cxl, depth - 1)
            cond = ("bin", "<", ("local", cn), ("int", bound))
            init = ("define", r.choice(["int", "var", "num"]), cn, ("int", 0)) if r.random() < 0.7 else ("assign", ("local", cn), [], ("int", 0), False)
            loop = ("while", cond, body) if k == "while" else ("do", body, cond)
            # wrap so that the counter lives in its own scope (pattern-action block with a true condition)
            return ("cond", ("bool", True), [init, loop])
        if k in ("for1", "for2"):
            src = self.e_map(cx, 1) if r.random() < 0.9 else self.e_any(cx, 1)
            kn = r.choice(["k", "kk"])
            vn = r.choice(["e", "ee"])
            cxl = dict(cx, in_loop=True)
            extra = []
            if src[0] in ("local", "oos") and r.random() < 0.4:
                # the body modifies the map it iterates over (the loop is over a copy)
                extra = [r.choice([("assign", (src[0], src[1]), [("bin", ".", ("local", kn), ("str", "x"))], ("int", r.randint(0, 9)), False),
                                   ("unset", (src[0], src[1]), [("local", kn)]),
                                   ("assign", (src[0], src[1]), [("local", kn)], ("int", r.randint(0, 9)), False)])]
            if k == "for1":
                cxl["scopes"] = cx["scopes"] + [{kn: ("str", None)}]
                return ("for1", kn, src, extra + self.block(cxl, depth - 1))
            cxl["scopes"] = cx["scopes"] + [{kn: ("str", None), vn: (r.choice(["int", "str"]), None)}]
            return ("for2", kn, vn, src, extra + self.block(cxl, depth - 1))
        if k == "formulti":
            n = r.choice([2, 3, 3, 4])
            keys = ["k%d" % i for i in range(1, n + 1)]
            levels = n + r.choice([0, 0, 0, 1, -1])
            if r.random() < 0.75:
                src = self.e_nested(cx, max(1, levels))
            else:
                src = self.e_map(cx, 1)
            pre = []
            if r.random() < 0.3:
                # through an oosvar, as in accumulators keyed by several fields
                name = r.choice(OOS)
                self.oos_kind[name] = "map"
                pre = [("assign", ("oos", name), [], src, False)]
                src = ("oos", name)
            cxl = dict(cx, in_loop=True)
            cxl["scopes"] = cx["scopes"] + [dict([(kk, ("str", None)) for kk in keys] + [("e", ("int", None))])]
            # an exit statement guarded by a condition on the leaf or on a key of some level, plus an ordinary body
            lvl = r.choice(keys)
            guard = r.choice([("bin", r.choice(["==", ">", "<"]), ("local", "e"), ("int", r.randint(0, 6))),
                              ("bin", "==", ("local", lvl), ("str", r.choice(["a", "b", "k", "pan", "eks"])))])
            exits = ["break", "break", "continue"] + (["return"] if cx["ret"] is not None else [])
            ex = r.choice(exits)
            if ex == "return":
                exs = ("return", None) if cx["ret"] == "void" else ("return", self.e_kind(cx, cx["ret"], 1))
            else:
                exs = (ex,)
            trace = ("print", ("bin", ".", ("bin", ".", ("local", keys[0]), ("local", keys[-1])), ("local", "e")))
            body = [("if", [(guard, [exs])], None), trace] + self.block(cxl, depth - 1, n=r.randint(0, 2))
            if r.random() < 0.3:
                body = [trace, ("if", [(guard, [exs])], None)] + body[2:]
            loop = ("formulti", keys, "e", src, body)
            if pre:
                return ("cond", ("bool", True), pre + [loop])
            return loop
        if k == "forc":
            self.counter += 1
            cn = "j%d" % self.counter
            typed = r.random() < 0.7
            init = ("define", "int", cn, ("int", 0)) if typed else ("assign", ("local", cn), [], ("int", 0), False)
            cond = ("bin", r.choice(["<", "<="]), ("local", cn), ("int", r.randint(0, 3)))
            upd = ("assign", ("local", cn), [], ("bin", "+", ("local", cn), ("int", 1)), True)
            cxl = dict(cx, in_loop=True)
            cxl["scopes"] = cx["scopes"] + [{cn: ("reserved", None)}]
            return ("forc", [init], cond, [upd], self.block(cxl, depth - 1))
        if k == "break":
            return ("break",)
        if k == "continue":
            return ("continue",)
        if k == "return":
            if cx["ret"] == "void":
                return ("return", None)
            return ("return", self.e_kind(cx, cx["ret"], 2))
        return None

    # ---- arrays
    def arr_base(self, cx):
        """an existing array-valued variable, or None"""
        r = self.rng
        ls = [("local", n) for n in self.lookup(cx["scopes"], "arr")]
        ks = [("oos", n) for n, k in self.oos_kind.items() if k == "arr"]
        cands = ls * 2 + ks
        return r.choice(cands) if cands else None

    def arr_stmt(self, cx, depth, k):
        r = self.rng
        if k == "arrdef" or (k != "arrshow" and self.arr_base(cx) is None):
            e = self.e_arr(cx, 1)
            if r.random() < 0.3:
                name = r.choice(OOSARR)
                if self.oos_kind.get(name, "arr") != "arr":
                    return None
                self.oos_kind[name] = "arr"
                return ("assign", ("oos", name), [], e, False)
            used = set()
            for sc in cx["scopes"]:
                used |= set(sc)
            cands = [n for n in ARRL if n not in used]
            if not cands:
                ls = self.lookup(cx["scopes"], "arr")
                if not ls:
                    return None
                return ("assign", ("local", r.choice(ls)), [], e, False)
            name = r.choice(cands)
            cx["scopes"][-1][name] = ("arr", None)
            c = r.random()
            if c < 0.4:
                return ("define", r.choice(["arr", "var", "arr"]), name, e)
            return ("assign", ("local", name), [], e, False)
        if k == "arrassign":
            base = self.arr_base(cx)
            c = r.random()
            if c < 0.7:
                idx = [self.e_aidx(cx)]
            elif c < 0.8:
                idx = [("bin", "+", ("fun1", "length", (base[0], base[1])), ("int", 1))]     # the auto-extend idiom
            elif c < 0.9:
                idx = [self.e_aidx(cx), self.e_key(cx)]
            else:
                idx = [self.e_aidx(cx), self.e_aidx(cx)]
            val = self.e_kind(cx, r.choice(["int", "str", "int", "arr", "map"]) if r.random() < 0.3 else r.choice(["int", "str"]), 1)
            if r.random() < 0.15:
                return ("assign", base, idx, ("bin", "+", self.as_rvalue(base, idx), self.e_int(cx, 0)), True)
            return ("assign", base, idx, val, False)
        if k == "arrunset":
            base = self.arr_base(cx)
            return ("unset", base, [self.e_aidx(cx)] + ([self.e_key(cx)] if r.random() < 0.15 else []))
        if k == "arrshow":
            e = self.e_arr(cx, 2)
            c = r.random()
            if c < 0.5:
                return ("emit1", ("maplit", [(("str", "v"), e), (("str", "n"), ("fun1", "length", e))]))
            if c < 0.7:
                return ("print", ("bin", ".", ("fun1", "typeof", ("index", e, self.e_aidx(cx, True))), ("bin", ".", ("str", ":"), ("fun1", "length", e))))
            if c < 0.85 and cx["fields"]:
                return ("assign", ("field", r.choice(FIELD_NEW)), [], e, False)
            return ("print", ("coal", ("index", e, self.e_aidx(cx, True)), ("str", "none")))
        if k == "forarr":
            src = self.e_arr(cx, 1)
            cxl = dict(cx, in_loop=True)
            guard = {}
            if src[0] == "local":
                guard = {src[1]: ("reserved", None)}      # the body must not write the array it walks over (the loop is over the live array)
            elif src[0] == "oos" or src[0] == "slice" and r.random() < 0.5:
                src = ("slice", src, ("int", 1), ("int", -1)) if src[0] == "oos" else src   # a slice is a copy
            if r.random() < 0.45:
                kn = r.choice(["el", "e1"])
                cxl["scopes"] = cx["scopes"] + [dict(guard, **{kn: (r.choice(["int", "str"]), None)})]
                show = ("print", ("bin", ".", ("str", "el="), ("coal", ("local", kn), ("str", "?")))) if r.random() < 0.8 else ("bare", ("bool", True))
                return ("for1", kn, src, [show] + self.block(cxl, depth - 1))
            kn, vn = r.choice(["ix", "i1"]), r.choice(["e", "ee"])
            cxl["scopes"] = cx["scopes"] + [dict(guard, **{kn: ("int", None), vn: (r.choice(["int", "str"]), None)})]
            show = ("print", ("bin", ".", ("local", kn), ("bin", ".", ("str", "="), ("coal", ("local", vn), ("str", "?")))))
            return ("for2", kn, vn, src, [show] + self.block(cxl, depth - 1))
        return None

    def new_cx(self, fields, in_func=False, ret=None, scopes=None, callable_=None):
        return {"fields": fields, "in_loop": False, "in_func": in_func, "ret": ret, "scopes": scopes or [{}],
                "callable": callable_ if callable_ is not None else [f["name"] for f in self.funcs],
                "unset_locals": set(), "idx_locals": set()}

    def func(self, idx):
        r = self.rng
        name = ["fa", "fb", "fc"][idx]
        kind = r.choice(["int", "int", "str", "map", "bool", "arr"])
        nparams = r.randint(0, 3)
        params = []
        pscope = {}
        pnames = r.sample(["n", "aa", "bb", "cc"], nparams)
        recursive = kind == "int" and r.random() < 0.5 and nparams > 0
        for i, pn in enumerate(pnames):
            if recursive and i == 0:
                t, k = r.choice(["int", "num", "any"]), "int"
            else:
                k = r.choice(KINDS)
                t = r.choice({"int": ["int", "num", "any", "var"], "str": ["str", "any"], "bool": ["bool", "any"], "map": ["map", "any", "var"], "arr": ["arr", "any", "var"]}[k])
            params.append((t, pn))
            pscope[pn] = ("reserved" if (recursive and i == 0) else k, t if t != "any" else None)
        ret = r.choice({"int": ["int", "num", "any", "var"], "str": ["str", "any"], "bool": ["bool", "any"], "map": ["map", "any"], "arr": ["arr", "any", "var"]}[kind])
        sig = {"name": name, "params": params, "ret": ret, "kind": kind}
        if recursive:
            sig["rec_param"] = pnames[0]
        # callable from the body: earlier functions, and itself when recursive (guarded by the decreasing parameter)
        callable_ = [f["name"] for f in self.funcs]
        self.funcs.append(sig)
        cx = self.new_cx(fields=r.random() < 0.4, in_func=True, ret=kind, scopes=[pscope, {}], callable_=callable_)
        body = []
        if recursive:
            pn = pnames[0]
            base = self.e_int(dict(cx, callable=[]), 1)
            body.append(("if", [(("bin", "<=", ("local", pn), ("int", 0)), [("return", base)])], None))
            body += self.block(cx, 1, n=r.randint(0, 2), new_scope=False)
            ncalls = r.choice([1, 1, 2])
            rec = None
            for _ in range(ncalls):
                call = ("call", name, [("bin", "-", ("local", pn), ("int", 1))] + [self.e_kind(cx, pscope[x][0], 1) for x in pnames[1:]])
                rec = call if rec is None else ("bin", "+", rec, call)
            body.append(("return", ("bin", r.choice(["+", "*", "-"]), rec, self.e_int(dict(cx, callable=[]), 1))))
        else:
            body += self.block(cx, 2, n=r.randint(1, 4), new_scope=False)
            if not body or body[-1][0] != "return":
                if r.random() < 0.9:
                    body.append(("return", self.e_kind(cx, kind, 2)))
        sig["body"] = body
        return sig

    def sub(self, idx):
        r = self.rng
        name = ["sa", "sb"][idx]
        pnames = r.sample(["n", "aa", "bb"], r.randint(0, 2))
        params, pscope = [], {}
        for pn in pnames:
            k = r.choice(KINDS)
            t = r.choice({"int": ["int", "num", "any", "var"], "str": ["str", "any"], "bool": ["bool", "any"], "map": ["map", "any", "var"], "arr": ["arr", "any", "var"]}[k])
            params.append((t, pn))
            pscope[pn] = (k, t if t != "any" else None)
        sig = {"name": name, "params": params, "ret": "any", "kind": "sub", "sub": True}
        callable_ = [f["name"] for f in self.funcs]
        self.funcs.append(sig)
        cx = self.new_cx(fields=r.random() < 0.5, in_func=True, ret="void", scopes=[pscope, {}], callable_=callable_)
        sig["body"] = self.block(cx, 2, n=r.randint(1, 4), new_scope=False)
        return sig

    def byvalue_funcs(self):
        """getter functions that update persistent storage and return it UNCOPIED by the program text (an oosvar map, a sub-map
        of one), a bumper that changes the same storage and returns a scalar, and consumers taking several such results"""
        r = self.rng
        acc = r.choice(["acc", "m"])
        self.oos_kind[acc] = "map"
        self.bv_acc = acc
        inc = lambda n: ("assign", ("oos", acc), [("str", "v")], ("bin", "+", ("index", ("oos", acc), ("str", "v")), ("int", n)), True)
        put = ("assign", ("oos", acc), [("str", "h"), ("bin", ".", ("str", "n"), ("index", ("oos", acc), ("str", "v")))], ("index", ("oos", acc), ("str", "v")), False)
        self.funcs.append({"name": "fg", "params": [], "ret": r.choice(["map", "any", "var"]), "kind": "map",
                           "body": [inc(1)] + ([put] if r.random() < 0.5 else []) + [("return", ("oos", acc))]})
        self.funcs.append({"name": "fsub", "params": [], "ret": "any", "kind": "map",
                           "body": [put, ("return", ("index", ("oos", acc), ("str", "h")))]})
        self.funcs.append({"name": "fh", "params": [], "ret": r.choice(["int", "num", "any"]), "kind": "int",
                           "body": [inc(100), ("unset", ("oos", acc), [("str", "h")]) if r.random() < 0.3 else ("bare", ("bool", True)),
                                    ("return", ("index", ("oos", acc), ("str", "v")))]})
        self.funcs.append({"name": "fk", "params": [("map", "ma"), ("any", "xx")], "ret": "any", "kind": "str",
                           "body": [("return", ("bin", ".", ("bin", ".", ("index", ("local", "ma"), ("str", "v")), ("str", "/")), ("local", "xx")))]})
        self.funcs.append({"name": "fpair", "params": [("any", "ma"), ("any", "mb")], "ret": "map", "kind": "map",
                           "body": [("return", ("maplit", [(("str", "p"), ("local", "ma")), (("str", "q"), ("local", "mb"))]))]})

    def byvalue_stmt(self, cx):
        r = self.rng
        g = lambda: ("call", r.choice(["fg", "fg", "fsub"]), [])
        c = r.randrange(6)
        if c == 0:
            return ("print", ("call", "fk", [("call", "fg", []), ("call", "fh", [])]))
        if c == 1:
            return ("emit1", ("call", "fpair", [g(), g()]))
        if c == 2:
            return ("emit1", ("call", "fpair", [("call", "fpair", [g(), ("call", "fh", [])]), g()]))
        if c == 3:
            return ("assign", ("oos", "last"), [], ("call", "fpair", [g(), ("bin", "+", ("call", "fh", []), ("call", "fh", []))]), False)
        if c == 4:
            return ("print", ("bin", ".", ("call", "fk", [("call", "fg", []), ("call", "fh", [])]), ("call", "fk", [("call", "fg", []), ("int", 0)])))
        return ("emit1", ("maplit", [(("str", "a"), ("call", "fpair", [g(), g()])), (("str", "b"), ("call", "fh", []))]))

    def program(self):
        r = self.rng
        self.bv = r.random() < 0.3
        if self.bv:
            self.byvalue_funcs()
        for i in range(r.choice([0, 1, 1, 2, 3])):
            self.func(i)
        for i in range(r.choice([0, 0, 1, 1, 2])):
            self.sub(i)
        begin, end = [], []
        if r.random() < 0.5:
            cx = self.new_cx(fields=False)
            begin.append(self.block(cx, 2, new_scope=False))
        cx = self.new_cx(fields=True)
        main = self.block(cx, 3, n=r.randint(1, 6), new_scope=False)
        if r.random() < 0.6:
            cx = self.new_cx(fields=False)
            b = self.block(cx, 2, new_scope=False)
            if r.random() < 0.7:
                b.append(r.choice([("emitmap", ("oosall",)), ("emitnamed", "sum", ("oos", "sum"), r.choice([[], ["g"], ["g", "h"]])),
                                   ("emitnamed", "m", ("oos", "m"), r.choice([[], ["g"]]))]))
            end.append(b)
        funcs = [{"name": f["name"], "params": f["params"], "ret": f["ret"], "body": f["body"], "sub": bool(f.get("sub"))} for f in self.funcs]
        return {"funcs": funcs, "begin": begin, "main": main, "end": end}


def gen_inputs(rng):
    n = rng.choice([0, 1, 2, 3, 3, 4])
    recs = []
    for _ in range(n):
        rec = []
        for k in ["a", "b", "c", "s"]:
            if rng.random() < 0.15:
                continue
            if k in FIELDS_INT:
                v = str(rng.randint(-4, 12)) if rng.random() < 0.9 else rng.choice(WORDS)
            else:
                v = rng.choice(WORDS) if rng.random() < 0.9 else str(rng.randint(0, 9))
            rec.append((k, v))
        if rng.random() < 0.3:
            rng.shuffle(rec)
        if not rec:
            rec = [("a", "1")]
        recs.append(rec)
    return recs


# ---- post-hoc classification of shapes that hit recorded defects of the pinned tree (kept out of the correspondence)
def walk_stmts(ss, f):
    for s in ss:
        f(s)
        k = s[0]
        if k == "if":
            for c, b in s[1]:
                walk_stmts(b, f)
            if s[2] is not None:
                walk_stmts(s[2], f)
        elif k in ("while", "cond"):
            walk_stmts(s[2], f)
        elif k == "do":
            walk_stmts(s[1], f)
        elif k == "for1":
            walk_stmts(s[3], f)
        elif k in ("for2", "formulti"):
            walk_stmts(s[4], f)
        elif k == "forc":
            walk_stmts(s[1], f)
            walk_stmts(s[3], f)
            walk_stmts(s[4], f)


def expr_calls(e, acc):
    if not isinstance(e, tuple):
        return
    if e and e[0] == "call":
        acc.add(e[1])
    for x in e[1:]:
        if isinstance(x, tuple):
            expr_calls(x, acc)
        elif isinstance(x, list):
            for y in x:
                if isinstance(y, tuple):
                    expr_calls(y, acc)
                    for z in y:
                        if isinstance(z, tuple):
                            expr_calls(z, acc)


def stmt_exprs(s):
    out = []
    for x in s[1:]:
        if isinstance(x, tuple):
            out.append(x)
        elif isinstance(x, list):
            for y in x:
                if isinstance(y, tuple) and not (y and isinstance(y[0], str) and y[0] in STMT_KINDS):
                    out.append(y)
    return out


def writes_of(ss, fwrites):
    """names written (oosvars as '@x', locals as 'x') by a statement list, including through called functions (oosvars only)"""
    w = set()

    def f(s):
        if s[0] in ("assign", "unset"):
            b = s[1]
            w.add(("@" if b[0] == "oos" else "$" if b[0] == "field" else "") + b[1])
        if s[0] == "define":
            w.add(s[2])
        calls = set()
        for e in stmt_exprs(s):
            expr_calls(e, calls)
        for c in calls:
            w.update(fwrites.get(c, set()))
    walk_stmts(ss, f)
    return w


def hazards(p):
    """True when the program loops over a map-valued variable that its body may modify (recorded defect F1)."""
    fwrites = {f["name"]: set() for f in p["funcs"]}
    for _ in range(4):
        for f in p["funcs"]:
            fwrites[f["name"]] = {x for x in writes_of(f["body"], fwrites) if x.startswith("@")}
    found = []

    def chk(s):
        if s[0] in ("for1", "for2"):
            src = s[2] if s[0] == "for1" else s[3]
            body = s[3] if s[0] == "for1" else s[4]
            names = set()

            def srcnames(e):
                if e[0] == "oos":
                    names.add("@" + e[1])
                elif e[0] == "local":
                    names.add(e[1])
                elif e[0] == "oosall":
                    names.add("@*")
                elif e[0] == "index":
                    srcnames(e[1])
            srcnames(src)
            w = writes_of(body, fwrites)
            if "@*" in names and any(x.startswith("@") for x in w):
                found.append(s)
            elif names & w:
                found.append(s)
    for b in p["begin"] + [p["main"]] + p["end"] + [f["body"] for f in p["funcs"]]:
        walk_stmts(b, chk)
    return bool(found)


def gen_chain(rng):
    """two or three put verbs of one then-chain: every verb defines functions with the SAME names (f, g) and different bodies
    and hands them to the higher-order functions; only the last verb prints.  NR is avoided after the first verb (it is the
    reader's record number, not the verb's)."""
    n = rng.choice([2, 2, 3])
    L = lambda x: ("local", x)
    verbs = []
    for i in range(n):
        last = i == n - 1
        k1, k2 = rng.randint(1, 9), rng.randint(1, 9)
        op = rng.choice(["+", "*", "-"])
        f = {"name": "f", "params": [("any", "e")], "ret": "any", "body": [("return", ("bin", op, L("e"), ("int", k1)))]}
        g = {"name": "g", "params": [("any", "acc"), ("any", "e")], "ret": "any",
             "body": [("return", ("bin", "+", ("bin", "*", L("acc"), ("int", rng.randint(1, 3))), ("bin", "+", L("e"), ("int", k2))))]}
        pr = {"name": "p", "params": [("any", "e")], "ret": "any", "body": [("return", ("bin", rng.choice([">", "<", "!="]), L("e"), ("int", rng.randint(0, 6))))]}
        cmpf = {"name": "c", "params": [("any", "a1"), ("any", "b1")], "ret": "any",
                "body": [("return", ("bin", "-", L("a1"), L("b1")) if rng.random() < 0.5 else ("bin", "-", L("b1"), L("a1")))]}
        arr = ("arrlit", [("field", "a"), ("field", "b"), ("int", rng.randint(0, 9)), ("int", rng.randint(0, 9))])
        main = []
        uses = [("x", ("hof", "apply", arr, ("named", "f"), None)), ("y", ("hof", "fold", arr, ("named", "g"), ("int", 0))),
                ("z", ("hof", "select", arr, ("named", "p"), None)), ("w", ("hof", "sort", arr, ("named", "c"), None)),
                ("u", ("hof", "any", arr, ("named", "p"), None)), ("v", ("hof", "every", arr, ("named", "p"), None)),
                ("r", ("hof", "reduce", arr, ("named", "g"), None))]
        rng.shuffle(uses)
        for name, e in uses[:rng.randint(2, 5)]:
            main.append(("assign", ("field", name + str(i)), [], e, False))
        if rng.random() < 0.5:
            main.append(("assign", ("field", "a"), [], ("call", "f", [("field", "a")]), False))
        main.append(("assign", ("oos", "n"), [], ("bin", "+", ("coal", ("oos", "n"), ("int", 0)), ("int", 1)), False))
        end = [[("emit1", ("maplit", [(("str", "a"), ("int", rng.randint(0, 5))), (("str", "b"), ("int", rng.randint(0, 5))), (("str", "verb"), ("int", i)), (("str", "n"), ("oos", "n"))]))]]
        if last and rng.random() < 0.5:
            main.append(("print", ("hof", "apply", arr, ("named", "f"), None)))
        p = {"funcs": [f, g, pr, cmpf], "begin": [], "main": main, "end": end}
        verbs.append({"prog": p, "text": mlr_prog(p), "quiet": False})
    ins = []
    for _ in range(rng.randint(1, 3)):
        ins.append([("a", str(rng.randint(-3, 9))), ("b", str(rng.randint(-3, 9)))])
    return {"chain": verbs, "inputs": ins}


def gen_case(rng):
    for _ in range(50):
        g = Gen(rng)
        p = g.program()
        quiet = rng.random() < 0.15
        return {"prog": p, "text": mlr_prog(p), "inputs": gen_inputs(rng), "quiet": quiet}
    raise RuntimeError("generator could not produce a hazard-free program")
