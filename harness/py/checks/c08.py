"""C08 — absent and empty values obey the documented null-data algebra (DESIGN 3/C08).

(B) `implrun c08-matrix` applies the real BIF behind every operator / math function / is_* predicate to >=3
    representatives of each of the 12 Mlrval kinds and classifies the result; this file turns that into
    coq/gen/Gen_Dispositions.v on every run, and coq/C08/TableProofs.v + Props.v re-prove the rules of the
    property over the regenerated table (exhaustive, finite).
(A) assignment with an absent right-hand side: generated `mlr put` programs against the Gallina model
    (coq/C08/Assign.v) under vm_compute.
Oracle / failing-input search: the same rules evaluated in Python on the table, every cell replayed through
`mlr -n put`, and the assignment property evaluated on mlr's own output (record and oosvars unchanged).
"""
import json, re
from vlib import *

KINDS = ["int", "float", "bool", "void", "string", "bytes", "array", "map", "func", "error", "null", "absent"]
KCOQ = ["KInt", "KFloat", "KBool", "KVoid", "KString", "KBytes", "KArray", "KMap", "KFunc", "KError", "KNull", "KAbsent"]
KI = {k: i for i, k in enumerate(KINDS)}
TYPEOF = {"int": "int", "float": "float", "boolean": "bool", "bool": "bool", "empty": "void", "string": "string", "bytes": "bytes", "array": "array",
          "map": "map", "funct": "func", "error": "error", "null": "null", "absent": "absent"}

ARITH = ["+", "-", "*", "/", "//", "%", "**"]
DOTA = [".+", ".-", ".*", "./"]
BITW = ["&", "|", "^", "<<", ">>", ">>>"]
MINMAX = ["min", "max", "min_binary", "max_binary"]
ACC = ARITH + DOTA + BITW + MINMAX
COMM = ["+", "*", ".+", ".*", "&", "|", "^", "min", "max", "min_binary", "max_binary", "==", "!=", "^^"]
MATH1 = ["acos", "acosh", "asin", "asinh", "atan", "atanh", "cbrt", "cos", "cosh", "erf", "erfc", "exp", "expm1", "invqnorm", "log", "log10",
         "log1p", "qnorm", "sin", "sinh", "sqrt", "tan", "tanh", "abs", "ceil", "floor", "round", "sgn"]
UNOPS = ["+u", "-u", "~"]
SCALAR = ["int", "float", "bool", "void", "string"]
NUM = ["int", "float"]
MATRIX_OPS = ARITH + DOTA + BITW + [".", "min_binary", "max_binary", "==", "!=", ">", ">=", "<", "<=", "<=>", "^^", "atan2", "roundm"]
DOCK = ["int", "float", "bool", "void", "absent", "error"]
DOC_PLUS = [["S", "S", "E", "1", "1", "E"], ["S", "S", "E", "1", "1", "E"], ["E"] * 6, ["2", "2", "E", "V", "A", "E"],
            ["2", "2", "E", "A", "A", "E"], ["E"] * 6]
T, F, E, A = "LTrue", "LFalse", "LError", "LAbsent"
DOC_AND = [[T, F, E, E, A, E], [F] * 6, [E, E, E, E, A, E], [T, F, E, E, A, E], [T, F, E, A, A, E], [E] * 6]
DOC_OR = [[T] * 6, [T, F, E, E, A, E], [E, E, E, E, A, E], [T, F, E, E, A, E], [T, F, E, A, A, E], [E] * 6]
LOGICAL_OPERANDS = ["true", "false", "3", '""', "@nosuch", "(true+1)"]

# ---- findings: class string -> (Coq constructor, footprint)
def _fp_max(kinds_pairs):
    return [(op, a, b) for op in ("max", "max_binary") for a, b in kinds_pairs]


FINDINGS = {
    "absent-left-divide-returns-zero": ('F_absent_left_zero "/"', [("/", "absent", "int"), ("/", "absent", "float")]),
    "absent-left-int-divide-returns-zero": ('F_absent_left_zero "//"', [("//", "absent", "int"), ("//", "absent", "float")]),
    "absent-left-modulus-returns-zero": ('F_absent_left_zero "%"', [("%", "absent", "int"), ("%", "absent", "float")]),
    "absent-left-power-returns-zero": ('F_absent_left_zero "**"', [("**", "absent", "int"), ("**", "absent", "float")]),
    "max-empty-beats-number": ("F_max_empty_number", _fp_max([("void", "int"), ("void", "float"), ("int", "void"), ("float", "void")])),
}
FOOT = {cell: cls for cls, (_, cells) in FINDINGS.items() for cell in cells}
# repaired in /repo (fix: 481d57d86): no longer excludable anywhere -- the theorems cover these cells unconditionally; a regression
# breaks TableProofs and is reported under the old class name, which no KNOWN_FINDINGS line suppresses
REPAIRED = {
    "absent-left-dotminus-negates": [(".-", "absent", "int"), (".-", "absent", "float")],
    "empty-left-dottimes-negates": [(".*", "void", "int"), (".*", "void", "float")],
    "xor-collection-null-asymmetric": [("^", "array", "null"), ("^", "map", "null"), ("^", "null", "array"), ("^", "null", "map")],
    "max-error-null-returns-null": _fp_max([("error", "null"), ("null", "error")]),
    "power-error-absent-returns-absent": [("**", "error", "absent"), ("**", "absent", "error")],
}
REPAIRED_FOOT = {cell: cls for cls, cells in REPAIRED.items() for cell in cells}

# DSL spelling of one representative per kind (func has none: function literals are not first-class values in expressions)
DSL_REP = {"int": ["3", "-7"], "float": ["2.5", "-0.25"], "bool": ["true", "false"], "void": ['""'], "string": ['"abc"', '"17"'],
           "bytes": ['bytes("xyz")'], "array": ["[1,2]", "[]"], "map": ['{"a":1}', "{}"], "error": ["(true+1)"], "null": ["null"],
           "absent": ["@nosuch", "$nosuch"]}


class Table:
    def __init__(self, lines):
        self.B, self.U, self.V, self.kinds_ok, self.ops_b, self.ops_u = {}, {}, {}, True, [], []
        self.fatal = None
        for l in lines:
            c = json.loads(l)
            t = c["t"]
            if t == "FATAL":
                self.fatal = c["why"]
            elif t == "K":
                if not c["reps_ok"] or c["k"] >= len(KINDS):
                    self.kinds_ok = False
                if c["k"] < len(KINDS) and TYPEOF.get(c["name"]) != KINDS[c["k"]]:
                    self.kinds_ok = False
            elif t == "B":
                self.B[(c["op"], KINDS[c["k"][0]], KINDS[c["k"][1]])] = c
                if c["op"] not in self.ops_b:
                    self.ops_b.append(c["op"])
            elif t == "U":
                self.U[(c["op"], KINDS[c["k"][0]])] = c
                if c["op"] not in self.ops_u:
                    self.ops_u.append(c["op"])
            elif t == "V":
                self.V[(c["op"], tuple(KINDS[k] for k in c["k"]))] = c

    def has2(self, op, a, b, cls):
        c = self.B.get((op, a, b))
        return bool(c) and cls in c["cls"]

    def has1(self, op, a, cls):
        c = self.U.get((op, a))
        return bool(c) and cls in c["cls"]

    def hasv(self, op, ks, cls):
        c = self.V.get((op, tuple(ks)))
        return bool(c) and cls in c["cls"]

    def kinds2(self, op, a, b):
        c = self.B.get((op, a, b))
        return None if c is None else c["kinds"]

    def pred(self, p, k):
        return True if self.has1(p, k, "True") else False if self.has1(p, k, "False") else None


def identity_kinds(op):
    return ["int"] if op in BITW else SCALAR if op in MINMAX else NUM


def rule_failures(t):
    """every (rule, cell) of the property that the table contradicts; cell = (op, k1, k2) or (op, k) ..."""
    bad = []

    def need(rule, ok, cell, want):
        if not ok:
            bad.append({"rule": rule, "cell": cell, "want": want})
    for op in ACC:
        for k in identity_kinds(op):
            need("absent_identity", t.has2(op, "absent", k, "Arg2"), (op, "absent", k), "the second operand")
            need("absent_identity", t.has2(op, k, "absent", "Arg1"), (op, k, "absent"), "the first operand")
    for op in ["."] + ACC:
        need("absent_absent", t.has2(op, "absent", "absent", "Absent"), (op, "absent", "absent"), "absent")
    for k in SCALAR:
        need("dot_absent", t.has2(".", "absent", k, "Arg2") or t.has2(".", "absent", k, "StrArg2"), (".", "absent", k), "text of second operand")
        need("dot_absent", t.has2(".", k, "absent", "Arg1") or t.has2(".", k, "absent", "StrArg1"), (".", k, "absent"), "text of first operand")
    for op in MATH1 + UNOPS + ["bitcount", "min1", "max1"]:
        need("unary_absent", t.has1(op, "absent", "Absent"), (op, "absent"), "absent")
    for op in MATH1:
        need("math_empty", t.has1(op, "void", "Void"), (op, "void"), "empty")
    for op in ["."] + ACC:
        for k in SCALAR + ["null", "absent"]:
            need("error_absorbs", t.has2(op, "error", k, "Error"), (op, "error", k), "error")
            need("error_absorbs", t.has2(op, k, "error", "Error"), (op, k, "error"), "error")
    for op in COMM:
        for a in KINDS:
            for b in KINDS:
                ka, kb = t.kinds2(op, a, b), t.kinds2(op, b, a)
                need("commutative_kinds", ka is not None and ka == kb, (op, a, b), "same result kind as with the operands swapped")
    for op in ["+", "*", ".+", ".*", "min", "max", "min_binary", "max_binary"]:
        for k in NUM:
            need("empty_number", t.has2(op, "void", k, "Arg2"), (op, "void", k), "the number")
            need("empty_number", t.has2(op, k, "void", "Arg1"), (op, k, "void"), "the number")
        need("empty_number", t.has2(op, "void", "void", "Void"), (op, "void", "void"), "empty")
    for op in ["-", ".-"]:
        for k in NUM:
            need("empty_minus", t.has2(op, "void", k, "NegArg2"), (op, "void", k), "minus the number")
            need("empty_minus", t.has2(op, k, "void", "Arg1"), (op, k, "void"), "the number")
        need("empty_minus", t.has2(op, "void", "void", "Void"), (op, "void", "void"), "empty")
    for op in ["/", "//", "%", "**", "./"] + BITW:
        for k in NUM:
            for a, b in ((k, "void"), ("void", k), ("void", "void")):
                need("empty_absorbs", t.has2(op, a, b, "Void"), (op, a, b), "empty")
    for op in ("min", "max"):
        for k in SCALAR:
            need("variadic_absent", t.hasv(op, [k, "absent", "absent"], "Arg1"), (op, k, "absent", "absent"), "the present argument")
            need("variadic_absent", t.hasv(op, ["absent", k, "absent"], "Arg2"), (op, "absent", k, "absent"), "the present argument")
            need("variadic_absent", t.hasv(op, ["absent", "absent", k], "Arg3"), (op, "absent", "absent", k), "the present argument")
        need("variadic_absent", t.hasv(op, [], "Void"), (op,), "empty")
    for op in MATRIX_OPS:
        for a in KINDS:
            for b in KINDS:
                c = t.B.get((op, a, b))
                okc = c is not None and ((a in NUM and b in NUM) or len(c["cls"]) > 0 or len(c["kinds"]) == 1)
                need("kind_uniformity", okc, (op, a, b), "one behaviour for all representatives")
    for key, c in list(t.B.items()) + list(t.U.items()) + list(t.V.items()):
        need("no_panic", "Panic" not in c["cls"] and -1 not in c["kinds"], key, "no panic")
    P = {
        "is_absent": lambda k: k == "absent", "is_present": lambda k: k != "absent", "is_error": lambda k: k == "error",
        "is_int": lambda k: k == "int", "is_float": lambda k: k == "float", "is_numeric": lambda k: k in NUM,
        "is_bool": lambda k: k == "bool", "is_boolean": lambda k: k == "bool", "is_bytes": lambda k: k == "bytes",
        "is_map": lambda k: k == "map", "is_not_map": lambda k: k != "map", "is_array": lambda k: k == "array",
        "is_not_array": lambda k: k != "array", "is_string": lambda k: k in ("string", "void"), "is_empty": lambda k: k == "void",
        "is_not_empty": lambda k: k not in ("void", "absent"), "is_null": lambda k: k in ("void", "absent", "null"),
        "is_not_null": lambda k: k not in ("void", "absent", "null"),
    }
    for p, f in P.items():
        for k in KINDS:
            need("is_predicates", t.pred(p, k) is f(k), (p, k), str(f(k)).lower())
    for k in KINDS:
        g = lambda p: t.pred(p, k)
        if None in [g(p) for p in ("is_null", "is_empty", "is_absent", "is_not_null", "is_present", "is_not_empty", "is_numeric", "is_int", "is_float")]:
            need("is_predicate_relations", False, ("is_*", k), "a definite truth value")
            continue
        need("is_predicate_relations", g("is_null") == (g("is_empty") or g("is_absent") or k == "null"), ("is_null", k), "is_empty or is_absent or JSON null")
        need("is_predicate_relations", g("is_not_null") == (not g("is_null")), ("is_not_null", k), "not is_null")
        need("is_predicate_relations", g("is_present") == (not g("is_absent")), ("is_present", k), "not is_absent")
        need("is_predicate_relations", g("is_not_empty") == ((not g("is_empty")) and g("is_present")), ("is_not_empty", k), "present and not empty")
        need("is_predicate_relations", g("is_numeric") == (g("is_int") or g("is_float")), ("is_numeric", k), "is_int or is_float")
        basic = ["is_int", "is_float", "is_boolean", "is_string", "is_bytes", "is_array", "is_map", "is_error", "is_absent"]
        n = sum(1 for p in basic if g(p) is True)
        need("is_predicates_partition", all(g(p) is not None for p in basic) and n == (0 if k in ("func", "null") else 1), ("basic is_*", k), "exactly one")
    for i, a in enumerate(DOCK):
        for j, b in enumerate(DOCK):
            d, c = DOC_PLUS[i][j], t.B.get(("+", a, b))
            okc = c is not None and {"S": len(c["kinds"]) > 0 and all(KINDS[x] in NUM for x in c["kinds"]), "1": "Arg1" in c["cls"], "2": "Arg2" in c["cls"],
                                     "E": "Error" in c["cls"], "V": "Void" in c["cls"], "A": "Absent" in c["cls"]}[d]
            need("documented_plus_table", okc, ("+", a, b), {"S": "the sum", "1": "the first operand", "2": "the second operand", "E": "(error)", "V": "(empty)", "A": "(absent)"}[d])
    return bad


def refuted(t, cls):
    """does the implementation (the table) exhibit the known deviation `cls` now?"""
    cells = FINDINGS[cls][1]
    if cls.startswith("absent-left-") and cls.endswith("returns-zero"):
        op = cells[0][0]
        return t.has2(op, "absent", "int", "Int0") and t.has2(op, "absent", "float", "Float0") and not t.has2(op, "absent", "int", "Arg2")
    if cls == "max-empty-beats-number":
        return any(t.has2(op, a, b, "Void") for op, a, b in cells)
    return any(not t.has2(op, a, b, "Error") for op, a, b in cells)


# ------------------------------------------------------------------------------------------ Coq rendering
def coq_cls(c):
    m = re.fullmatch(r"(Arg|NegArg|StrArg)(\d+)", c)
    if m:
        return f"C{m.group(1)} {m.group(2)}"
    return "C" + c


def coq_cell(c):
    kinds = [KCOQ[k] for k in c["kinds"] if 0 <= k < len(KCOQ)]
    cl = list(c["cls"]) + (["Panic"] if -1 in c["kinds"] and "Panic" not in c["cls"] else [])
    return "c [" + "; ".join(coq_cls(x) for x in cl) + "] [" + "; ".join(kinds) + "]"


def coq_str(s):
    return '"' + s.replace('"', '""') + '"'


def render_gen(t, logical, open_classes):
    out = ["(* REGENERATED on every run by harness/py/checks/c08.py from `implrun c08-matrix` (the real pkg/bifs functions applied to",
           "   >=3 representatives of each Mlrval kind; classes common to all representatives) and, for && and ||, from `mlr -n put`. *)",
           "From Coq Require Import List String.", "From Miller Require Import C08.Model.", "Import ListNotations.", "Local Open Scope string_scope.",
           "Definition c := mkcell.", "Definition gen_binary : bintable := ["]
    rows = []
    for op in t.ops_b:
        m = []
        for a in KINDS:
            m.append("   [" + ";\n    ".join(coq_cell(t.B[(op, a, b)]) for b in KINDS) + "]")
        rows.append(f" ({coq_str(op)}, [\n" + ";\n".join(m) + "])")
    out.append(";\n".join(rows) + "].")
    out.append("Definition gen_unary : untable := [")
    out.append(";\n".join(f" ({coq_str(op)}, [" + ";\n    ".join(coq_cell(t.U[(op, a)]) for a in KINDS) + "])" for op in t.ops_u) + "].")
    out.append("Definition gen_variadic : vartable := [")
    out.append(";\n".join(f" ({coq_str(op)}, [{'; '.join(KCOQ[KI[k]] for k in ks)}], {coq_cell(c)})" for (op, ks), c in t.V.items()) + "].")
    out.append("(* operands: " + ", ".join(LOGICAL_OPERANDS) + " *)")
    out.append("Definition gen_dsl_logical : logtable := [")
    out.append(";\n".join(f" ({coq_str(op)}, [" + ";\n    ".join("[" + "; ".join(r) + "]" for r in m) + "])" for op, m in logical.items()) + "].")
    out.append("(* the known deviations (harness/py/checks/c08.findings.md) the implementation exhibits in this run *)")
    out.append("Definition open_findings : list finding := [" + "; ".join(FINDINGS[c][0] for c in open_classes) + "].")
    return "\n".join(out) + "\n"


# ------------------------------------------------------------------------------------------ mlr observations
def mlr_eval(ctx, exprs, chunk=250):
    """evaluate DSL expressions with `mlr -n put -f` (chunks run in parallel); returns list of (kind, text) or (None, stderr)"""
    import tempfile, os
    from concurrent.futures import ThreadPoolExecutor

    def one(part):
        # the helper takes the value as a function argument: no assignment statement is involved in observing it
        prog = ['func f(v) { return typeof(v) . "\\t" . (is_error(v) ? "(error)" : is_absent(v) ? "(absent)" : json_stringify(v)) }', "end{"]
        for e in part:
            prog.append(f"print f({e});")
        prog.append("}")
        with tempfile.NamedTemporaryFile("w", suffix=".mlr", delete=False) as f:
            f.write("\n".join(prog))
        try:
            st, out, err = mlr_run(ctx, ["-n", "put", "-f", f.name], timeout=120)
        finally:
            os.unlink(f.name)
        lines = out.decode("utf-8", "replace").split("\n")
        if st != 0 or len(lines) < len(part):
            return None, "status=%s %s" % (st, err.decode("utf-8", "replace")[-600:])
        r = []
        for l in lines[:len(part)]:
            ty, _, txt = l.partition("\t")
            r.append((TYPEOF.get(ty, ty), txt))
        return r, ""
    parts = [exprs[k:k + chunk] for k in range(0, len(exprs), chunk)]
    res = []
    with ThreadPoolExecutor(max_workers=2) as ex:
        for r, err in ex.map(one, parts):
            if r is None:
                return None, err
            res += r
    return res, ""


def logical_tables(ctx):
    tabs = {}
    for op in ("&&", "||"):
        exprs = [f"({a}) {op} ({b})" for a in LOGICAL_OPERANDS for b in LOGICAL_OPERANDS]
        res, err = mlr_eval(ctx, exprs)
        if res is None:
            raise RuntimeError("mlr logical table failed: " + err)
        m = []
        for i in range(6):
            row = []
            for j in range(6):
                k, txt = res[i * 6 + j]
                ctx.count(("logical", op, i, j))
                row.append({"error": "LError", "absent": "LAbsent", "void": "LEmpty"}.get(k, "LTrue" if (k, txt) == ("bool", "true") else "LFalse" if (k, txt) == ("bool", "false") else "LOther"))
            m.append(row)
        tabs[op] = m
    return tabs


def dsl_of(op, x, y):
    if op in ("min", "max"):
        return f"{op}({x}, {y})"
    if op in ("atan2", "roundm"):
        return f"{op}({x}, {y})"
    if op in ("min_binary", "max_binary", "&&_bif", "||_bif"):
        return None
    return f"({x}) {op} ({y})"


def dsl_of_unary(op, x):
    if op in ("min1", "max1"):
        return f"{op[:3]}({x})"
    if op in ("+u", "-u"):
        return f"{op[0]}({x})"
    if op in ("~", "!"):
        return f"{op}({x})"
    return f"{op}({x})"


def cell_command(op, a, b=None):
    """a mlr command line reproducing a table cell (for violation reports)"""
    if a == "func" or b == "func":
        return None
    e = dsl_of_unary(op, DSL_REP[a][0]) if b is None else dsl_of(op, DSL_REP[a][0], DSL_REP[b][0])
    if e is None:
        e = dsl_of(op.replace("_binary", ""), DSL_REP[a][0], DSL_REP[b][0])
    return "mlr -n put 'end{print typeof(%s) . \":\" . (%s)}'" % (e, e)


def mlr_crosscheck(ctx, t):
    """every DSL-reachable cell of the table through the real evaluator: result kind and, where the table says the result is an
    argument / absent / error / empty, the value.  Returns list of disagreements."""
    jobs = []
    for op in t.ops_b:
        for a in KINDS:
            for b in KINDS:
                if "func" in (a, b) or (op == "." and a == "map"):
                    continue   # no function values in expressions; `map . name` is attribute access in the DSL (DotCallsiteNode), not BIF_dot
                for x in DSL_REP[a][:2 if ctx.tier == "thorough" else 1]:
                    for y in DSL_REP[b][:2 if ctx.tier == "thorough" else 1]:
                        e = dsl_of(op, x, y)
                        if e:
                            jobs.append((("B", op, a, b), e, [x, y]))
    for op in t.ops_u:
        for a in KINDS:
            if a == "func":
                continue
            for x in DSL_REP[a][:1]:
                jobs.append((("U", op, a), dsl_of_unary(op, x), [x]))
    # argument texts
    argexprs = sorted({x for _, _, xs in jobs for x in xs})
    argres, err = mlr_eval(ctx, argexprs)
    if argres is None:
        return [{"broken": "mlr-crosscheck-arguments", "stderr": err}], 0
    argval = dict(zip(argexprs, argres))
    bad, n = [], 0
    res, err = mlr_eval(ctx, [e for _, e, _ in jobs])
    if res is None:
        return [{"broken": "mlr-crosscheck-run", "stderr": err}], n
    if True:
        for (key, e, xs), (rk, rtxt) in zip(jobs, res):
            n += 1
            ctx.count(("dsl", e))
            cell = t.B[(key[1], key[2], key[3])] if key[0] == "B" else t.U[(key[1], key[2])]
            kinds = [KINDS[x] for x in cell["kinds"] if x >= 0]
            why = None
            if rk not in kinds:
                why = f"result kind {rk} not among the kinds the BIF produced {kinds}"
            else:
                for cl in cell["cls"]:
                    m = re.fullmatch(r"Arg(\d)", cl)
                    if m and (rk, rtxt) != argval[xs[int(m.group(1)) - 1]]:
                        # numbers may be re-formatted (the variadic min/max folds its first argument with itself)
                        av = argval[xs[int(m.group(1)) - 1]]
                        try:
                            same = rk == av[0] and rk in NUM and float(rtxt) == float(av[1])
                        except ValueError:
                            same = False
                        if not same:
                            why = f"table says argument {m.group(1)} is returned, mlr gives {rk}:{rtxt}"
            if why:
                bad.append({"cell": key, "expr": e, "mlr": [rk, rtxt], "table_cls": cell["cls"], "table_kinds": kinds, "why": why})
    return bad, n


# ------------------------------------------------------------------------------------------ source literals vs behaviour
HELPER_CLASS = {"_absn": "Absent", "_null": "Null", "_void": "Void", "_1___": "Arg1", "_2___": "Arg2", "_n2__": "NegArg2", "_s1__": "StrArg1",
                "_s2__": "StrArg2", "_i0__": "Int0", "_f0__": "Float0", "_true": "True", "_fals": "False",
                "_absn1": "Absent", "_zero1": "Int0", "_null1": "Null", "_void1": "Void", "_1u___": "Arg1",
                "_math_unary_absn1": "Absent", "_math_unary_null1": "Null", "_math_unary_void1": "Void"}
OP_BIF2 = {"+": "BIF_plus_binary", "-": "BIF_minus_binary", "*": "BIF_times", "/": "BIF_divide", "//": "BIF_int_divide", "%": "BIF_modulus",
           "**": "BIF_pow", ".+": "BIF_dot_plus", ".-": "BIF_dot_minus", ".*": "BIF_dot_times", "./": "BIF_dot_divide", "&": "BIF_bitwise_and",
           "|": "BIF_bitwise_or", "^": "BIF_bitwise_xor", "<<": "BIF_left_shift", ">>": "BIF_signed_right_shift", ">>>": "BIF_unsigned_right_shift",
           ".": "BIF_dot", "min_binary": "BIF_min_binary", "max_binary": "BIF_max_binary", "==": "BIF_equals", "!=": "BIF_not_equals",
           ">": "BIF_greater_than", ">=": "BIF_greater_than_or_equals", "<": "BIF_less_than", "<=": "BIF_less_than_or_equals", "<=>": "BIF_cmp",
           "atan2": "BIF_atan2", "roundm": "BIF_roundm"}
OP_BIF1 = dict({"+u": "BIF_plus_unary", "-u": "BIF_minus_unary", "~": "BIF_bitwise_not", "bitcount": "BIF_bitcount"}, **{m: "BIF_" + m for m in MATH1})
ROW_NAMES = ["INT", "FLOAT", "BOOL", "VOID", "STRING", "BYTES", "ARRAY", "MAP", "FUNC", "ERROR", "NULL", "ABSENT"]


def source_crosscheck(ctx, t):
    """Read the *_dispositions literals of pkg/bifs/*.go as text and compare every cell whose entry is one of the shared helpers
    (_absn, _1___, _2___, _n2__, _void, _null, _i0__, _f0__, type-error functions ...) with the behavioural class of the table.
    Independent of implrun: a mis-classification in c08.go, a mislabelled row comment or a matrix wired to another operator shows up here."""
    src = ""
    for f in sorted((REPO / "pkg" / "bifs").glob("*.go")):
        if not f.name.endswith("_test.go"):
            src += f.read_text(errors="replace") + "\n"
    helper = dict(HELPER_CLASS)
    for m in re.finditer(r"func (\w+)\([^)]*\) \*mlrval\.Mlrval \{\n\treturn mlrval\.From(?:TypeError\w*|Not\w+Error)\(", src):
        helper[m.group(1)] = "Error"
    mats, vecs = {}, {}
    for m in re.finditer(r"(\w+) = \[mlrval\.MT_DIM\]\[mlrval\.MT_DIM\]BinaryFunc\{\n(.*?)\n\t?\}", src, re.S):
        rows = re.findall(r"/\*(\w+)\s*\*/\s*\{([^}]*)\}", m.group(2))
        if rows:
            mats[m.group(1)] = [(r[0], [x.strip() for x in r[1].split(",") if x.strip()]) for r in rows]
    for m in re.finditer(r"(\w+) = \[mlrval\.MT_DIM\](?:UnaryFunc|mathLibUnaryFuncWrapper)\{\n(.*?)\n\t?\}", src, re.S):
        rows = re.findall(r"/\*(\w+)\s*\*/\s*(\w+),", m.group(2))
        if rows:
            vecs[m.group(1)] = rows
    bif2 = {m.group(1): m.group(2) for m in re.finditer(r"func (BIF_\w+)\(input1, input2 \*mlrval\.Mlrval\) \*mlrval\.Mlrval \{\n\treturn \(?(\w+)\[input1\.Type\(\)\]\[input2\.Type\(\)\]\)?\(input1, input2\)", src)}
    bif1 = {m.group(1): m.group(2) for m in re.finditer(r"func (BIF_\w+)\(input1 \*mlrval\.Mlrval\) \*mlrval\.Mlrval \{\n(?:\tif input1\.Type\(\) == mlrval\.MT_INT \{\n\t\treturn \w+\(input1\)\n\t\}\n)?\treturn (\w+)\[input1\.Type\(\)\]\(input1", src)}   # optional int kernel guard (abs/ceil/floor/round/sgn since f1e1e9093): the INT cell is a kernel either way
    bad, ncell, nmat = [], 0, 0
    for op, bif in OP_BIF2.items():
        mat = mats.get(bif2.get(bif, ""))
        if mat is None:
            bad.append({"operator": op, "why": "no disposition matrix literal found behind %s" % bif})
            continue
        nmat += 1
        if [r[0] for r in mat] != ROW_NAMES or any(len(r[1]) != 12 for r in mat):
            bad.append({"operator": op, "matrix": bif2[bif], "why": "row comments / dimensions are not the 12 kinds in order", "rows": [r[0] for r in mat]})
            continue
        for i, (_, row) in enumerate(mat):
            for j, h in enumerate(row):
                want = helper.get(h)
                c = t.B.get((op, KINDS[i], KINDS[j]))
                if want is None or c is None:
                    continue
                ncell += 1
                if want not in c["cls"]:
                    bad.append({"operator": op, "matrix": bif2[bif], "cell": [KINDS[i], KINDS[j]], "source_entry": h, "source_class": want, "behaviour": c["cls"]})
    for op, bif in OP_BIF1.items():
        vec = vecs.get(bif1.get(bif, ""))
        if vec is None:
            bad.append({"operator": op, "why": "no disposition vector literal found behind %s" % bif})
            continue
        nmat += 1
        if [r[0] for r in vec] != ROW_NAMES:
            bad.append({"operator": op, "vector": bif1[bif], "why": "row comments are not the 12 kinds in order"})
            continue
        for i, (_, h) in enumerate(vec):
            want, c = helper.get(h), t.U.get((op, KINDS[i]))
            if want is None or c is None:
                continue
            ncell += 1
            if want not in c["cls"]:
                bad.append({"operator": op, "vector": bif1[bif], "cell": [KINDS[i]], "source_entry": h, "source_class": want, "behaviour": c["cls"]})
    ctx.cov["correspondence"]["source_literal_tables"] = nmat
    ctx.cov["correspondence"]["source_literal_cells_compared"] = ncell
    ctx.cov["correspondence"]["source_literal_mismatches"] = len(bad)
    ctx.dist("source_literal_cells", ncell)
    for b in bad[:3]:
        ctx.violation(dict(b, broken="source-literal cross-check (pkg/bifs table literal and observed behaviour of the cell differ)"), found_input=False)


# ------------------------------------------------------------------------------------------ the check
def build_table(ctx):
    rc, out, err = sh([ctx.implrun(), "c08-matrix"], timeout=300)
    if rc != 0:
        raise RuntimeError("implrun c08-matrix failed: " + err[-800:])
    t = Table([l for l in out.splitlines() if l.strip()])
    if t.fatal or not t.kinds_ok:
        raise RuntimeError("the Mlrval kind enumeration changed (%s): the 12-kind model of C08 must be revisited" % (t.fatal or "kind names/order"))
    return t


def report_rule_failures(ctx, t, fails):
    """one violation per witness class; unknown deviations get a class derived from the rule and operator"""
    by_class = {}
    for f in fails:
        cell = f["cell"]
        cls = (FOOT.get(tuple(cell)) or REPAIRED_FOOT.get(tuple(cell))) if len(cell) == 3 else None
        if cls is None:
            cls = "unlisted:%s:%s" % (f["rule"], ":".join(cell))
        by_class.setdefault(cls, []).append(f)
    n = 0
    # deviations that are not among the listed classes first
    for cls, fs in sorted(by_class.items(), key=lambda kv: (not (kv[0].startswith("unlisted:") or kv[0] in REPAIRED), kv[0])):
        f = fs[0]
        cell = f["cell"]
        src = t.B.get(tuple(cell)) if len(cell) == 3 else t.U.get(tuple(cell)) if len(cell) == 2 else t.V.get((cell[0], tuple(cell[1:])))
        obs = None if src is None else {"classes_common_to_all_representatives": src["cls"], "result_kinds": [KINDS[k] if k >= 0 else "PANIC" for k in src["kinds"]],
                                        "examples": [{"args": p["a"], "result": "%s:%s" % (KINDS[p["rk"]] if p["rk"] >= 0 else "PANIC", p["rs"][:80])} for p in src["per"][:3]]}
        cmd = cell_command(*cell) if len(cell) in (2, 3) and all(c in KINDS for c in cell[1:]) else None
        n += 1 if ctx.violation({"class": cls, "rule": f["rule"], "input": {"operator": cell[0], "operand_kinds": list(cell[1:]), "mlr": cmd},
                                 "observed": obs, "expected": f["want"], "all_failing_cells_of_class": [x["cell"] for x in fs][:24],
                                 "theorem": "C08_" + f["rule"]}) else 0
        if n >= 30:
            break
    return n


def run(ctx):
    ctx.cov["rule"] = ("(B) every operator/function x every ordered pair of the 12 Mlrval kinds x 3x3 representatives (exhaustive finite matrix, real pkg/bifs via implrun); "
                       "every DSL-reachable cell again through `mlr -n put`; && and || over the 6 documented operands; "
                       "(A) generated put programs assigning absent / present values to every lvalue kind, record+oosvar dump compared with the Gallina model. "
                       "A case is non-trivial when its (operator, operand values) or program text is distinct")
    ctx.cov["trusted_base"] = ["Coq 8.16.1 kernel + vm_compute", "no axioms", "implrun c08-matrix (classification of BIF results relative to their arguments)",
                               "python harness (table -> Gen_Dispositions.v rendering)", "hand transcription of the (+), (&&), (||) tables of reference-main-null-data.md"]
    ctx.assumptions = ["kind-level claim: each rule is established for the tested representatives of a kind (>=3 per kind, 9 per cell) and for every kind pair; "
                       "kind-uniformity of the disposition matrices (dispatch on Type() only) is itself checked",
                       "assignment model covers maps and scalars, not arrays / positional edge cases beyond those generated"]
    t = build_table(ctx)
    with ctx.timed("impl"):
        logical = logical_tables(ctx)
    open_classes = [c for c in FINDINGS if refuted(t, c)]
    ctx.cov["variant_selected"] = {"open_findings": open_classes}
    write_if_changed(GEN / "Gen_Dispositions.v", render_gen(t, logical, open_classes))
    for c in list(t.B.values()) + list(t.U.values()) + list(t.V.values()):
        for p in c["per"]:
            ctx.count((c["op"], tuple(p["a"] or [])))
    ctx.dist("binary_cells", len(t.B)); ctx.dist("unary_cells", len(t.U)); ctx.dist("variadic_cells", len(t.V))
    ctx.dist("representative_tuples", sum(len(c["per"]) for c in list(t.B.values()) + list(t.U.values()) + list(t.V.values())))
    ctx.sample({"cell": ["/", "absent", "int"], "observed": t.B[("/", "absent", "int")]["cls"], "examples": t.B[("/", "absent", "int")]["per"][:2]})
    ctx.sample({"cell": ["+", "absent", "int"], "observed": t.B[("+", "absent", "int")]["cls"], "examples": t.B[("+", "absent", "int")]["per"][:2]})

    # ---- (C) absent through the DSL evaluator: regenerated table gen/Gen_AbsentDSL.v, rules re-proved in C08/DslRules.v
    from checks import c08_dsl
    dsl_obs = c08_dsl.regenerate(ctx, t)

    forbidden_gate(ctx, ["C08"])
    ok, why = check_props(ctx, "C08/Props.v", ["C08/TableProofs.vo", "C08/DslRules.vo", "C08/AssignProofs.vo", "C08/Accumulate.vo", "C08/Harness.vo"])

    # ---- oracle on the implementation's own outputs: the rules of the property over the table
    fails = rule_failures(t)
    logical_bad = [(op, i, j, logical[op][i][j], doc[i][j]) for op, doc in (("&&", DOC_AND), ("||", DOC_OR)) for i in range(6) for j in range(6) if logical[op][i][j] != doc[i][j]]
    ctx.cov["rule_failures"] = len(fails)
    reported = report_rule_failures(ctx, t, fails)
    dsl_fails = c08_dsl.rule_failures(dsl_obs, t)
    ctx.cov["dsl_rule_failures"] = len(dsl_fails)
    for f in dsl_fails[:12]:
        reported += 1
        ctx.violation(dict(f, rule="absent_in_dsl"))
    for op, i, j, got, want in logical_bad[:3]:
        reported += 1
        ctx.violation({"class": "unlisted:documented_logical_table:%s:%d:%d" % (op, i, j), "rule": "documented_logical_table",
                       "input": {"mlr": "mlr -n put 'end{print typeof((%s) %s (%s))}'" % (LOGICAL_OPERANDS[i], op, LOGICAL_OPERANDS[j])},
                       "observed": got, "expected": want, "theorem": "C08_documented_%s_table" % ("and" if op == "&&" else "or")})
    if not ok and not fails and not logical_bad and not dsl_fails:
        ctx.violation({"broken": why}, found_input=False)
    if not ok:
        return
    # ---- the table is what the DSL evaluator does
    with ctx.timed("impl"):
        bad, n = mlr_crosscheck(ctx, t)
    ctx.cov["correspondence"]["dsl_cells_replayed"] = n
    ctx.cov["correspondence"]["dsl_cell_mismatches"] = len(bad)
    for b in bad[:3]:
        ctx.violation(dict(b, broken="table-vs-mlr (the BIF table and the DSL evaluator disagree)", input={"mlr": "mlr -n put 'end{print %s}'" % b.get("expr")}))
    source_crosscheck(ctx, t)
    from checks import c08_assign
    c08_assign.run(ctx)


def replay(ctx, path):
    obj = json.loads(Path(path).read_text())
    if obj.get("kind") == "assign":
        from checks import c08_assign
        return c08_assign.replay(ctx, obj)
    t = build_table(ctx)
    fails = rule_failures(t)
    cls = obj.get("class")
    mine = [f for f in fails if ((FOOT.get(tuple(f["cell"])) or REPAIRED_FOOT.get(tuple(f["cell"]))) if len(f["cell"]) == 3 else None) == cls
            or "unlisted:%s:%s" % (f["rule"], ":".join(f["cell"])) == cls]
    cmd = (obj.get("input") or {}).get("mlr")
    if cmd:
        m = re.match(r"mlr -n put '(.*)'$", cmd, re.S)
        if m:
            st, out, err = mlr_run(ctx, ["-n", "put", m.group(1)])
            print("replay: %s -> %s" % (cmd, out.decode("utf-8", "replace").strip()))
    ctx.count(("replay", cls))
    print("replay: class=%s still failing cells=%s" % (cls, [f["cell"] for f in mine][:8]))
    if mine:
        report_rule_failures(ctx, t, mine)
