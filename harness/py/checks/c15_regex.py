"""C15, regex part: the Gallina matcher (coq/C15/RegexModel.v) and Miller's layer around Go regexp against mlr.

The generator draws regex TREES of the modelled subset; the pattern text handed to mlr is printed from the tree by the
same rule as RegexModel.show (the Coq side re-prints the tree and compares with the text mlr was given, through
compile_miller, so the "..."i / "..." / /.../ forms are part of the tie)."""
import os, re, time
from vlib import *

ERR = "(error)"
LETTERS = "abcksABKS"
META = ".+*?()|[]{}^$\\"


# ---------------------------------------------------------------- trees
def t_chr(c): return ("chr", ord(c))
PROGRAM_MODE = [False]      # inside DSL source the lexer takes only some backslash pairs (\. yes, \( \* \| \? no) and no 4-byte characters


def gen_atom(rng, ci):
    x = rng.random()
    if x < 0.55:
        return ("chr", ord(rng.choice("abcks" if not ci else "abcksAK")))
    if x < 0.62:
        return ("chr", ord(rng.choice(".+*?(|[$" if not PROGRAM_MODE[0] else ".")))
    if x < 0.68 and not ci:
        return ("chr", rng.choice([0xE9, 0x20AC, 0x1F600] if not PROGRAM_MODE[0] else [0xE9, 0x20AC]))
    if x < 0.78:
        return ("any",)
    neg = rng.random() < 0.3
    rs = rng.choice([[(97, 99)], [(97, 97), (98, 98)], [(97, 97)], [(107, 115)], [(48, 57)], [(97, 99), (65, 65)], [(46, 46), (97, 98)], [(75, 75)], [(0xE9, 0xE9), (97, 97)] if not ci else [(115, 115)]])
    return ("cls", neg, rs)


def nullable(t):
    k = t[0]
    if k in ("eps", "bol", "eol", "star", "opt"): return True
    if k in ("chr", "any", "cls"): return False
    if k == "cat": return nullable(t[1]) and nullable(t[2])
    if k == "alt": return nullable(t[1]) or nullable(t[2])
    if k == "plus": return nullable(t[1])
    if k == "grp": return nullable(t[2])
    raise ValueError(k)


def gen_tree(rng, ci, depth, allow_nullable_body):
    x = rng.random()
    if depth <= 0 or x < 0.28:
        return gen_atom(rng, ci)
    if x < 0.50:
        return ("cat", gen_tree(rng, ci, depth - 1, allow_nullable_body), gen_tree(rng, ci, depth - 1, allow_nullable_body))
    if x < 0.62:
        return ("alt", gen_tree(rng, ci, depth - 1, allow_nullable_body), gen_tree(rng, ci, depth - 1, allow_nullable_body))
    if x < 0.80:
        k = rng.choice(["star", "plus", "opt"])
        for _ in range(20):
            b = gen_tree(rng, ci, depth - 1, allow_nullable_body)
            if k == "opt" or allow_nullable_body or not nullable(b):
                return (k, b)
        return (k, gen_atom(rng, ci))
    if x < 0.93:
        return ("grp", 0, gen_tree(rng, ci, depth - 1, allow_nullable_body))
    return rng.choice([("bol",), ("eol",), ("eps",)])


def number_groups(t, counter):
    """capture groups are numbered by their opening parenthesis, left to right (pre-order)"""
    k = t[0]
    if k == "grp":
        counter[0] += 1
        n = counter[0]
        return ("grp", n, number_groups(t[2], counter))
    if k in ("cat", "alt"):
        a = number_groups(t[1], counter)
        return (k, a, number_groups(t[2], counter))
    if k in ("star", "plus", "opt"):
        return (k, number_groups(t[1], counter))
    return t


def enc(cp):
    return chr(cp).encode("utf-8")


def show_rune(cp):
    return (b"\\" if cp < 128 and chr(cp) in META else b"") + enc(cp)


def show_in_class(cp):
    return (b"\\" if cp < 128 and chr(cp) in "\\]^-[" else b"") + enc(cp)


def show(t):
    k = t[0]
    nc = lambda x: b"(?:" + x + b")"
    if k == "eps": return b"(?:)"
    if k == "chr": return show_rune(t[1])
    if k == "any": return b"."
    if k == "cls":
        return b"[" + (b"^" if t[1] else b"") + b"".join(show_in_class(a) if a == b else show_in_class(a) + b"-" + show_in_class(b) for a, b in t[2]) + b"]"
    if k == "cat": return nc(show(t[1])) + nc(show(t[2]))
    if k == "alt": return nc(show(t[1])) + b"|" + nc(show(t[2]))
    if k == "star": return nc(show(t[1])) + b"*"
    if k == "plus": return nc(show(t[1])) + b"+"
    if k == "opt": return nc(show(t[1])) + b"?"
    if k == "grp": return b"(" + show(t[2]) + b")"
    if k == "bol": return b"^"
    if k == "eol": return b"$"
    raise ValueError(k)


def coq_re(t):
    k = t[0]
    if k == "eps": return "Eps"
    if k == "chr": return "(At (AChr %d%%N))" % t[1]
    if k == "any": return "(At AAny)"
    if k == "cls": return "(At (ACls %s [%s]))" % ("true" if t[1] else "false", ";".join("(%d%%N,%d%%N)" % p for p in t[2]))
    if k in ("cat", "alt"): return "(%s %s %s)" % (k.capitalize(), coq_re(t[1]), coq_re(t[2]))
    if k in ("star", "plus", "opt"): return "(%s %s)" % (k.capitalize(), coq_re(t[1]))
    if k == "grp": return "(Grp %d%%N %s)" % (t[1], coq_re(t[2]))
    if k == "bol": return "Bol"
    if k == "eol": return "Eol"
    raise ValueError(k)


def gen_regex_tree(rng, ci, allow_nullable_body=False, depth=3):
    for _ in range(50):
        c = [0]
        t = number_groups(gen_tree(rng, ci, depth, allow_nullable_body), c)
        if c[0] <= 9:
            return t, c[0]
    return ("chr", 97), 0


def miller_form(rng, pat, ci):
    """the regex string as Miller's CompileMillerRegex takes it"""
    if ci:
        return rng.choice([b'"' + pat + b'"i', b"/" + pat + b"/i"])
    forms = [b'"' + pat + b'"', b"/" + pat + b"/"]
    if not (pat[:1] in (b'"', b"/")):
        forms += [pat, pat]
    return rng.choice(forms)


SUBJ_PARTS = [b"a", b"b", b"c", b"k", b"s", b"A", b"B", b"K", b"S", b"a", b"b", b".", b"+", b" ", b"ab", b"\xc3\xa9", b"\xe2\x82\xac", b"\xf0\x9f\x98\x80", b"\xe2\x84\xaa", b"\xc5\xbf",
              b"\xff", b"\xe2\x82", b"\xc3", b"0", b"(", b"$"]


def gen_subject(rng, maxparts=8, valid=False):
    while True:
        s = b"".join(rng.choice(SUBJ_PARTS) for _ in range(rng.randint(1, maxparts)))
        if valid:
            # DSL source text goes through the lexer: invalid bytes do not survive, and its string-literal rule does not
            # take every code point (U+017F, U+212A, U+1F600 are rejected in this tree): stay with ASCII, U+00E9, U+20AC
            if any(x in s for x in (b"\xff", b"\xf0", b"\xc5", b"\xe2\x84")) or s.replace(b"\xc3\xa9", b"").replace(b"\xe2\x82\xac", b"").decode("latin1").encode("ascii", "ignore") != s.replace(b"\xc3\xa9", b"").replace(b"\xe2\x82\xac", b""):
                continue
        if re.fullmatch(rb"[0-9.+\- ]*", s):       # could be inferred as a number, or void
            continue
        if s.strip() != s:
            continue
        return s


def coq_bool(b): return "true" if b else "false"


# ---------------------------------------------------------------- programs over the capture registers
def gen_lit(rng):
    parts = []
    for _ in range(rng.randint(0, 5)):
        x = rng.random()
        if x < 0.4: parts.append(rng.choice(["a", "b", "x", ":", "-", "<", ">", " ", "$1", "$$", "&"]))
        elif x < 0.8: parts.append("\\" + rng.choice("0123129"))
        elif x < 0.86: parts.append("\\1" + rng.choice(["5", "01", "x"]))          # \15 is \1 then 5 ; \101 is octal A
        elif x < 0.92: parts.append(rng.choice(["\\t", "\\\\", "\\.", "\\x41"]))
        else: parts.append("\\\\" + rng.choice("12"))
    return "".join(parts)


def gen_prog(rng, depth=1):
    stmts = []
    for _ in range(rng.randint(2, 6)):
        x = rng.random()
        ci = rng.random() < 0.2
        if x < 0.35:
            stmts.append(("print", gen_lit(rng)))
        elif x < 0.65:
            t, _ = gen_regex_tree(rng, ci, depth=2)
            stmts.append(("match", rng.random() < 0.25, gen_subject(rng, 5, valid=True), ci, t))
        elif x < 0.85:
            t, _ = gen_regex_tree(rng, ci, depth=2)
            stmts.append(("sub", rng.random() < 0.5, gen_subject(rng, 5, valid=True), ci, t, gen_lit(rng)))
        elif x < 0.9:
            stmts.append(("reset",))
        elif depth > 0:
            stmts.append(("frame", gen_prog(rng, depth - 1)))
    return stmts


def dsl_safe(b):
    return b"\\" not in b and b'"' not in b and b"\n" not in b and b"\r" not in b


def prog_dsl(stmts, defs, tag):
    out = []
    for i, s in enumerate(stmts):
        k = s[0]
        if k == "print":
            out.append(b'print "' + s[1].encode() + b'";')
        elif k == "match":
            rx = b'"' + show(s[4]) + b'"' + (b"i" if s[3] else b"")
            out.append(b'print "' + s[2] + b'" ' + (b"!=~" if s[1] else b"=~") + b" " + rx + b";")
        elif k == "sub":
            rx = b'"' + show(s[4]) + b'"' + (b"i" if s[3] else b"")
            out.append(b"print " + (b"gsub" if s[1] else b"sub") + b'("' + s[2] + b'", ' + rx + b', "' + s[5].encode() + b'");')
        elif k == "reset":
            out.append(b'"x" =~ @nosuchvariable;')
        elif k == "frame":
            name = ("%s_%d" % (tag, i)).encode()
            body = prog_dsl(s[1], defs, "%s_%d" % (tag, i))
            if i % 2 == 0:
                defs.append(b"subr p" + name + b"() {" + body + b"}")
                out.append(b"call p" + name + b"();")
            else:
                defs.append(b"func f" + name + b"() {" + body + b" return 1;}")
                out.append(b"unused" + name + b" = f" + name + b"();")
    return b" ".join(out)


def coq_stmt(s):
    k = s[0]
    if k == "print": return "(SPrint %s)" % coq_bytes(s[1].encode())
    if k == "match": return "(SMatch %s %s %s %s)" % (coq_bool(s[1]), coq_bytes(s[2]), coq_bool(s[3]), coq_re(s[4]))
    if k == "sub": return "(SSub %s %s %s %s %s)" % (coq_bool(s[1]), coq_bytes(s[2]), coq_bool(s[3]), coq_re(s[4]), coq_bytes(s[5].encode()))
    if k == "reset": return "SReset"
    if k == "frame": return "(SFrame [%s])" % "; ".join(coq_stmt(x) for x in s[1])
    raise ValueError(k)


# ---------------------------------------------------------------- the part
def run_part(ctx, bad, mlr_rows, P):
    """returns (terms, meta) for RegexHarness.rchk"""
    rng = ctx.rng
    quick = ctx.tier == "quick"
    N = 150 if quick else 5000
    terms, meta = [], []
    BS = 'gssub(%s, "@", "\\\\")'          # '@' stands for the backslash in TSV data
    rows = []
    for i in range(N):
        ci = rng.random() < 0.25
        t, ng = gen_regex_tree(rng, ci, allow_nullable_body=(i % 3 == 0))
        pat = show(t)
        form = miller_form(rng, pat, ci)
        s = gen_subject(rng)
        rep = rng.choice([b"X", b"", b"<\\1>", b"[\\0]", b"\\2\\1", b"\\1\\15\\9", b"a\\\\1", b"\\", b"-\\3-", b"\xe2\x82\xac\\1",
                          # characters that are special in OTHER replacement syntaxes (Go Expand, sed, printf) are plain text here
                          b"$1", b"a$$b", b"${1}x", b"$0|$name", b"<&>", b"&", b"%s%d", b"$1\\1"])
        if b"@" in form + s + rep or b"\t" in form + s + rep:
            continue
        rows.append((t, ng, ci, form, s, rep))
        if rng.random() < 0.3:
            # the same pattern text in the other sensitivity form, next record of the same process
            form2 = miller_form(rng, pat, not ci)
            s2 = gen_subject(rng)
            if b"@" not in form2 + s2 and b"\t" not in form2 + s2:
                rows.append((t, ng, not ci, form2, s2, rep))
    data = [(b"r%d" % i, s, form.replace(b"\\", b"@"), rep.replace(b"\\", b"@")) for i, (t, ng, ci, form, s, rep) in enumerate(rows)]
    X = BS % "$x"
    Rp = BS % "$r"
    prog = ('m = strmatchx($s, %s); ' % X) + P(
        ["sub($s,%s,%s)" % (X, Rp), "gsub($s,%s,%s)" % (X, Rp), 'regextract_or_else($s,%s,"<none>")' % X,
         'm["matched"]', '(is_absent(m["full_capture"]) ? "" : hex_encode(m["full_capture"]))', '(is_absent(m["full_start"]) ? "" : m["full_start"])', '(is_absent(m["full_end"]) ? "" : m["full_end"])',
         '(is_absent(m["captures"]) ? "" : joinv(apply(m["captures"], func(e) {return hex_encode(e)}), ","))',
         '(is_absent(m["starts"]) ? "" : joinv(m["starts"], ","))', '(is_absent(m["ends"]) ? "" : joinv(m["ends"], ","))'], hexed=(0, 1, 2))
    res = mlr_rows(ctx, ["id", "s", "x", "r"], data, prog, ["sub", "gsub", "rex", "m", "fc", "fs", "fe", "caps", "starts", "ends"], args=["-S"])
    for (t, ng, ci, form, s, rep), o in zip(rows, res):
        ctx.count(("regex-model", form, s, rep))
        info = {"regex": form.decode("latin1"), "s": s.hex(), "replacement": rep.decode("latin1")}
        cre = coq_re(t)
        for key, glob in (("sub", False), ("gsub", True)):
            if o[key] != ERR:
                terms.append("(RSub %s %s %s %s %s %s %s)" % (coq_bool(glob), coq_bytes(form), coq_bool(ci), cre, coq_bytes(s), coq_bytes(rep), coq_bytes(bytes.fromhex(o[key]))))
                meta.append(dict(info, fn=key, observed=o[key]))
        if o["rex"] != ERR:
            terms.append("(RExtract %s %s %s %s %s %s)" % (coq_bytes(form), coq_bool(ci), cre, coq_bytes(s), coq_bytes(b"<none>"), coq_bytes(bytes.fromhex(o["rex"]))))
            meta.append(dict(info, fn="regextract_or_else", observed=o["rex"]))
        if o["m"] == "true":
            ents = [(bytes.fromhex(o["fc"]) if o["fc"] != ERR else b"?", int(o["fs"]), int(o["fe"]))]
            if ng > 0:
                cs = [bytes.fromhex(x) for x in o["caps"].split(",")]
                st = [int(x) for x in o["starts"].split(",")]
                en = [int(x) for x in o["ends"].split(",")]
                ents += list(zip(cs, st, en))
            obs = "(Some [%s])" % ";".join("(%s, %s, %s)" % (coq_bytes(a), coq_z(b), coq_z(c)) for a, b, c in ents)
        elif o["m"] == "false":
            obs = "None"
        else:
            continue
        terms.append("(RMatchx %s %s %s %d%%nat %s %s)" % (coq_bytes(form), coq_bool(ci), cre, ng, coq_bytes(s), obs))
        meta.append(dict(info, fn="strmatchx", observed=[o[k] for k in ("m", "fc", "fs", "fe", "caps", "starts", "ends")]))
        # oracle on the implementation's own outputs: laws of the property, independent of the model
        if o["m"] == "false" and o["sub"] != ERR and (bytes.fromhex(o["sub"]) != s or bytes.fromhex(o["gsub"]) != s or bytes.fromhex(o["rex"]) != b"<none>"):
            bad("regex-no-match-is-identity", input=info, observed=[o["sub"], o["gsub"], o["rex"]], expected=s.hex())
        if o["m"] == "true" and o["sub"] != ERR and b"\\" not in rep:
            a, b = int(o["fs"]) - 1, int(o["fe"])
            want = s[:a] + rep + s[b:]
            if bytes.fromhex(o["sub"]) != want or bytes.fromhex(o["rex"]) != s[a:b]:
                bad("regex-sub-replaces-leftmost-match", input=info, observed=[o["sub"], o["rex"]], expected=[want.hex(), s[a:b].hex()])
    ctx.dist("regex_model_rows", len(rows))

    # programs: one mlr process each
    nprog = 30 if quick else 600
    jobs = []
    for k in range(nprog):
        PROGRAM_MODE[0] = True
        try:
            stmts = gen_prog(rng)
        finally:
            PROGRAM_MODE[0] = False
        defs = []
        body = prog_dsl(stmts, defs, "g")
        jobs.append((stmts, b" ".join(defs) + b" end{" + body + b"}"))

    # regression probe (fixed: sub's replacement was interpolated from an earlier =~) + the law itself on the binary:
    # sub/gsub give the same result whether or not a =~ succeeded or failed before them
    probe = [("match", False, b"xy", False, ("cat", ("grp", 1, ("chr", 120)), ("grp", 2, ("chr", 121)))),
             ("sub", False, b"ab", False, ("cat", ("grp", 1, ("chr", 97)), ("grp", 2, ("chr", 98))), "<\\2\\1>"),
             ("match", False, b"ab", False, ("chr", 113)),
             ("sub", True, b"abab", False, ("cat", ("grp", 1, ("chr", 97)), ("grp", 2, ("chr", 98))), "<\\2\\1>")]
    jobs.insert(0, (probe, b" end{" + prog_dsl(probe, [], "g") + b"}"))
    PROGRAM_MODE[0] = True
    pairs = []
    for k in range(16 if quick else 200):
        t, _ = gen_regex_tree(rng, False, depth=2)
        pairs.append((rng.random() < 0.5, gen_subject(rng, 5, valid=True), t, rng.choice(["<\\1>", "\\2\\1", "[\\0]", "x\\1y\\3"])))
    PROGRAM_MODE[0] = False
    body = []
    for glob, subj, t, rep in pairs:
        call = (b"gsub" if glob else b"sub") + b'("' + subj + b'", "' + show(t) + b'", "' + rep.encode() + b'")'
        body.append(b'"x" =~ @nosuchvariable; print ' + call + b'; "pq" =~ "(p)(q)"; print ' + call + b'; "pq" =~ "(z)"; print ' + call + b";")
    st, out, err = mlr_run(ctx, ["-n", "put", (b"end{" + b" ".join(body) + b"}").decode("utf-8")], timeout=120)
    lines = out.split(b"\n")
    if st != 0 or len(lines) < 3 * len(pairs):
        bad("regex-program-failed", input="sub/gsub before and after =~", observed=err.decode("latin1")[-300:], expected="exit 0")
    else:
        for k, (glob, subj, t, rep) in enumerate(pairs):
            a, b, c = lines[3 * k:3 * k + 3]
            ctx.count(("sub-independent-of-registers", subj, show(t), rep))
            if not (a == b == c):
                bad("sub-replacement-uses-earlier-match-captures", input={"fn": "gsub" if glob else "sub", "s": subj.decode("utf-8"), "regex": show(t).decode("utf-8"), "replacement": rep},
                    observed={"registers unset": a.decode("latin1"), "after a successful =~": b.decode("latin1"), "after a failed =~": c.decode("latin1")}, expected="the same result three times",
                    how="mlr -n put 'end{if (\"pq\" =~ \"(p)(q)\") {print %s}}'" % call.decode("utf-8").replace("'", ""))

    def one(job):
        stmts, dsl = job
        st, out, err = mlr_run(ctx, ["-n", "put", dsl.decode("utf-8", "surrogateescape")], timeout=120)
        return st, out, err
    from concurrent.futures import ThreadPoolExecutor
    with ThreadPoolExecutor(max_workers=3) as ex:
        outs = list(ex.map(one, jobs))
    nrun = 0
    for (stmts, dsl), (st, out, err) in zip(jobs, outs):
        ctx.count(("regex-program", dsl))
        if st != 0:
            bad("regex-program-failed", input=dsl.decode("latin1"), observed=err.decode("latin1")[-300:], expected="exit 0")
            continue
        lines = out.split(b"\n")
        if lines and lines[-1] == b"":
            lines.pop()
        nrun += 1
        terms.append("(RProg [%s] [%s])" % ("; ".join(coq_stmt(s) for s in stmts), "; ".join(coq_bytes(l) for l in lines)))
        meta.append({"fn": "program", "dsl": dsl.decode("latin1"), "observed": [l.decode("latin1") for l in lines]})
    ctx.dist("regex_model_programs", nrun)
    return terms, meta


def evaluate(ctx, terms, meta):
    if not terms:
        return
    with ctx.timed("coq_cases_regex"):
        badi, err = coq_eval_mismatches(ctx, "C15rx", "C15.Model C15.RegexModel C15.RegexHarness", "rcase", "rchk", terms, shard=len(terms) // 3 + 1)
    ctx.cov["correspondence_regex"] = {"cases": len(terms), "mismatches": len(badi)}
    if err:
        ctx.violation({"broken": "correspondence-evaluation (regex)", "detail": err[-2000:]}, found_input=False)
    rep = 0
    for i in badi:
        if i < 0 or rep >= 5:
            continue
        rep += 1
        ctx.violation({"broken": "correspondence C15.RegexHarness.rchk (model and implementation differ on this input)", "case": meta[i], "term": terms[i][:600]}, found_input=True)
