"""C18 — no input, program or argument makes Miller panic or hang (DESIGN 3/C18).

Parts (see c18.findings.md for what they find on the pinned tree):
  1. BIF matrix (mechanism B): the REAL built-in function table x every tuple of argument-kind representatives up to
     arity 3, walked in-process by `implrun bif-matrix`; outcome table regenerated into coq/gen/Gen_BifOutcomes.v and
     re-proved (exhaustive vm_compute) on every run; every non-ok tuple is a failing input, replayed through `mlr -n put`.
  2. Readers: total Gallina models of the DKVP / NIDX / TSV line readers (coq/C18/Model.v) with classification
     theorems, tied by correspondence on mutated documents; mutation harness over all input formats x reader options.
  3. DSL text: token-level mutations of the put/filter expressions of /repo/test/cases.
Volume runs go through an instrumented in-process driver (process start costs 1-2 s here because the generated DSL
parser initialises its tables at start-up); every panic/hang/internal-error it sees is confirmed with the real `mlr`
binary (vlib.mlr_run) before it is reported, and a random sample ties the in-process classification to the binary's.
"""
import concurrent.futures as cf
import fcntl, hashlib, json, os, re, shutil, subprocess, tempfile, threading, time
from vlib import *

HERE = Path(__file__).resolve().parent
# mutated DSL programs may contain output redirects and system()/exec(): every mlr run of this check happens in a
# throw-away working directory with shelling-out disabled (MLR_NO_SHELL is Miller's own switch)
SANDBOX = {"dir": None}
SAFE_ENV = {"MLR_NO_SHELL": "true", "MLRRC": "__none__", "TZ": "UTC"}
# parallelism of the in-process workers / mlr runs; VERIF_JOBS overrides (the coordinator measures on an idle machine)
NJOBS = max(1, int(os.environ.get("VERIF_JOBS", "4") or 4))

# ---------------------------------------------------------------------------------------------------------------
# instrumented build
# ---------------------------------------------------------------------------------------------------------------
VERIFEXIT_GO = '''// Package verifexit exists only in the C18 instrumented scratch copy: every os.Exit( call of Miller's own
// packages is textually redirected here so that in-process drivers can observe "the process would exit with
// code N" without losing the process.  With Hook unset it is exactly os.Exit.
package verifexit

import "os"

var Hook func(code int)

func Exit(code int) {
	if h := Hook; h != nil {
		h(code)
	}
	os.Exit(code)
}
'''


def build_instrumented(ctx):
    """implrun built with tags `verif c18exit` from a scratch copy of VERIF_REPO in which Miller's own os.Exit calls
    go through pkg/verifexit (add-only package + 1-token textual redirection; nothing else changes)."""
    key = Path(ctx.bindir).name
    out = CACHE / "c18bin" / key
    exe = out / "implrun-x"
    if exe.exists():
        return str(exe)
    (CACHE / "lock").mkdir(parents=True, exist_ok=True)
    with open(CACHE / "lock" / "c18build.lock", "w") as lk:
        fcntl.flock(lk, fcntl.LOCK_EX)
        if exe.exists():
            return str(exe)
        scratch = Path(tempfile.mkdtemp(prefix="verif-c18build."))
        try:
            for n in ("go.mod", "go.sum"):
                shutil.copy(REPO / n, scratch / n)
            for n in ("cmd", "pkg"):
                shutil.copytree(REPO / n, scratch / n)
            pg = scratch / "pkg/parsing/parser/parser.go"
            if not pg.exists() or pg.stat().st_size == 0:
                bk = hashlib.sha256((REPO / "pkg/parsing/mlr.bnf").read_bytes()).hexdigest()[:24]
                src = CACHE / "parser" / bk / "parser.go"
                if not src.exists():
                    raise RuntimeError("parser cache missing (bin/prepare should have produced it): %s" % src)
                shutil.copy(src, pg)
            ov = VERIF / "harness/go/overlay"
            if ov.is_dir():
                shutil.copytree(ov, scratch, dirs_exist_ok=True)
            (scratch / "cmd/verif-implrun").mkdir(parents=True, exist_ok=True)
            for f in (VERIF / "harness/go/implrun").glob("*.go"):
                shutil.copy(f, scratch / "cmd/verif-implrun" / f.name)
            (scratch / "pkg/verifexit").mkdir()
            (scratch / "pkg/verifexit/verifexit.go").write_text(VERIFEXIT_GO)
            nfiles = ncalls = 0
            for root in ("pkg", "cmd/mlr"):
                for p in (scratch / root).rglob("*.go"):
                    if p.name.endswith("_test.go") or "verifexit" in p.parts:
                        continue
                    s = p.read_text()
                    code_lines = [l for l in s.splitlines() if not l.lstrip().startswith("//")]
                    k = sum(l.count("os.Exit(") for l in code_lines)
                    if k == 0:
                        continue
                    s = "\n".join(l if l.lstrip().startswith("//") else l.replace("os.Exit(", "verifexit.Exit(") for l in s.splitlines()) + "\n"
                    s, n = re.subn(r"(?m)^(package \w+[^\n]*\n)", r'\1import verifexit "github.com/johnkerl/miller/v6/pkg/verifexit"\n', s, count=1)
                    if n != 1:
                        raise RuntimeError("no package clause in %s" % p)
                    s += "\nvar _ = os.Args // keeps the os import used after the verifexit redirection\n"
                    p.write_text(s)
                    nfiles += 1
                    ncalls += k
            env = dict(os.environ, GOFLAGS="-mod=mod", GOPROXY="off")
            env.pop("GOSUMDB", None); env.pop("GOTOOLCHAIN", None)
            rc, o, e = sh(["go", "build", "-tags", "verif c18exit", "-o", str(scratch / "implrun-x"), "./cmd/verif-implrun"],
                          cwd=scratch, env=env, timeout=1500)
            if rc != 0:
                raise RuntimeError("instrumented build failed: " + e[-2000:])
            out.mkdir(parents=True, exist_ok=True)
            (out / "redirected.txt").write_text(f"{ncalls} os.Exit call sites in {nfiles} files redirected to verifexit.Exit\n")
            shutil.copy(scratch / "implrun-x", out / "implrun-x.tmp")
            os.replace(out / "implrun-x.tmp", exe)
            # keep the newest 3
            olds = sorted((CACHE / "c18bin").iterdir(), key=lambda d: d.stat().st_mtime, reverse=True)[3:]
            for d in olds:
                shutil.rmtree(d, ignore_errors=True)
        finally:
            shutil.rmtree(scratch, ignore_errors=True)
    return str(exe)


# ---------------------------------------------------------------------------------------------------------------
# part 1: BIF matrix
# ---------------------------------------------------------------------------------------------------------------
OKCODES = "veaF"          # value, error value, absent, fatal `mlr:` error with non-zero exit
BADCODES = {"P": "panic", "H": "hang", "R": "runtime-death", "I": "internal-coding-error", "U": "exit-without-mlr-message",
            "Z": "exit-0-mid-evaluation", "S": "not-evaluated-after-hangs", "X": "driver-error"}
EXCLUDED = "K"            # deliberately not evaluated (resource bound of the walk, listed in coq/C18/Exceptions.v); not a finding
QUICK3 = "i0,i7,imax,fnan,true,empty,sabc,sregexbad,amixed,mopts,func1,absent"

# stable witness classes of the genuine defects (function family, outcome) -> class
FAMILIES = []   # (function names, outcome codes, class): none left -- the two BIF finding families were repaired (180145cf9, a9c3aa6fe)


def bif_class(name, code):
    for names, codes, cls in FAMILIES:
        if name in names and code in codes:
            return cls
    return "bif-%s-%s" % (BADCODES.get(code, "bad"), re.sub(r"[^A-Za-z0-9_]", lambda m: "x%02x" % ord(m.group()), name))


def parse_rle(s):
    return [(m.group(1), int(m.group(2))) for m in re.finditer(r"([A-Za-z])(\d+)", s)]


def run_matrix(ctx, exe, lo, hi, reps, only_hex=""):
    rc, out, err = sh([exe, "bif-matrix", str(hi), str(NJOBS), reps, only_hex, str(lo)], timeout=3000,
                      env=dict(os.environ, MLRRC="__none__", TZ="UTC"))
    if rc != 0:
        raise RuntimeError("bif-matrix failed rc=%s: %s" % (rc, err[-1500:]))
    shards, details, skipped, nreps, nrows, hooked = [], {}, [], None, None, None
    for line in out.splitlines():
        p = line.split("\t")
        if p[0] == "N":
            nreps, nrows, hooked = int(p[1]), int(p[2]), p[3] == "true"
        elif p[0] == "SKIP":
            skipped.append((p[1], p[2]))
        elif p[0] == "S":
            shards.append({"name": bytes.fromhex(p[1]).decode("latin1"), "arity": int(p[2]), "dispatch": p[3], "total": int(p[4]),
                           "rle": parse_rle(p[5]), "nreps": nreps})
        elif p[0] == "D":
            details.setdefault((bytes.fromhex(p[1]).decode("latin1"), int(p[2])), []).append(
                (int(p[3]), p[4], bytes.fromhex(p[5]).decode("utf-8", "replace")))
    return {"shards": shards, "details": details, "skipped": skipped, "nreps": nreps, "nrows": nrows, "hooked": hooked}


def load_reps(exe, which):
    rc, out, err = sh([exe, "bif-reps", which])
    reps = []
    for l in out.splitlines():
        p = l.split("\t")
        reps.append({"name": p[1], "kind": p[2], "dsl": bytes.fromhex(p[3]).decode("latin1") if len(p) > 3 else ""})
    return reps


def tuple_args(t, arity, reps):
    idx, n = [], len(reps)
    for _ in range(arity):
        idx.append(t % n); t //= n
    return [reps[i] for i in reversed(idx)]


UDF_PRELUDE = "func verif_f1(a) { return true } func verif_f2(a, b) { return 1 } "


def dsl_call(name, args):
    """DSL text applying function/operator `name` to the representatives' DSL expressions (None if one has none)."""
    ex = [a["dsl"] for a in args]
    if any(e == "" for e in ex):
        return None
    ex = ["(" + e + ")" for e in ex]
    if re.match(r"[A-Za-z_]", name):
        body = "%s(%s)" % (name, ", ".join(ex))
    elif name == "?:" and len(ex) == 3:
        body = "%s ? %s : %s" % tuple(ex)
    elif len(ex) == 1:
        body = "%s %s" % (name, ex[0])
    elif len(ex) == 2:
        body = "%s %s %s" % (ex[0], name, ex[1])
    else:
        return None
    return UDF_PRELUDE + "end { print " + body + " }"


def run_cli(ctx, args, stdin=b"", timeout=25, max_out=20_000_000):
    """vlib.mlr_run; a wall-clock timeout counts as a hang only when it repeats with twice the time, at least 120 s (the host may be loaded)"""
    st, out, err = mlr_run(ctx, args, stdin, timeout=timeout, max_out=max_out, env=SAFE_ENV, cwd=SANDBOX["dir"])
    if st == "hang":
        # on a heavily loaded host (load average > 100 was seen) a process START can take longer than the first cap: only a run that is
        # still going after a long second cap counts as a hang
        st, out, err = mlr_run(ctx, args, stdin, timeout=max(2 * timeout, 120), max_out=max_out, env=SAFE_ENV, cwd=SANDBOX["dir"])
    return st, out, err


def cli_dsl(ctx, prog, timeout=25):
    st, out, err = run_cli(ctx, ["-n", "put", prog], b"", timeout=timeout, max_out=5_000_000)
    return c18_classify(st, err), st, out, err


def c18_classify(st, err):
    """ok | mlr_error | panic | internal | hang | silent-failure"""
    if st == "hang":
        return "hang"
    if b"panic:" in err or b"fatal error:" in err or b"goroutine " in err:
        return "panic"
    if b"nternal coding error" in err:
        return "internal"
    if st == 0:
        return "ok"
    if b"mlr" in err:
        return "mlr_error"
    return "silent-failure"


def gen_bif_table(ctx, exe):
    tier3 = "all" if ctx.tier == "thorough" else QUICK3
    with ctx.timed("bif_matrix"):
        m12 = run_matrix(ctx, exe, 0, 2, "all")
        m3 = run_matrix(ctx, exe, 3, 3, tier3)
    reps12, reps3 = load_reps(exe, "all"), load_reps(exe, tier3)
    rc, out, err = sh([exe, "bif-list", "3"])
    rows = []
    for l in out.splitlines():
        p = l.split("\t")
        if p[0] == "F":
            n = bytes.fromhex(p[2]).decode("latin1")
            if n not in rows:
                rows.append(n)
    for n, why in m12["skipped"]:
        rows.append(n)
    shards = m12["shards"] + m3["shards"]
    lines = ["(* REGENERATED on every run by harness/py/checks/c18.py from the real built-in function table",
             "   (pkg/dsl/cst/builtin_function_manager.go) via `implrun bif-matrix`: each (function, arity) row applied to EVERY",
             "   tuple of the argument-kind representatives; outcome codes v/e/a/F are fine (value, error value, absent,",
             "   fatal `mlr:` error with non-zero exit); bad runs list (first tuple, length, ascii code of P/H/R/I/U/Z/S/X). *)",
             "From Miller Require Import Base.Bytes.", "Open Scope N_scope.",
             "Definition gen_bif_rows : list bytes := [" + "; ".join(coq_bytes(n.encode("latin1")) for n in rows) + "].",
             "Definition gen_bif_skipped : list bytes := [" + "; ".join(coq_bytes(n.encode()) for n, _ in m12["skipped"]) + "].",
             "Definition gen_bif_shards : list (bytes * N * N * N * list (N * N * N)) := ["]
    ent = []
    totals = {"tuples": 0, "ok": 0, "bad": 0}
    codecount = {}
    for s in shards:
        pos, nok, bad = 0, 0, []
        for c, k in s["rle"]:
            codecount[c] = codecount.get(c, 0) + k
            if c in OKCODES:
                nok += k
            else:
                bad.append("(%d, %d, %d)" % (pos, k, ord(c)))
            pos += k
        s["nok"], s["nbadruns"] = nok, len(bad)
        totals["tuples"] += pos; totals["ok"] += nok; totals["bad"] += pos - nok
        ent.append("(%s, %d, %d, %d, [%s])" % (coq_bytes(s["name"].encode("latin1")), s["arity"], s["nreps"], nok, "; ".join(bad)))
    lines.append(";\n".join(ent))
    lines.append("].")
    write_if_changed(GEN / "Gen_BifOutcomes.v", "\n".join(lines) + "\n")
    ctx.cov["bif_matrix"] = {"table_rows": m12["nrows"], "rows_walked": len(rows) - len(m12["skipped"]),
                             "skipped_functions": dict(m12["skipped"]), "shards": len(shards), "tuples": totals["tuples"],
                             "outcome_counts": codecount, "representatives_arity_le2": [r["name"] for r in reps12],
                             "representatives_arity3": [r["name"] for r in reps3], "exit_hook": m12["hooked"]}
    ctx.dist("bif_tuples_arity_le2", sum(s["total"] for s in m12["shards"]))
    ctx.dist("bif_tuples_arity3", sum(s["total"] for s in m3["shards"]))
    ctx.cov["evaluations"] += totals["tuples"]
    for s in shards:
        ctx._distinct.add(hashlib.sha1(repr((s["name"], s["arity"], s["rle"])).encode()).digest()[:8])
    return [(m12, reps12), (m3, reps3)]


def bif_oracle(ctx, mats):
    """every non-ok tuple is a failing input; one violation per (class), with the first CLI-expressible witness replayed."""
    by_class = {}
    for m, reps in mats:
        for s in m["shards"]:
            pos = 0
            for c, k in s["rle"]:
                if c == EXCLUDED:
                    ctx.cov["bif_matrix"].setdefault("tuples_excluded_by_policy", {}).setdefault("%s/%d" % (s["name"], s["arity"]), 0)
                    ctx.cov["bif_matrix"]["tuples_excluded_by_policy"]["%s/%d" % (s["name"], s["arity"])] += k
                elif c not in OKCODES:
                    cls = bif_class(s["name"], c)
                    e = by_class.setdefault(cls, {"n": 0, "functions": set(), "witnesses": []})
                    e["n"] += k
                    e["functions"].add("%s/%d" % (s["name"], s["arity"]))
                    if len(e["witnesses"]) < 40:
                        msgs = {t: msg for t, cc, msg in m["details"].get((s["name"], s["arity"]), [])}
                        for t in range(pos, min(pos + k, pos + 3)):
                            e["witnesses"].append((s["name"], s["arity"], c, t, tuple_args(t, s["arity"], reps), msgs.get(t, "")))
                pos += k
    ctx.cov["bif_bad_classes"] = {c: {"tuples": e["n"], "functions": sorted(e["functions"])} for c, e in by_class.items()}
    # report (never edit) lines of the committed exception list that no longer occur in the regenerated table
    present = set()
    for m, reps in mats:
        for s in m["shards"]:
            for c, k in s["rle"]:
                if c not in OKCODES:
                    present.add((s["name"], ord(c)))
    listed = re.findall(r'\(B "([^"]+)", (\d+)\)', strip_coq_comments((COQ / "C18/Exceptions.v").read_text()))
    stale = ["%s/%s" % (n, chr(int(c))) for n, c in listed if (n, int(c)) not in present]
    ctx.cov["stale_exceptions"] = {"note": "pairs of coq/C18/Exceptions.v absent from this run's table; delete them by hand (with the thorough tier as reference: the quick tier samples arity 3)",
                                   "tier": ctx.tier, "pairs": stale}
    if stale:
        print("[C18] stale exception lines (report only): " + " ".join(stale), flush=True)

    def confirm(item):
        cls, e = item
        tried = []
        for name, ar, code, t, args, msg in e["witnesses"]:
            if code == "S":
                continue
            prog = dsl_call(name, args)
            if prog is None:
                continue
            c, st, out, err = cli_dsl(ctx, prog, timeout=12 if code in "HR" else 25)
            tried.append((name, [a["name"] for a in args], c))
            if c in ("panic", "internal", "hang", "silent-failure") or (code in "HR" and c != "ok" and c != "mlr_error"):
                return cls, e, {"function": name, "arity": ar, "args": [a["name"] for a in args], "matrix_outcome": BADCODES[code],
                                "matrix_message": msg[:300], "cli_program": prog, "cli_class": c, "cli_exit": st,
                                "cli_stderr": err.decode("utf-8", "replace")[:600]}, tried
            if len(tried) >= 4:
                break
        return cls, e, None, tried
    with ctx.timed("bif_cli_confirm"):
        with cf.ThreadPoolExecutor(min(8, NJOBS)) as ex:
            results = list(ex.map(confirm, sorted(by_class.items())))
    for cls, e, hit, tried in results:
        ctx.count(("bif-class", cls))
        rep = {"class": cls, "broken": "C18_bif_no_panic_or_hang (outcome table regenerated from the built-in function table)",
               "tuples_in_class": e["n"], "functions": sorted(e["functions"]),
               "expected": "value, error value, absent, or `mlr:` error with non-zero exit", "part": "bif"}
        if hit:
            rep.update(hit)
            rep["input"] = "mlr -n put '%s'" % hit["cli_program"]
            rep["observed"] = "%s: %s" % (hit["cli_class"], hit["cli_stderr"][:200])
            ctx.violation(rep)
        else:
            name, ar, code, t, args, msg = e["witnesses"][0]
            rep.update({"function": name, "arity": ar, "args": [a["name"] for a in args], "matrix_outcome": BADCODES[code],
                        "matrix_message": msg[:300], "cli_attempts": tried,
                        "input": "implrun bif-matrix: %s(%s)" % (name, ", ".join(a["name"] for a in args)),
                        "observed": BADCODES[code] + " " + msg[:200],
                        "note": "seen when the table row is invoked directly (as the callsite node does); not reproduced through DSL text"})
            ctx.violation(rep)
    return by_class


# ---------------------------------------------------------------------------------------------------------------
# in-process mlr pool
# ---------------------------------------------------------------------------------------------------------------
def inproc_group(exe, reqs, timeout_ms=8000):
    """run requests (dicts with id,args,stdin bytes) sequentially in worker processes, restarting after a death.
    returns {id: response dict}; a request in flight when the worker dies gets class 'died' + the stderr tail."""
    res, todo = {}, list(reqs)
    guard = 0
    while todo and guard < 60:
        guard += 1
        payload = "".join(json.dumps({"id": r["id"], "args": r["args"], "stdin": r.get("stdin", b"").hex(), "timeout_ms": timeout_ms}) + "\n" for r in todo)
        try:
            p = subprocess.run([exe, "mlr-inproc"], input=payload.encode(), capture_output=True,
                               timeout=60 + len(todo) * (timeout_ms / 1000.0 + 1), env=dict(os.environ, **SAFE_ENV, **({"TMPDIR": SANDBOX["dir"]} if SANDBOX["dir"] else {})), cwd=SANDBOX["dir"])
            out, err, rc = p.stdout, p.stderr, p.returncode
        except subprocess.TimeoutExpired as e:
            out, err, rc = e.stdout or b"", e.stderr or b"", 124
        got = 0
        for line in out.splitlines():
            try:
                r = json.loads(line)
            except Exception:
                continue
            r["stderr"] = bytes.fromhex(r.get("stderr", ""))
            r["out"] = bytes.fromhex(r.get("out", ""))
            res[r["id"]] = r
            got += 1
        todo = todo[got:]
        last_fatal = got > 0 and res[reqs[len(reqs) - len(todo) - 1]["id"]]["class"] in ("hang", "runaway")
        if todo and not last_fatal:
            # worker died while handling todo[0]
            r = todo.pop(0)
            res[r["id"]] = {"id": r["id"], "class": "died", "code": rc, "stderr": err[-3000:], "out": b"", "out_len": 0}
    for r in todo:
        res[r["id"]] = {"id": r["id"], "class": "not-run", "code": -1, "stderr": b"", "out": b"", "out_len": 0}
    return res


def inproc_many(exe, groups, timeout_ms=8000):
    out = {}
    with cf.ThreadPoolExecutor(NJOBS) as ex:
        for r in ex.map(lambda g: inproc_group(exe, g, timeout_ms), groups):
            out.update(r)
    return out


def inproc_class(r):
    err = r["stderr"]
    if r["class"] in ("hang", "runaway"):
        return "hang"
    if r["class"] in ("died", "panic") or b"panic:" in err or b"fatal error:" in err or b"goroutine " in err:
        return "panic"
    if b"nternal coding error" in err:
        return "internal"
    if r["class"] == "ok":
        return "ok"
    if r["class"] == "exit":
        return "mlr_error" if b"mlr" in err else "silent-failure"
    return r["class"]


# ---------------------------------------------------------------------------------------------------------------
# part 2: reader mutations
# ---------------------------------------------------------------------------------------------------------------
SEEDS = {
    "csv": [b"a,b,c\n1,2,3\n4,5,6\n", b'a,b\n"x,1","y ""q"" z"\n"multi\nline",2\n', b"\xef\xbb\xbfa,b\n1,2\n", b"a,b,c\n1,2,3\n\nd,e\n7,8\n"],
    "csvlite": [b"a,b,c\n1,2,3\n4,5,6\n", b"a,b\n1,2\n\nc,d,e\n3,4,5\n", b'a,b\n"x,1",2\n'],
    "tsv": [b"a\tb\tc\n1\t2\t3\n4\t5\t6\n", b"a\tb\nx\\ty\tz\\\\w\n\\n\t\n"],
    "json": [b'[{"a":1,"b":{"c":[1,2,{"d":null}]},"e":"s\\u00e9\\n"},{"a":2.5e3,"b":true}]', b'{"a":1}\n{"a":2,"b":"x"}\n', b'{"a":"\\ud83d\\ude00","b":[],"c":{}}'],
    "jsonl": [b'{"a":1,"b":{"c":[1,2]}}\n{"a":2}\n'],
    "dkvp": [b"a=1,b=2,c=3\nx=4,y=5\n", b"a=1,,b,=3,c=\n\nq\n"],
    "nidx": [b"a b  c\nd e f\n", b"  x   y\n\n z\n"],
    "xtab": [b"a 1\nbcd 2\n\na 3\nbcd 4\n", b"x    hello world\ny\n\n\n\nz 3\n"],
    "pprint": [b"a   b   c\n1   2   3\n4   5   6\n", b"+-----+-----+\n| a   | b   |\n+-----+-----+\n| 1   | 2   |\n| 3   | -   |\n+-----+-----+\n",
               b"a b\n1 2\n\nc d e\n3 4 5\n"],
    "markdown": [b"| a | b |\n| --- | --- |\n| 1 | 2 |\n| 3 | 4 |\n"],
    "dkvpx": [b'a=1,b="x,y",c="q ""r"""\nd=4\n', b'a="multi\nline",b=2\n'],
    "yaml": [b"- a: 1\n  b:\n    c: [1, 2]\n- a: 2\n  b: x\n", b"a: 1\nb: {c: d}\n---\na: 2\n"],
    "usv": [b"a\xe2\x90\x9fb\xe2\x90\x9e1\xe2\x90\x9f2\xe2\x90\x9e"],
    "asv": [b"a\x1fb\x1e1\x1f2\x1e"],
    "dcf": [b"Package: x\nDepends: a,\n b\n\nPackage: y\n"],
    "recutils": [b"name: x\nv: 1\n+ more\n\nname: y\n"],
}
FMT_FLAG = {"csv": ["--icsv"], "csvlite": ["--icsvlite"], "tsv": ["--itsv"], "json": ["--ijson"], "jsonl": ["--ijsonl"], "dkvp": ["--idkvp"],
            "nidx": ["--inidx"], "xtab": ["--ixtab"], "pprint": ["--ipprint"], "markdown": ["--imd"], "dkvpx": ["--idkvpx"], "yaml": ["--iyaml"],
            "usv": ["--iusv"], "asv": ["--iasv"], "dcf": ["--idcf"], "recutils": ["--irec"]}
OPTSETS = {
    "default": [], "ragged": ["--allow-ragged-csv-input"], "lazy": ["--lazy-quotes"], "implicit": ["--implicit-csv-header"],
    "headerless-in": ["--implicit-csv-header", "--allow-ragged-csv-input"], "ifs-multi": ["--ifs", ";;"], "ifs-regex": ["--ifs-regex", "[,;\t ]+"],
    "repifs": ["--repifs"], "S": ["-S"], "A": ["-A"], "O": ["-O"], "batch1": ["--records-per-batch", "1"], "ips-regex": ["--ips-regex", "[=:]+"],
    "irs-semi": ["--irs", ";"], "quote-original": ["--quote-original"], "csv-trim": ["--csv-trim-leading-space"], "skip-comments": ["--skip-comments"],
    "pass-comments": ["--pass-comments"], "no-dedupe": ["--no-dedupe-field-names"], "barred-in": ["--barred-input"], "bom-utf16": ["--ifs", "tab"],
}
OPTS_FOR = {
    "csv": ["default", "ragged", "lazy", "implicit", "headerless-in", "ifs-multi", "ifs-regex", "S", "A", "O", "batch1", "irs-semi", "csv-trim", "skip-comments", "pass-comments", "no-dedupe", "quote-original"],
    "csvlite": ["default", "ragged", "implicit", "ifs-multi", "ifs-regex", "batch1", "skip-comments", "no-dedupe"],
    "tsv": ["default", "ragged", "implicit", "headerless-in", "batch1", "S", "skip-comments", "no-dedupe", "ifs-multi"],
    "json": ["default", "S", "A", "batch1", "skip-comments"], "jsonl": ["default", "batch1"],
    "dkvp": ["default", "ifs-multi", "ifs-regex", "ips-regex", "repifs", "S", "O", "batch1", "irs-semi", "no-dedupe", "pass-comments"],
    "nidx": ["default", "ifs-multi", "ifs-regex", "repifs", "batch1", "irs-semi"],
    "xtab": ["default", "ips-regex", "batch1", "repifs"], "pprint": ["default", "barred-in", "batch1", "ragged", "ifs-regex"],
    "markdown": ["default", "batch1"], "dkvpx": ["default", "batch1", "lazy", "ifs-multi"], "yaml": ["default", "batch1"],
    "usv": ["default", "ragged"], "asv": ["default", "implicit"], "dcf": ["default", "batch1"], "recutils": ["default", "batch1"],
}
# ---- second wave of option sets: every reader-affecting flag of `mlr help flags`, run on the valid seeds, on wide
# records with repeated keys / header names (9-40 fields; 1, 30 and 600 records, i.e. less and more than one batch) and on a
# couple of mutants.  (A record arena that mis-counts its slabs only shows with --no-dedupe-field-names + a repeated key +
# enough fields per batch: option x document-shape combinations matter, not either alone.)
LINEFMTS = ["dkvp", "nidx", "xtab", "csv", "csvlite", "tsv", "pprint", "markdown"]
EXTRA_OPTSETS = {
    "no-dedupe": ["--no-dedupe-field-names"], "dedupe": ["--dedupe-field-names"],
    "no-dedupe+batch1": ["--no-dedupe-field-names", "--records-per-batch", "1"], "no-dedupe+batch7": ["--no-dedupe-field-names", "--records-per-batch", "7"],
    "dedupe+batch1": ["--dedupe-field-names", "--records-per-batch", "1"], "batch7": ["--records-per-batch", "7"], "batch-huge": ["--records-per-batch", "100000"],
    "no-dedupe+ragged": ["--no-dedupe-field-names", "--allow-ragged-csv-input"], "no-dedupe+implicit": ["--no-dedupe-field-names", "--implicit-csv-header"],
    "no-dedupe+hash": ["--no-dedupe-field-names", "--hash-records"], "hash-records": ["--hash-records"], "no-hash-records": ["--no-hash-records"],
    "nr-progress": ["--nr-progress-mod", "1"], "skip-comments-with": ["--skip-comments-with", "%%"], "pass-comments-with": ["--pass-comments-with", "a"],
    "gzin-on-plain": ["--gzin"], "zin-on-plain": ["--zin"], "bz2in-on-plain": ["--bz2in"], "zstdin-on-plain": ["--zstdin"],
    "ifs-alias": ["--ifs", "semicolon"], "ifs-pipe": ["--ifs", "pipe"], "ips-alias": ["--ips", "colon"], "irs-alias": ["--irs", "crlf"], "irs-multi": ["--irs", ";;"],
    "fs-ps-rs": ["--fs", ";", "--ps", ":", "--rs", "lf"], "repifs": ["--repifs"], "ifs-regex-ws": ["--ifs-regex", " +"], "ips-regex-2": ["--ips-regex", "[ :=]+"],
    "ifs-empty": ["--ifs", ""], "ips-empty": ["--ips", ""],
    "dash-N": ["-N"], "no-implicit": ["--no-implicit-csv-header"], "ragged+implicit+lazy": ["--allow-ragged-csv-input", "--implicit-csv-header", "--lazy-quotes"],
    "csv-trim": ["--csv-trim-leading-space"], "quote-all-in": ["--quote-all"],
    "fixed-left": ["--fixed", "left-align"], "fixed-multi": ["--fw", "x"], "fixed-right": ["--fixed", "right-align"], "fixed-widths": ["--fixed", "widths:2,3,40"],
    "fixed-widths-bad": ["--fixed", "widths:0,-1,x"], "barred-in": ["--barred-input"], "right-in": ["--right"],
    "dash-i": [], "tz": ["--tz", "Asia/Tokyo"], "ofmt": ["--ofmt", "%.3lf"], "dash-x": ["-x"], "infer-S+no-dedupe": ["-S", "--no-dedupe-field-names"],
    "json-skip-arrays": ["--json-skip-arrays-on-input"], "json-map-arrays": ["--json-map-arrays-on-input"], "json-fatal-arrays": ["--json-fatal-arrays-on-input"],
    "jvquoteall": ["--jvquoteall"], "jknquoteint": ["--jknquoteint"],
}
COMMON_EXTRA = ["no-dedupe", "dedupe", "no-dedupe+batch1", "no-dedupe+batch7", "dedupe+batch1", "batch7", "batch-huge", "no-dedupe+hash", "hash-records",
                "no-hash-records", "nr-progress", "skip-comments-with", "pass-comments-with", "gzin-on-plain", "zin-on-plain", "bz2in-on-plain", "zstdin-on-plain",
                "irs-alias", "irs-multi", "repifs", "dash-x", "infer-S+no-dedupe"]
EXTRA_FOR = {
    "dkvp": COMMON_EXTRA + ["ifs-alias", "ifs-pipe", "ips-alias", "fs-ps-rs", "ifs-regex-ws", "ips-regex-2", "ifs-empty", "ips-empty"],
    "nidx": COMMON_EXTRA + ["ifs-alias", "ifs-pipe", "fs-ps-rs", "ifs-regex-ws", "ifs-empty"],
    "xtab": COMMON_EXTRA + ["ips-alias", "ips-regex-2", "ips-empty", "ifs-empty", "fs-ps-rs"],
    "csv": COMMON_EXTRA + ["no-dedupe+ragged", "no-dedupe+implicit", "ifs-alias", "ifs-pipe", "ifs-empty", "dash-N", "no-implicit", "ragged+implicit+lazy", "quote-all-in"],
    "csvlite": COMMON_EXTRA + ["no-dedupe+ragged", "no-dedupe+implicit", "ifs-alias", "ifs-pipe", "ifs-empty", "dash-N", "no-implicit", "ragged+implicit+lazy", "csv-trim"],
    "tsv": COMMON_EXTRA + ["no-dedupe+ragged", "no-dedupe+implicit", "ifs-alias", "ifs-empty", "dash-N", "no-implicit"],
    "pprint": COMMON_EXTRA + ["no-dedupe+ragged", "fixed-left", "fixed-multi", "fixed-right", "fixed-widths", "fixed-widths-bad", "barred-in", "right-in", "ifs-alias", "ifs-empty"],
    "markdown": COMMON_EXTRA + ["no-dedupe+ragged", "ifs-empty"],
    "json": ["no-dedupe", "dedupe", "no-dedupe+batch1", "json-skip-arrays", "json-map-arrays", "json-fatal-arrays", "jvquoteall", "jknquoteint", "gzin-on-plain", "nr-progress"],
    "jsonl": ["no-dedupe", "no-dedupe+batch1", "json-skip-arrays"], "dkvpx": ["no-dedupe", "no-dedupe+batch1", "ifs-empty", "ips-empty", "batch7"],
    "yaml": ["no-dedupe", "batch7"], "usv": ["no-dedupe", "no-dedupe+batch1"], "asv": ["no-dedupe", "no-dedupe+batch1"],
    "dcf": ["no-dedupe", "no-dedupe+batch1"], "recutils": ["no-dedupe", "no-dedupe+batch1"], "tsvlite": ["no-dedupe", "no-dedupe+ragged", "batch7", "no-dedupe+implicit"],
}
# reader flags of `mlr help flags` that no option set uses, with the reason (written into the evidence)
FLAGS_NOT_COVERED = {"--prepipe": "runs a shell command (MLR_NO_SHELL is set for every run of this check)", "--prepipex": "same", "--prepipe-bz2": "same",
                     "--prepipe-gunzip": "same", "--prepipe-zcat": "same", "--prepipe-zstdcat": "same", "--files": "file-name plumbing, not a reader option (C05)",
                     "--mfrom": "same", "--from": "used implicitly by the @FILE@ cases of the special inputs", "-I": "in-place mode is C19", "-s": "argument file, not a reader option",
                     "--load/--mload": "DSL", "--profile": ".mlrrc is disabled for every run", "--mmap/--no-mmap": "ignored by Miller 6"}


def wide_docs(fmt, rng):
    """wide records (9-40 fields) with repeated keys / header names: one record, 30 records, 600 records (> one default batch of 500)"""
    docs = []
    for nf, nrec in ((9, 1), (9, 30), (17, 1), (40, 3), (9, 600), (12, 30)):
        keys = ["k%d" % i for i in range(nf)]
        keys[1] = keys[0]                      # a repeat right at the start
        if nf > 10:
            keys[nf - 2] = keys[3]             # and one near the end
        if nf == 12:
            keys = ["a"] * nf                  # every key the same
        rows = [[("v%d_%d" % (r, i)) for i in range(nf)] for r in range(nrec)]
        e = lambda x: x.encode()
        if fmt in ("dkvp", "dkvpx"):
            d = b"".join(b",".join(e(k) + b"=" + e(v) for k, v in zip(keys, row)) + b"\n" for row in rows)
        elif fmt == "nidx":
            d = b"".join(b" ".join(e(v) for v in row) + b"\n" for row in rows)
        elif fmt == "xtab":
            d = b"\n".join(b"".join(e(k) + b" " + e(v) + b"\n" for k, v in zip(keys, row)) for row in rows)
        elif fmt in ("csv", "csvlite", "tsv", "tsvlite", "usv", "asv"):
            fs = {"tsv": b"\t", "tsvlite": b"\t", "usv": b"\xe2\x90\x9f", "asv": b"\x1f"}.get(fmt, b",")
            rs = {"usv": b"\xe2\x90\x9e", "asv": b"\x1e"}.get(fmt, b"\n")
            d = fs.join(e(k) for k in keys) + rs + b"".join(fs.join(e(v) for v in row) + rs for row in rows)
        elif fmt == "pprint":
            d = b" ".join(e(k) for k in keys) + b"\n" + b"".join(b" ".join(e(v) for v in row) + b"\n" for row in rows)
        elif fmt == "markdown":
            d = b"| " + b" | ".join(e(k) for k in keys) + b" |\n| " + b" | ".join(b"---" for k in keys) + b" |\n" + \
                b"".join(b"| " + b" | ".join(e(v) for v in row) + b" |\n" for row in rows)
        elif fmt in ("json", "jsonl"):
            objs = [b"{" + b",".join(b'"' + e(k) + b'":"' + e(v) + b'"' for k, v in zip(keys, row)) + b"}" for row in rows]
            d = (b"[" + b",\n".join(objs) + b"]") if fmt == "json" else b"\n".join(objs) + b"\n"
        elif fmt == "yaml":
            d = b"".join(b"- " + b"\n  ".join(e(k) + b": " + e(v) for k, v in zip(keys, row)) + b"\n" for row in rows)
        elif fmt in ("dcf", "recutils"):
            d = b"\n".join(b"".join(e(k) + b": " + e(v) + b"\n" for k, v in zip(keys, row)) for row in rows)
        else:
            continue
        docs.append(("wide-repeated-keys-%dx%d" % (nf, nrec), d))
    return docs


NASTY = [b'"', b'""', b"'", b"\\", b"\x00", b"\xff", b"\xc3", b"\xef\xbb\xbf", b"\r", b"\r\n", b"\n\n", b",", b"\t", b" ", b"=", b"|", b"+", b"-", b"#",
         b"{", b"}", b"[", b"]", b":", b"null", b"\\u", b"\\ud800", b"1e999", b"-", b"- ", b"---\n", b"&a", b"*a", b"!!", b"%", b"\xe2\x90\x9f", b"\x1f", b"\x1e"]


FMT_SEP = {"csv": b",", "csvlite": b",", "tsv": b"\t", "dkvp": b",", "nidx": b" ", "pprint": b" ", "markdown": b" | ", "xtab": b" ",
           "dkvpx": b",", "usv": b"\xe2\x90\x9f", "asv": b"\x1f", "json": b",", "jsonl": b",", "yaml": b": ", "dcf": b": ", "recutils": b": "}


def mutate(rng, doc, fsep=None):
    """grammar-aware-ish mutation of a valid document; returns (kind, bytes)"""
    k = rng.randrange(14)
    n = len(doc)
    i = rng.randrange(n + 1)
    lines = doc.split(b"\n")
    if k == 0:
        return "truncate", doc[:i]
    if k == 1:
        return "insert-nasty", doc[:i] + rng.choice(NASTY) + doc[i:]
    if k == 2:
        j = min(n, i + rng.randint(1, 4))
        return "delete", doc[:i] + doc[j:]
    if k == 3:
        return "replace-nasty", doc[:i] + rng.choice(NASTY) + doc[i + 1:]
    if k == 4:
        return "huge-field", doc[:i] + rng.choice([b"x", b"9", b'"', b" ", b"a,"]) * rng.choice([1000, 70000]) + doc[i:]
    if k == 5:
        return "crlf", doc.replace(b"\n", b"\r\n") if rng.random() < 0.5 else doc.replace(b"\n", b"\r")
    if k == 6:
        return "dup-line", b"\n".join(lines[:1] + lines[:1] + lines[1:]) if rng.random() < 0.5 else b"\n".join(lines + lines[-2:])
    if k == 7 and lines:
        li = rng.randrange(len(lines))
        sep = fsep if (fsep and rng.random() < 0.7) else rng.choice([b",", b"\t", b" ", b"|", b"="])
        lines[li] = lines[li] + sep + b"extra" if rng.random() < 0.5 else lines[li].rsplit(sep, 1)[0]
        return "longer-shorter-line", b"\n".join(lines)
    if k == 8:
        return "empty-header-field", (b",") + doc if rng.random() < 0.5 else doc.replace(b"a", b"", 1)
    if k == 9:
        return "dup-header-field", doc.replace(b"b", b"a", 1)
    if k == 10:
        return "swap-bytes", doc[:i] + bytes(reversed(doc[i:i + 3])) + doc[i + 3:]
    if k == 11:
        return "random-byte", doc[:i] + bytes([rng.randrange(256)]) + doc[i + 1:]
    if k == 12:
        return "bom", rng.choice([b"\xef\xbb\xbf", b"\xff\xfe", b"\xfe\xff"]) + doc
    return "no-final-newline", doc.rstrip(b"\n") if rng.random() < 0.5 else doc + b"\n\n\n"


def main_flags_with_argument(ctx):
    """[[spelling, alternative spellings...]] of the main flags that take an argument, from the binary's own `mlr help flags`"""
    st, out, err = run_cli(ctx, ["help", "flags"], b"", timeout=60)
    res = []
    for m in re.finditer(rb"(?m)^(-\S+(?: or -\S+)*) \{[^}\n]*\}", out):
        names = [n.decode() for n in m.group(1).split(b" or ")]
        if names not in res:
            res.append(names)
    ctx.cov["main_flags_with_argument"] = [n[0] for n in res]
    return res


def reader_cases(ctx):
    rng = ctx.rng
    per = 6 if ctx.tier == "quick" else 120
    cases = []
    for fmt, seeds in SEEDS.items():
        for oname in OPTS_FOR[fmt]:
            docs = [("valid", s) for s in seeds] + [("empty", b""), ("only-newline", b"\n"), ("only-nasty", rng.choice(NASTY) * 3)]
            # truncation at every byte of the smallest seed, for the default option set
            if oname in ("default", "batch1", "lazy"):
                small = min(seeds, key=len)
                step = 1 if ctx.tier == "thorough" else (2 if oname == "default" else 5)
                docs += [("truncate-every-byte", small[:i]) for i in range(1, len(small), step)]
            for _ in range(per):
                d = rng.choice(seeds)
                kind, m = mutate(rng, d, FMT_SEP.get(fmt))
                if rng.random() < 0.3:
                    k2, m = mutate(rng, m, FMT_SEP.get(fmt))
                    kind += "+" + k2
                docs.append((kind, m))
            # data lines longer / shorter than the header, with the format's own separator
            for d in seeds[:2]:
                ls = d.split(b"\n")
                for li in range(1, min(len(ls), 4)):
                    if ls[li]:
                        docs.append(("longer-line", b"\n".join(ls[:li] + [ls[li] + FMT_SEP[fmt] + b"extra"] + ls[li + 1:])))
                        docs.append(("shorter-line", b"\n".join(ls[:li] + [ls[li].rsplit(FMT_SEP[fmt], 1)[0]] + ls[li + 1:])))
            if oname in ("default", "batch1", "no-dedupe", "ragged"):
                docs += wide_docs(fmt, rng)
            for kind, d in docs:
                cases.append({"fmt": fmt, "opt": oname, "kind": kind, "args": FMT_FLAG[fmt] + OPTSETS[oname] + ["--ojson", "cat"], "stdin": d})
    # second wave: every other reader flag x (valid seeds, wide records with repeated keys, a few mutants)
    nmut = 2 if ctx.tier == "quick" else 30
    for fmt, onames in EXTRA_FOR.items():
        seeds = SEEDS.get(fmt) or SEEDS["tsv"]
        wides = wide_docs(fmt, rng)
        for oname in onames:
            docs = [("valid", s) for s in seeds[:2]] + [("empty", b"")]
            docs += wides if ("dedupe" in oname or "batch" in oname or "hash" in oname or ctx.tier == "thorough") else wides[:2]
            if oname.endswith("-empty"):
                docs = docs[:2] + wides[:1]        # an empty separator may hang: keep the cost of a confirmed hang small
            for _ in range(0 if oname.endswith("-empty") else nmut):
                kind, m = mutate(rng, rng.choice(seeds + [wides[0][1]]), FMT_SEP.get(fmt))
                docs.append((kind, m))
            flag = FMT_FLAG.get(fmt, ["--i" + fmt])
            for kind, d in docs:
                cases.append({"fmt": fmt, "opt": oname, "kind": kind, "args": flag + EXTRA_OPTSETS[oname] + ["--ojson", "cat"], "stdin": d})
    # third wave: option VALUES.  Every main flag that takes an argument (regenerated from `mlr help flags`: lines `--flag {arg}`) x short / empty /
    # garbage / negative / huge values (a spec shorter than a prefix the code slices off, a zero modulus, a negative channel size ...)
    fl = main_flags_with_argument(ctx)
    FLAG_VALUES = ["", "a", "abc", "-1", "0", "1e9", "x:y", "\xff", ";", "widths:", ",", "9223372036854775808", "left-align-multi-word "]
    some_fmts = ["csv", "dkvp", "pprint", "xtab", "nidx", "json", "tsv", "markdown"]
    for names in fl:
        for f in (names if ctx.tier == "thorough" else names[:1]):
            for v in FLAG_VALUES:
                fmts = some_fmts if ctx.tier == "thorough" else [rng.choice(some_fmts)]
                if ("fixed" in f or f == "--fw") and "pprint" not in fmts:
                    fmts = fmts + ["pprint"]
                for fmt in fmts:
                    cases.append({"fmt": fmt, "opt": "value:" + f, "kind": "flag-value", "args": FMT_FLAG[fmt] + [f, v, "--ojson", "cat"], "stdin": rng.choice(SEEDS[fmt][:2])})
    # the input-format spellings themselves
    for fmt, seeds in SEEDS.items():
        name = {"markdown": "markdown", "recutils": "recutils"}.get(fmt, fmt)
        cases.append({"fmt": fmt, "opt": "dash-i", "kind": "valid", "args": ["-i", name, "--ojson", "cat"], "stdin": seeds[0]})
        cases.append({"fmt": fmt, "opt": "dash-io", "kind": "valid", "args": ["--io", name, "cat"], "stdin": seeds[0]})
        cases.append({"fmt": fmt, "opt": "two-way", "kind": "valid", "args": ["--" + {"markdown": "md"}.get(fmt, fmt), "cat"], "stdin": seeds[0]})
    # the record generator pseudo-reader
    for extra in ([], ["--gen-start", "1", "--gen-stop", "10", "--gen-step", "3"], ["--gen-start", "10", "--gen-stop", "1", "--gen-step", "-4"],
                  ["--gen-field-name", "", "--gen-stop", "3"], ["--gen-start", "9223372036854775806", "--gen-stop", "9223372036854775807"],
                  ["--gen-start", "x"], ["--gen-stop", "1.5"], ["--gen-start", "5", "--gen-stop", "1"]):
        cases.append({"fmt": "gen", "opt": "igen", "kind": "valid", "args": ["--igen"] + extra + ["--ojson", "cat"], "stdin": b""})
    return cases


def reader_part(ctx, exe):
    cases = reader_cases(ctx)
    groups = {}
    for i, c in enumerate(cases):
        c["id"] = i
        # one worker per format; the option sets that switch process-global state (type inference) get their own
        glob = c["opt"] if c["opt"] in ("S", "A", "O", "infer-S+no-dedupe") else ("flag-value" if c["kind"] == "flag-value" else "plain")
        groups.setdefault((c["fmt"], glob), []).append(c)
        ctx.dist("reader:" + c["fmt"]); ctx.dist("reader-mutation:" + c["kind"].split("+")[0])
    with ctx.timed("reader_inproc"):
        res = inproc_many(exe, list(groups.values()))
    tally, suspects = {}, []
    for c in cases:
        r = res.get(c["id"])
        cl = inproc_class(r) if r else "not-run"
        c["class"] = cl
        tally[cl] = tally.get(cl, 0) + 1
        ctx.count(("reader", c["fmt"], c["opt"], c["stdin"]))
        if cl not in ("ok", "mlr_error"):
            suspects.append(c)
    used = sorted({a for c in cases for a in c["args"] if a.startswith("-") and a not in ("--ojson",) and not re.fullmatch(r"-?\d+(\.\d+)?", a)})
    ctx.cov["reader_mutation"] = {"cases": len(cases), "in_process_classes": tally, "formats": sorted(set(c["fmt"] for c in cases)),
                                  "option_sets": dict(OPTSETS, **EXTRA_OPTSETS), "reader_flags_covered": used, "reader_flags_not_covered": FLAGS_NOT_COVERED,
                                  "option_set_x_format_pairs": len({(c["fmt"], c["opt"]) for c in cases})}
    # confirm suspects with the real binary; tie a random sample of the rest to the binary's classification
    sample = [c for c in cases if c["class"] in ("ok", "mlr_error")]
    ctx.rng.shuffle(sample)
    sample = sample[:8 if ctx.tier == "quick" else 400]

    def cli(c):
        st, out, err = run_cli(ctx, c["args"], c["stdin"], timeout=8 if c.get("class") == "hang" else 25, max_out=20_000_000)
        return c, c18_classify(st, err), st, err
    seen_cls = set()
    with ctx.timed("reader_cli"):
        with cf.ThreadPoolExecutor(min(8, NJOBS)) as ex:
            confirmed = list(ex.map(cli, suspects[:24]))
            tied = list(ex.map(cli, sample))
    mism = [(c, k) for c, k, st, err in tied if k != c["class"]]
    # a disagreement must be reproducible to count (timing under load is not a property of mlr)
    mism = [(c, k) for c, k in mism if cli(c)[1] == k and inproc_class(inproc_group(exe, [c])[c["id"]]) == c["class"]]
    ctx.cov["reader_mutation"]["cli_sample"] = {"runs": len(tied), "class_mismatches_inproc_vs_binary": len(mism)}
    for c, k in mism[:3]:
        ctx.violation({"broken": "in-process driver and mlr binary classify differently", "args": c["args"], "stdin_hex": c["stdin"].hex(),
                       "inproc": c["class"], "binary": k, "part": "reader"}, found_input=False)
    unconfirmed = 0
    for c, k, st, err in confirmed:
        if k in ("ok", "mlr_error"):
            unconfirmed += 1
            continue
        cls = reader_class(c, k, err)
        if cls in seen_cls:
            continue
        seen_cls.add(cls)
        small = shrink_reader_witness(ctx, c["args"], c["stdin"], cls, c["fmt"], c.get("opt"))
        ctx.violation({"class": cls, "part": "reader", "input": "mlr %s  < stdin" % " ".join(c["args"]), "args": c["args"], "stdin_hex": small.hex(),
                       "stdin_hex_before_shrinking": c["stdin"].hex() if small != c["stdin"] else None,
                       "mutation": c["kind"], "observed": "%s exit=%s %s" % (k, st, err.decode("utf-8", "replace")[:500]),
                       "expected": "records or an `mlr:` error with non-zero exit"})
    ctx.cov["reader_mutation"]["suspects_inproc"] = len(suspects)
    ctx.cov["reader_mutation"]["suspects_not_reproduced_by_binary"] = unconfirmed
    return cases, res


def shrink_seq(items, still_fails, budget=40):
    """delta debugging (ddmin, complement removal only) over a sequence; still_fails(list) -> bool costs one mlr run"""
    n, used = 2, 0
    while len(items) >= 2 and used < budget:
        chunk = max(1, len(items) // n)
        reduced = False
        for i in range(0, len(items), chunk):
            cand = items[:i] + items[i + chunk:]
            used += 1
            if cand and still_fails(cand):
                items, n, reduced = cand, max(n - 1, 2), True
                break
            if used >= budget:
                break
        if not reduced:
            if chunk == 1:
                break
            n = min(len(items), n * 2)
    return items


def shrink_reader_witness(ctx, args, data, cls, fmt, opt=None):
    hang = cls.startswith("reader-hang")

    def fails(bs):
        st, out, err = run_cli(ctx, args, bytes(bs), timeout=5 if hang else 15)
        k = c18_classify(st, err)
        return k not in ("ok", "mlr_error") and reader_class({"fmt": fmt, "opt": opt}, k, err) == cls
    return bytes(shrink_seq(list(data), fails, budget=3 if hang else 40))


def shrink_dsl_witness(ctx, prog, rec, cls):
    toks = TOKEN_RE.findall(prog)

    def fails(ts):
        p = " ".join(ts)
        st, out, err = run_cli(ctx, ["put", p], rec, timeout=15)
        k = c18_classify(st, err)
        return k not in ("ok", "mlr_error") and dsl_class(p, k, err) == cls
    if not toks or not fails(toks):
        return prog
    return " ".join(shrink_seq(toks, fails))


def reader_class(c, k, err):
    if k == "hang" and c.get("opt"):
        return "reader-hang-%s-%s" % (c["fmt"], c["opt"])
    m = re.search(rb"pkg/([\w/-]+)/([\w.-]+\.go):(\d+)", err)
    where = (m.group(2).decode().replace(".go", "") if m else "unknown")
    return "reader-%s-%s-%s" % (k, c["fmt"], where)


def special_inputs(ctx):
    """directories and truncated compressed files as inputs (candidate: CSV readers loop for ever)"""
    import gzip
    d = Path(tempfile.mkdtemp(prefix="verif-c18-special."))
    try:
        gz = gzip.compress(b"a,b,c\n" + b"1,2,3\n" * 2000)
        (d / "trunc.csv.gz").write_bytes(gz[:len(gz) // 2])
        (d / "trunc.z").write_bytes(gz[:len(gz) // 2])
        (d / "sub").mkdir()
        runs = []
        fmts = ("csv", "csvlite", "tsv", "json", "dkvp", "xtab") if ctx.tier == "quick" else ("csv", "csvlite", "tsv", "json", "dkvp", "nidx", "xtab", "pprint", "markdown", "dkvpx", "yaml")
        for fmt in fmts:
            runs.append((fmt, "directory", FMT_FLAG[fmt] + ["--ojson", "cat", str(d / "sub")]))
            runs.append((fmt, "truncated-gzip", FMT_FLAG[fmt] + ["--ojson", "--gzin", "cat", str(d / "trunc.z")]))

        def go(r):
            st, out, err = mlr_run(ctx, r[2], b"", timeout=8, max_out=30_000_000, env=SAFE_ENV, cwd=SANDBOX["dir"])
            if st == "hang":
                # a loaded host can take longer than that to start a process: only a run that is still going after a LONG time is a hang
                st, out, err = mlr_run(ctx, r[2], b"", timeout=120, max_out=30_000_000, env=SAFE_ENV, cwd=SANDBOX["dir"])
            return r, c18_classify(st, err), st, len(out), err
        with ctx.timed("special_inputs"):
            with cf.ThreadPoolExecutor(min(8, NJOBS)) as ex:
                results = list(ex.map(go, runs))
        summary = {}
        for (fmt, what, args), k, st, nout, err in results:
            ctx.count(("special", fmt, what)); ctx.dist("special:" + what)
            summary["%s/%s" % (fmt, what)] = {"class": k, "exit": st, "stdout_bytes": nout}
            if k in ("hang", "panic", "internal"):
                ctx.violation({"class": "reader-%s-on-%s-%s" % (k, what, "csv-family" if fmt in ("csv", "csvlite") else fmt), "part": "reader",
                               "input": "mlr " + " ".join(a if not a.startswith(str(d)) else "<%s>" % what for a in args), "format": fmt, "what": what,
                               "observed": "%s (exit %s, %d bytes of output before the cap) %s" % (k, st, nout, err.decode("utf-8", "replace")[:300]),
                               "expected": "an `mlr:` error with non-zero exit (or records), in bounded time and output"})
        ctx.cov["special_inputs"] = summary
    finally:
        shutil.rmtree(d, ignore_errors=True)


# ---------------------------------------------------------------------------------------------------------------
# line-reader correspondence (DKVP / NIDX / TSV models in coq/C18/Model.v)
# ---------------------------------------------------------------------------------------------------------------
DUMP = 'o = ""; for (k,v in $*) { o = o . " " . format("{}:{}", bytes(k), bytes(v)) } print "R" . o'


def line_reader_correspondence(ctx, exe):
    rng = ctx.rng
    n = 150 if ctx.tier == "quick" else 3000
    alpha = {"dkvp": b"ab=,\n\r 1", "nidx": b"ab \t\n\r,1", "tsv": b"ab\t\n\r\\nt1"}
    reqs, meta = [], []
    for fmt, code in (("dkvp", 0), ("nidx", 1), ("tsv", 2)):
        docs = list(SEEDS[fmt]) + [b"", b"\n", b"\r\n", b"a", b"a\r", b"\n\n"]
        for s in SEEDS[fmt]:
            docs += [s[:i] for i in range(1, len(s))]
        for _ in range(n):
            if rng.random() < 0.5:
                docs.append(bytes(rng.choice(alpha[fmt]) for _ in range(rng.randint(0, 14))))
            else:
                docs.append(mutate(rng, rng.choice(SEEDS[fmt]), FMT_SEP[fmt])[1][:400])
        if fmt == "dkvp":
            docs += [b"a=1,a=2,a=3,a_2=9\n", b"a_2=1,a=2,a=3\n", b"=,=,=\n", b"a=b=c,=\n", b",,,\n", b"x,y,z\n", b"3=a,b,c\n", b"a=1,b\n"]
        if fmt == "tsv":
            docs += [b"a\ta\n1\t2\n", b"\n\n", b"\n1\n", b"a\tb\n1\n", b"a\n1\t2\n", b"a\tb\n1\t2\n\n", b"a\\tb\tc\nx\\\\ny\t\\\n", b"a\tb\n\t\n"]
        seen = set()
        for d in docs:
            if d in seen or b"\x00" in d:
                continue
            seen.add(d)
            reqs.append({"id": len(reqs), "args": ["-S", FMT_FLAG[fmt][0], "put", "-q", DUMP], "stdin": d})
            meta.append((fmt, code, d))
    groups = [[r for r in reqs if meta[r["id"]][0] == f][i::4] for f in ("dkvp", "nidx", "tsv") for i in range(4)]
    with ctx.timed("line_reader_inproc"):
        res = inproc_many(exe, [g for g in groups if g])
    terms, tmeta = [], []
    for r in reqs:
        fmt, code, d = meta[r["id"]]
        o = res.get(r["id"])
        if not o or o["class"] not in ("ok", "exit") or o["out_len"] > 2000:
            continue
        recs = []
        okparse = True
        for line in o["out"].decode("latin1").splitlines():
            if not line.startswith("R"):
                okparse = False; break
            rec = []
            for kv in line[1:].split():
                k, _, v = kv.partition(":")
                try:
                    rec.append((bytes.fromhex(k), bytes.fromhex(v)))
                except ValueError:
                    okparse = False
            recs.append(rec)
        if not okparse:
            continue
        err = None
        if o["class"] == "exit":
            m = re.search(rb"TSV header/data length mismatch (\d+) != (\d+) at filename \S+ line (\d+)", o["stderr"])
            if not m:
                continue
            err = (int(m.group(1)), int(m.group(2)), int(m.group(3)))
        obs_err = "None" if err is None else "(Some (%d, %d, %d)%%N)" % err
        terms.append("(%d%%N, %s, %s, %s)" % (code, coq_bytes(d), coq_records(recs), obs_err))
        tmeta.append((fmt, d, recs, err))
        ctx.count(("line-reader", fmt, d)); ctx.dist("line-reader:" + fmt)
    with ctx.timed("coq_cases"):
        bad, cerr = coq_eval_mismatches(ctx, "C18", "Base.Record C18.Model C18.Harness", "N * bytes * list record * option (N * N * N)", "chk", terms)
    ctx.cov["correspondence"] = {"line_reader_cases": len(terms), "mismatches": len(bad)}
    if cerr:
        ctx.violation({"broken": "correspondence-evaluation", "detail": cerr[-2000:]}, found_input=False)
        return
    # model and implementation differ: search around the disagreeing inputs for one on which mlr panics or hangs
    found = False
    for i in bad[:12]:
        fmt, d, recs, err = tmeta[i]
        ls = d.split(b"\n")
        variants = [d, b"\n".join(l + FMT_SEP[fmt] + b"x" for l in ls), b"\n".join(ls[:1] + [l + FMT_SEP[fmt] + b"x" + FMT_SEP[fmt] + b"y" for l in ls[1:]]),
                    b"\n".join(ls[:1] + [l.rsplit(FMT_SEP[fmt], 1)[0] for l in ls[1:]])]
        for v in variants:
            st, out, e2 = run_cli(ctx, [FMT_FLAG[fmt][0], "--ojson", "cat"], v, timeout=20)
            k = c18_classify(st, e2)
            if k not in ("ok", "mlr_error"):
                ctx.violation({"class": reader_class({"fmt": fmt}, k, e2), "part": "reader", "broken": "correspondence C18.Harness.chk", "args": [FMT_FLAG[fmt][0], "--ojson", "cat"],
                               "input": "mlr %s --ojson cat < stdin" % FMT_FLAG[fmt][0], "stdin_hex": v.hex(), "observed": "%s exit=%s %s" % (k, st, e2.decode("utf-8", "replace")[:400]),
                               "expected": "records or an `mlr:` error with non-zero exit"})
                found = True
                break
        if found:
            break
    for i in ([] if found else bad[:3]):
        fmt, d, recs, err = tmeta[i]
        ctx.violation({"broken": "correspondence C18.Harness.chk (line-reader model vs implementation)", "format": fmt, "stdin_hex": d.hex(),
                       "observed_records": [[(k.decode("latin1"), v.decode("latin1")) for k, v in r] for r in recs], "observed_error": err},
                      found_input=False)
    if tmeta:
        fmt, d, recs, err = tmeta[len(tmeta) // 2]
        ctx.sample({"format": fmt, "stdin": d.decode("latin1"), "records": len(recs), "error": err})


# ---------------------------------------------------------------------------------------------------------------
# classified-reader correspondence (CSV / CSV-lite / PPRINT / XTAB models in coq/C18/ModelReaders.v)
# ---------------------------------------------------------------------------------------------------------------
CLS_NAMES = {0: "ok", 1: "err-invalid-delimiter", 2: "err-bare-quote", 3: "err-bad-quote", 4: "err-length-mismatch", 5: "err-xtab-internal"}


def _b(x):
    return "true" if x else "false"


def cr_optsets(fmt):
    """(name, mlr flags, Coq reader term) for the modelled options of each format"""
    out = []
    if fmt == "csv":
        for implicit in (False, True):
            for lazy in (False, True):
                for dedupe in (True, False):
                    for ragged in (False, True):
                        for comma in (b",", b";", b'"'):
                            if comma != b"," and (implicit or not dedupe):
                                continue
                            flags = ["--icsv"] + (["--implicit-csv-header"] if implicit else []) + (["--lazy-quotes"] if lazy else []) + \
                                (["--no-dedupe-field-names"] if not dedupe else []) + (["--allow-ragged-csv-input"] if ragged else []) + \
                                (["--ifs", comma.decode()] if comma != b"," else [])
                            term = "(RCsv (mkO %s %s %s %s false (ascii_of_N %d%%N)))" % (_b(implicit), _b(lazy), _b(dedupe), _b(ragged), comma[0])
                            name = "+".join(n for n, v in (("implicit", implicit), ("lazy", lazy), ("no-dedupe", not dedupe), ("ragged", ragged), ("ifs" + comma.decode(), comma != b",")) if v) or "default"
                            out.append((name, flags, term, comma))
    elif fmt == "csvlite":
        for ragged in (False, True):
            for dedupe in (True, False):
                for ifs, repifs in ((b",", False), (b";;", False), (b",", True)):
                    flags = ["--icsvlite"] + (["--allow-ragged-csv-input"] if ragged else []) + (["--no-dedupe-field-names"] if not dedupe else []) + \
                        (["--ifs", ifs.decode()] if ifs != b"," else []) + (["--repifs"] if repifs else [])
                    term = "(RLite (mkL %s %s None %s %s))" % (coq_bytes(ifs), _b(repifs), _b(dedupe), _b(ragged))
                    name = "+".join(n for n, v in (("ragged", ragged), ("no-dedupe", not dedupe), ("ifs" + ifs.decode(), ifs != b","), ("repifs", repifs)) if v) or "default"
                    out.append((name, flags, term, ifs))
    elif fmt == "pprint":
        for ragged in (False, True):
            for dedupe in (True, False):
                flags = ["--ipprint"] + (["--allow-ragged-csv-input"] if ragged else []) + (["--no-dedupe-field-names"] if not dedupe else [])
                term = "(RLite (pprint_opts %s %s))" % (_b(dedupe), _b(ragged))
                out.append(("+".join(n for n, v in (("ragged", ragged), ("no-dedupe", not dedupe)) if v) or "default", flags, term, b" "))
    elif fmt in ("barred", "markdownc"):
        for implicit in (False, True):
            for ragged in (False, True):
                for dedupe in (True, False):
                    flags = (["--ipprint", "--barred-input"] if fmt == "barred" else ["--imd"]) + (["--implicit-csv-header"] if implicit else []) + \
                        (["--allow-ragged-csv-input"] if ragged else []) + (["--no-dedupe-field-names"] if not dedupe else [])
                    term = "(RBar (mkB %s %s %s %s))" % (_b(fmt != "barred"), _b(implicit), _b(dedupe), _b(ragged))
                    out.append(("+".join(n for n, v in (("implicit", implicit), ("ragged", ragged), ("no-dedupe", not dedupe)) if v) or "default", flags, term, b" | "))
    elif fmt == "xtab":
        for dedupe in (True, False):
            for ips in (b" ", b":", b": "):
                flags = ["--ixtab"] + (["--no-dedupe-field-names"] if not dedupe else []) + (["--ips", ips.decode()] if ips != b" " else [])
                term = "(RXtab %s %s)" % (coq_bytes(ips), _b(dedupe))
                out.append(("+".join(n for n, v in (("no-dedupe", not dedupe), ("ips" + ips.decode().replace(" ", "_"), ips != b" ")) if v) or "default", flags, term, ips))
    return out


def cr_parse_error(fmt, stderr):
    """observed error class as (python tuple, Coq term) or None when the message is not one of the modelled classes"""
    m = re.search(rb"(?:CSV|PPRINT-barred) header/data length mismatch (\d+) != (\d+) at filename \S+ (row|line) (\d+)", stderr)
    if m and (m.group(3) == b"row") == (fmt == "csv"):
        t = (int(m.group(1)), int(m.group(2)), int(m.group(4)))
        return ("err-length-mismatch",) + t, "(Some (EMismatch %d%%N %d%%N %d%%N))" % t
    if b'bare " in non-quoted-field' in stderr:
        return ("err-bare-quote",), "(Some (EParse BareQuote))"
    if b'extraneous or missing " in quoted-field' in stderr:
        return ("err-bad-quote",), "(Some (EParse BadQuote))"
    if b"invalid field or comment delimiter" in stderr:
        return ("err-invalid-delimiter",), "(Some EDelim)"
    return None


def cr_observe(exe, items):
    """items: list of (fmt, flags, term, doc) -> list of (item, records|None, err tuple|None, coq term|None, raw)"""
    reqs = [{"id": i, "args": ["-S"] + flags + ["put", "-q", DUMP], "stdin": d} for i, (fmt, flags, term, d) in enumerate(items)]
    groups = [reqs[i::max(1, NJOBS)] for i in range(max(1, NJOBS))]
    res = inproc_many(exe, [g for g in groups if g])
    out = []
    for i, it in enumerate(items):
        fmt, flags, term, d = it
        o = res.get(i)
        if not o or o["class"] not in ("ok", "exit") or o["out_len"] > 4000:
            out.append((it, None, None, None, o))
            continue
        recs, okparse = [], True
        for line in o["out"].decode("latin1").splitlines():
            if not line.startswith("R"):
                okparse = False
                break
            rec = []
            for kv in line[1:].split():
                k, _, v = kv.partition(":")
                try:
                    rec.append((bytes.fromhex(k), bytes.fromhex(v)))
                except ValueError:
                    okparse = False
            recs.append(rec)
        if not okparse:
            out.append((it, None, None, None, o))
            continue
        if o["class"] == "exit":
            pe = cr_parse_error(fmt, o["stderr"])
            if pe is None:
                out.append((it, recs, ("err-unrecognised", o["stderr"][:200].decode("latin1")), None, o))
                continue
            out.append((it, recs, pe[0], "(%s, %s, %s, %s)" % (term, coq_bytes(d), "[]", pe[1]), o))
        else:
            out.append((it, recs, None, "(%s, %s, %s, None)" % (term, coq_bytes(d), coq_records(recs)), o))
    return out


CR_TY = "rdr * bytes * list record * option cerr"
CR_IMPORTS = "Base.Record C01.Model C18.ModelReaders C18.ModelBar C18.Harness"


def cr_shrink(ctx, exe, fmt, flags, term, doc, rounds=3):
    """batch delta debugging of a model/implementation disagreement: every round evaluates all single-chunk removals
    (implementation in-process, model in ONE coqc run) and keeps the smallest input on which they still disagree"""
    cur = doc
    for _ in range(rounds):
        n = len(cur)
        if n <= 1:
            break
        chunk = max(1, n // 12)
        cands = sorted({cur[:i] + cur[i + chunk:] for i in range(0, n, chunk)} | {cur[:i] for i in range(1, n, max(1, n // 8))}, key=len)
        cands = [c for c in cands if c != cur and b"\x00" not in c][:40]
        obs = cr_observe(exe, [(fmt, flags, term, c) for c in cands])
        terms = [(o[0][3], o[3]) for o in obs if o[3] is not None]
        if not terms:
            break
        bad, cerr = coq_eval_mismatches(ctx, "C18_shrink", CR_IMPORTS, CR_TY, "chk2", [t for _, t in terms])
        bad = [i for i in bad if 0 <= i < len(terms)]
        if cerr or not bad:
            break
        cur = min((terms[i][0] for i in bad), key=len)
    return cur


def classified_reader_correspondence(ctx, exe):
    rng = ctx.rng
    n = 110 if ctx.tier == "quick" else 2500
    alpha = {"csv": b'ab,"\n\r1 ;', "csvlite": b'ab,;\n\r1 "', "pprint": b"ab -\n\r1|", "xtab": b"ab :\n\r1",
             "barred": b"ab|+- \n\n\r1\t", "markdownc": b"ab||-: \\\n\n\r1\t"}
    extra = {
        "csv": [b'a,b\n1,x"y\n3,4\n', b'a,b\n1,"x"y\n3,4\n', b'a,b\n1,"xy\n3,4\n', b'a,b\n1,2,x"y\n3,4\n', b'a,b\nx"y,2\n', b'a,b\n"x"y,2\n', b'a,b\n"xy', b'a,b\n1,2\n\n',
                b'a,b\n1,2\n\r', b"\r", b"a,b\r\n1,2\r\n", b"a,b\r1,2\r", b'a,b\n"1\r\n2",3\n', b'a,b\n1,2\r', b'"a",\n1,2\n', b'a,a\n1,2\n', b'a,a,a_2\n1,2,3\n',
                b'a,b\n1\n', b'a,b\n1,2,3\n', b'\n1,2\n', b'a\n\n\n', b'a,b\n"",""\n', b'a,b\n1,"2""3"\n', b'a,b\n1,"2"",3\n', b'a;b\n1;2\n', b'a,b\n1,2\n"', b'",",b\n1,2\n',
                b'\xef\xbb\xbfa,b\n1,2\n', b'\xef\xbb\xbf"a",b\n1,2\n', b'a,b\n1,2\n3\n4,5\n', b'a,b\n,\n', b'a,b\n1,"\n\n"\n', b'a,b\n1,2"\n', b'a,b\n1,""x\n'],
        "csvlite": [b"a,b\n1,2\n\nc\n3\n", b"a,b\n1\n", b"a,b\n\n1\n", b"a,b\n1,2\n\n\n3,4\n5,6,7\n", b"a,a\n1,2\n", b"a;;b\n1;;2\n", b"a,,b\n1,,2\n", b",\n,\n", b"\xef\xbb\xbfa\n1\n",
                    b"a,b\n1,2,3\n", b"a,b,c\n1,2\n", b"a\n\na,b\n1\n"],
        "pprint": [b"a b\n1 -\n", b"a   b\n- -\n\nc\n-\n", b"a b\n1\n", b"a b\n1 2 3\n", b"  a  b  \n 1 2\n", b" \n", b"a\n \n", b"a a\n1 2\n", b"a - b\n1 2 3\n"],
        "xtab": [b"a 1\nb 2\n", b"a    1\n\n\nb\n", b"a\n", b" a 1\n", b"  \n", b"a 1\na 2\na_2 3\n", b"a:1\nb::2\n", b"a: 1\nb:  : 2\n", b"\n\na 1", b"a 1\r\nb 2\r\n\r\nc 3\r\n"],
    }
    extra["barred"] = [b"+---+---+\n| a | b |\n+---+---+\n| 1 | 2 |\n+---+---+\n", b"| a | b |\n| 1 |\n", b"| a | b |\n| 1 | 2 | 3 |\n", b"no bars\n| a |\n| 1 |\n",
                       b"|\n|\n", b"||\n||\n| |\n", b"+\n++\n+-+\n| a |\n+-x+\n", b"| a | a |\n| 1 | 2 |\n\n| c |\n| 3 |\n| 4 | 5 |\n", b"x| a |y\n z| 1 |w\n",
                       b"| a | b |\r\n| 1 | 2 |\r\n", b"|  a\t|\tb  |\n|\t1 | 2\t|\n", b"| a | b |\n+---+\n|1|2|\n\n\n|x|\n", b"a|b\n1|2\n", b"| a |\n\n| b |\n| 1 |\n| 2 | 3 |\n"]
    extra["markdownc"] = [b"| a | b |\n| --- | --- |\n| 1 | 2 |\n", b"| a | b |\n| ---: | :--- |\n| 1 | 2 |\n", b"| a | b |\n| --- | --- |\n| --- | --- |\n| - | |\n",
                          b"| a | b |\n| 1 | 2 |\n| --- | --- |\n", b"| a |\n| --- |\n| x\\|y |\n| \\\\|z |\n", b"| a | b |\n| --- | --- |\n| 1 |\n", b"| a |\n| --- |\n| 1 | 2 |\n",
                          b"|\n|\n|\n", b"|||\n| - |\n", b"| a |\n| --- |\n| 1 |\n\n| b | c |\n| --- | --- |\n| 2 | 3 |\n| 4 |\n", b"\\|\n\\|\n", b"| a\\| |\n|---|\n| 1 |\n",
                          b"no bars\n| --- |\n| a |\n| 1 |\n", b"| a | a |\n| --- | --- |\n| 1 | 2 |\n", b"| a |\r\n| --- |\r\n| 1 |\r\n", b"| : |\n| : |\n| : |\n", b"|a|b|\n|-|-|\n|1|2|\n"]
    seeds_of = dict(SEEDS, barred=[SEEDS["pprint"][1], b"+---+---+\n| a | b |\n+---+---+\n| 1 | 2 |\n| 3 | 4 |\n+---+---+\n\n+---+\n| c |\n+---+\n| 5 |\n+---+\n"],
                    markdownc=SEEDS["markdown"] + [b"| a | b | c |\n| --- | ---: | :--- |\n| x\\|y | - | |\n| 3 | 4 | 5 |\n"])
    sep_of = dict(FMT_SEP, barred=b" | ", markdownc=b" | ")
    UNISPACE = (b"\xc2\x85", b"\xc2\xa0", b"\xe1\x9a\x80", b"\xe2\x80", b"\xe2\x81\x9f", b"\xe3\x80\x80")
    items, meta = [], []
    for fmt in ("csv", "csvlite", "pprint", "xtab", "barred", "markdownc"):
        osets = cr_optsets(fmt)
        SEEDS_f = seeds_of[fmt]
        docs = list(SEEDS_f) + extra[fmt] + [b"", b"\n", b"\r\n", b"a", b"\n\n"]
        for s in SEEDS_f[:3]:
            docs += [s[:i] for i in range(1, len(s), 1 if ctx.tier == "thorough" else 2)]
        for _ in range(n):
            if rng.random() < 0.5:
                docs.append(bytes(rng.choice(alpha[fmt]) for _ in range(rng.randint(0, 18))))
            else:
                docs.append(mutate(rng, rng.choice(SEEDS_f + extra[fmt]), sep_of[fmt])[1][:300])
        seen = set()
        for j, d in enumerate(docs):
            if b"\x00" in d or (fmt in ("barred", "markdownc") and any(u in d for u in UNISPACE)):
                continue
            # the hand-written documents meet every option set, the generated ones a random one
            for (oname, flags, term, sep) in (osets if d in extra[fmt] and ctx.tier == "thorough" else [osets[0], rng.choice(osets)] if j < len(SEEDS_f) + len(extra[fmt]) else [rng.choice(osets)]):
                dd = d
                if sep not in (b",", b" ") and rng.random() < 0.7:
                    dd = d.replace(sep_of[fmt], sep)      # make the alternative separator occur
                if (oname, dd) in seen:
                    continue
                seen.add((oname, dd))
                items.append((fmt, flags, term, dd))
                meta.append(oname)
    with ctx.timed("classified_reader_inproc"):
        obs = cr_observe(exe, items)
    terms, tmeta, tally, unrec = [], [], {}, []
    for (it, recs, err, term, raw), oname in zip(obs, meta):
        fmt = it[0]
        if term is None:
            if err and err[0] == "err-unrecognised":
                unrec.append((it, err))
            continue
        cls = err[0] if err else "ok"
        tally.setdefault(fmt, {}).setdefault(cls, 0)
        tally[fmt][cls] += 1
        terms.append(term)
        tmeta.append((it, recs, err, oname))
        ctx.count(("classified-reader", fmt, oname, it[3])); ctx.dist("classified-reader:" + fmt); ctx.dist("classified-reader-outcome:" + cls)
    with ctx.timed("coq_cases_classified"):
        bad, cerr = coq_eval_mismatches(ctx, "C18_cr", CR_IMPORTS, CR_TY, "chk2", terms)
    ctx.cov["classified_reader_correspondence"] = {"cases": len(terms), "mismatches": len(bad), "per_format_and_outcome": tally,
                                                   "option_sets": {f: len(cr_optsets(f)) for f in ("csv", "csvlite", "pprint", "xtab", "barred", "markdownc")},
                                                   "unrecognised_error_messages": len(unrec)}
    if cerr:
        ctx.violation({"broken": "correspondence-evaluation (classified readers)", "detail": cerr[-2000:]}, found_input=False)
        return
    for it, err in unrec[:3]:
        ctx.violation({"broken": "classified-reader correspondence: the implementation reports an error outside the modelled classes", "format": it[0], "args": it[1],
                       "stdin_hex": it[3].hex(), "observed_error": err[1]}, found_input=False)
    per_fmt = {}
    for i in sorted((j for j in bad if j >= 0), key=lambda j: len(tmeta[j][0][3])):
        (fmt, flags, term, d), recs, err, oname = tmeta[i]
        if per_fmt.get(fmt, 0) >= 2:
            continue
        per_fmt[fmt] = per_fmt.get(fmt, 0) + 1
        # is the disagreement a panic / hang of the real binary on this or a neighbouring input?
        st, out, e2 = run_cli(ctx, flags + ["--ojson", "cat"], d, timeout=25)
        k = c18_classify(st, e2)
        if k not in ("ok", "mlr_error"):
            ctx.violation({"class": reader_class({"fmt": fmt}, k, e2), "part": "reader", "broken": "correspondence C18.Harness.chk2", "args": flags + ["--ojson", "cat"],
                           "input": "mlr %s --ojson cat < stdin" % " ".join(flags), "stdin_hex": d.hex(), "observed": "%s exit=%s %s" % (k, st, e2.decode("utf-8", "replace")[:400]),
                           "expected": "records or an `mlr:` error with non-zero exit"})
            continue
        small = cr_shrink(ctx, exe, fmt, flags, term, d)
        o2 = cr_observe(exe, [(fmt, flags, term, small)])[0]
        ctx.violation({"broken": "correspondence C18.Harness.chk2 (classified reader model vs implementation)", "class": "reader-model-disagreement-%s" % fmt, "part": "reader-model",
                       "format": fmt, "options": oname, "args": flags, "stdin_hex": small.hex(), "stdin": small.decode("latin1"),
                       "stdin_hex_before_shrinking": d.hex() if small != d else None, "coq_reader": term,
                       "observed_records": [[(k.decode("latin1"), v.decode("latin1")) for k, v in r] for r in (o2[1] or [])], "observed_error": list(o2[2]) if o2[2] else None,
                       "expected": "the outcome (records, or error class with its numbers) computed by read_*_c under vm_compute"}, found_input=False)
    if tmeta:
        (fmt, flags, term, d), recs, err, oname = tmeta[len(tmeta) // 3]
        ctx.sample({"format": fmt, "options": oname, "stdin": d.decode("latin1"), "records": len(recs or []), "error": list(err) if err else None})


# ---------------------------------------------------------------------------------------------------------------
# JSON record-reader layer (coq/C18/ModelJson.v): documents generated FROM abstract streams of top-level values
# ---------------------------------------------------------------------------------------------------------------
JKIND = {"int": 1, "float": 2, "bool": 3, "boolean": 3, "string": 4, "empty": 5, "null": 6, "array": 7, "map": 8}
JSCALARS = [(1, b"17"), (1, b"-3"), (2, b"1.5"), (2, b"-2.5e3"), (3, b"true"), (3, b"false"), (4, b'"s"'), (4, b'"\\u00e9 x"'), (5, b'""'), (6, b"null")]
JGARBAGE = [b"}", b"]", b'{"a"', b'{"a":}', b"nul", b"@", b"{]", b'[{"id":1},]', b'{"id":1,}', b"{'id':1}", b",", b'{"a" 1}', b"[1 2]", b'"abc', b"tru", b'{"a":[}']


def json_layer_correspondence(ctx, exe):
    rng = ctx.rng
    n = 220 if ctx.tier == "quick" else 4000
    streams = []
    nid = [0]

    def obj():
        nid[0] += 1
        extra = rng.choice([b"", b',"v":[1,{"w":null}]', b',"s":"x y"', b',"m":{"id":999}', b',"e":""'])
        return nid[0], b'{"id":%d%s}' % (nid[0], extra)

    def top():
        k = rng.randrange(10)
        if k < 4:
            i, t = obj()
            return "(TMap %d)" % i, t, False
        if k < 6:
            es = [obj() for _ in range(rng.randint(0, 3))]
            return "(TArr [%s])" % "; ".join("EMap %d" % i for i, _ in es), b"[" + b",".join(t for _, t in es) + b"]", False
        if k < 8:
            es, txt = [], []
            for _ in range(rng.randint(1, 4)):
                if rng.random() < 0.5:
                    i, t = obj(); es.append("EMap %d" % i); txt.append(t)
                else:
                    kind, t = rng.choice(JSCALARS + [(7, b"[1]"), (7, b"[]"), (7, b'[{"id":5}]')])
                    es.append("EOther %d" % kind); txt.append(t)
            return "(TArr [%s])" % "; ".join(es), b"[" + rng.choice([b",", b" , ", b",\n"]).join(txt) + b"]", False
        if k < 9:
            kind, t = rng.choice(JSCALARS)
            return "(TScalar %d)" % kind, t, True
        return "TDecodeErr", rng.choice(JGARBAGE), True
    fixed = [[], [("(TArr [])", b"[]", False)] * 2]
    for _ in range(n):
        vs, stop = [], False
        for _ in range(rng.randint(0, 5)):
            term, txt, last = top()
            vs.append((term, txt, last))
            if term == "TDecodeErr":
                break
        streams.append(vs)
    streams = fixed + streams
    reqs, docs = [], []
    for i, vs in enumerate(streams):
        doc = b""
        for term, txt, need_ws in vs:
            doc += txt + (rng.choice([b" ", b"\n", b"\n\n", b"\t"]) if need_ws else rng.choice([b"", b" ", b"\n", b"\r\n"]))
        docs.append(doc)
        reqs.append({"id": i, "args": ["--ijson", "--ojsonl", "cat"], "stdin": doc})
    with ctx.timed("json_layer_inproc"):
        res = inproc_many(exe, [reqs[k::NJOBS] for k in range(NJOBS)])
    terms, tmeta, tally = [], [], {}
    for i, vs in enumerate(streams):
        o = res.get(i)
        if not o or o["class"] not in ("ok", "exit") or o["out_len"] > 2000:
            continue
        if o["class"] == "ok":
            ids = [int(m) for m in re.findall(rb'(?m)^\{"id": (\d+)', o["out"])]
            if len(ids) != o["out"].count(b"\n"):
                continue
            obs, cls = "None", "ok"
        else:
            m = re.search(rb"valid but unmillerable JSON. Expected map \(JSON object\); got (\w+)", o["stderr"])
            if m:
                kind = JKIND.get(m.group(1).decode(), 99)
                obs, cls = "(Some (Some %d%%N))" % kind, "err-unmillerable"
            elif b"mlr" in o["stderr"] and b"nternal coding error" not in o["stderr"]:
                obs, cls = "(Some None)", "err-decode"
            else:
                continue
            ids = []
        terms.append("([%s], [%s], %s)" % ("; ".join(t for t, _, _ in vs), "; ".join("%d%%N" % x for x in ids), obs))
        tmeta.append((docs[i], vs, cls))
        tally[cls] = tally.get(cls, 0) + 1
        ctx.count(("json-layer", docs[i])); ctx.dist("json-layer:" + cls)
    with ctx.timed("coq_cases_json_layer"):
        bad, cerr = coq_eval_mismatches(ctx, "C18_json", "C18.ModelJson C18.Harness", "list jtop * list N * option (option N)", "chkj", terms)
    ctx.cov["json_layer_correspondence"] = {"cases": len(terms), "mismatches": len(bad), "per_outcome": tally}
    if cerr:
        ctx.violation({"broken": "correspondence-evaluation (JSON layer)", "detail": cerr[-2000:]}, found_input=False)
        return
    for i in [j for j in bad if j >= 0][:3]:
        doc, vs, cls = tmeta[i]
        st, out, e2 = run_cli(ctx, ["--ijson", "--ojsonl", "cat"], doc, timeout=25)
        k = c18_classify(st, e2)
        if k not in ("ok", "mlr_error"):
            ctx.violation({"class": reader_class({"fmt": "json"}, k, e2), "part": "reader", "args": ["--ijson", "--ojsonl", "cat"], "stdin_hex": doc.hex(),
                           "input": "mlr --ijson --ojsonl cat < stdin", "observed": "%s exit=%s %s" % (k, st, e2.decode("utf-8", "replace")[:400]),
                           "expected": "records or an `mlr:` error with non-zero exit"})
        else:
            ctx.violation({"broken": "correspondence C18.Harness.chkj (JSON record-reader layer model vs implementation)", "class": "reader-model-disagreement-json-layer", "part": "reader-model",
                           "stdin": doc.decode("latin1"), "stdin_hex": doc.hex(), "abstract_stream": [t for t, _, _ in vs], "observed_class": cls,
                           "observed": "exit=%s %s %s" % (st, out[:200].decode("latin1"), e2[:200].decode("latin1"))}, found_input=False)


# ---------------------------------------------------------------------------------------------------------------
# part 3: DSL text mutations
# ---------------------------------------------------------------------------------------------------------------
TOKEN_RE = re.compile(r'"(?:[^"\\]|\\.)*"|[A-Za-z_$@][A-Za-z_0-9]*|\d+\.?\d*(?:[eE][-+]?\d+)?|0x[0-9a-fA-F]+|\*\*=?|//=?|\.\+|\.\*|\./|\.-|<<=?|>>>?=?|&&=?|\|\|=?|\^\^=?|\?\?\??=?|=~|!=~|[<>!=]=|<=>|[-+*/%.&|^]=|\S')
DSL_NASTY = ["(", ")", "{", "}", "[", "]", ";", ",", "=", "==", "$*", "$", "@", "@*", "$[[1]]", "$[[[1]]]", "1e400", "18446744073709551616", "0x", "0xffffffffffffffffff",
             "-", "!", "~", ".+", "./", "//", "**", "??", "???", "?", ":", "func", "end", "begin", "if", "else", "for", "while", "do", "return", "emit", "emitp", "tee", ">",
             "unset", "filter", "map", "var", "str", "num", "int", "funct", "M_PI", "ENV", "NR", "\"\\1\"", "\"\\\"", "\"", "#", "\\", "absent", "9223372036854775808",
             "-9223372036854775808", "1_000", "1e", ".5.", "0b102", "1 ./ 0", "7 // 0", "7 % 0", "1 << 64", "1 << -1", "2 ** -1", "2 ** 0.5", "-1 ** 0.5", "substr(\"abc\",-5,100)",
             "$x[1:2]", "[1,2,3][7]", "[1,2,3][-9:99]", "{}[1]", "splitax(\"\",\"\")", "format_values", "strptime(\"2023\",\"%Y-%m\")", "sec2gmt(1e300)", "sec2gmt(-9223372036854775808)",
             "strftime(1e18,\"%Y\")", "fmtnum(1,\"%\")", "fmtnum(1,\"%5\")", "fmtnum(17,\"%.99999d\")", "sub(\"a\",\"(\",\"b\")", "\"a\" =~ \"(\"", "gsub(\"a\",\"\",\"b\")", "unformat(\"{}\",\"\")",
             "percentile([1,2],101)", "percentiles([],[50])", "sort_by_key({})", "latin1_to_utf8(\"\\xff\")", "strlen(\"\\xff\")", "toupper(\"\\xff\")", "format(\"{}\")", "leafcount(1)",
             "json_decode(\"{\")", "json_decode(\"[[[[[[\")", "json_encode({}, 1, 2)", "asserting_null(1)", "splitnv(\"a,b\",\"\")", "ssub(\"\",\"\",\"\")", "index(\"\",\"\")", "strrev(\"\\xff\\xfe\")",
             "truncate(\"ab\",-1)", "format_values(1)", "exec(\"/nonexistent\",[])", "os_type()", "bitcount(-1)", "msub(1,2,0)", "roundm(7,0)", "1 .+ 9223372036854775807", "5 .* 4611686018427387904"]


# boundary VALUES (beyond the kind representatives of the BIF matrix) for functions with size / count / time / format arguments
DSL_NASTY += [
    'format("{}:{}", 1)', 'format("{}", 1, 2, 3, 4, 5)', 'format("", [])', 'unformat("{}h{}m{}s", "5h6m")', 'unformat("{}h{}m{}s", "")', 'unformat("", "abc")', 'unformat("{}{}", "12")',
    'unformatx("<>{};{}", "<>3;")', 'sec2date(-1e300)', 'sec2gmt(1e300, 9)', 'sec2gmt(9223372036854775807)', 'sec2gmtdate(-9223372036854775808)', 'sec2dhms(9223372036854775807)',
    'sec2hms(-9223372036854775808)', 'fsec2hms(1e300)', 'fsec2dhms(-1e300)', 'fsec2hms(-0.0000001)', 'dhms2sec("1d2h3m4sxyz")', 'dhms2sec("")', 'dhms2sec("-")', 'dhms2fsec("1d-2h")',
    'hms2sec("99999999999999999999:00:00")', 'hms2sec(":::")', 'hms2fsec("-00:00:00.")', 'gmt2sec("9999999999-01-01")', 'gmt2sec("")', 'gmt2sec("0000-00-00")', 'gmt2sec("1970-01-01T00:00:00Zjunk")',
    'localtime2sec("2023-01-01 00:00:00", "Nowhere/Land")', 'strftime_local(0, "%Y", "")', 'strftime(0, "%")', 'strftime(0, "%%%")', 'strftime(1e300, "%Y-%m-%d %H:%M:%9S")',
    'strfntime(9223372036854775807, "%Y-%m-%d %H:%M:%9S")', 'strfntime(-9223372036854775808, "%Y")', 'strfntime_local(1, "%Q%q%1%2", "Asia/Tokyo")', 'strptime("", "")',
    'strptime("1970-01-01T00:00:00Z", "%Y-%m-%dT%H:%M:%SZ%Z%z%%")', 'strptime("12", "%")', 'strptime("12", "%%%")', 'strptime("99999999999999999999", "%s")', 'strptime("1.5e300", "%s")',
    'strpntime("2023-01-01", "%Y-%m-%d%j%U%e")', 'substr("abc", -9223372036854775808, 9223372036854775807)', 'substr0("abc", 9223372036854775807, -9223372036854775808)',
    '"abc"[9223372036854775807:9223372036854775807]', '[1,2,3][-9223372036854775808:9223372036854775807]', '[1,2,3][9223372036854775807]', '1 << 9223372036854775807', '1 >> -9223372036854775808',
    '1 >>> -1', '-1 >>> 64', '1 << 63 << 1', 'leftpad("x", 100000, "ab")', 'rightpad(5, -9223372036854775808, "0")', 'truncate("ab", 9223372036854775807)', 'truncate("ab", -9223372036854775808)',
    'fmtnum(3.1, "%08.9999lf")', 'fmtnum(1, "%d%d")', 'fmtnum(1, "%s")', 'fmtnum(1, "%*d")', 'fmtnum(1, "%9223372036854775807d")', 'fmtnum(-0.0, "%x")', 'fmtifnum("", "%")', 'hexfmt(-9223372036854775808)',
    'splitnv("", "")', 'splitaxx("a", "")', 'splitax("abc", "")', 'splitnvx("a,b", ",,")', 'ssub("a", "", "b")', 'gsub("abc", "", "-")', 'regextract("abc", "(")', 'regextract_or_else("abc", "[", 1)',
    '"abc" =~ "(?P<n"', 'sub("abc", "(a)(b)(c)", "\\9\\0\\1")', 'matchx("a","a")', 'strmatchx("abc", "(((((((((((a)))))))))))")', 'any([1], func(a) {return 1})', 'sort([3,1,2], "zzz")', 'sort({"a":1}, func(a,b,c,d){return "x"})',
    'percentile({}, 50)', 'percentiles([], [])', 'percentiles([1,2], {})', 'percentile([1,2,3], "abc")', 'median(["a", 1, {}])', 'sort_by_key(1)', 'sort_by_value({"a":[1]})', 'kurtosis([1])', 'variance([])',
    'minlen([])', 'distinct_count(1)', 'mode([])', 'antimode({})', 'null_count(1)', 'sum2(["a"])', 'meaneb([1])', 'skewness([1,1,1])', 'roundm(5, 0)', 'roundm(5.5, 0.0)', 'mexp(2, -1, 5)',
    'mexp(2, 9223372036854775807, 9223372036854775807)', 'msub(5, 6, -7)', 'mmul(-9223372036854775808, -9223372036854775808, -1)', '2 ** 9223372036854775807', '0 ** -1', '-9223372036854775808 // -1',
    '-9223372036854775808 % -1', '-9223372036854775808 .+ -1', '7.0 // 0', '7 % 0.0', 'int(1e300)', 'int("0xfffffffffffffffffff")', 'float("1e999")', 'bitcount(1e300)', 'exp(1e300) - exp(1e300)',
    'invqnorm(2)', 'invqnorm(-1)', 'qnorm(1e308 * 10)', 'urandint(5, 1)', 'urandint(-9223372036854775808, 9223372036854775807)', 'urandrange(1, 1)', 'urandelement([])', 'gssub("", "", "")',
    'latin1_to_utf8("\xff\xfe")', 'utf8_to_latin1("\xff\xfe\xc3")', 'gsub("\xff", "\xff", "\xfe")', 'format_values', 'strlen(leafcount)', 'json_decode("{\"a\":1}{")', 'json_decode("[1,2")', 'json_decode("\"\\ud800\"")',
    'json_encode([1,{"a":[]}], 9223372036854775807)', 'json_encode({}, "x")', 'arrayify({"1":{"2":3}})', 'unflatten({"a..b.":1, ".":2, "":3}, ".")', 'unflatten({"a.b":1}, "")', 'flatten({"a":{}}, "")',
    'get_values(1)', 'mapdiff()', 'mapsum()', 'mapexcept({"a":1}, [[1]])', 'mapselect({"a":1}, {})', 'haskey([1,2], -9223372036854775808)', 'concat()', 'index("abc", "")', 'contains("", "")', 'strfind',
    'leafcount({})', 'depth([])', 'exec("", [])', 'system("")', 'os_type(1)', 'version(1)', 'hostname() . 1', 'asserting_int(1.5)', 'asserting_error(1)', 'is_nan(absent)', 'typeof(@*)', 'asserting_not_empty("")',
]


def load_dsl_corpus(ctx):
    progs = []
    root = REPO / "test/cases"
    files = sorted(root.rglob("cmd")) if root.is_dir() else []
    for f in files:
        try:
            t = f.read_text(errors="replace")
        except Exception:
            continue
        if not re.search(r"\b(put|filter)\b", t):
            continue
        for m in re.finditer(r"(?:put|filter)\s+(?:-[qSx]\s+)*'((?:[^']|'\\'')*)'", t):
            p = m.group(1)
            if 3 < len(p) < 600:
                progs.append(p)
    seen, out = set(), []
    for p in progs:
        if p not in seen:
            seen.add(p); out.append(p)
    return out


def mutate_dsl(rng, prog):
    toks = TOKEN_RE.findall(prog)
    if not toks:
        return "raw", prog
    k = rng.randrange(9)
    i = rng.randrange(len(toks))
    if k == 0:
        del toks[i]; kind = "delete-token"
    elif k == 1:
        toks.insert(i, toks[i]); kind = "duplicate-token"
    elif k == 2:
        j = rng.randrange(len(toks)); toks[i], toks[j] = toks[j], toks[i]; kind = "swap-tokens"
    elif k == 3:
        toks[i] = rng.choice(DSL_NASTY); kind = "replace-with-nasty"
    elif k == 4:
        toks.insert(i, rng.choice(DSL_NASTY)); kind = "insert-nasty"
    elif k == 5:
        toks = toks[:i]; kind = "truncate"
    elif k == 6:
        toks[i] = rng.choice(toks); kind = "replace-with-own-token"
    elif k == 7:
        depth = rng.choice([50, 400, 3000])
        toks = ["end", "{", "print"] + [rng.choice(["(", "[", "-", "!"])] * depth + ["1"]; kind = "deep-nesting"
    else:
        toks.insert(i, rng.choice(["\xff", "\x00", "\u00e9", "\\", "'"])); kind = "insert-odd-byte"
    return kind, " ".join(toks)


def funct_arity_programs():
    """function values held in local variables / parameters / collections, called with every argument count 0..3 (declared arity 0..3):
    directly, through a UDF or subr with a funct parameter, after reassignment, from a map element, as an immediately applied literal"""
    out = []
    for ar in range(4):
        ps = ",".join("abc"[:ar])
        lit = "func(%s){return 1}" % ps
        for nargs in range(4):
            call = ",".join("123"[:nargs])
            out += ["end{f=%s; print f(%s)}" % (lit, call), "f=%s; $y=f(%s)" % (lit, call),
                    "func g(funct h) { return h(%s) } end{print g(%s)}" % (call, lit), "func g(h) { return h(%s) } $y = g(%s)" % (call, lit),
                    "func k(%s) {return 2} end{f=k; print f(%s)}" % (ps, call), "func k(%s) {return 2} f=k; $y=f(%s)" % (ps, call),
                    "subr s(funct h) { print h(%s) } end{var f=%s; call s(f)}" % (call, lit),
                    "end{funct f=%s; f=func(a){return 2}; print f(%s)}" % (lit, call), "end{m={}; m[1]=%s; print m[1](%s)}" % (lit, call),
                    "$y = (%s)(%s)" % (lit, call), "f=%s; $z=f(%s) . f(%s)" % (lit, call, call), "f=%s; $z=apply([1,2], f); $w=sort([2,1], f); $v=fold([1,2], f, 0)" % lit]
    return out


def dsl_part(ctx, exe):
    rng = ctx.rng
    corpus = load_dsl_corpus(ctx)
    if not corpus:
        corpus = ['$y = $x . "a"', 'end { emit @sum }', '$z = strlen($x) > 3 ? sub($x, "a", "b") : 7']
    nmut = 450 if ctx.tier == "quick" else 12000
    nvalid = 120 if ctx.tier == "quick" else len(corpus)
    cases = []
    valid = list(corpus); rng.shuffle(valid)
    for p in valid[:nvalid]:
        cases.append(("valid", p))
    for s in DSL_NASTY:
        cases.append(("nasty-expression", "end { print " + s + " }"))
    for p in funct_arity_programs():
        cases.append(("funct-value-call-arity", p))
    for _ in range(nmut):
        kind, p = mutate_dsl(rng, rng.choice(corpus))
        if rng.random() < 0.25:
            k2, p = mutate_dsl(rng, p); kind += "+" + k2
        cases.append((kind, p))
    reqs = []
    rec = b"a=pan,b=wye,i=1,x=0.3467901443380824,y=0.7268028627434533,s=\xff\n"
    for i, (kind, p) in enumerate(cases):
        # run against one record and the end block; -n would skip the main block
        reqs.append({"id": i, "args": ["put", p], "stdin": rec})
        ctx.dist("dsl:" + kind.split("+")[0])
    groups = [reqs[i::NJOBS] for i in range(NJOBS)]
    with ctx.timed("dsl_inproc"):
        res = inproc_many(exe, [g for g in groups if g], timeout_ms=8000)
    tally, suspects = {}, []
    for i, (kind, p) in enumerate(cases):
        r = res.get(i)
        cl = inproc_class(r) if r else "not-run"
        tally[cl] = tally.get(cl, 0) + 1
        ctx.count(("dsl", p))
        if cl not in ("ok", "mlr_error"):
            suspects.append((kind, p, cl))
    ctx.cov["dsl_mutation"] = {"corpus_programs": len(corpus), "cases": len(cases), "in_process_classes": tally}

    def cli(s):
        kind, p, cl = s
        st, out, err = run_cli(ctx, ["put", p], rec, timeout=20, max_out=20_000_000)
        return s, c18_classify(st, err), st, err
    sample = [(k, p, "x") for k, p in cases[: 10 if ctx.tier == "quick" else 200]]
    with ctx.timed("dsl_cli"):
        with cf.ThreadPoolExecutor(min(8, NJOBS)) as ex:
            confirmed = list(ex.map(cli, suspects[:30]))
            tied = list(ex.map(cli, sample))
    mism = 0
    for (kind, p, _), k, st, err in tied:
        i = next(j for j, c in enumerate(cases) if c[1] == p)
        if inproc_class(res[i]) != k:
            mism += 1
    ctx.cov["dsl_mutation"]["cli_sample"] = {"runs": len(tied), "class_mismatches_inproc_vs_binary": mism}
    seen, unconfirmed = set(), 0
    for (kind, p, cl), k, st, err in confirmed:
        if k in ("ok", "mlr_error"):
            unconfirmed += 1
            continue
        cls = dsl_class(p, k, err)
        if cls in seen:
            continue
        seen.add(cls)
        p0, p = p, shrink_dsl_witness(ctx, p, rec, cls)
        ctx.violation({"class": cls, "part": "dsl", "input": "mlr put '%s'  (one DKVP record on stdin)" % p, "program": p, "mutation": kind,
                       "program_before_shrinking": p0 if p0 != p else None,
                       "observed": "%s exit=%s %s" % (k, st, err.decode("utf-8", "replace")[:500]),
                       "expected": "parse+run, or an `mlr:` error with non-zero exit"})
    ctx.cov["dsl_mutation"]["suspects_inproc"] = len(suspects)
    ctx.cov["dsl_mutation"]["suspects_not_reproduced_by_binary"] = unconfirmed


def dsl_class(p, k, err):
    if k == "hang":
        return "dsl-hang"
    m = re.search(rb"Internal coding error detected at file (\S+) line (\d+)", err)
    if m:
        return "dsl-internal-error-%s" % m.group(1).decode().replace(".go", "")
    if b"nternal coding error" in err:
        m = re.search(rb"internal coding error[: ]*([a-z -]{0,40})", err)
        return "dsl-internal-error-" + re.sub(r"[^a-z]+", "-", (m.group(1).decode() if m else "x")).strip("-")
    m = re.search(rb"(?:panic|fatal error): ([^\n]{0,80})", err)
    what = re.sub(rb"[^a-z]+", b"-", (m.group(1) if m else b"x").lower()).strip(b"-").decode()[:50]
    w = re.search(rb"pkg/([\w/-]+)/([\w.-]+)\.go:(\d+)", err)
    return "dsl-%s-%s-%s" % (k, what, w.group(2).decode() if w else "unknown")


# ---------------------------------------------------------------------------------------------------------------
# part 4: stress -- deep nesting, long tokens, junk bytes, recursion (DSL front end and the JSON / flatten machinery)
# ---------------------------------------------------------------------------------------------------------------
def stress_cases(ctx):
    """(family, kind, args, stdin, program-or-None, expect_nontermination).  kind 'dsl' runs `mlr -n put -f <file>`.
    The generated LR parser and the recursive CST builder/evaluator, json decoder and flatten/unflatten recurse on the nesting
    depth: a Go stack overflow ("goroutine stack exceeds") would be a fatal error, i.e. a violation.  Depths: linear-cost
    families go to 2*10^3 (quick) / 10^5 (thorough); families whose cost is quadratic in the depth on this tree (nested map/array
    literals, nested JSON objects, UDF recursion: observed, finite) stay at depths that finish in seconds."""
    rng = ctx.rng
    T = ctx.tier == "thorough"
    N = 100000 if T else 2000          # linear families
    Q = 4000 if T else 300             # quadratic families
    cases = []
    dsl = lambda fam, p, nonterm=False: cases.append((fam, "dsl", None, b"", p, nonterm))
    dsl("deep-parens", "end{print " + "(" * N + "1" + ")" * N + "}")
    dsl("deep-unary-minus", "end{print " + "-" * N + "1}")
    dsl("deep-unary-not", "end{print " + "!" * N + "true}")
    dsl("long-binop-chain", "end{print 1" + "+1" * N + "}")
    dsl("long-dot-chain", "end{print 1" + " . 1" * N + "}")
    dsl("long-logical-chain", "end{print true" + " && true" * N + "}")
    dsl("deep-index", "end{x=[1];print x" + "[1]" * N + "}")
    dsl("deep-calls", "end{print " + "strlen(" * N + "1" + ")" * N + "}")
    dsl("deep-ternary", "end{print " + "true?1:" * N + "2}")
    dsl("deep-blocks", "end{" + "if(true){" * N + "print 1" + "}" * N + "}")
    dsl("deep-while-blocks", "end{" + "while(false){" * (N // 10) + "print 1" + "}" * (N // 10) + "}")
    dsl("long-statement-list", "end{" + "x=1;" * N + "print x}")
    dsl("deep-array-literal", "end{x=" + "[" * Q + "1" + "]" * Q + ";print depth(x)}")
    dsl("deep-map-literal", "end{x=" + '{"a":' * Q + "1" + "}" * Q + ";print depth(x)}")
    dsl("deep-unbalanced-open", "end{print " + "(" * N + "1}")
    dsl("deep-unbalanced-brackets", "end{print " + "[" * N)
    dsl("deep-unbalanced-braces", "end{" + "{" * N)
    dsl("deep-unbalanced-close", "end{print 1" + ")" * N + "}")
    dsl("long-identifier", "end{" + "x" * (10 * N) + "=1;print " + "x" * (10 * N) + "}")
    dsl("long-field-name", "$" + "y" * (10 * N) + "=1")
    dsl("long-int-literal", "end{print " + "9" * (10 * N) + "}")
    dsl("long-float-literal", "end{print 1." + "9" * (10 * N) + "e" + "9" * 400 + "}")
    dsl("long-string-literal", 'end{print strlen("' + "s" * (100 * N) + '")}')
    dsl("long-comment", "end{print 1} #" + "c" * (100 * N))
    dsl("unterminated-string", 'end{print "abc')
    dsl("unterminated-string-backslash", 'end{print "abc\\')
    dsl("unterminated-braced-field", "end{print ${abc")
    dsl("unterminated-block", "end{print 1")
    dsl("nul-bytes", "end{print 1\x00 + 2}")
    dsl("nul-in-string", 'end{print "a\x00b"}')
    dsl("only-nul", "\x00" * 100)
    for j in range(4 if not T else 60):
        dsl("random-bytes", bytes(rng.randrange(256) for _ in range(rng.randint(1, 300))).decode("latin1"))
        dsl("random-ascii-junk", "".join(rng.choice("(){}[];,=$@\"'\\#.+-*/%<>!&|^~?: \n\tabfunc019e") for _ in range(rng.randint(1, 200))))
    dsl("invalid-utf8-string", b'end{print "\xff\xfe\xc3(\xe2\x82" . "x"; print strlen("\xc3"); print toupper("\xf0\x9f"); print format_values("\xff")}'.decode("latin1"))
    dsl("invalid-utf8-field-name", b'$\xff\xfe = 1; ${a\xffb} = 2; @\xc3 = 3; $*["\xff"] = 4'.decode("latin1"))
    dsl("invalid-utf8-identifier", b'end{\xff\xfe = 1; func\xc3(1)}'.decode("latin1"))
    dsl("func-redefinition", "func f(x){return 1} func f(x){return 2} end{print f(1)}")
    dsl("func-redefines-builtin", "func strlen(x){return 1} end{print strlen(1)}")
    dsl("func-inside-func", "func f(x){ func g(y){return 1} return 2} end{print f(1)}")
    dsl("subr-redefinition", "subr s(x){print 1} subr s(x){print 2} end{call s(1)}")
    dsl("func-wrong-arity-call", "func f(x){return 1} end{print f(1,2)}")
    dsl("func-no-return", "func f(x){ } end{print f(1)}")
    dsl("funct-literal-wrong-arity", "end{print apply([1,2], func(a,b,c){return 1}); print sort([1,2], func(a){return 1}); print fold([1,2], func(a){return 1}, 0); print reduce([], func(){return 1})}")
    # collections with nested kinds (array containing map containing empty map / empty array / empty string), function literals of
    # the wrong arity handed to the higher-order functions, variadic functions with 4 and 5 arguments, through the real binary
    X = 'x=[{"a":{"b":[{},[],"",{}]}}, {}, [], [[],[{}]]];'
    dsl("nested-kinds-collections", "end{" + X + 'print flatten({"a":x},":"); print unflatten({"a.b":x},"."); print arrayify({"1":{"1":x}}); print depth(x); print leafcount(x); '
        'print get_keys(x); print get_values(x); print mapdiff({"a":x},{"a":{}}); print mapsum({"a":x},{}); print sort(x); print concat(x,[],{}); print append(x,{}); '
        'print haskey(x,-1); print x[1]["a"]["b"][2]; print asserting_not_null(x); print typeof(x[2]); print is_empty_map(x[2]); print length(x); print x[2:3]; '
        'print json_parse(json_stringify(x)); print json_stringify(x, "multiline"); print sort_collection(x)}')
    dsl("nested-kinds-hofs", "end{" + X + 'print apply(x, func(e){return e}); print select(x, func(e){return is_map(e)}); print reduce(x, func(acc,e){return acc}); '
        'print fold(x, func(acc,e){return acc}, {}); print any(x, func(e){return is_empty_map(e)}); print every(x, func(e){return is_map(e)}); print sort(x, func(a,b){return 0}); '
        'print apply({}, func(k,v){return {k:v}}); print select({}, func(k,v){return true}); print reduce([], func(acc,e){return acc}); print fold({}, func(acck,accv,ek,ev){return {ek:ev}}, {"a":x})}')
    dsl("variadic-4-5-args", "end{" + X + 'print format("{}:{}:{}:{}",x,{},[],""); print min(x,{},[],1,""); print max(x,{},[],1,""); print mapsum({},{},{},{"a":x}); print mapdiff({"a":x},{},{},{}); '
        'print strfntime_local(1,"%Y","Asia/Tokyo"); print splitax("a,b",","); print percentiles([1,2,3],[25,75],{"interpolate_linearly":true,"output_array_not_map":true}); '
        'print percentiles(x,[50]); print unformat("{}:{}","1:2"); print strptime("2023","%Y"); print exec("/bin/true",[],{}); print system("true")}')
    for nm, ex in (("apply", "apply([1,2], func(a,b,c){return 1})"), ("sort", "sort([1,2], func(a){return 1})"), ("fold", "fold([1,2], func(a){return 1}, 0)"),
                   ("reduce", "reduce([1], func(){return 1})"), ("select-map", "select({\"a\":1}, func(e){return true})"), ("any", "any([1], func(a,b){return true})")):
        dsl("hof-wrong-arity-" + nm, "end{print " + ex.replace('\\"', '"') + "}")
    dsl("absent-in-array-literal", "end{print [1,@nosuch]}")
    dsl("absent-in-map-literal", 'end{print {"a":@nosuch, "b":$nosuch}}')
    R = 20000 if T else 1000
    dsl("bounded-recursion", "func f(n) { if (n<=0) {return 0} return 1+f(n-1) } end{print f(%d)}" % R)
    dsl("bounded-mutual-recursion", "func f(n) { if (n<=0) {return 0} return 1+g(n-1) } func g(n) { return f(n) } end{print f(%d)}" % R)
    dsl("bounded-subr-recursion", "subr s(n) { if (n>0) {call s(n-1)} } end{call s(%d); print 1}" % R)
    # a program that does not terminate is the USER's: expected outcome is the wall-clock cap; a Go fatal error
    # (stack exceeds 1 GB, out of memory within the cap) would be a violation
    dsl("unbounded-recursion", "func f(x) { return f(x) } end{print f(1)}", True)
    dsl("unbounded-subr-recursion", "subr s(x) { call s(x) } end{call s(1)}", True)
    inp = lambda fam, args, data: cases.append((fam, "input", args, data, None, False))
    inp("json-open-brackets", ["--ijson", "--ojson", "cat"], b"[" * (10 * N))
    inp("json-open-braces", ["--ijson", "--ojson", "cat"], b'{"a":' * (10 * N))
    inp("json-deep-arrays", ["--ijson", "--ojsonl", "cat"], b'{"a":' + b"[" * N + b"1" + b"]" * N + b"}")
    inp("json-deep-arrays-flatten", ["--ijson", "--ocsv", "cat"], b'{"a":' + b"[" * Q + b"1" + b"]" * Q + b"}")
    inp("json-deep-objects", ["--ijson", "--ojsonl", "cat"], b'{"a":' * Q + b"1" + b"}" * Q)
    inp("json-deep-objects-flatten", ["--ijson", "--oxtab", "cat"], b'{"a":' * Q + b"1" + b"}" * Q)
    inp("json-deep-top-level-arrays", ["--ijson", "--ojson", "cat"], b"[" * N + b'{"a":1}' + b"]" * N)
    # deeper than the Go stack allows (1 GB at about 300 bytes per level = 3.6 * 10^6 levels): a fatal "stack overflow" before the depth bound of 10000
    inp("json-open-brackets-10^7", ["--ijson", "--ojson", "cat"], b"[" * (10 ** 7 if T else 4 * 10 ** 6))
    inp("jsonl-open-brackets-deep", ["--ijsonl", "--ojson", "cat"], b"[" * (4 * 10 ** 6) + b"\n")
    dsl("json-decode-open-brackets-deep", 'end{s="[";for(i=0;i<22;i+=1){s=s.s} print json_decode(s)}')
    inp("json-depth-10001", ["--ijson", "--ojsonl", "cat"], b'{"a":' + b"[" * 10001 + b"]" * 10001 + b"}")
    inp("json-depth-9999", ["--ijson", "--ojsonl", "nothing"], b'{"a":' + b"[" * 9998 + b"]" * 9998 + b"}")
    inp("json-close-brackets", ["--ijson", "--ojson", "cat"], b"]" * N)
    inp("json-long-string", ["--ijson", "--ojson", "cat"], b'{"a":"' + b"s" * (100 * N) + b'"}')
    inp("json-long-number", ["--ijson", "--ojson", "cat"], b'{"a":' + b"9" * (10 * N) + b"}")
    inp("json-long-key", ["--ijson", "--ojson", "cat"], b'{"' + b"k" * (10 * N) + b'":1}')
    inp("json-bad-escapes", ["--ijson", "--ojson", "cat"], b'{"a":"\\u12","b":"\\ud800","c":"\\x","d":"\\')
    inp("json-nul-bytes", ["--ijson", "--ojson", "cat"], b'{"a":"\x00","\x00":1}\x00')
    inp("jsonl-deep-arrays", ["--ijsonl", "--ojsonl", "cat"], b'{"a":' + b"[" * N + b"1" + b"]" * N + b"}\n")
    inp("csv-deep-unflatten", ["--icsv", "--ojsonl", "cat"], b".".join([b"a"] * Q) + b"\n1\n")
    inp("csv-deep-unflatten-verb", ["--icsv", "--ocsv", "unflatten", "then", "flatten"], b".".join([b"a"] * Q) + b"\n1\n")
    inp("yaml-deep-flow", ["--iyaml", "--ojsonl", "cat"], b"a: " + b"[" * Q + b"1" + b"]" * Q + b"\n")
    inp("yaml-deep-block", ["--iyaml", "--ojsonl", "cat"], b"".join(b"  " * i + b"a:\n" for i in range(300)) + b"  " * 300 + b"b: 1\n")
    inp("yaml-alias-expansion", ["--iyaml", "--ojsonl", "nothing"], b"a: &a [1,1]\nb: &b [*a,*a]\nc: &c [*b,*b]\nd: &d [*c,*c]\ne: [*d,*d]\n")
    inp("dkvp-long-line", ["--idkvp", "--ojson", "cat"], b"a=" + b"x" * (100 * N) + b"\n")
    inp("csv-long-quoted-field", ["--icsv", "--ojson", "cat"], b'a\n"' + b"x\n" * (10 * N) + b'"\n')
    return cases


def stress_part(ctx):
    cases = stress_cases(ctx)
    d = Path(SANDBOX["dir"])

    def go(ic):
        i, (fam, kind, args, data, prog, nonterm) = ic
        if kind == "dsl":
            f = d / ("stress_%d.mlr" % i)
            f.write_bytes(prog.encode("latin1"))
            args = ["-n", "put", "-f", str(f)]
        to = 8 if nonterm else 90
        if nonterm:     # one attempt only: the cap is the expected outcome
            st, out, err = mlr_run(ctx, args, data, timeout=to, max_out=50_000_000, env=SAFE_ENV, cwd=SANDBOX["dir"])
        else:
            st, out, err = run_cli(ctx, args, data, timeout=to, max_out=50_000_000)
        k = c18_classify(st, err)
        if kind == "dsl":
            try:
                f.unlink()
            except OSError:
                pass
        return fam, kind, args, data, prog, nonterm, k, st, err
    with ctx.timed("stress"):
        with cf.ThreadPoolExecutor(min(8, NJOBS + 2)) as ex:
            results = list(ex.map(go, enumerate(cases)))
    summary, tally, seen = {}, {}, set()
    for fam, kind, args, data, prog, nonterm, k, st, err in results:
        ctx.count(("stress", fam, prog if prog is not None else data)); ctx.dist("stress:" + fam)
        kk = "capped-nonterminating-user-program" if (nonterm and k == "hang") else k
        summary.setdefault(fam, {}).setdefault(kk, 0)
        summary[fam][kk] += 1
        tally[kk] = tally.get(kk, 0) + 1
        if kk in ("ok", "mlr_error", "capped-nonterminating-user-program"):
            continue
        m = re.search(rb"(?:panic|fatal error): ([^\n]{0,60})", err)
        what = re.sub(rb"[^a-z]+", b"-", (m.group(1) if m else b"").lower()).strip(b"-").decode()[:40]
        cls = "stress-%s-%s%s" % (kk, fam, ("-" + what) if what else "")
        if cls in seen:
            continue
        seen.add(cls)
        gen = {"family": fam, "program_len": len(prog) if prog is not None else None, "stdin_len": len(data)}
        ctx.violation({"class": cls, "part": "stress", "family": fam, "args": args if kind != "dsl" else ["-n", "put", "-f", "<program>"],
                       "program": prog if (prog is not None and len(prog) <= 4000) else None, "program_head": prog[:200] if prog is not None else None,
                       "stdin_hex": data.hex() if len(data) <= 4000 else None, "stdin_head_hex": data[:100].hex(), "generator": gen,
                       "input": "stress family %s (see stress_cases in c18.py; tier %s)" % (fam, ctx.tier),
                       "observed": "%s exit=%s %s" % (k, st, err.decode("utf-8", "replace")[:500]),
                       "expected": "output, or an `mlr:` error with non-zero exit, in bounded time"})
    ctx.cov["stress"] = {"cases": len(cases), "families": len(summary), "classes": tally, "per_family": summary}


# ---------------------------------------------------------------------------------------------------------------
# part 5: verbs -- argument-list grammar through every verb's ParseCLI, and degenerate record streams
# ---------------------------------------------------------------------------------------------------------------
VERB_BIG = "100000"      # "huge" counts stay below what is plain resource use (repeat -n / histogram --nbins allocate that much)
VERB_GENERIC = [[], ["-n"], ["-n", "-5"], ["-n", VERB_BIG], ["-n", "x"], ["-n", "9223372036854775808"], ["-f", ""], ["-f", "a,,b"], ["-f", "a"], ["-f"], ["-g", "a"],
                ["--nosuchflag"], ["-"], ["--"], [""], ["-f", "a", "then"], ["then"], ["then", "then"], ["-f", "a", "then", "then", "cat"], ["x", "y", "z"],
                ["-f", "a", "-n", "1", "-g", "b"], ["-f", "\xff\xfe"], ["-f", "a" * 20000], ["-f", "a", "-f"], ["-n", "1.5"], ["-n", "0"], ["-f", ",", "-g", ","], ["-h"]]
VERB_GENERIC_QUICK = [0, 1, 2, 3, 4, 7, 9, 11, 14, 15, 17, 18, 25]
VERB_FLAG_ARGS = [None, "", "a", "-5", VERB_BIG, "a,,b", "0", "x=y", "1e309", "\xff"]
VERB_FLAG_ARGS_QUICK = [0, 1, 3]
VERB_DEFAULT_CANDIDATES = [[], ["-f", "a"], ["-n", "1"], ["-f", "a", "-g", "b"], ["-a", "sum", "-f", "a"], ["a", "b"], ["$z=1"], ["true"], ["--ivar", ";", "-f", "a"],
                           ["-f", "/dev/null", "-j", "a"], ["-i", "a,b", "-o", "k,v"], ["a"], ["-a", "sum", "-f", "a,b", "-o", "ab"], ["-a", "delta", "-f", "a"],
                           ["-f", "a", "--lo", "0", "--hi", "1"], ["--at-least", "a"], ["--stop", "3"], ["-f", "a", "b", "c"], ["-u", "-f", "a"], ["-n", "2"], ["out.tmp"],
                           ["-d", "a", "-s", "b"], ["-k", "a", "-v", "b"], ["-a", "cov", "-f", "a,b"], ["-a"], ["-f", "a,b"], ["-x", "a", "-y", "b"], ["-r", "a", "b"]]
VERB_PREFERRED = {"put": ["$z = $a . 1"], "filter": ["true"], "grep": ["a"], "sub": ["-f", "a", "b", "c"], "gsub": ["-f", "a", "b", "c"], "ssub": ["-f", "a", "b", "c"],
                  "label": ["x,y"], "sec2gmt": ["a"], "sec2gmtdate": ["a"], "group-by": ["a"], "tee": ["out.tmp"], "repeat": ["-n", "2"], "rename": ["a,b"], "count-similar": ["-g", "a"],
                  "sample": ["-k", "2"], "stats2": ["-a", "cov", "-f", "a,c"], "split": ["-n", "2"], "seqgen": ["--stop", "3"], "fill-down": ["-a"], "nest": ["--ivar", ";", "-f", "a"]}
VERB_CODES = {"panic": 80, "hang": 72, "internal": 73, "silent-failure": 85}


def verb_flags(usage):
    out = []
    for m in re.finditer(r"(?m)^\s{0,3}(-{1,2}[A-Za-z0-9][-A-Za-z0-9_|,]*)", usage):
        for f in re.split(r"[|,]", m.group(1)):
            if re.fullmatch(r"-{1,2}[A-Za-z0-9][-A-Za-z0-9_]*", f) and f not in ("-h", "--help") and f not in out:
                out.append(f)
    return out


def verb_part(ctx, exe):
    """regenerates coq/gen/Gen_VerbOutcomes.v; returns the list of bad cases (confirmed with the real binary)"""
    rng = ctx.rng
    T = ctx.tier == "thorough"
    st, out, err = run_cli(ctx, ["help", "list-verbs"], b"", timeout=60)
    verbs = [v for v in out.decode().split() if v]
    if st != 0 or len(verbs) < 10:
        ctx.violation({"broken": "mlr help list-verbs", "observed": "%s %s" % (st, err[:200])}, found_input=False)
        verbs = []
    rec = b"a=3,b=x,c=0.5\na=1,b=y,c=\na=2,b=x,d=7\n"
    # usage texts (in-process)
    ures = inproc_many(exe, [[{"id": i, "args": [v, "--help"], "stdin": b""} for i, v in enumerate(verbs)][k::NJOBS] for k in range(NJOBS)], timeout_ms=8000)
    # the usage text may be longer than the 2 KB head the in-process driver keeps: flags beyond it come from the binary in the thorough tier
    flags = {}
    for i, v in enumerate(verbs):
        txt = (ures.get(i) or {}).get("out", b"").decode("latin1")
        if T or not txt:
            st1, o1, e1 = run_cli(ctx, [v, "--help"], b"", timeout=60)
            txt = o1.decode("latin1")
        flags[v] = verb_flags(txt)
    cases = []

    def add(v, kind, pre, vargs, stdin):
        chain = [v] + vargs
        if v in ("seqgen", "repeat", "fill-down", "bootstrap", "sample", "shuffle") and "then" not in vargs:
            chain = chain + ["then", "head", "-n", "4"]       # generators: a huge but finite count is not a hang
        cases.append({"id": len(cases), "verb": v, "kind": kind, "args": pre + chain, "stdin": stdin})
    for v in verbs:
        gl = VERB_GENERIC if T else [VERB_GENERIC[i] for i in VERB_GENERIC_QUICK]
        for a in gl:
            add(v, "generic", [], list(a), rec)
        fl = flags[v] if T else (flags[v][:1] + rng.sample(flags[v][1:], min(1, len(flags[v][1:]))))
        fa = VERB_FLAG_ARGS if T else [VERB_FLAG_ARGS[i] for i in VERB_FLAG_ARGS_QUICK]
        for f in fl:
            for x in fa:
                add(v, "flag", [], [f] if x is None else [f, x], rec)
            if T:
                add(v, "flag", [], [f, "a", f, "b"], rec)
                add(v, "flag", [], [f, "a", "then"], rec)
    ngram = len(cases)
    groups = [cases[k::NJOBS] for k in range(NJOBS)]
    with ctx.timed("verb_inproc"):
        res = inproc_many(exe, [g for g in groups if g], timeout_ms=8000)
    # default-ish arguments per verb: the first candidate that runs on a plain stream
    allc = lambda v: ([VERB_PREFERRED[v]] if v in VERB_PREFERRED else []) + VERB_DEFAULT_CANDIDATES
    defaults, todo = {}, list(verbs)
    for lo, hi in ((0, 3), (3, 9), (9, 99)):          # most verbs run with no argument or -f a: try the rest only for those which do not
        cand = []
        for v in todo:
            for j, a in list(enumerate(allc(v)))[lo:hi]:
                chain = [v] + a + (["then", "head", "-n", "4"] if v in ("seqgen", "repeat") else [])
                cand.append({"id": len(cand), "verb": v, "cand": j, "args": chain, "stdin": rec})
        cres_ = inproc_many(exe, [g for g in (cand[k::NJOBS] for k in range(NJOBS)) if g], timeout_ms=8000) if cand else {}
        for c in cand:
            r = cres_.get(c["id"])
            if c["verb"] not in defaults and r and inproc_class(r) == "ok":
                defaults[c["verb"]] = allc(c["verb"])[c["cand"]]
        todo = [v for v in todo if v not in defaults]
    nodefault = todo
    NF = 100000 if T else 3000
    wide = b",".join(b"k%d=%d" % (i, i) for i in range(NF)) + b"\n"
    streams = [("no-records", [], b""), ("records-without-fields", ["--ijson"], b"{}\n{}\n[{},{}]"), ("field-named-empty", [], b"=1\n=2\n"),
               ("many-fields", [], wide), ("repeated-keys-no-dedupe", ["--no-dedupe-field-names"], b"a=1,a=2,b=3,a=4\na=5,a=6\n"),
               ("only-empty-values", [], b"a=,b=,c=\n"), ("heterogeneous", ["--ijson"], b'{"a":{"x":[1,{"y":2}]},"b":null}\n{"b":[],"c":{}}\n')]
    for v in verbs:
        a = defaults.get(v)
        if a is None:
            continue
        for sname, pre, data in streams:
            if sname == "many-fields" and not T and v in ("summary", "describe", "merge-fields", "sec2gmt", "reorder", "nest", "unsparsify", "template"):
                continue                    # quadratic in the field count on this tree (observed, finite): thorough tier only
            add(v, "degenerate:" + sname, pre, list(a), data)
    with ctx.timed("verb_degenerate_inproc"):
        res2 = inproc_many(exe, [[c for c in cases[ngram:]][k::NJOBS] for k in range(NJOBS)], timeout_ms=20000)
    res.update(res2)
    rows, suspects = {}, []
    for c in cases:
        r = res.get(c["id"])
        cl = inproc_class(r) if r else "not-run"
        c["class"] = cl
        ctx.count(("verb", tuple(c["args"]), c["stdin"][:64])); ctx.dist("verb:" + c["kind"])
        if cl not in ("ok", "mlr_error"):
            suspects.append(c)
    # suspects are decided by the real binary (the in-process driver shares process-global state between cases)
    def cli(c):
        st, out, err = run_cli(ctx, c["args"], c["stdin"], timeout=30, max_out=50_000_000)
        return c, c18_classify(st, err), st, err
    with ctx.timed("verb_cli"):
        with cf.ThreadPoolExecutor(min(8, NJOBS)) as ex:
            confirmed = list(ex.map(cli, suspects[:200]))
            sample = [c for c in cases if c["class"] in ("ok", "mlr_error")]
            rng.shuffle(sample)
            tied = list(ex.map(cli, sample[:6 if not T else 300]))
    for c, k, st, err in confirmed:
        c["class"], c["cli"] = k, (st, err)
    if len(suspects) > 200:
        ctx.violation({"broken": "verb part: %d in-process suspects (more than the binary re-runs 200 of): driver or build problem" % len(suspects), "part": "verb"}, found_input=False)
    mism = [(c, k) for c, k, st, err in tied if k != c["class"]]
    mism = [(c, k) for c, k in mism if cli(c)[1] == k]
    bad = [c for c in cases if c["class"] not in ("ok", "mlr_error")]
    for c in cases:
        row = rows.setdefault(c["verb"], {"cases": 0, "ok": 0, "err": 0, "bad": []})
        row["cases"] += 1
        if c["class"] == "ok":
            row["ok"] += 1
        elif c["class"] == "mlr_error":
            row["err"] += 1
        else:
            row["bad"].append(VERB_CODES.get(c["class"], 85))
    lines = ["(* REGENERATED on every run by harness/py/checks/c18.py: `mlr help list-verbs` and, per verb, the outcomes of the argument-list grammar",
             "   and of the degenerate record streams (see coq/C18/VerbTable.v). *)",
             "From Miller Require Import Base.Bytes.", "Open Scope N_scope.",
             "Definition gen_verbs : list bytes := [" + "; ".join(coq_bytes(v.encode()) for v in verbs) + "].",
             "Definition gen_verb_rows : list (bytes * N * N * N * list N) := [",
             ";\n".join("(%s, %d, %d, %d, [%s])" % (coq_bytes(v.encode()), r["cases"], r["ok"], r["err"], "; ".join(str(x) for x in r["bad"])) for v, r in rows.items()),
             "]."]
    write_if_changed(GEN / "Gen_VerbOutcomes.v", "\n".join(lines) + "\n")
    tally = {}
    for c in cases:
        tally.setdefault(c["kind"], {}).setdefault(c["class"], 0)
        tally[c["kind"]][c["class"]] += 1
    ctx.cov["verb_table"] = {"verbs": len(verbs), "cases": len(cases), "grammar_cases": ngram, "degenerate_cases": len(cases) - ngram, "classes_by_kind": tally,
                             "flags_found_in_usage_texts": sum(len(f) for f in flags.values()), "verbs_without_default_arguments": nodefault,
                             "default_arguments": {v: " ".join(a) for v, a in defaults.items()}, "suspects_inproc": len(suspects),
                             "cli_sample": {"runs": len(tied), "class_mismatches_inproc_vs_binary": len(mism)}, "many_fields": NF}
    ctx.cov["evaluations"] += len(cases)
    for c, k in mism[:3]:
        ctx.violation({"broken": "in-process driver and mlr binary classify differently (verb part)", "args": c["args"], "stdin_hex": c["stdin"][:400].hex(),
                       "inproc": c["class"], "binary": k, "part": "verb"}, found_input=False)
    seen = set()
    for c in bad:
        st, err = c.get("cli", ("?", b""))
        where = re.search(rb"pkg/([\w/-]+)/([\w.-]+)\.go:(\d+)", err)
        cls = "verb-%s-%s-%s" % (c["class"], c["verb"], where.group(2).decode() if where else c["kind"].split(":")[-1])
        if cls in seen:
            continue
        seen.add(cls)
        ctx.violation({"class": cls, "part": "verb", "broken": "C18_verb_table_no_panic_or_hang", "args": c["args"], "verb": c["verb"], "kind": c["kind"],
                       "input": "mlr %s  < stdin" % " ".join(c["args"])[:400], "stdin_hex": c["stdin"].hex() if len(c["stdin"]) <= 2000 else None,
                       "stdin_head_hex": c["stdin"][:100].hex(), "observed": "%s exit=%s %s" % (c["class"], st, err.decode("utf-8", "replace")[:500]),
                       "expected": "output, or a message on stderr with a non-zero exit"})
    return bad


# ---------------------------------------------------------------------------------------------------------------
# regression probes: the witnesses of the repaired C18 findings (KNOWN_FINDINGS.txt `fixed:` lines) stay repaired
# ---------------------------------------------------------------------------------------------------------------
PROBES = [
    (["-n", "put", "end{print append([], @nosuch)}"], b""), (["-n", "put", "end{print concat(1, @nosuch)}"], b""), (["-n", "put", "end{print fmtnum([1,2], @nosuch)}"], b""),
    (["-n", "put", "func f(a) { return a } end { print concat(1, f); print append([], f); print {\"a\":f} }"], b""), (["-n", "put", "end{print [1,@nosuch]}"], b""),
    (["--ojson", "put", "$y=[1,@nosuch]; $z=fmtifnum({\"a\":1},@nosuch)"], b"a=1\n"),
    (["-n", "put", "end{print variance([200,-1,\"x\",[1]]); print kurtosis({\"a\":\"x\"}); print meaneb([\"\"]); print skewness([{}]); print stddev([\"abc\"])}"], b""),
    (["--igen", "--gen-start", "9223372036854775806", "--gen-stop", "9223372036854775807", "cat"], b""), (["--igen", "--gen-start", "1", "--gen-stop", "3", "--gen-step", "1e-30", "cat"], b""),
    (["--igen", "--gen-start", "1", "--gen-stop", "3", "--gen-step", "0", "cat"], b""), (["--igen", "--gen-start", "-9223372036854775807", "--gen-stop", "-9223372036854775808", "--gen-step", "-1", "cat"], b""),
    (["--igen", "--gen-start", "NaN", "--gen-stop", "3", "cat"], b""), (["--igen", "--gen-start", "-Inf", "--gen-stop", "3", "cat"], b""),
    (["seqgen", "--start", "9223372036854775806", "--stop", "9223372036854775807"], b""), (["seqgen", "--start", "1e20", "--stop", "1e21"], b""),
    (["seqgen", "--start", "1", "--stop", "3", "--step", "1e-30"], b""), (["seqgen", "--start", "9223372036854775806", "--stop", "1e19"], b""),
    (["head", "-n"], b"a=1\n"), (["bar", "--lo"], b"a=1\n"), (["cat", ""], b"a=1\n"), (["sec2gmt", ""], b"a=1\n"), (["sec2gmtdate", ""], b"a=1\n"), (["gap", "-n", "0"], b"a=1\na=2\n"),
    (["split", "-n", "0"], b"a=1\na=2\n"), (["split", "-m", "0"], b"a=1\na=2\n"), (["lecat", ""], b""), (["termcvt", ""], b""), ([""], b""), (["cat", "then", ""], b"a=1\n"),
    (["--ijson", "--ojsonl", "cat"], b"[" * 20000), (["-n", "put", 'end{s="[";for(i=0;i<15;i+=1){s=s.s} print json_decode(s)}'], b""),
    (["--ipprint", "--fixed", "abc", "cat"], b"a b\n1 2\n"), (["--ipprint", "--fw", "", "cat"], b"a b\n1 2\n"), (["--mload", "a.mlr", "cat"], b"a=1\n"), (["--mload", ""], b""), (["--mfrom", "x"], b""),
    (["--ixtab", "--ips", "", "cat"], b"a 1\nb 2\n"), (["--ixtab", "--ifs", "", "cat"], b"a 1\n"),
    (["--ipprint", "--barred-input", "--implicit-csv-header", "cat"], b"no bars\n| 1 |\n"), (["--imd", "--implicit-csv-header", "cat"], b"x\n"),
    (["-n", "put", "end{print percentile([1,2,3,4,5], 9223372036854775807, {\"interpolate_linearly\":true}); print median([], {\"output_array_not_map\":true}); print leftpad(5,10,\"\"); "
      "print invqnorm(1e300*1e300 - 1e300*1e300); print strptime(\"abc\",\"Asia/Istanbul\"); print 1 ./ 0; print madd(5,3,0); print 1e400}"], b""),
]


def probes_part(ctx, exe=None):
    def go(p):
        st, out, err = run_cli(ctx, p[0], p[1], timeout=20, max_out=5_000_000)
        return p, c18_classify(st, err), st, len(out), err
    with ctx.timed("regression_probes"):
        todo = list(PROBES)
        results = []
        if exe and ctx.tier == "quick":
            # in-process first (a process start costs 1-2 s); whatever is not plainly fine there is decided by the real binary
            reqs = [{"id": i, "args": p[0], "stdin": p[1]} for i, p in enumerate(PROBES)]
            res = inproc_many(exe, [g for g in (reqs[k::NJOBS] for k in range(NJOBS)) if g], timeout_ms=8000)
            todo = []
            for i, p in enumerate(PROBES):
                r = res.get(i)
                k = inproc_class(r) if r else "not-run"
                if k in ("ok", "mlr_error"):
                    results.append((p, k, r.get("code"), r.get("out_len", 0), r["stderr"]))
                else:
                    todo.append(p)
            todo += PROBES[:2]
        with cf.ThreadPoolExecutor(min(8, NJOBS)) as ex:
            results += list(ex.map(go, todo))
    tally = {}
    for (args, data), k, st, nout, err in results:
        ctx.count(("probe", tuple(args))); ctx.dist("probe:" + k)
        tally[k] = tally.get(k, 0) + 1
        if k not in ("ok", "mlr_error"):
            ctx.violation({"class": "regression-%s-%s" % (k, re.sub(r"[^a-z0-9]+", "-", " ".join(args).lower())[:50]), "part": "reader" if data or args[0].startswith("--i") else "bif",
                           "args": args, "stdin_hex": data.hex(), "cli_program": args[2] if args[:2] == ["-n", "put"] else None,
                           "input": "mlr " + " ".join(args), "observed": "%s exit=%s %s" % (k, st, err.decode("utf-8", "replace")[:400]),
                           "expected": "output, or an `mlr:` error with non-zero exit (this input is the witness of a repaired finding)"})
    ctx.cov["regression_probes"] = {"probes": len(PROBES), "classes": tally}


# ---------------------------------------------------------------------------------------------------------------
def run(ctx):
    ctx.cov["rule"] = ("(1) every row of the built-in function table x every tuple of 37 argument-kind representatives for arity <= 2, and of "
                       "12 (quick) / 37 (thorough) for arity 3, invoked as the callsite nodes do, outcome table regenerated and re-proved; "
                       "(2) valid documents of 16 input formats x reader option sets x grammar-aware mutations (truncation at every byte, "
                       "nasty-token insertion, ragged lines, huge fields, CR/LF, BOM, invalid UTF-8, NUL) classified ok|mlr_error|panic|internal|hang; "
                       "directories and truncated gzip as inputs; DKVP/NIDX/TSV line-reader models compared record-for-record (hex dump through the DSL); "
                       "(2b) classified CSV / CSV-lite / PPRINT / XTAB reader models (coq/C18/ModelReaders.v) compared on seeds, hand-written corner documents, truncations, random "
                       "quote/separator/CR/LF strings and grammar-aware mutants x 46 option sets: records, or error class with the numbers of the message; "
                       "(3) token-level mutations of the put/filter expressions of test/cases; (4) stress families: nesting depth 2*10^3 (quick) / 10^5 (thorough) in every "
                       "recursive construct of the DSL grammar, long tokens, junk / NUL / invalid UTF-8 bytes, redefinitions, bounded and unbounded recursion, deep JSON / YAML / "
                       "flatten / unflatten, nested-kind collections and wrong-arity function literals; a case is non-trivial when its input is distinct")
    ctx.cov["trusted_base"] = ["Coq 8.16.1 kernel + vm_compute", "no axioms (Print Assumptions: closed under the global context)",
                               "implrun bif-matrix driver + the add-only export pkg/dsl/cst/zz_verif_c18.go (invokes table rows as the callsite nodes do)",
                               "instrumented scratch copy: os.Exit( of Miller's packages textually redirected to pkg/verifexit (hook: observe the exit, keep the process)",
                               "python harness; classification of runs by exit status / stderr patterns / wall-clock and output caps"]
    ctx.assumptions = ["argument kinds are covered by representatives (37), not by all values: a panic that needs a specific value outside them is not seen by part 1",
                       "hang = no progress for 4 s inside one call (in-process) / 8-25 s wall clock (mlr runs)",
                       "readers modelled in Coq here: DKVP, NIDX, TSV, CSV, CSV-lite, PPRINT (non-barred), XTAB with the options named in ModelReaders.v; JSON, YAML, markdown, DKVPX, USV/ASV, DCF, recutils, barred PPRINT, regex separators, comment handling are covered by the mutation harness only",
                       "CSV error precedence (a reported quote error wins over an earlier length mismatch) is modelled for inputs within one reader batch (500 records)",
                       "a DSL program that does not terminate (unbounded recursion) is the user's: the wall-clock cap is its expected outcome; only a Go fatal error would be a violation",
                       "the DSL front end is exercised, not modelled"]
    exe = build_instrumented(ctx)
    SANDBOX["dir"] = tempfile.mkdtemp(prefix="verif-c18-cwd.")
    try:
        run_parts(ctx, exe)
    finally:
        shutil.rmtree(SANDBOX["dir"], ignore_errors=True)
        SANDBOX["dir"] = None


def run_parts(ctx, exe):
    # VERIF_C18_ONLY=bif,line,classified,reader,special,dsl,stress runs a subset (development aid; the registered command runs all)
    only = set(filter(None, os.environ.get("VERIF_C18_ONLY", "").split(",")))
    want = lambda p: not only or p in only
    forbidden_gate(ctx, ["Base", "C18"])
    if want("bif"):
        mats = gen_bif_table(ctx, exe)
        vbad = verb_part(ctx, exe)
        ok, why = check_props(ctx, "C18/Props.v", ["C18/TableProofs.vo", "C18/VerbProofs.vo", "C18/Harness.vo", "C18/Proofs.vo", "C18/ProofsReaders.vo", "C18/ProofsBar.vo", "C18/ProofsJson.vo"])
        by_class = bif_oracle(ctx, mats)
        if not ok:
            # a proof obligation broke: the oracles above have reported the failing tuples / verb cases if a table is the reason
            if not ((by_class or vbad) and isinstance(why, dict) and ("TableProofs" in json.dumps(why) or "VerbProofs" in json.dumps(why))):
                ctx.violation({"broken": why}, found_input=False)
            elif not ctx.violations and not ctx.known_reported:
                ctx.violation({"broken": why}, found_input=False)
    else:
        if want("verb"):
            verb_part(ctx, exe)
        coq_make(["C18/Harness.vo", "C18/ProofsReaders.vo", "C18/ProofsBar.vo"])
    if want("probes"):
        probes_part(ctx, exe)
    if want("line"):
        line_reader_correspondence(ctx, exe)
    if want("classified"):
        classified_reader_correspondence(ctx, exe)
    if want("jsonlayer"):
        json_layer_correspondence(ctx, exe)
    if want("reader"):
        reader_part(ctx, exe)
    if want("special"):
        special_inputs(ctx)
    if want("dsl"):
        dsl_part(ctx, exe)
    if want("stress"):
        stress_part(ctx)


def replay(ctx, path):
    SANDBOX["dir"] = tempfile.mkdtemp(prefix="verif-c18-cwd.")
    try:
        replay_in(ctx, path)
    finally:
        shutil.rmtree(SANDBOX["dir"], ignore_errors=True)
        SANDBOX["dir"] = None


def replay_in(ctx, path):
    obj = json.loads(Path(path).read_text())
    part = obj.get("part")
    if part == "bif" and obj.get("cli_program"):
        c, st, out, err = cli_dsl(ctx, obj["cli_program"], timeout=15)
        print("replay: mlr -n put %r -> %s exit=%s %s" % (obj["cli_program"], c, st, err.decode("utf-8", "replace")[:200]))
        ctx.count(obj["cli_program"])
        if c not in ("ok", "mlr_error"):
            ctx.violation(dict(obj, replayed=True, observed="%s exit=%s" % (c, st)))
    elif part in ("reader",) and "stdin_hex" in obj:
        st, out, err = run_cli(ctx, obj["args"], bytes.fromhex(obj["stdin_hex"]), timeout=25)
        c = c18_classify(st, err)
        print("replay: mlr %s -> %s exit=%s" % (" ".join(obj["args"]), c, st))
        ctx.count(obj["stdin_hex"])
        if c not in ("ok", "mlr_error"):
            ctx.violation(dict(obj, replayed=True, observed="%s exit=%s" % (c, st)))
    elif part == "dsl" and "program" in obj:
        st, out, err = run_cli(ctx, ["put", obj["program"]], b"a=pan,b=wye,i=1,x=0.3467901443380824,y=0.7268028627434533,s=\xff\n", timeout=20)
        c = c18_classify(st, err)
        print("replay: mlr put %r -> %s exit=%s" % (obj["program"], c, st))
        ctx.count(obj["program"])
        if c not in ("ok", "mlr_error"):
            ctx.violation(dict(obj, replayed=True, observed="%s exit=%s" % (c, st)))
    else:
        print("replay: nothing executable stored in this file (it names a broken theorem/correspondence); re-running the check")
        run(ctx)
