"""C15 part: fmtnum / fmtifnum / hexfmt -- generated formats of the grammar modelled in coq/C15/ModelFmt.v
(Miller's format translation + Go fmt for one verb) for the correspondence, and the C printf oracle (python %)."""
import re, struct

ERR = "(error)"
INTS = [0, 1, -1, 7, -7, 17, 255, -255, 4096, 65535, 1234567, -1234567, 2 ** 31, -2 ** 31, 2 ** 53 + 1, 9007199254740993, -9007199254740995,
        2 ** 63 - 1, -2 ** 63, 10 ** 18, 999999999999999999]
FLOATS = ["0.5", "1.5", "2.5", "-2.5", "3.14159", "1e10", "1e-5", "123456.789", "-0.0", "0.0", "0.125", "0.375", "1e300", "2.675", "0.1", "1e22", "1e23", "5e-324",
          "1.7976931348623157e308", "9.995", "0.045", "999999.9999995", "-1e-7", "4.35", "0.000123456789", "8.5", "9.5", "99.5", "0.9999995", "1e-320", "2.2250738585072014e-308",
          "123456789012345678", "-9.99e-5", "7.0", "1e15", "5.", ".5", "-.25"]


def gen_format(rng, num_is_int):
    r = rng.random()
    pre = rng.choice(["", "", "", "X", "val=", "old:", "[", "le ", "a.b"])
    flags = "".join(c for c in "-+ 0#" if rng.random() < 0.22)
    width = rng.choice(["", "", str(rng.randint(1, 14)), str(rng.randint(1, 24)), "0" + str(rng.randint(1, 9))])
    precs = rng.choice(["", "", "", "." + str(rng.randint(0, 9)), ".", "." + str(rng.randint(10, 20))])
    post = "" if rng.random() < 0.85 else rng.choice(["|", "]", " units", " pct.", ";"])
    if r < 0.45:
        lm, verb = rng.choice(["", "", "l", "ll"]), rng.choice("ddxXob")     # l/ll are dropped from the directive for every verb
    elif r < 0.85:
        lm, verb = rng.choice(["", "", "l"]), rng.choice("ffeeE")
        flags = flags.replace("#", "")
    elif r < 0.93:
        lm, verb = "", "s"
    else:
        lm, verb = "", rng.choice("Fcitu")         # no formatter of their own: the string formatter renders %!verb(string=...)
    return pre + "%" + flags + width + precs + lm + verb + post


def float_bits(text):
    return struct.unpack(">Q", struct.pack(">d", float(text)))[0]


def classify(n, f, obs):
    mm = re.fullmatch(r"[^%]*%[-+ 0#]*\d*(?:\.\d*)?(?:ll|l)?([a-zA-Z])(.*)", f)
    return ("fmtnum-literal-text-mangled" if re.search(r"ld|lx|lf|le|lg", f.split("%")[0])
            else "fmtnum-trailing-text" if mm and mm.group(2)
            else "fmtnum-x-negative-not-twos-complement" if mm and mm.group(1) in "xXob" and n.startswith("-")
            else "fmtnum-verb-unsupported" if mm and mm.group(1) in "obXEG" and "%!" in obs else "fmtnum-printf")


# the witnesses of the repaired findings (regression probes: model case + C printf oracle on every run)
REGRESSION = [("17", "old:%d"), ("17", "%5d|"), ("-1", "%x"), ("-5", "%08llx"), ("-1", "%-10x|"), ("0", "le %16lf"), ("3", "angle=%d"), ("1.5", "self %lf"),
              ("-1", "%b"), ("-255", "%o"), ("-255", "%X"), ("17", "lld %lld ld"), ("2.5", "[%08.3lf] le"), ("-2.625", "%5d|"), ("-2.625", "<%x>"), ("7", "%lle|"),
              ("-9223372036854775808", "%x"), ("-9223372036854775808", "%d;")]


def run_part(ctx, case, bad, mlr_rows, P, ref_fmtnum):
    rng = ctx.rng
    quick = ctx.tier == "quick"
    nums = [(str(n), True) for n in INTS] + [(x, False) for x in FLOATS]
    for _ in range(10 if quick else 300):
        nums.append((str(rng.choice([rng.randint(-10 ** 6, 10 ** 6), rng.randint(-2 ** 63, 2 ** 63 - 1), rng.randint(-300, 300)])), True))
        k = rng.randint(0, 9)
        nums.append((rng.choice(["%.*f" % (k, rng.uniform(-1000, 1000)), "%.*e" % (k, rng.uniform(-10, 10) * 10.0 ** rng.randint(-30, 30)),
                                 "%d.%s5" % (rng.randint(0, 99), "".join(rng.choice("0123456789") for _ in range(rng.randint(0, 4))))]), False))
    rows = []
    per = 3 if quick else 12
    for txt, isint in nums:
        for _ in range(per):
            f = gen_format(rng, isint)
            if "\\" in f or "\t" in f:
                continue
            if not isint and re.search(r"%[-+ 0#]*\d*(?:\.\d*)?l*[dxXob]", f) and abs(float(txt)) >= 2 ** 63:
                continue                              # int(float) outside int64: platform-defined, outside the model
            rows.append((b"r", txt.encode(), f.encode()))
    rows += [(b"r", n.encode(), f.encode()) for n, f in REGRESSION]
    res = mlr_rows(ctx, ["id", "n", "f"], rows, P(["fmtnum($n,$f)", "fmtifnum($n,$f)", "hexfmt($n)"]), ["o", "oi", "hx"])
    for (_, n, f), o in zip(rows, res):
        n, f = n.decode(), f.decode()
        isint = re.fullmatch(r"-?\d+", n) is not None
        a = int(n) if isint else float_bits(n)
        ctx.count(("fmt", n, f))
        info = {"value": n, "format": f, "how": "mlr -n put 'end{print fmtnum(%s, \"%s\")}'" % (n, f)}
        case(50, a, 0 if isint else 1, f.encode(), n.encode(), b"E" if o["o"] == ERR else b"", b"" if o["o"] == ERR else o["o"].encode("latin1"), dict(info, fn="fmtnum"))
        case(51, a, 0 if isint else 1, f.encode(), n.encode(), b"E" if o["oi"] == ERR else b"", b"" if o["oi"] == ERR else o["oi"].encode("latin1"), dict(info, fn="fmtifnum"))
        case(52, a, 0 if isint else 1, b"", n.encode(), b"", o["hx"].encode("latin1"), dict(info, fn="hexfmt"))
        fc = f
        mz = re.fullmatch(r"([^%]*%)([-+ 0#]*)(\d*\.\d+(?:ll|l)?[dxXob][^%]*)", f)
        if mz:
            fc = mz.group(1) + mz.group(2).replace("0", "") + mz.group(3)      # C: the 0 flag is ignored when an integer conversion has a precision (python % differs)
        want = ref_fmtnum(n, fc) if re.fullmatch(r"[^%]*%[-+ 0#]*\d*(?:\.\d+)?(?:ll|l)?[dxXobeEfgGs][^%]*", f) else None
        if re.search(r"\.\d*b", f):
            want = None                               # %b with a precision: not in C99 printf (the python reference ignores the precision)
        if want is not None and not (set("+ ") & set(re.match(r"[^%]*%([-+ 0#]*)", f).group(1)) and re.search(r"[xXob]", f)):
            if o["o"] != want:
                bad(classify(n, f, o["o"]), input={"value": n, "format": f}, observed=o["o"], expected=want, how=info["how"])
        if isint:
            hx = "0x%x" % (int(n) % 2 ** 64)
            if o["hx"] != hx:
                bad("hexfmt", input=n, observed=o["hx"], expected=hx)
    ctx.dist("fmt_model_rows", len(rows))
    # formats that newFormatter rejects (no '%', or more than one): error for fmtnum, the input back for fmtifnum.
    # GetFormatter prints a diagnostic line on standard output for each of them; it is filtered here.
    from vlib import mlr_run
    for f in ["abc", "", "%d%d", "%%d", "100%", "%5d %%"]:
        for n in ("17", "2.5"):
            prog = 'end{a = fmtnum(%s, "%s"); b = fmtifnum(%s, "%s"); print (is_error(a) ? "(error)" : a) . "\\t" . (is_error(b) ? "(error)" : b);}' % (n, f, n, f)
            st, out, err = mlr_run(ctx, ["-n", "put", prog], timeout=60)
            lines = [l for l in out.decode("latin1").split("\n") if l and not l.startswith("mlr: unhandled format string")]
            ctx.count(("fmt-reject", n, f))
            if st != 0 or len(lines) != 1 or lines[0].count("\t") != 1:
                bad("fmtnum-printf", input={"value": n, "format": f}, observed={"status": st, "stdout": out.decode("latin1")[-300:]}, expected="one output line")
                continue
            o, oi = lines[0].split("\t")
            isint = n == "17"
            a = int(n) if isint else float_bits(n)
            info = {"value": n, "format": f}
            if f.count("%") == 1:
                continue                                  # "100%": a lone trailing '%' (NOVERB) is outside the model
            case(50, a, 0 if isint else 1, f.encode(), n.encode(), b"E" if o == ERR else b"", b"" if o == ERR else o.encode("latin1"), dict(info, fn="fmtnum"))
            case(51, a, 0 if isint else 1, f.encode(), n.encode(), b"E" if oi == ERR else b"", b"" if oi == ERR else oi.encode("latin1"), dict(info, fn="fmtifnum"))
            if o != ERR or oi != n:
                bad("fmtnum-printf", input={"value": n, "format": f}, observed=[o, oi], expected=[ERR, n])
