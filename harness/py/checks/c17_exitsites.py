"""C17 -- the table of process-exit sites, REGENERATED from the Miller source on every run (coq/gen/Gen_ExitSites.v).

A text scan over pkg/**/*.go and cmd/mlr/**/*.go (gofmt'd source; _test.go excluded; comment lines skipped) records
  * every `os.Exit(...)` call: file, enclosing function, line, the exit-code literal (None when it is an expression),
    whether a write to os.Stderr (or a call of the stderr printers printError / EmitStructuredError) precedes it in the
    same block, whether only a stdout write (fmt.Print*) precedes it, the kind of the guarding condition (the line
    that opens the enclosing block) and whether that condition is an error test;
  * every creation of the sentinel `lib.ExitRequest{Code: n}` / `lib.NewExitZeroRequest()` (entrypoint.exitOnError
    exits with that code and prints nothing), with the same columns;
  * every place the sentinel `cli.ErrUsagePrinted` is returned or assigned (exitOnError exits 1 and prints nothing:
    the usage must already be on stderr).
The theorems of coq/C17/ExitSites.v are computed over these tables, so they are re-proved against the code on every run."""
import os, re
from pathlib import Path

STDERR_PAT = re.compile(r"os\.Stderr|\bprintError\(|\bEmitStructuredError\(")
STDOUT_PAT = re.compile(r"\bfmt\.Print(f|ln)?\(")


def indent_of(line):
    return len(line) - len(line.lstrip("\t"))


def is_comment(line):
    return line.strip().startswith("//")


def block_before(lines, i):
    """(opener line text, [lines of the enclosing block that precede line i])"""
    d = indent_of(lines[i])
    blk = []
    j = i - 1
    while j >= 0:
        ln = lines[j]
        if ln.strip() == "":
            j -= 1
            continue
        if indent_of(ln) < d and not is_comment(ln):
            # a closing `)` of a multi-line call at lower indentation cannot occur inside a block body in gofmt'd code
            return ln.strip(), list(reversed(blk))
        if not is_comment(ln):
            blk.append(ln)
        j -= 1
    return "", list(reversed(blk))


def func_of(lines, i):
    for j in range(i, -1, -1):
        m = re.match(r"func\s+(?:\([^)]*\)\s*)?([A-Za-z_]\w*)", lines[j])
        if m:
            return m.group(1)
    return "?"


def guard_kind(opener):
    if "ErrHelpRequested" in opener:
        return "GHelp"
    if "ErrUsagePrinted" in opener:
        return "GUsagePrinted"
    if "exitRequest" in opener or "ExitRequest" in opener:
        return "GExitRequest"
    if "auxents.Dispatch" in opener:
        return "GAuxent"
    if re.search(r"err\w*\s*!=\s*nil|!ok\b|==\s*nil", opener):
        return "GErrTest"
    return "GOther"


def is_err_test(opener):
    return bool(re.search(r"err\w*\s*!=\s*nil", opener))


def go_files(repo):
    for top in ("pkg", "cmd/mlr"):
        for root, _, files in os.walk(os.path.join(repo, top)):
            for f in sorted(files):
                if f.endswith(".go") and not f.endswith("_test.go"):
                    yield os.path.join(root, f)


def scan(repo):
    exits, requests, usages = [], [], []
    for path in sorted(go_files(repo)):
        rel = os.path.relpath(path, repo)
        lines = Path(path).read_text(errors="replace").split("\n")
        for i, ln in enumerate(lines):
            if is_comment(ln):
                continue
            code_part = ln.split("//")[0]
            row = None
            m = re.search(r"\bos\.Exit\((.*)\)\s*$", code_part.rstrip())
            if m:
                arg = m.group(1).strip()
                row = (exits, int(arg) if re.fullmatch(r"\d+", arg) else None)
            else:
                m = re.search(r"ExitRequest\{Code:\s*([^}]*)\}", code_part)
                if m and not code_part.lstrip().startswith("func"):
                    arg = m.group(1).strip()
                    row = (requests, int(arg) if re.fullmatch(r"\d+", arg) else None)
                elif re.search(r"\bNewExitZeroRequest\(\)", code_part) and not code_part.lstrip().startswith("func"):
                    row = (requests, 0)
                elif re.search(r"(return\b.*|=\s*)cli\.ErrUsagePrinted\b|return\b.*\bErrUsagePrinted\b", code_part) and "errors.Is" not in code_part \
                        and "errors.New" not in code_part:
                    row = (usages, 1)
            if row is None:
                continue
            table, code = row
            opener, blk = block_before(lines, i)
            text = "\n".join(blk)
            table.append({"file": rel, "func": func_of(lines, i), "line": i + 1, "code": code,
                          "stderr_before": bool(STDERR_PAT.search(text)), "stdout_before": bool(STDOUT_PAT.search(text)),
                          "guard": guard_kind(opener), "err_test": is_err_test(opener), "opener": opener[:120]})
    return exits, requests, usages


def coq_str(s):
    return '"' + s.replace('"', '""') + '"'


def coq_row(r):
    code = "None" if r["code"] is None else "(Some %d%%Z)" % r["code"]
    return "mkSite %s %s %d %s %s %s %s %s" % (coq_str(r["file"]), coq_str(r["func"]), r["line"], code,
                                               "true" if r["stderr_before"] else "false", "true" if r["stdout_before"] else "false",
                                               r["guard"], "true" if r["err_test"] else "false")


def render(exits, requests, usages):
    def tbl(name, rows):
        return "Definition %s : list site := [\n %s\n]." % (name, ";\n ".join(coq_row(r) for r in rows)) if rows else "Definition %s : list site := []." % name
    return ("(* REGENERATED on every run by harness/py/checks/c17_exitsites.py from pkg/**/*.go and cmd/mlr/**/*.go of the Miller\n"
            "   tree under check: every os.Exit call, every creation of the lib.ExitRequest sentinel, every return of the\n"
            "   cli.ErrUsagePrinted sentinel.  Columns: file, function, line, exit-code literal (None = an expression), a write to\n"
            "   os.Stderr precedes in the same block, a stdout print precedes in the same block, kind of the guarding condition,\n"
            "   the guarding condition is an `err != nil` test. *)\n"
            "From Coq Require Import List String ZArith.\n"
            "From Miller Require Import C17.ExitSiteTypes.\n"
            "Import ListNotations.\nLocal Open Scope string_scope.\n"
            + tbl("exit_sites", exits) + "\n" + tbl("exit_request_sites", requests) + "\n" + tbl("usage_printed_sites", usages) + "\n")
