"""C02, flag-table part: "the outcome depends only on which formats and separators are selected, not on how the
selection is spelled: every keystroke-saver flag, -i/-o/--io form, named separator and .mlrrc line is equivalent
to its documented expansion".

gen_flags(ctx)    regenerates coq/gen/Gen_Flags.v from the implementation (implrun flag-table / flag-eval / sep-tables);
                  coq/C02/FlagSpec.v + FlagProofs.v decide the clause over that complete finite table.
flag_oracle(ctx)  the failing-input search on the real mlr binary (documented expansions written down HERE, in Python,
                  independently of the implementation's tables).

Wire format of implrun flag-eval: JSON lines, option values hex-encoded (see harness/go/implrun/c02flags.go).
"""
import json, re, shutil, tempfile
from concurrent.futures import ThreadPoolExecutor
from vlib import *
try:
    from checks import c02_batch
except Exception:  # pragma: no cover
    import c02_batch

# ------------------------------------------------------------------------------------------------ documentation, transcribed
# reference-main-flag-list.md "Format-conversion keystroke-saver flags": letters -> formats
IN_LETTER = {"c": "--icsv", "t": "--itsv", "j": "--ijson", "l": "--ijsonl", "d": "--idkvp", "n": "--inidx",
             "x": "--ixtab", "p": "--ipprint", "m": "--imd", "y": "--iyaml"}
# --X2b: "Use X for input, PPRINT with `--barred` for output."
OUT_LETTER = {"c": ["--ocsv"], "t": ["--otsv"], "j": ["--ojson"], "l": ["--ojsonl"], "d": ["--odkvp"], "n": ["--onidx"],
              "x": ["--oxtab"], "p": ["--opprint"], "m": ["--omd"], "y": ["--oyaml"], "b": ["--opprint", "--barred"]}
MATRIX_LETTERS = "ctjldnxpmy"
# explicitly documented keystroke savers
EXPLICIT_EXPANSIONS = {
    "-p": ["--nidx", "--fs", "space", "--repifs"],          # "-p is a keystroke-saver for --nidx --fs space --repifs"
    "-T": ["--nidx", "--fs", "tab"],                        # "-T is a keystroke-saver for --nidx --fs tab"
    "-N": ["--implicit-csv-header", "--headerless-csv-output"],
    "--md-aligned": ["--md", "--omd-aligned"],              # "... Implies --md"
    "--markdown-aligned": ["--md", "--omd-aligned"],
}
# "--X: Use X format for input and output data" / "--io csv is the same as --csv"
IO_PAIR_NAMES = ["csv", "csvlite", "tsv", "tsvlite", "asv", "asvlite", "usv", "usvlite", "dkvp", "json", "jsonl", "yaml",
                 "dcf", "recutils", "nidx", "xtab", "pprint", "md", "markdown"]
# file-format names offered for -i/-o/--io (shell-completion.md) + recutils (file-formats.md uses -i recutils)
DOC_FORMAT_NAMES = ["csv", "csvlite", "dcf", "dkvp", "dkvpx", "gen", "json", "markdown", "nidx", "pprint", "recutils", "tsv",
                    "xtab", "yaml"]
EXTRA_FORMAT_NAMES = ["md", "jsonl"]   # names of the long flags --imd/--omd/--md, --ijsonl/--ojsonl/--jsonl (accepted since the repair)
# reference-main-separators.md "Aliases"
DOC_ALIASES = {
    "ascii_esc": "\\x1b", "ascii_etx": "\\x03", "ascii_fs": "\\x1c", "ascii_gs": "\\x1d", "ascii_null": "\\x00",
    "ascii_rs": "\\x1e", "ascii_soh": "\\x01", "ascii_stx": "\\x02", "ascii_us": "\\x1f", "asv_fs": "\\x1f", "asv_rs": "\\x1e",
    "colon": ":", "comma": ",", "cr": "\\r", "crcr": "\\r\\r", "crlf": "\\r\\n", "crlfcrlf": "\\r\\n\\r\\n", "equals": "=",
    "lf": "\\n", "lflf": "\\n\\n", "newline": "\\n", "pipe": "|", "semicolon": ";", "slash": "/", "space": " ", "tab": "\\t",
    "usv_fs": "\\xe2\\x90\\x9f", "usv_rs": "\\xe2\\x90\\x9e",
}
DOC_REGEX_ALIASES = {"spaces": "( )+", "tabs": "(\\t)+", "whitespace": "([ \\t])+"}
SEP_FLAGS = ["--ifs", "--ofs", "--fs", "--ips", "--ops", "--ps", "--irs", "--ors", "--rs", "--flatsep", "--jflatsep"]
REGEX_SEP_FLAGS = ["--ifs-regex", "--ips-regex"]
# contexts: the same overriding separator flags appended to both spellings
TAILS = [[], ["--ifs", ";", "--ips", ":"], ["--ofs", ";", "--ops", ":"], ["--irs", ";", "--ors", ";"]]

# prefix contexts: a separator flag given BEFORE the keystroke saver / its expansion (main-flag order matters in Miller)
PREFIXES = [["--ifs", ";"], ["--ofs", ";"], ["--ips", ":"], ["--ops", ":"], ["--irs", ";"], ["--ors", ";"]]

KS_SECTION = "Format-conversion keystroke-saver flags"
FORMAT_SECTIONS = ["File-format flags", KS_SECTION, "Legacy flags", "Markdown-only flags"]


def expansion_of(name):
    """documented expansion of a flag spelling, or None (Python mirror of FlagSpec.expansion_of_name)"""
    if name in EXPLICIT_EXPANSIONS:
        return list(EXPLICIT_EXPANSIONS[name])
    m = re.fullmatch(r"--([a-z])2([a-z])", name)
    if m and m.group(1) in IN_LETTER and m.group(2) in OUT_LETTER:
        return [IN_LETTER[m.group(1)]] + OUT_LETTER[m.group(2)]
    return None


# ------------------------------------------------------------------------------------------------ implrun access
def impl_flag_table(ctx):
    rc, out, err = sh([ctx.implrun(), "flag-table"])
    rows = [json.loads(l) for l in out.splitlines() if l.strip()]
    if rc != 0 or len(rows) < 50:
        raise RuntimeError("implrun flag-table failed: " + err[-500:])
    return rows


def impl_sep_tables(ctx):
    rc, out, err = sh([ctx.implrun(), "sep-tables"])
    if rc != 0:
        raise RuntimeError("implrun sep-tables failed: " + err[-500:])
    d = json.loads(out)
    un = lambda m: {k: bytes.fromhex(v) for k, v in m.items()}
    return {"aliases": un(d["aliases"]), "regex_aliases": un(d["regex_aliases"]), "default_fs": un(d["default_fs"]),
            "default_ps": un(d["default_ps"]), "default_rs": un(d["default_rs"]), "default_repifs": d["default_repifs"]}


def impl_flag_eval(ctx, argvs):
    """-> list of dict {ok, err | raw, final (list of (field, bytes)) or None + ferr, flatten, unflatten}"""
    inp = "".join(json.dumps(list(a)) + "\n" for a in argvs)
    rc, out, err = sh([ctx.implrun(), "flag-eval"], inp=inp, timeout=600)
    lines = out.splitlines()
    if rc != 0 or len(lines) != len(argvs):
        raise RuntimeError(f"implrun flag-eval failed rc={rc} ({len(lines)} answers for {len(argvs)} requests): {err[-800:]}")
    res = []
    for l in lines:
        d = json.loads(l)
        for k in ("raw", "final"):
            if d.get(k) is not None:
                d[k] = [(a, bytes.fromhex(b)) for a, b in d[k]]
        if d.get("final") is not None:      # the two decisions ride along as pseudo-fields of the final dump
            d["final"] = d["final"] + [("DecideFinalFlatten", str(d["flatten"]).lower().encode()),
                                       ("DecideFinalUnflatten", str(d["unflatten"]).lower().encode())]
        res.append(d)
    return res


# ------------------------------------------------------------------------------------------------ what to evaluate
def spellings(f):
    return [f["name"]] + list(f["alts"])


def build_argvs(table, seps):
    """every argv the Coq checks (FlagSpec.v) look up, deduplicated, in a stable order"""
    argvs, seen = [], set()

    def add(a):
        t = tuple(a)
        if t not in seen:
            seen.add(t); argvs.append(t)

    def add_ctx(a):
        for t in TAILS:
            add(list(a) + t)
    add([])
    allsp = {s for f in table for s in spellings(f)}
    for f in table:
        if f["section"] in FORMAT_SECTIONS and f["arg"] == "":
            for s in spellings(f):
                add_ctx([s])
    # every alternate name against its primary name (whole table)
    for f in table:
        if f["alts"]:
            for s in spellings(f):
                add([s] if f["arg"] == "" else [s, "semicolon" if "sep" in f["name"] else "x"])
    # documented expansions
    for s in sorted(allsp):
        e = expansion_of(s)
        if e is not None:
            add_ctx([s]); add_ctx(e)
            for pfx in PREFIXES:
                add(pfx + [s]); add(pfx + e)
    for x in MATRIX_LETTERS:
        for y in MATRIX_LETTERS + "b":
            add_ctx([IN_LETTER[x]] + OUT_LETTER[y])
    for x in IO_PAIR_NAMES:
        add_ctx(["--" + x]); add_ctx(["--i" + x, "--o" + x])
    # -i / -o / --io forms
    for x in DOC_FORMAT_NAMES + sorted(seps["default_fs"]) + EXTRA_FORMAT_NAMES:
        for a in (["-i", x], ["--i" + x], ["-o", x], ["--o" + x], ["--io", x], ["--" + x]):
            add_ctx(a)
    # separator aliases: every name against its literal, generated table and documented table
    pairs = sorted(set((n, v.decode("latin1")) for n, v in seps["aliases"].items()) | set(DOC_ALIASES.items()))
    for fl in SEP_FLAGS:
        for n, lit in pairs:
            add([fl, n]); add([fl, lit])
    rpairs = sorted(set((n, v.decode("latin1")) for n, v in seps["regex_aliases"].items()) | set(DOC_REGEX_ALIASES.items()))
    for fl in REGEX_SEP_FLAGS:
        for n, lit in rpairs:
            add([fl, n]); add([fl, lit])
    return argvs


def delta(base, final):
    assert [k for k, _ in base] == [k for k, _ in final], "option dump field lists differ between evaluations"
    return [(k, v) for (k, v), (_, bv) in zip(final, base) if v != bv]


def coq_pairs(ps):
    return "[" + "; ".join(f"({coq_bytes(k)}, {coq_bytes(v)})" for k, v in ps) + "]"


def gen_flags(ctx):
    """Regenerate coq/gen/Gen_Flags.v.  Returns {"table", "seps", "argvs", "evals": {argv tuple: eval dict}, "base", "changed"}."""
    table = impl_flag_table(ctx)
    seps = impl_sep_tables(ctx)
    argvs = build_argvs(table, seps)
    res = impl_flag_eval(ctx, argvs)
    evals = dict(zip(argvs, res))
    base = evals[()]["final"]
    if base is None:
        raise RuntimeError("the empty flag list does not finalize: " + str(evals[()]))
    # shared constants keep the generated file small and quick to check: one definition per field name / argv token
    fld = {k: f"fld_{i}" for i, (k, _) in enumerate(base)}
    toks = {}
    for a in argvs:
        for t in a:
            toks.setdefault(t, f"tok_{len(toks)}")
    common = {b"true": "v_true", b"false": "v_false", b"N/A": "v_na"}
    cval = lambda v: common.get(v) or coq_bytes(v)
    cpairs = lambda ps: "[" + "; ".join(f"({fld[k]}, {cval(v)})" for k, v in ps) + "]"
    L = []
    L.append("(* REGENERATED on every run by harness/py/checks/c02_flags.py from the implementation:\n"
             "   gen_flag_table        = pkg/cli FLAG_TABLE, every entry, in the order FlagTable.Parse searches (implrun flag-table)\n"
             "   gen_base              = every field of TOptions (reflection; unexported ones too) after parsing NO flag and\n"
             "                           FinalizeReaderOptions + FinalizeWriterOptions, plus DecideFinalFlatten/Unflatten\n"
             "   gen_evals             = for each evaluated main-flag argv: None when a token is rejected or Finalize* fails, else the\n"
             "                           fields of the FINAL dump that differ from gen_base (implrun flag-eval)\n"
             "   gen_sep_*/gen_default_* = SEPARATOR_NAMES_TO_VALUES, SEPARATOR_REGEX_NAMES_TO_VALUES, defaultFSes/PSes/RSes/AllowRepeatIFSes\n"
             "   fld_i / tok_i / v_*   = shared constants for field names, argv tokens and frequent values\n"
             "   WriterOptions.FlushOnEveryRecord reads <env> when no flag set it (isatty of stdout). *)\n"
             "From Miller Require Import Base.Bytes.\n")
    L.append("Definition v_true : bytes := B \"true\".\nDefinition v_false : bytes := B \"false\".\nDefinition v_na : bytes := B \"N/A\".\n")
    L.append("".join(f"Definition {c} : bytes := {coq_bytes(k)}.\n" for k, c in fld.items()))
    L.append("".join(f"Definition {c} : bytes := {coq_bytes(t)}.\n" for t, c in toks.items()))
    L.append("Definition gen_flag_table : list (bytes * bytes * list bytes * bytes) := [\n  " + ";\n  ".join(
        f"({coq_bytes(f['section'])}, {coq_bytes(f['name'])}, {coq_list([coq_bytes(a) for a in f['alts']])}, {coq_bytes(f['arg'])})"
        for f in table) + "].\n")
    L.append("Definition gen_base : list (bytes * bytes) :=\n  " + cpairs(base) + ".\n")
    # grouped by first token (lookup in Coq is two-level: ~330 heads, then the bucket); the empty argv is gen_base itself
    buckets = {}
    for a in argvs:
        if not a:
            continue
        r = evals[a]
        av = coq_list([toks[t] for t in a[1:]])
        if not r["ok"] or r["final"] is None:
            row = f"({av}, None)"
        else:
            row = f"({av}, Some {cpairs(delta(base, r['final']))})"
        buckets.setdefault(a[0], []).append(row)
    L.append("(* (first token, [(remaining tokens, result)]) *)\n"
             "Definition gen_evals_by_head : list (bytes * list (list bytes * option (list (bytes * bytes)))) := [\n  " + ";\n  ".join(
                 f"({toks[h]}, [\n    " + ";\n    ".join(rows) + "])" for h, rows in buckets.items()) + "].\n")
    L.append("(* the same as a flat association list: argv -> result *)\n"
             "Definition gen_evals : list (list bytes * option (list (bytes * bytes))) :=\n"
             "  ([], Some []) :: flat_map (fun g => map (fun e => (fst g :: fst e, snd e)) (snd g)) gen_evals_by_head.\n")
    for name, m in (("gen_sep_aliases", seps["aliases"]), ("gen_sep_regex_aliases", seps["regex_aliases"]),
                    ("gen_default_fs", seps["default_fs"]), ("gen_default_ps", seps["default_ps"]), ("gen_default_rs", seps["default_rs"])):
        L.append(f"Definition {name} : list (bytes * bytes) :=\n  " + coq_pairs(sorted(m.items())) + ".\n")
    L.append("Definition gen_default_repifs : list (bytes * bool) :=\n  [" + "; ".join(
        f"({coq_bytes(k)}, {coq_bool(v)})" for k, v in sorted(seps["default_repifs"].items())) + "].\n")
    changed = write_if_changed(GEN / "Gen_Flags.v", "\n".join(L))
    ctx.dist("flags_table_entries", len(table))
    ctx.dist("flags_evaluated_argvs", len(argvs))
    gen = {"table": table, "seps": seps, "argvs": argvs, "evals": evals, "base": base, "changed": changed}
    ctx._c02_flags_gen = gen        # flag_oracle(ctx) reuses it
    return gen


# ------------------------------------------------------------------------------------------------ search oracle on mlr
def unescape(lit):
    """bytes denoted by a documented separator literal such as \\t or \\x1f (what lib.UnhexStringLiteral+UnbackslashStringLiteral produce)"""
    out, i = bytearray(), 0
    simple = {"t": 9, "n": 10, "r": 13, "\\": 92}
    while i < len(lit):
        if lit[i] == "\\" and i + 1 < len(lit):
            if lit[i + 1] == "x" and re.fullmatch(r"[0-9a-fA-F]{2}", lit[i + 2:i + 4] or ""):
                out.append(int(lit[i + 2:i + 4], 16)); i += 4; continue
            if lit[i + 1] in simple:
                out.append(simple[lit[i + 1]]); i += 2; continue
        out += lit[i].encode("utf-8"); i += 1
    return bytes(out)


# One small data set per input format: a dotted key (auto-unflatten), an empty value, a value with a space.  Where the
# input format allows it the second record has a PREFIX of the first record's keys: csv/tsv writers then fill, csvlite /
# pprint / xtab writers start a new block, and no writer reports an error (error exits race with the end-block probe).
DATA = {
    "csv": b'a.b,c,d\n1,,x y\n3,4,"u,v"\n',
    "tsv": b"a.b\tc\td\n1\t\tx y\n3\t4\tu,v\n",
    "json": b'[{"a":{"b":1},"c":"","d":"x y"},\n{"a":{"b":3},"c":4}]\n',
    "jsonl": b'{"a":{"b":1},"c":"","d":"x y"}\n{"a":{"b":3},"c":4}\n',
    "dkvp": b"a.b=1,c=,d=x y\na.b=3,c=4\n",
    "nidx": b"1  foo   x.y\n3 4\n",
    "nidxtab": b"1\tfoo bar\tx.y\n3\t4\n",
    "xtab": b"a.b 1\nc   -\nd   x y\n\na.b 3\nc   4\n",
    "pprint": b"a.b c d\n1   - xy\n3   4 u,v\n",
    "markdown": b"| a.b | c | d |\n| --- | --- | --- |\n| 1 | - | x y |\n| 3 | 4 | u,v |\n",
    "yaml": b"- a:\n    b: 1\n  c: ''\n  d: x y\n- a:\n    b: 3\n  c: 4\n",
    "dcf": b"Package: foo\nVersion: 1\n\nPackage: bar\n",
    "recutils": b"name: foo\nv: x y\n\nname: bar\n",
    "csvlite": b"a.b,c,d\n1,,x y\n\na.b,c\n3,4\n",
    "tsvlite": b"a.b\tc\td\n1\t\tx y\n\na.b\tc\n3\t4\n",
    "asv": b"a.b\x1fc\x1fd\x1e1\x1f\x1fx y\x1e3\x1f4\x1fu,v\x1e",
    "usv": "a.b\u241fc\u241fd\u241e1\u241f\u241fx y\u241e3\u241f4\u241fu,v\u241e".encode("utf-8"),
    "gen": b"",
}
DATA["md"] = DATA["markdown"]
DATA["dkvpx"] = DATA["dkvp"]
DATA["asvlite"] = DATA["asv"]
DATA["usvlite"] = DATA["usv"]
LEAK_CSV = b'a,b\n1,x"y\n3,"u"v\n'          # needs --lazy-quotes: shows reader options leaking out of a format flag
PROBE = ('end{print "<<SEPVARS IFS=[".IFS."] IPS=[".IPS."] IRS=[".IRS."] OFS=[".OFS."] OPS=[".OPS."] ORS=[".ORS.'
         '"] FLATSEP=[".FLATSEP."] SEPVARS>>"}')


def data_for_input_format(fmt, ifs=None):
    if fmt == "csvlite" and ifs == b"\t":
        return DATA["tsvlite"]
    if fmt == "csvlite" and ifs == b"\x1f":
        return DATA["asv"]
    if fmt == "csvlite" and ifs == b"\xe2\x90\x9f":
        return DATA["usv"]
    if fmt == "nidx" and ifs == b"\t":
        return DATA["nidxtab"]
    return DATA.get(fmt, DATA["dkvp"])


class Runner:
    """memoised, parallel mlr runs (always through vlib.mlr_run)"""

    def __init__(self, ctx):
        self.ctx, self.memo, self.jobs = ctx, {}, []

    def want(self, args, stdin=b"", env=None):
        key = (tuple(args), stdin, tuple(sorted((env or {}).items())))
        if key not in self.memo:
            self.memo[key] = None
            self.jobs.append(key)
        return key

    def run_all(self):
        """jobs without an environment go through implrun mlr-batch (in-process, c02_batch); .mlrrc jobs need MLRRC in the
        environment of the process and go through the mlr binary.  The DSL separator variables are printed by the probe
        into stdout (print in an end block), cut out again here."""
        def split(st, out, err):
            m = re.search(rb"<<SEPVARS (.*?) SEPVARS>>\n?", out, re.S)
            if m:
                out = out[:m.start()] + out[m.end():]
            e = err if isinstance(err, bytes) else str(err).encode()
            return (st, out, m.group(1) if m else None, re.sub(rb"/tmp/c02batch-[^/]*/in\d+", b"<stdin>", e)[-300:])
        plain = [k for k in self.jobs if not k[2]]
        withenv = [k for k in self.jobs if k[2]]
        res = c02_batch.run_jobs(self.ctx, [(list(k[0]), k[1]) for k in plain], label="flag_oracle_batch", crosscheck=4)
        for k, (st, out, err) in zip(plain, res):
            self.memo[k] = split(st if st in (0, "hang") else 1, out, err)

        def one(key):
            args, stdin, env = key
            st, out, err = mlr_run(self.ctx, list(args), stdin, timeout=60, env=dict(env) or None)
            return key, split(st, out, err)
        with ThreadPoolExecutor(max_workers=2) as ex:
            for key, val in ex.map(one, withenv):
                self.memo[key] = val
        self.jobs = []

    def get(self, key):
        return self.memo[key]


def show(b):
    return b.decode("utf-8", "backslashreplace") if isinstance(b, bytes) else b


KNOWN_CLASS = [
    # (predicate on (flag, probe), class) -- empty: --t2n lazy quotes, --X2l json/jsonl and --m2X IFS were repaired in /repo
    # (KNOWN_FINDINGS.txt "fixed:" lines); a regression is reported as flag-spelling:<flag>
]


def class_of(flag, probe):
    for pred, c in KNOWN_CLASS:
        if pred(flag, probe):
            return c
    return "flag-spelling:" + flag


def flag_oracle(ctx, gen=None):
    """Search for a spelling whose observable behaviour through mlr differs from its documented expansion.
    Returns a list of mismatch dicts (empty when every comparison agrees)."""
    if gen is None:
        gen = getattr(ctx, "_c02_flags_gen", None) or gen_flags(ctx)
    table, evals = gen["table"], gen["evals"]
    R = Runner(ctx)
    cases = []          # (kind, flag label, lhs argv, rhs argv, probe, key_l, key_r, stdin, how)

    def final_of(argv):
        r = evals.get(tuple(argv))
        return dict(r["final"]) if r and r.get("ok") and r.get("final") is not None else None

    def input_data(argv):
        """data in the input format the EXPANSION side selects (taken from its option dump)"""
        fin = final_of(argv)
        if fin is None:
            return DATA["dkvp"]
        return data_for_input_format(fin["ReaderOptions.InputFileFormat"].decode(), fin["ReaderOptions.IFS"])

    def dump_diff(lhs, rhs, strict=True):
        """fields on which the FINAL option dumps of two argvs differ (None when one was not evaluated or was rejected)"""
        a, b = evals.get(tuple(lhs)), evals.get(tuple(rhs))
        if not a or not b or not a.get("ok") or not b.get("ok") or a.get("final") is None or b.get("final") is None:
            return None
        return [k for (k, v), (_, w) in zip(a["final"], b["final"]) if v != w and (strict or not k.endswith("WasSpecified"))]

    pending = []        # candidate comparisons; which of them are run is decided below

    def compare(kind, label, lhs, rhs, stdin, pre=(), post=(), probe="main", always=False):
        d = dump_diff(lhs, rhs, strict=(probe != "leak"))
        pending.append({"kind": kind, "label": label, "lhs": list(lhs), "rhs": list(rhs), "stdin": stdin, "pre": list(pre),
                        "post": list(post), "probe": probe, "must": always or d is None or len(d) > 0, "dump_diff": d})

    def schedule():
        """To keep the number of mlr processes small, a pair whose FINAL option dumps are identical in every field (the
        reader, the writer and the DSL see nothing else) is only run as a seeded sample (cross-check of implrun flag-eval
        against the real command line); every pair whose dumps differ in any field is always run."""
        quota = {"keystroke": 16, "prefix": 12, "iopair": 4, "ioform": 8, "altname": 4, "sepalias": 10}
        for kind in sorted({c["kind"] for c in pending}):
            rest = [c for c in pending if c["kind"] == kind and not c["must"] and c["probe"] == "main"]
            for c in ctx.rng.sample(rest, min(len(rest), quota.get(kind, 0))):
                c["must"] = True
        for c in pending:
            if not c["must"]:
                ctx.dist("flags_oracle_skipped_identical_dump")
                continue
            verb = ["put", PROBE] if c["probe"] == "main" else ["cat"]
            kl = R.want(c["pre"] + c["lhs"] + c["post"] + verb, c["stdin"], None)
            kr = R.want(c["pre"] + c["rhs"] + c["post"] + verb, c["stdin"], None)
            cases.append((c["kind"], c["label"], c["lhs"], c["rhs"], c["probe"], kl, kr, c["stdin"], c["dump_diff"]))

    allsp = []
    for f in table:
        for s in spellings(f):
            if s not in allsp:
                allsp.append(s)
    # 1. keystroke savers vs documented expansion
    for s in allsp:
        e = expansion_of(s)
        if e is None:
            continue
        pre = ["--csv"] if s == "-N" else []
        d = DATA["csv"] if s == "-N" else input_data(e)
        compare("keystroke", s, [s], e, d, pre=pre)
        compare("keystroke", s, [s], e, LEAK_CSV, pre=pre, post=["--icsv", "--ojson"], probe="leak")
    # 1b. the same with a separator flag BEFORE the keystroke saver / its expansion
    for s in allsp:
        e = expansion_of(s)
        if e is None or s == "-N":
            continue
        for pfx in PREFIXES:
            compare("prefix", " ".join(pfx + [s]), pfx + [s], pfx + e, input_data(e))
    # 2. --X vs --iX --oX
    for x in IO_PAIR_NAMES:
        if "--" + x in allsp and "--i" + x in allsp and "--o" + x in allsp:
            compare("iopair", "--" + x, ["--" + x], ["--i" + x, "--o" + x], input_data(["--i" + x, "--o" + x]))
    # 3. -i X / -o X / --io X vs --iX / --oX / --X
    names = list(dict.fromkeys(DOC_FORMAT_NAMES + sorted(gen["seps"]["default_fs"]) + EXTRA_FORMAT_NAMES))
    for x in names:
        if "--i" + x in allsp:
            compare("ioform", "-i " + x, ["-i", x], ["--i" + x], input_data(["--i" + x]), post=["--ojson"])
        if "--o" + x in allsp:
            compare("ioform", "-o " + x, ["-o", x], ["--o" + x], DATA["dkvp"])
        if "--" + x in allsp:
            compare("ioform", "--io " + x, ["--io", x], ["--" + x], input_data(["--" + x]))
    # 4. alternate names of format-selecting flags
    for f in table:
        if f["section"] in FORMAT_SECTIONS and f["arg"] == "" and expansion_of(f["name"]) is None:
            for a in f["alts"]:
                if expansion_of(a) is None:
                    compare("altname", a, [a], [f["name"]], input_data([f["name"]]))
    # 5. named separators vs the DOCUMENTED literal
    absolute = []       # (label, argv, stdin, expected stdout)
    for n, lit in sorted(DOC_ALIASES.items()):
        sep = unescape(lit)
        for fl in SEP_FLAGS:
            if fl in ("--ifs", "--fs"):
                pre, d = ["--idkvp", "--ojson"] if fl == "--ifs" else ["--dkvp"], b"a=1" + sep + b"b=2\na=3" + sep + b"b=4\n"
            elif fl in ("--ips", "--ps"):
                pre, d = ["--idkvp", "--ojson"] if fl == "--ips" else ["--dkvp"], b"a" + sep + b"1,b" + sep + b"2\n"
            elif fl in ("--irs", "--rs"):
                pre, d = ["--idkvp", "--ojson"] if fl == "--irs" else ["--dkvp"], b"a=1,b=2" + sep + b"a=3,b=4" + sep
            elif fl in ("--ofs", "--ops", "--ors"):
                pre, d = ["--dkvp"], b"a=1,b=2\nc=3,d=4\n"
            else:
                pre, d = ["--ijson", "--ocsv"], b'{"a":{"b":1,"c":{"d":2}}}\n'
            compare("sepalias", f"{fl} {n}", [fl, n], [fl, lit], d, pre=pre)
            # absolute form: the alias must denote exactly the documented BYTES (reference-main-separators.md), i.e. data
            # written with those bytes is split into the expected records.  The expectation is computed here, not by mlr.
            if fl in ("--ifs", "--ips") and not (set(sep) & set(b"=,\nab1234")):
                want = b'{"a": 1, "b": 2}\n' + (b'{"a": 3, "b": 4}\n' if fl == "--ifs" else b"")
                absolute.append((f"{fl} {n}", ["--idkvp", "--ojsonl", fl, n, "cat"], d, want))
                absolute.append((f"{fl} {lit}", ["--idkvp", "--ojsonl", fl, lit, "cat"], d, want))
    for n, lit in sorted(DOC_REGEX_ALIASES.items()):
        compare("sepalias", f"--ifs-regex {n}", ["--ifs-regex", n], ["--ifs-regex", lit], b"a  b \t c\t\td\n", pre=["--inidx", "--ojson"])
        compare("sepalias", f"--ips-regex {n}", ["--ips-regex", n], ["--ips-regex", lit], b"a  1,b\t\t2,c \t 3\n", pre=["--idkvp", "--ojson"])
    # 6. .mlrrc lines vs the same flag on the command line
    tmpdir = tempfile.mkdtemp(prefix="c02flags-", dir="/tmp")
    try:
        nrc = [0]
        rc_pairs = []
        ctx._c02_rc_pairs = rc_pairs

        def rc_case(label, text, argv, stdin, post=()):
            p = Path(tmpdir) / f"rc{nrc[0]}"
            nrc[0] += 1
            p.write_text(text)
            verb = ["put", PROBE]
            kl = R.want(list(post) + verb, stdin, {"MLRRC": str(p)})
            kr = R.want(list(argv) + list(post) + verb, stdin, None)
            cases.append(("mlrrc", label, [".mlrrc: " + text], list(argv), "main", kl, kr, stdin, None))
            rc_pairs.append((text, list(argv)))

        cand = [s for f in table if f["section"] in ("File-format flags", KS_SECTION) and f["arg"] == ""
                for s in spellings(f) if final_of([s]) is not None]
        picked = [s for s in cand if s in ("--icsv", "--ojson", "--c2p", "--c2j", "--tsv", "--ixtab", "--c2b", "-c")] + ctx.rng.sample(cand, min(6, len(cand)))
        for s in picked:
            rc_case(s, (s[2:] if s.startswith("--") else s) + "\n", [s], input_data([s]))
        sample = DATA["csv"]
        rc_case("--icsv/--ojson with dashes", "--icsv\n--ojson\n", ["--icsv", "--ojson"], sample)
        rc_case("comments and blank lines", "# a comment\n\n   icsv   # trailing comment\n\t\n#ojson\nopprint\n", ["--icsv", "--opprint"], sample)
        rc_case("-i csv / -o json", "-i csv\n-o json\n", ["-i", "csv", "-o", "json"], sample)
        rc_case("io json", "io json\n", ["--io", "json"], DATA["json"])
        rc_case("-p", "-p\n", ["-p"], DATA["nidx"])
        rc_case("-T", "-T\n", ["-T"], DATA["nidxtab"])
        rc_case("c2p then barred", "c2p\nbarred\n", ["--c2p", "--barred"], sample)
        rc_case("later line overrides", "icsv\nojson\noxtab\n", ["--icsv", "--ojson", "--oxtab"], sample)
        rc_case("command line overrides .mlrrc", "c2p\n", ["--c2p"], sample, post=["--ojson"])
        rc_case("last line without newline", "icsv\nojson", ["--icsv", "--ojson"], sample)       # regression probe (fixed: mlrrc-last-line)
        rc_case("only line without newline", "c2p", ["--c2p"], sample)
        rc_case("blanks, tabs and comment around a flag with argument", " \t ofs   semicolon \t# c\n", ["--ofs", "semicolon"], DATA["dkvp"])
        for fl in SEP_FLAGS:
            for v in (("semicolon",) if fl not in ("--ifs", "--ofs") else ("semicolon", "\\t")):
                if fl in ("--flatsep", "--jflatsep"):
                    d, post = b'{"a":{"b":1,"c":{"d":2}}}\n', ["--ijson", "--ocsv"]
                else:
                    sepb = unescape(DOC_ALIASES.get(v, v))
                    d, post = b"a=1" + sepb + b"b=2\na=3" + sepb + b"b=4\n", []
                rc_case(f"{fl[2:]} {v}", f"{fl[2:]} {v}\n", [fl, v], d, post=post)
        # 5b. format flags that imply multi-byte / control separators (usv, asv and their lite forms): real data in, real data out
        for x, fsb, rsb in (("usv", "\u241f".encode(), "\u241e".encode()), ("asv", b"\x1f", b"\x1e")):
            for suffix in ("", "lite"):
                if "--i" + x + suffix not in allsp:
                    continue
                d = b"a" + fsb + b"b" + rsb + b"1" + fsb + b"2" + rsb + b"3" + fsb + b"4" + rsb
                absolute.append((f"--i{x}{suffix}", ["--i" + x + suffix, "--ojsonl", "cat"], d, b'{"a": 1, "b": 2}\n{"a": 3, "b": 4}\n'))
                absolute.append((f"--o{x}{suffix}", ["--ijsonl", "--o" + x + suffix, "cat"], b'{"a": 1, "b": 2}\n{"a": 3, "b": 4}\n', d))
                absolute.append((f"--{x}{suffix}", ["--" + x + suffix, "cat"], d, d))
        abs_keys = [(label, argv, stdin, want, R.want(argv, stdin, None)) for label, argv, stdin, want in absolute]
        schedule()
        R.run_all()
    finally:
        shutil.rmtree(tmpdir, ignore_errors=True)
    bad = []
    for kind, label, lhs, rhs, probe, kl, kr, stdin, ddiff in cases:
        l, r = R.get(kl), R.get(kr)
        ctx.count((kind, label, probe, tuple(lhs), tuple(rhs)), nontrivial=(r[0] == 0))
        ctx.dist("flags_oracle_" + kind)
        if "hang" in (l[0], r[0]) or "harness-error" in (l[0], r[0]):
            ctx.dist("flags_oracle_inconclusive")
            continue
        # both failed: only the fact is compared (what an aborting run has already written is scheduling dependent)
        differs = (l[0] != r[0]) if (l[0] != 0 and r[0] != 0) else (l[0], l[1], l[2]) != (r[0], r[1], r[2])
        if differs:
            flag = lhs[0] if kind == "keystroke" else label
            rc_env = dict(kl[2]).get("MLRRC")
            bad.append({
                "class": class_of(flag, probe) if kind == "keystroke"
                         else "flag-spelling:--ofs-before-X2t-X2n" if kind == "prefix" and lhs[0] == "--ofs" and re.fullmatch(r"--[a-z]2[tn]", lhs[-1])
                         else "flag-spelling:" + label.replace(" ", "_"),
                "kind": kind, "flag": label, "probe": probe, "spelling": lhs, "expansion": rhs,
                "input": show(stdin), "input_hex": stdin.hex(), "option_dump_fields_differing": ddiff,
                "observed": {"status": l[0], "stdout": show(l[1]), "sepvars": show(l[2]), "stderr_tail": show(l[3])},
                "expected": {"status": r[0], "stdout": show(r[1]), "sepvars": show(r[2]), "stderr_tail": show(r[3])},
                "how": ("MLRRC=<file holding %r> mlr %s   versus   MLRRC=__none__ mlr %s" % (lhs[0][8:], " ".join(kl[0]), " ".join(kr[0]))) if rc_env
                       else ("mlr %s   versus   mlr %s   (stdin = input; eprint line = DSL separator variables)" % (" ".join(kl[0]), " ".join(kr[0]))),
            })
    for label, argv, stdin, want, key in abs_keys:
        got = R.get(key)
        ctx.count(("sepbytes", label, tuple(argv)), nontrivial=(got[0] == 0))
        ctx.dist("flags_oracle_sepbytes")
        if got[0] in ("hang", "harness-error"):
            continue
        if got[0] != 0 or got[1] != want:
            bad.append({"class": "flag-spelling:separator-bytes:" + label.replace(" ", "_"), "kind": "sepbytes", "flag": label, "spelling": argv,
                        "input": show(stdin), "input_hex": stdin.hex(),
                        "observed": {"status": got[0], "stdout": show(got[1]), "stderr_tail": show(got[3])},
                        "expected": {"status": 0, "stdout": show(want)},
                        "how": "mlr %s  (stdin = input): the named separator / format flag must denote the documented bytes" % " ".join(argv)})
    ctx.cov.setdefault("flags_oracle", {})
    ctx.cov["flags_oracle"] = {"comparisons": len(cases), "mlr_runs": len(R.memo), "mismatches": len(bad)}
    return bad
