"""Running many independent mlr command lines inside few processes (implrun mlr-batch); shared by the C03 and C05 checks.

An mlr process start costs ~1 s of CPU in this tree.  `implrun mlr-batch` runs each job through the real
climain.ParseCommandLine and stream.Stream (real reader, ChainTransformer goroutines, real writer); only entrypoint.Main's
process wrapper differs.  A sample of the jobs is re-run through the mlr binary on every run and compared (crosscheck)."""
import json, os, subprocess, tempfile
from concurrent.futures import ThreadPoolExecutor
from vlib import *


def par():
    return max(1, int(os.environ.get("VERIF_PAR", "2")))


def _run_chunk(ctx, jobs, timeout):
    """jobs: [(args, cwd)] -> [(status, out, err)]; status int, or 'died' when the batch process ended inside that job"""
    res = []
    start = 0
    env = dict(os.environ)
    env["MLRRC"] = "__none__"
    while start < len(jobs):
        reqs = "".join(json.dumps({"args": [a.encode("utf-8", "surrogateescape").hex() if isinstance(a, str) else a.hex() for a in args], "cwd": cwd or ""}) + "\n"
                       for args, cwd in jobs[start:])
        try:
            p = subprocess.run([ctx.implrun(), "mlr-batch"], input=reqs.encode(), capture_output=True, timeout=timeout, env=env)
            out, err, timed_out = p.stdout, p.stderr, False
        except subprocess.TimeoutExpired as e:
            out, err, timed_out = e.stdout or b"", e.stderr or b"", True
        lines = out.split(b"\n")
        got = 0
        for l in lines:
            if not l.strip():
                continue
            try:
                o = json.loads(l)
            except Exception:
                break
            res.append((o["status"], bytes.fromhex(o["out"]), o["err"].encode("utf-8", "replace")))
            got += 1
        if start + got >= len(jobs):
            break
        # the process ended inside job start+got (os.Exit in a verb, a panic in a goroutine, or a hang): record it, go on after it
        res.append(("hang" if timed_out else "died", b"", err[-2000:]))
        start = start + got + 1
    return res


def run_batch(ctx, jobs, timeout=300, label="impl_batch"):
    """jobs: [(args, cwd)]; results in order.  Split over VERIF_PAR processes."""
    if not jobs:
        return []
    n = min(par(), len(jobs))
    chunks = [jobs[i::n] for i in range(n)]
    with ctx.timed(label):
        with ThreadPoolExecutor(max_workers=n) as ex:
            outs = list(ex.map(lambda c: _run_chunk(ctx, c, timeout), chunks))
    res = [None] * len(jobs)
    for i, co in enumerate(outs):
        for j, r in enumerate(co):
            res[i + j * n] = r
    return res


def crosscheck(ctx, jobs, results, k=5):
    """re-run k of the jobs through the mlr binary; a difference means the batch driver is not a faithful stand-in"""
    idx = [i for i in range(len(jobs)) if results[i][0] in (0, 1)]
    pick = [idx[(i * 7919) % len(idx)] for i in range(min(k, len(idx)))] if idx else []

    def one(i):
        args, cwd = jobs[i]
        return mlr_run(ctx, args, b"", timeout=120, cwd=cwd)
    with ctx.timed("impl_crosscheck_binary"):
        with ThreadPoolExecutor(max_workers=par()) as ex:
            bins = list(ex.map(one, pick))
    diffs = []
    for i, (st, out, err) in zip(pick, bins):
        bst = results[i][0]
        if (st == 0) != (bst == 0) or (st == 0 and out != results[i][1]):
            diffs.append({"args": jobs[i][0], "binary_status": st, "batch_status": bst, "binary_out": out.decode("latin1")[:500], "batch_out": results[i][1].decode("latin1")[:500]})
    cc = ctx.cov.setdefault("batch_vs_binary_crosscheck", {"jobs": 0, "differences": 0})
    cc["jobs"] += len(pick)
    cc["differences"] += len(diffs)
    for d in diffs[:2]:
        ctx.violation(dict(d, broken="harness: implrun mlr-batch and the mlr binary disagree on a command line"), found_input=False)
    return not diffs
