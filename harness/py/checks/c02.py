"""C02 — format conversion changes syntax only; flatten/unflatten lossless; flag spellings equivalent (DESIGN 3/C02).

Three parts:
 1. flatten / unflatten: Coq model (coq/C02/Model.v) vs `mlr flatten` / `mlr unflatten` / JSON->tabular->JSON,
    plus the round-trip property evaluated on the implementation (failing-input search).
 2. flag table: coq/gen/Gen_Flags.v regenerated from the real cli.FLAG_TABLE (checks/c02_flags.py), theorems
    re-proved by vm_compute over the whole table; spelling oracle through mlr runs incl. .mlrrc.
 3. A->B = A->C->B and A->B->A = id through mlr for all ordered pairs of formats on data representable in all.
"""
import json, os, tempfile
from concurrent.futures import ThreadPoolExecutor
from vlib import *

try:
    from checks import c02_flags, c02_batch
except Exception:  # pragma: no cover
    try:
        import c02_flags, c02_batch
    except Exception:
        c02_flags = None


# ------------------------------------------------------------------ JSON <-> Coq jv terms
class Obj(list):
    """a JSON object as an ordered list of (key, value) pairs"""
    pass


def jloads(txt):
    return json.loads(txt, object_pairs_hook=lambda kv: Obj(kv), parse_int=lambda s: NumText(s), parse_float=lambda s: NumText(s))


def jdumps(v):
    if isinstance(v, Obj):
        return "{" + ", ".join(json.dumps(k, ensure_ascii=False) + ": " + jdumps(x) for k, x in v) + "}"
    if isinstance(v, list):
        return "[" + ", ".join(jdumps(x) for x in v) + "]"
    if isinstance(v, NumText):
        return str(v)
    if v is True:
        return "true"
    if v is False:
        return "false"
    if v is None:
        return "null"
    return json.dumps(v, ensure_ascii=False)


def coq_jv(v):
    if isinstance(v, Obj):
        return "(JMap " + coq_jmap(v) + ")"
    if isinstance(v, list):
        return "(JArr [" + "; ".join(coq_jv(x) for x in v) + "])"
    if isinstance(v, NumText):
        return "(JNum %s)" % coq_bytes(str(v).encode())
    if v is True:
        return "(JBool true)"
    if v is False:
        return "(JBool false)"
    if v is None:
        return "JNull"
    return "(JStr %s)" % coq_bytes(v.encode("utf-8", "surrogateescape"))


def coq_jmap(m):
    return "[" + "; ".join("(%s, %s)" % (coq_bytes(k.encode("utf-8", "surrogateescape")), coq_jv(x)) for k, x in m) + "]"


# ------------------------------------------------------------------ generators
PLAIN_KEYS = ["a", "b", "c", "x", "y", "k1", "id", "name", "v", "é", "A B", "q-r", "_z", "t0"]
INT_KEYS = ["1", "2", "3", "4"]
ODD_INT_KEYS = ["0", "01", "5", "10", "-1", "1.0", "+1"]
SENTINELS = ["{}", "[]"]
TOKENS = ["abc", "hello", "x", "pan", "wye", "zee", "true", "foo-bar", "u_v", "Z9"]
RICH = ["", "x y", "a,b", "p=q", "it's", 'say "hi"', " lead", "trail ", "é€", "semi;colon", "a|b", "{", "}", "{ }", "[ ]", "[]x", "-"]
NUMS = ["0", "1", "7", "42", "-3", "1.5", "0.25", "-0.125", "100", "3.0", "12345678901"]


def sep_keys(sep):
    return [sep, "a" + sep, sep + "b", "a" + sep + sep + "b", "a" + sep + "b", "x" + sep + "y" + sep + "z", "a" + sep + "1", "b" + sep + "2"]


def gen_leaf(rng, domain):
    """domain 'theorem': leaves for which the round-trip theorem's hypotheses hold (no sentinel strings);
    'tabular': additionally leaves that survive the text trip (no bool/null, no number-like strings, no empty);
    'any': everything"""
    r = rng.random()
    if domain == "tabular":
        return NumText(rng.choice(NUMS)) if r < 0.4 else rng.choice(TOKENS)
    if r < 0.30:
        return NumText(rng.choice(NUMS))
    if r < 0.38:
        return rng.choice([True, False])
    if r < 0.43:
        return None
    if domain == "any" and r < 0.55:
        return rng.choice(SENTINELS)
    if r < 0.65:
        return rng.choice(RICH)
    if r < 0.70:
        return rng.choice(NUMS)          # a STRING that looks like a number
    return rng.choice(TOKENS)


def gen_keys(rng, n, sep, domain, allow_int_seq):
    """n distinct keys"""
    keys = []
    mode = rng.random()
    if n == 0:
        return []
    if allow_int_seq and mode < 0.18:
        # 1..n exactly (the arrayify trigger), sometimes shuffled or with a gap
        ks = [str(i + 1) for i in range(n)]
        v = rng.random()
        if v < 0.2 and n > 1:
            rng.shuffle(ks)
        elif v < 0.4:
            ks[-1] = str(n + 1)
        elif v < 0.5:
            ks[0] = "0"
        return ks
    pool = list(PLAIN_KEYS)
    if rng.random() < 0.3:
        pool += INT_KEYS + ODD_INT_KEYS
    if domain == "any":
        if rng.random() < 0.4:
            pool += sep_keys(sep)
        if rng.random() < 0.15:
            pool += [""]
    if domain == "tabular":
        pool = [k for k in pool if " " not in k]
    pool = [k for k in pool if domain == "any" or (k != "" and sep not in k)]
    rng.shuffle(pool)
    return pool[:n]


def gen_value(rng, depth, sep, domain, intseq):
    r = rng.random()
    if depth <= 0 or r < 0.45:
        return gen_leaf(rng, domain)
    if r < 0.75:
        n = rng.choice([0, 1, 1, 2, 2, 3, 4])
        ks = gen_keys(rng, n, sep, domain, intseq)
        return Obj([(k, gen_value(rng, depth - 1, sep, domain, intseq)) for k in ks])
    n = rng.choice([0, 1, 2, 2, 3])
    return [gen_value(rng, depth - 1, sep, domain, intseq) for _ in range(n)]


def gen_record(rng, sep, domain, intseq):
    n = rng.choice([1, 2, 2, 3, 3, 4, 5])
    ks = gen_keys(rng, n, sep, domain, allow_int_seq=(rng.random() < 0.1))
    return Obj([(k, gen_value(rng, rng.choice([0, 1, 2, 2, 3]), sep, domain, intseq)) for k in ks])


def gen_flat_record(rng, sep):
    """input for `unflatten`: keys built from pieces joined by sep (in and out of order, colliding prefixes),
    values mostly scalars, sometimes sentinels / nested collections"""
    bases = rng.sample(["a", "b", "c", "x"], rng.choice([1, 2, 2, 3]))
    keys = []
    for _ in range(rng.choice([1, 2, 3, 4, 5, 6])):
        depth = rng.choice([1, 1, 2, 2, 2, 3, 4])
        pieces = [rng.choice(bases)] + [rng.choice(["1", "2", "3", "a", "b", "x", "1", "2", "", "0", "01"]) if rng.random() < 0.93 else "" for _ in range(depth - 1)]
        k = sep.join(pieces)
        if k not in keys:
            keys.append(k)
    out = []
    for k in keys:
        r = rng.random()
        if r < 0.6:
            v = gen_leaf(rng, "any")
        elif r < 0.75:
            v = rng.choice(SENTINELS)
        else:
            v = gen_value(rng, 2, sep, "any", True)
        out.append((k, v))
    return Obj(out)


# ------------------------------------------------------------------ predicates of the theorem's domain (Python rendering,
# used only by the search oracle; the Coq booleans wf / keys_ok / no_sentinel / no_intkeyed are the authority)
def is_digit_seq_keys(m):
    return len(m) > 0 and all(k == str(i + 1) for i, (k, _) in enumerate(m))


def classify_loss(v, sep, top=True):
    """returns the set of reasons why unflatten(flatten(v)) may legitimately differ, per the model's theorem"""
    out = set()
    if isinstance(v, Obj):
        ks = [k for k, _ in v]
        if len(set(ks)) != len(ks):
            out.add("dupkeys")
        for k, x in v:
            if k == "":
                out.add("emptykey")
            if sep in k:
                out.add("sepkey")
            out |= classify_loss(x, sep, False)
        if not top and is_digit_seq_keys(v):
            out.add("intkeyed")
    elif isinstance(v, list):
        if any(c in "0123456789" for c in sep):
            out.add("digitsep")
        for x in v:
            out |= classify_loss(x, sep, False)
    elif isinstance(v, str) and not isinstance(v, NumText):
        if v in SENTINELS:
            out.add("sentinel")
    return out


def sep_selfoverlap(sep, v):
    """multi-byte separators: a key ending/starting with a fragment of the separator (join/split not inverse)"""
    if len(sep) == 1:
        return False
    def keys(x):
        if isinstance(x, Obj):
            for k, y in x:
                yield k
                yield from keys(y)
        elif isinstance(x, list):
            for y in x:
                yield from keys(y)
    return any(any(k.endswith(sep[:i]) or k.startswith(sep[i:]) for i in range(1, len(sep))) for k in keys(v))


# ------------------------------------------------------------------ running mlr on batches of JSON records
def mlr_json_batch(ctx, args, recs):
    """recs: list of Obj; returns list of Obj (same length) or raises"""
    inp = "\n".join(jdumps(r) for r in recs) + "\n"
    st, out, err = mlr_run(ctx, args, inp.encode("utf-8", "surrogateescape"), timeout=120)
    if classify_run(st, err) != "ok":
        return None, (st, err.decode("utf-8", "replace")[-600:])
    try:
        res = [jloads(l) for l in out.decode("utf-8", "surrogateescape").splitlines() if l.strip()]
    except Exception as ex:
        return None, ("unparseable-output", repr(ex))
    if len(res) != len(recs):
        return None, ("record-count", "%d in, %d out" % (len(recs), len(res)))
    return res, None


SEPS_QUICK = [".", ".", ".", ":", ";", "::", "_", "@@"]


def jsonl_bytes(recs):
    return ("\n".join(jdumps(r) for r in recs) + "\n").encode("utf-8", "surrogateescape")


def parse_jsonl(out, n):
    try:
        res = [jloads(l) for l in out.decode("utf-8", "surrogateescape").splitlines() if l.strip()]
    except Exception:
        return None
    return res if len(res) == n else None


def part1_flatten_unflatten(ctx, props_ok):
    """all mlr command lines of this part are collected first and run in-process by implrun mlr-batch (c02_batch)"""
    rng = ctx.rng
    nper = 120 if ctx.tier == "quick" else 800
    plan = []       # (kind, sep, fs, records, args, per_record)
    for sep in sorted(set(SEPS_QUICK)):
        base = ["--ijsonl", "--ojsonl", "--flatsep", sep]
        recs = []
        for i in range(nper):
            dom = "any" if i % 3 == 0 else "theorem"
            recs.append(gen_record(rng, sep, dom, intseq=(i % 2 == 0)))
            ctx.dist("p1_nested_%s" % dom)
        # documented examples / hand-picked corners, every separator
        recs += [Obj([("a", Obj([("1", NumText("5")), ("2", NumText("6"))]))]),
                 Obj([("b", "{}")]), Obj([("b", "[]")]),
                 Obj([("req", Obj([("method", "GET"), ("path", "/x")])), ("values", [NumText("1"), NumText("2"), [NumText("3")]]), ("e", Obj([])), ("f", [])]),
                 Obj([("a", Obj([("b", NumText("1"))])), ("a" + sep + "b", NumText("2"))]),
                 Obj([("", Obj([("k", NumText("1"))])), ("z", Obj([("", Obj([("w", NumText("3"))]))]))]),
                 Obj([("a", [Obj([("1", "x")]), Obj([("2", "y")])])]),
                 Obj([("a", Obj([("1", Obj([("1", "x")])), ("2", "y")]))])]
        plan.append((0, sep, [], recs, base + ["flatten"], False))
        plan.append((2, sep, [], recs, base + ["flatten", "then", "unflatten"], False))
        frecs = [gen_flat_record(rng, sep) for _ in range(nper)]
        ctx.dist("p1_unflatten_inputs", len(frecs))
        plan.append((1, sep, [], frecs, base + ["unflatten"], False))
        # -f variants: a random subset of the top-level names (plus sometimes a name that does not occur)
        nf = nper // 2
        for kind, pool in ((4, recs), (6, recs), (5, frecs)):
            for r in rng.sample(pool, min(nf, len(pool))):
                names = list(dict.fromkeys([k.split(sep)[0] if kind == 5 else k for k, _ in r]))
                names = [n for n in names if n != "" and "," not in n]
                fs = rng.sample(names, rng.randint(0, len(names))) if names else []
                if rng.random() < 0.2:
                    fs.append("nosuch")
                if not fs:
                    fs = ["nosuch"]
                verb = {4: ["flatten", "-f", ",".join(fs)], 5: ["unflatten", "-f", ",".join(fs)],
                        6: ["flatten", "-f", ",".join(fs), "then", "unflatten", "-f", ",".join(fs)]}[kind]
                plan.append((kind, sep, fs, [r], base + verb, True))
                ctx.dist("p1_fields_kind%d" % kind)
        if len(sep) == 1:
            trecs = [gen_record(rng, sep, "tabular", intseq=False) for _ in range(nper // 2)]
            ctx.dist("p1_tabular_trip", 2 * len(trecs))
            for mid in ("dkvp", "xtab"):
                plan.append((3, sep, [], trecs, ["--ijsonl", "-o", mid, "--flatsep", sep, "cat"], mid))
    res = c02_batch.run_jobs(ctx, [(p[4], jsonl_bytes(p[3])) for p in plan], label="part1_impl_batch")
    # second leg of the tabular trips
    legs = [(i, p) for i, p in enumerate(plan) if p[0] == 3]
    res2 = c02_batch.run_jobs(ctx, [(["-i", p[5], "--ojsonl", "--flatsep", p[1], "cat"], res[i][1]) for i, p in legs],
                              label="part1_impl_batch", crosscheck=0)
    back = {i: r for (i, p), r in zip(legs, res2)}
    terms, meta, oracle_bad = [], [], []
    KIND = {0: "flatten", 1: "unflatten", 2: "flatten then unflatten", 3: "json->tabular->json", 4: "flatten -f", 5: "unflatten -f",
            6: "flatten -f then unflatten -f"}
    for i, (kind, sep, fs, recs, args, extra) in enumerate(plan):
        st, out, err = res[i]
        if kind == 3:
            if st == 0:
                st, out, err = back[i]
            how = "mlr %s | mlr -i %s --ojsonl --flatsep '%s' cat" % (" ".join(args), extra, sep)
        else:
            how = "mlr " + " ".join(args)
        outs = parse_jsonl(out, len(recs)) if st == 0 else None
        crashed = (outs is None and kind in (5, 6) and b"Internal coding error" in (err if isinstance(err, bytes) else str(err).encode()))
        if outs is None and not crashed:
            ctx.violation({"broken": "mlr run failed or output unparseable", "how": how, "status": st,
                           "stderr": (err.decode("utf-8", "replace") if isinstance(err, bytes) else str(err))[-500:],
                           "input": jsonl_bytes(recs).decode("utf-8", "replace")[:3000]}, found_input=False)
            continue
        for j, r in enumerate(recs):
            o = Obj([]) if crashed else outs[j]
            terms.append("(%d, %s, [%s], %s, %s, %s)" % (kind, coq_bytes(sep.encode()), "; ".join(coq_bytes(f.encode("utf-8", "surrogateescape")) for f in fs),
                                                          coq_jmap(r), coq_bool(crashed), coq_jmap(o)))
            meta.append((KIND[kind], sep, fs, r, "CRASH (Internal coding error detected)" if crashed else o, how))
            ctx.count(("p1", kind, sep, tuple(fs), str(extra), jdumps(r)))
            if crashed:
                ctx.dist("p1_unflatten_f_internal_coding_error")
            # ---- property oracle: nested -> flat -> nested is the identity on collections whose keys are non-empty and
            # free of the separator (property statement); with -f the unselected fields must come back untouched as well
            if kind in (2, 3, 6):
                loss = classify_loss(r, sep)
                if (crashed or o != r) and not (loss & {"emptykey", "sepkey", "dupkeys", "digitsep"}) and not sep_selfoverlap(sep, r):
                    cls = ("unflatten-arrayifies-int-keyed-map" if "intkeyed" in loss else
                           "sentinel-string-becomes-collection" if "sentinel" in loss else
                           {2: "flatten-unflatten-roundtrip-other", 3: "json-tabular-json-other", 6: "flatten-f-unflatten-f-roundtrip-other"}[kind])
                    oracle_bad.append({"class": cls, "sep": sep, "fields": fs, "via": extra if kind == 3 else None, "input": jdumps(r),
                                       "observed": "crash" if crashed else jdumps(o), "expected": jdumps(r), "how": how, "kind": kind, "args": args})
    for i in (0, 1, len(meta) // 2, len(meta) - 1):
        if 0 <= i < len(meta):
            k, sep, fs, r, o, how = meta[i]
            ctx.sample({"part": 1, "kind": k, "sep": sep, "fields": fs, "input": jdumps(r), "observed": o if isinstance(o, str) else jdumps(o)})
    # ---- correspondence in Coq
    bad, err = [], ""
    if props_ok:
        with ctx.timed("coq_cases"):
            # at most two coqc processes at a time (shared machine): two shards per call, calls in sequence
            n2 = (len(terms) + 1) // 2 if len(terms) <= 6000 else 1500
            shard = max(1, n2)
            for k in range(0, len(terms), 2 * shard):
                b, e = coq_eval_mismatches(ctx, "C02", "C02.Model C02.Harness", "Z * bytes * list bytes * jmap * bool * jmap", "chk",
                                           terms[k:k + 2 * shard], shard=shard)
                bad += [(k + i if i >= 0 else i) for i in b]
                err += e
        ctx.cov["correspondence"] = {"cases": len(terms), "mismatches": len(bad)}
        if err:
            ctx.violation({"broken": "correspondence-evaluation", "detail": err[-2000:]}, found_input=False)
        rep = 0
        for i in bad:
            if i < 0 or rep >= 3:
                continue
            k, sep, fs, r, o, how = meta[i]
            rep += 1
            ctx.violation({"broken": "correspondence C02.Harness.chk (model and implementation differ)", "kind": k, "sep": sep, "fields": fs,
                           "input": jdumps(r), "observed": o if isinstance(o, str) else jdumps(o), "how": how}, found_input=False)
    # ---- report oracle findings: one (smallest) witness per class
    byclass = {}
    for b in oracle_bad:
        c = b["class"]
        if c not in byclass or len(b["input"]) < len(byclass[c]["input"]):
            byclass[c] = b
    ctx.cov["p1_oracle"] = {"violating_inputs": len(oracle_bad), "classes": sorted(byclass)}
    for c in sorted(byclass):
        ctx.violation(dict(byclass[c], theorem="C02_unflatten_flatten (hypothesis dropped: see *_refuted)"))
    return oracle_bad


# ------------------------------------------------------------------ part 3: conversions across formats
FORMATS = ["csv", "tsv", "json", "jsonl", "dkvp", "dkvpx", "nidx", "xtab", "pprint", "markdown", "csvlite", "yaml"]
IN_FLAG = {f: ["-i", f] for f in FORMATS}
IN_FLAG["jsonl"] = ["--ijsonl"]          # `-i jsonl` is itself under test in part 2
OUT_FLAG = {f: ["-o", f] for f in FORMATS}
# space-aligned / space-separated variants: fields separated by runs of the ASCII space and nothing else
VARIANTS = {
    "pprint-right": (["-i", "pprint"], ["-o", "pprint", "--right"]),
    "pprint-barred": (["-i", "pprint", "--barred-input"], ["-o", "pprint", "--barred"]),
    "nidx-space": (["-i", "nidx", "--ifs", "space", "--repifs"], ["-o", "nidx", "--ofs", "space"]),
    "dkvp-space": (["-i", "dkvp", "--ifs", "space", "--repifs"], ["-o", "dkvp", "--ofs", "space"]),
}
for _v, (_i, _o) in VARIANTS.items():
    IN_FLAG[_v], OUT_FLAG[_v] = _i, _o
# formats that are a codec plus multi-byte / control-character separators chosen by the format flag itself
SEP_FORMATS = ["usv", "asv", "usvlite", "asvlite"]
for _v in SEP_FORMATS:
    IN_FLAG[_v], OUT_FLAG[_v] = ["--i" + _v], ["--o" + _v]
SPACE_ALIGNED = ["pprint", "pprint-right", "pprint-barred", "xtab", "dkvp-space"]


def data_classes(rng):
    """master data as lists of Obj (flat unless stated), each with the formats able to represent it"""
    keys = ["k1", "name", "v", "t0"]
    def tok():
        return NumText(rng.choice(NUMS)) if rng.random() < 0.4 else rng.choice(TOKENS)
    tokens = [Obj([(k, tok()) for k in keys]) for _ in range(5)]
    positional = [Obj([(str(i + 1), tok()) for i in range(3)]) for _ in range(4)]
    rich_vals = ["x y", "a,b", "p=q", "it's", 'say "hi"', "é€", "semi;colon", "", "plain", "7", "1.5", "tab\there"]
    rich = [Obj([(k, (NumText(v) if v in ("7", "1.5") else v)) for k, v in zip(["k 1", "name", "v,w"], rng.sample(rich_vals, 3))]) for _ in range(5)]
    hetero = [Obj([("a", tok()), ("b", tok())]), Obj([("b", tok()), ("c", tok()), ("d", tok())]), Obj([("a", tok())])]
    nested = [Obj([("id", NumText(str(i))), ("req", Obj([("method", rng.choice(TOKENS)), ("sz", [NumText("1"), NumText(str(i + 2)), Obj([("u", rng.choice(TOKENS))])])])),
                   ("tags", [rng.choice(TOKENS), rng.choice(TOKENS)]), ("e", Obj([])), ("l", [])]) for i in range(3)]
    all_but_nidx = [f for f in FORMATS if f != "nidx"] + ["pprint-right", "pprint-barred", "dkvp-space"] + SEP_FORMATS
    # whitespace other than the ASCII space and LF, inside keys and values (never at either end: several readers trim).
    # TAB, NBSP, IDEOGRAPHIC SPACE, EM SPACE, NEL, VT, FF, CR are no field separator of any space-aligned format.
    ws = ["\t", "\u00a0", "\u3000", "\u2003", "\u0085", "\v", "\f", "\r"]
    def wsval():
        return rng.choice(["a", "tab", "no", "x1"]) + "".join(rng.choice(ws) + rng.choice(["b", "here", "q", "7"]) for _ in range(rng.choice([1, 1, 2])))
    wkeys = ["id", "na\u00a0me", "t\tk", "k\u3000w"]
    whitespace = [Obj([(k, wsval() if j or i % 2 else rng.choice(TOKENS)) for j, k in enumerate(wkeys)]) for i in range(5)]
    whitespace += [Obj([(k, "x" + c + "y") for k, c in zip(wkeys, ws[o:] + ws[:o])]) for o in (0, 4)]
    ws_positional = [Obj([(str(j + 1), wsval()) for j in range(3)]) for _ in range(4)] + [Obj([(str(j + 1), "x" + c + "y") for j, c in enumerate(t)]) for t in (ws[0:3], ws[3:6], ws[6:8] + ws[0:1])]
    ws_formats = ["json", "jsonl", "csv", "tsv", "dkvp", "dkvpx", "csvlite", "markdown"] + SPACE_ALIGNED
    jnums = ["1e5", "-0.0", "1E-3", "0.5", "-7", "12345678901234567890", "1.7976931348623157e308", "100", "0", "2.50", "6.02e+23"]
    numbers = [Obj([(k, NumText(rng.choice(jnums))) for k in ["n1", "n2", "n3"]]) for _ in range(5)]
    qvals = ["line1\nline2", "tab\there", 'say "hi"', '"', "a,b", " lead", "trail ", "a;b|c=d", "{x}", "[1,2]", "it's", "", "#c", "-"]
    quoted = [Obj([(k, rng.choice(qvals)) for k in ["q1", "q 2", "q,3"]]) for _ in range(6)]
    uvals = ["é", "日本語", "naïve", "Ωmega", "x€y", "ß", "a-ü-b"]
    unicode_ = [Obj([(k, rng.choice(uvals)) for k in ["clé", "名前", "k3"]]) for _ in range(4)]
    return [
        ("numbers", numbers, all_but_nidx),
        ("quoted", quoted, ["csv", "tsv", "json", "jsonl"]),
        ("unicode", unicode_, all_but_nidx),
        ("tokens", tokens, all_but_nidx),
        ("whitespace", whitespace, ws_formats),
        ("whitespace-positional", ws_positional, ["json", "csv", "nidx-space", "dkvp-space", "pprint", "pprint-right", "xtab"]),
        ("positional", positional, FORMATS + ["nidx-space"]),
        ("rich", rich, ["csv", "tsv", "json", "jsonl", "dkvpx", "yaml"]),
        ("hetero", hetero, ["json", "jsonl", "dkvp", "dkvpx", "xtab", "yaml", "csvlite", "pprint"]),
        ("nested", nested, [f for f in all_but_nidx]),
    ]


def part3_conversions(ctx):
    """x_F := JSON master -> F.  Checked for every ordered pair (A,B): conv(A->B)(x_A) == x_B byte for byte.
    By determinism this gives A->C->B == A->B for every triple (conv(A->C) x_A = x_C and conv(C->B) x_C = x_B = conv(A->B) x_A)
    and A->B->A == id on x_A; failing pairs are re-run as explicit triples to produce the witness."""
    rng = ctx.rng
    jobs = []
    canon = {}
    classes = data_classes(rng)
    cjobs = [(name, f, ("\n".join(jdumps(r) for r in recs) + "\n").encode()) for name, recs, fmts in classes for f in fmts]
    masters = {name: "\n".join(jdumps(r) for r in recs) + "\n" for name, recs, fmts in classes}
    cres = c02_batch.run_jobs(ctx, [(["--ijsonl"] + OUT_FLAG[f] + ["cat"], src) for name, f, src in cjobs], label="part3_impl_batch", crosscheck=0)
    for (name, f, src), (st, out, err) in zip(cjobs, cres):
        if classify_run(st, err) != "ok":
            ctx.violation({"broken": "json->%s on data class %s" % (f, name), "stderr": err.decode("utf-8", "replace")[-500:]}, found_input=False)
            continue
        canon[(name, f)] = out
    for name, recs, fmts in classes:
        for a in fmts:
            for b in fmts:
                if name == "positional" and ctx.tier == "quick" and not ({"nidx", "nidx-space"} & {a, b}):
                    continue        # the pairs without nidx are exercised by the class "tokens"
                if (name, a) in canon and (name, b) in canon:
                    jobs.append((name, a, b))
    pres = c02_batch.run_jobs(ctx, [(IN_FLAG[a] + OUT_FLAG[b] + ["cat"], canon[(name, a)]) for name, a, b in jobs], label="part3_impl_batch", crosscheck=4)
    results = [(job, classify_run(st, err), out, err) for job, (st, out, err) in zip(jobs, pres)]
    npairs = 0
    failing = []
    for (name, a, b), cls, out, err in results:
        ctx.count(("p3", name, a, b))
        ctx.dist("p3_pairs_%s" % name)
        npairs += 1
        if cls != "ok" or out != canon[(name, b)]:
            failing.append((name, a, b, cls, out, err))
    jobset = set(jobs)
    ntriples = sum(1 for n, _, f in classes for a in f for c in f for b in f
                   if (n, a, c) in jobset and (n, c, b) in jobset and (n, a, b) in jobset)
    ctx.cov["p3_conversions"] = {"ordered_pairs_run": npairs, "triples_covered_by_transitivity": ntriples, "failing_pairs": len(failing)}
    rep = 0
    seen_cls = set()
    for name, a, b, cls, out, err in failing:
        if rep >= 4:
            break
        # explicit witness in the property's own terms: A->B vs A->J->B with J = json (the master)
        wclass = "conversion-from-yaml" if a == "yaml" else "conversion:%s->%s:%s" % (a, b, name)
        if wclass in seen_cls:
            continue
        seen_cls.add(wclass)
        witness = {"class": wclass, "data_class": name, "from": a, "to": b,
                   "input": canon[(name, a)].decode("utf-8", "replace"), "observed": out.decode("utf-8", "replace")[:2000],
                   "expected": canon[(name, b)].decode("utf-8", "replace")[:2000], "status": cls, "stderr": err.decode("utf-8", "replace")[-300:],
                   "master_jsonl": masters.get(name, ""),
                   "how": ("triple json -> %s -> %s versus json -> %s:  mlr --ijsonl %s cat master | mlr %s %s cat   versus   mlr --ijsonl %s cat master"
                           % (a, b, b, " ".join(OUT_FLAG[a]), " ".join(IN_FLAG[a]), " ".join(OUT_FLAG[b]), " ".join(OUT_FLAG[b])))}
        rep += 1 if ctx.violation(witness) else 0
    ctx.cov["p3_conversions"]["failing_classes"] = sorted(seen_cls)
    # two direct probes of the YAML reader (the causes behind class conversion-from-yaml on today's tree)
    for cls_name, inp, want in (("yaml-reader-sorts-keys", b"- b: 1\n  a: 2\n", b'{"b": 1, "a": 2}\n'),
                                ("yaml-reader-reformats-numbers", b"- a: 3.0\n  b: 1.50\n", b'{"a": 3.0, "b": 1.50}\n')):
        st, out, err = c02_batch.run_jobs(ctx, [(["--iyaml", "--ojsonl", "cat"], inp)], label="part3_impl_batch", crosscheck=0)[0]
        ctx.count(("p3-yaml-probe", cls_name))
        if out != want:
            ctx.violation({"class": cls_name, "input": inp.decode(), "observed": out.decode("utf-8", "replace"), "expected": want.decode(),
                           "how": "mlr --iyaml --ojsonl cat", "note": "the same data through --ijson keeps field order and number text"})
    if canon:
        k = sorted(canon)[0]
        ctx.sample({"part": 3, "data_class": k[0], "format": k[1], "canonical_text": canon[k].decode("utf-8", "replace")[:300]})
    return failing


def io_name_probes(ctx):
    """`-i X` / `--io X` for names X whose long flags --iX / --X exist (C02_io_forms_names_refuted)"""
    out = []
    md = b"| a | b |\n| --- | --- |\n| 1 | x |\n"
    for short, long_, inp in ((["-i", "jsonl", "--ojson"], ["--ijsonl", "--ojson"], b'{"a": 1, "b": "x"}\n'),
                              (["--io", "jsonl"], ["--jsonl"], b'{"a": 1, "b": "x"}\n'),
                              (["--io", "md"], ["--md"], md)):
        r1, r2 = c02_batch.run_jobs(ctx, [(short + ["cat"], inp), (long_ + ["cat"], inp)], label="flag_oracle_batch", crosscheck=0)
        ctx.count(("p2-io-name", tuple(short)))
        ctx.dist("flags_oracle_io_names")
        if (r1[0], r1[1]) != (r2[0], r2[1]):
            b = {"class": "flag-spelling:%s-rejected" % "_".join(short[:2]), "flag": " ".join(short), "expansion": " ".join(long_),
                 "input": inp.decode(), "observed": {"status": r1[0], "stdout": r1[1].decode("utf-8", "replace"), "stderr": r1[2].decode("utf-8", "replace")[-300:].replace("/tmp/", "")},
                 "expected": {"status": r2[0], "stdout": r2[1].decode("utf-8", "replace")},
                 "how": "mlr %s cat  vs  mlr %s cat" % (" ".join(short), " ".join(long_))}
            out.append(b)
            ctx.violation(b)
    return out


def jsonable(o):
    if isinstance(o, dict):
        return {(k if isinstance(k, (str, int, float, bool)) or k is None else str(k)): jsonable(v) for k, v in o.items()}
    if isinstance(o, (list, tuple, set)):
        return [jsonable(v) for v in o]
    if isinstance(o, bytes):
        return o.decode("utf-8", "replace")
    return o


# ------------------------------------------------------------------ run / replay
def run(ctx):
    ctx.cov["rule"] = ("part 1: seeded nested JSON records (depth<=3, keys plain/int-sequence/odd-int/separator-bearing/empty, leaves number/bool/null/"
                       "token/rich/sentinel strings) x separators {. : ; _ :: @@}: mlr flatten, unflatten, flatten then unflatten, JSON->dkvp|xtab->JSON "
                       "compared with the Coq model under vm_compute; round-trip identity evaluated on mlr's own output inside the property's domain. "
                       "part 2: every flag of cli.FLAG_TABLE regenerated into Gen_Flags.v, option records after Finalize compared by vm_compute; "
                       "spellings compared through mlr runs incl. .mlrrc. part 3: all ordered pairs of formats per data class, byte equality with the "
                       "canonical text (covers all triples by transitivity). A case is non-trivial when distinct.")
    ctx.cov["trusted_base"] = ["Coq 8.16.1 kernel + vm_compute", "no axioms (Print Assumptions: closed under the global context)",
                               "implrun flag-table/flag-eval translator (reflection dump of TOptions)", "python harness; Python json module as JSON parser of mlr output"]
    ctx.assumptions = ["JSON reader/writer, CSV/TSV/... codecs are not modelled here (C01); conversions across formats are tied by mlr runs only",
                       "A->B = A->C->B is proved in Coq only parametrically in reader/writer functions that satisfy round-trip (C02_conv_via)"]
    deps = ["C02/Harness.vo", "C02/Proofs.vo", "C02/ProofsE.vo", "C02/ProofsF.vo", "C02/FlagProofs.vo", "C02/FlagExtra.vo", "C02/Codecs.vo", "C02/Mlrrc.vo", "C02/MlrrcTable.vo"]
    parts = set((os.environ.get("C02_PARTS") or "1,2,3").split(","))   # developer switch; the registered commands run all parts
    flags_mod = c02_flags if "2" in parts else None
    if flags_mod is not None:
        try:
            with ctx.timed("gen_flags"):
                g = c02_flags.gen_flags(ctx)
                # summary only: the full table/evaluations live in coq/gen/Gen_Flags.v (the evidence file must stay small)
                ctx.cov["flags"] = {"table_entries": len(g["table"]), "separator_aliases": len(g["seps"]), "argvs_evaluated": len(g["argvs"]),
                                    "argvs_rejected": sum(1 for v in g["evals"].values() if not v.get("ok") or v.get("final") is None),
                                    "generated_file_changed": bool(g.get("changed")), "generated_file": "coq/gen/Gen_Flags.v"}
        except Exception as ex:
            ctx.violation({"broken": "gen_flags", "detail": repr(ex)[-1500:]}, found_input=False)
    forbidden_gate(ctx, ["Base", "C02"])
    ok, why = check_props(ctx, "C02/Props.v", deps)
    flag_bad = []
    if flags_mod is not None:
        with ctx.timed("flag_oracle"):
            try:
                flag_bad = c02_flags.flag_oracle(ctx) or []
            except Exception as ex:
                ctx.violation({"broken": "flag_oracle", "detail": repr(ex)[-1500:]}, found_input=False)
        seen = set()
        for b in flag_bad:
            if b.get("class") in seen:
                continue
            seen.add(b.get("class"))
            ctx.violation(b)
        ctx.cov["flag_oracle"] = {"mismatches": len(flag_bad), "classes": sorted(seen)}
        # ---- .mlrrc model (C02.Mlrrc) vs the (text, command-line argv) pairs whose mlr runs were just compared
        rc_pairs = getattr(ctx, "_c02_rc_pairs", [])
        if rc_pairs and (ok or coq_make(["C02/Mlrrc.vo"])[0]):
            terms = ["(%s, %s)" % (coq_bytes(t.encode()), coq_list([coq_bytes(a.encode()) for a in argv])) for t, argv in rc_pairs]
            b, e = coq_eval_mismatches(ctx, "C02rc", "Base.Record C02.Mlrrc", "bytes * list bytes", "chk_rc", terms)
            ctx.cov["correspondence_mlrrc"] = {"cases": len(terms), "mismatches": len(b)}
            if e:
                ctx.violation({"broken": "correspondence-evaluation C02.Mlrrc", "detail": e[-1500:]}, found_input=False)
            for i in b[:3]:
                if i >= 0:
                    ctx.violation({"broken": "correspondence C02.Mlrrc.chk_rc (model reads the .mlrrc text as other tokens than the command line it was compared with)",
                                   "mlrrc_text": rc_pairs[i][0], "argv": rc_pairs[i][1]}, found_input=False)
        flag_bad += io_name_probes(ctx)
    p1_bad, p3_bad = [], []
    # the flatten/unflatten correspondence only needs Harness.vo: run it even when a flag-table obligation broke
    harness_ok = ok or coq_make(["C02/Harness.vo"])[0]
    if "1" in parts:
        with ctx.timed("part1"):
            p1_bad = part1_flatten_unflatten(ctx, harness_ok)
    if "3" in parts:
        with ctx.timed("part3"):
            p3_bad = part3_conversions(ctx)
    if not ok:
        # a proof obligation broke; the oracles above are the failing-input search
        found = bool(flag_bad or p3_bad or [b for b in p1_bad if b["class"].endswith("other")])
        if not found:
            ctx.violation({"broken": why}, found_input=False)
        else:
            ctx.cov["broken_obligation"] = why


def replay(ctx, path):
    obj = json.loads(Path(path).read_text())
    if obj.get("class", "").startswith(("unflatten-", "sentinel-", "flatten-unflatten", "json-tabular", "flatten-f-")):
        sep = obj["sep"]
        r = jloads(obj["input"])
        args = obj.get("args") or ["--ijsonl", "--ojsonl", "--flatsep", sep, "flatten", "then", "unflatten"]
        st, out, err = mlr_run(ctx, args, (obj["input"] + "\n").encode())
        if obj.get("via") and st == 0:
            st, out, err = mlr_run(ctx, ["-i", obj["via"], "--ojsonl", "--flatsep", sep, "cat"], out)
        res = parse_jsonl(out, 1) if st == 0 else None
        ctx.count(("replay", obj["input"]))
        print("replay: input=%s observed=%s" % (obj["input"], jdumps(res[0]) if res else (st, err[-200:])))
        if not res or res[0] != r:
            ctx.violation(dict(obj, replayed=True, observed=jdumps(res[0]) if res else "status %s" % st))
        return
    if obj.get("class", "").startswith("yaml-reader-"):
        st, out, err = mlr_run(ctx, ["--iyaml", "--ojsonl", "cat"], obj["input"].encode())
        ctx.count(("replay", obj["class"]))
        print("replay: %r -> %r (expected %r)" % (obj["input"], out, obj["expected"]))
        if out.decode("utf-8", "replace") != obj["expected"]:
            ctx.violation(dict(obj, replayed=True, observed=out.decode("utf-8", "replace")))
        return
    if obj.get("class", "").endswith("-rejected"):
        for b in io_name_probes(ctx):
            print("replay: still differs:", b["how"])
        return
    if obj.get("class", "").startswith("conversion") and "from" in obj:
        a, b = obj["from"], obj["to"]
        st, out, err = mlr_run(ctx, IN_FLAG[a] + OUT_FLAG[b] + ["cat"], obj["input"].encode())
        st2, mid, err2 = mlr_run(ctx, IN_FLAG[a] + ["--ojson", "cat"], obj["input"].encode())
        st3, out2, err3 = mlr_run(ctx, ["--ijson"] + OUT_FLAG[b] + ["cat"], mid)
        ctx.count(("replay", a, b))
        print("replay: %s->%s direct=%r via-json=%r" % (a, b, out[:200], out2[:200]))
        if out != out2 or st != 0 or ("expected" in obj and out.decode("utf-8", "replace") != obj["expected"][:2000]):
            ctx.violation(dict(obj, replayed=True, observed=out.decode("utf-8", "replace")[:2000]))
        return
    if obj.get("class", "").startswith("flag-spelling:") and c02_flags is not None:
        # re-run the spelling oracle (it is cheap) and report the stored class again if it is still among the mismatches
        c02_flags.gen_flags(ctx)
        still = [b for b in (c02_flags.flag_oracle(ctx) or []) if b.get("class") == obj["class"]]
        print("replay: class %s: %d mismatching comparisons now" % (obj["class"], len(still)))
        if still:
            ctx.violation(dict(still[0], replayed=True))
        return
    print("replay: nothing to re-run for", path)
